#!/bin/bash
# usage: seedrun.sh <patch.diff> [properties...]   -- applies the patch to /repo, runs mtverif, restores /repo
set -u
patch=$1; shift
props=${*:-all}
export GOFLAGS=-mod=mod GOPROXY=off GOSUMDB=off GOTOOLCHAIN=local
cd /repo || exit 3
if [ -n "$(git status --porcelain)" ]; then echo "/repo not clean"; exit 3; fi
if ! git apply "$patch"; then echo "PATCH DOES NOT APPLY"; git checkout -- . ; exit 4; fi
trap 'cd /repo && git checkout -- . && git clean -fdq' EXIT
go build ./... || { echo "DOES NOT BUILD"; exit 5; }
for p in $props; do
  /verif/bin/mtverif -property $p -no-evidence 2>&1 | grep -E "^(C[0-9]+ tier|  violated|VIOLATION|UNDECIDED)" 
done
