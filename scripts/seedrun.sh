#!/bin/bash
# usage: seedrun.sh <patch.diff> [properties...]   -- applies the patch to /repo, runs mtverif, restores /repo
set -u
patch=$1; shift
props=${*:-all}
export GOFLAGS=-mod=mod GOPROXY=off GOSUMDB=off GOTOOLCHAIN=local
cd /repo || exit 3
if [ -n "$(git status --porcelain)" ]; then echo "/repo not clean"; exit 3; fi
if ! git apply "$patch"; then echo "PATCH DOES NOT APPLY"; git checkout -- . ; exit 4; fi
trap 'cd /repo && git checkout -- . && git clean -fdq' EXIT
go build ./... || { echo "DOES NOT BUILD"; exit 5; }
if [ "$props" = "all" ]; then
  # one process: the program is loaded and the engines run once for all properties
  /verif/bin/mtverif -property all -no-evidence 2>&1 | grep -E "^(C[0-9]+ tier|  violated|VIOLATION|UNDECIDED)"
else
  for p in $props; do
    /verif/bin/mtverif -property $p -no-evidence 2>&1 | grep -E "^(C[0-9]+ tier|  violated|VIOLATION|UNDECIDED)" 
  done
fi
