#!/usr/bin/env python3
"""Dynamic cross-check of the proof-style static rules on mutants (see scripts/harness/zz_mutharness_test.go.txt):
for every surviving mutant of <results.jsonl> that the checks do not report for C01 (resp. C17), run the harness in a
private scratch copy; a panic (resp. a lost binary identification) there means R01.1 (resp. R17.1) discharged
something false.  usage: mutharness.py <mutants.json> <results.jsonl> <out.jsonl> [-j N]"""
import os, sys, subprocess, shutil, tempfile, re, json, threading
from concurrent.futures import ThreadPoolExecutor
jobs = 12
if '-j' in sys.argv:
    jobs = int(sys.argv[sys.argv.index('-j') + 1])
env = dict(os.environ, GOFLAGS='-mod=mod', GOPROXY='off', GOSUMDB='off', GOTOOLCHAIN='local', GOWORK='off')
muts = {m['id']: m for m in json.load(open(sys.argv[1]))}
todo = []
for l in open(sys.argv[2]):
    r = json.loads(l)
    if r['status'] == 'survived' and ('C01' not in r['viol'] or 'C17' not in r['viol']):
        todo.append(r)
outf = open(sys.argv[3], 'w')
lock = threading.Lock()
local = threading.local()
dirs = []
def workdir():
    if not hasattr(local, 'd'):
        local.d = tempfile.mkdtemp(prefix='mtverif-mh-')
        dirs.append(local.d)
        subprocess.run(['cp', '-r', '/repo/.', local.d], check=True)
        shutil.rmtree(local.d + '/.git', ignore_errors=True)
        shutil.copy('/verif/scripts/harness/zz_mutharness_test.go.txt', local.d + '/zz_mutharness_test.go')
    return local.d
def run(r):
    m = muts[r['id']]
    d = workdir()
    p = os.path.join(d, m['file'])
    src = open(p, 'rb').read()
    try:
        open(p, 'wb').write(src[:m['start']] + m['new'].encode() + src[m['end']:])
        try:
            pr = subprocess.run(['go', 'test', '-vet=off', '-count=1', '-timeout', '120s', '-run', 'TestZZMutHarness', '.'], cwd=d, capture_output=True, env=env, timeout=300)
            out = pr.stdout.decode('utf-8', 'replace') + pr.stderr.decode('utf-8', 'replace')
        except subprocess.TimeoutExpired:
            out = 'HARNESS TIMEOUT'
        lines = [l for l in out.split('\n') if l.startswith('HARNESS') or 'panic:' in l or 'timed out' in l]
        res = dict(id=r['id'], file=m['file'], line=m['line'], func=m['func'], kind=m['kind'], viol=r['viol'],
                   panic=any('PANIC' in l or 'panic:' in l for l in lines), mono=any('HARNESS C17' in l for l in lines),
                   hang=any('TIMEOUT' in l or 'timed out' in l for l in lines), lines=lines[:4])
        return res
    finally:
        open(p, 'wb').write(src)
try:
    with ThreadPoolExecutor(jobs) as ex:
        for res in ex.map(run, todo):
            with lock:
                outf.write(json.dumps(res) + '\n'); outf.flush()
finally:
    for d in dirs:
        shutil.rmtree(d, ignore_errors=True)
