#!/usr/bin/env python3
"""Re-run every check on every seeded change and record in each meta.json which checks report it."""
import json,re,subprocess,os
out=subprocess.run(['/verif/scripts/seedall.sh','/verif/seeded'],capture_output=True,text=True).stdout
missing=[]
for l in out.splitlines():
    m=re.match(r'(C\d+)-(\d+): VIOL\[(.*?)\] rules\[(.*?)\] UNDEC\[(.*?)\]',l)
    if not m: continue
    p='/verif/seeded/%s-%s/meta.json'%(m.group(1),m.group(2))
    meta=json.load(open(p))
    meta['checks_reporting_VIOLATION']=m.group(3).split(); meta['rules_reporting']=m.group(4).split(); meta['checks_undecided']=m.group(5).split()
    meta['caught_by_target_property']=m.group(1) in meta['checks_reporting_VIOLATION']
    if not meta['caught_by_target_property']: missing.append(m.group(1)+'-'+m.group(2))
    json.dump(meta,open(p,'w'),indent=1)
print(len(out.splitlines()),'seeds; not caught by own property:',missing)
