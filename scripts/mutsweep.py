#!/usr/bin/env python3
"""Mutation sweep: applies each mutant listed by bin/mutgen to a private scratch copy of /repo (under $TMPDIR, removed
afterwards), keeps those that still build and pass the existing test suite, and runs all checks on the survivors.
Measuring instrument only: it executes the tests to *select* mutants; the checks themselves stay static.
usage: mutsweep.py <mutants.json> <results.jsonl> [-j N] [--only id,id,...] [--recheck <earlier results.jsonl>]"""
import os, sys, subprocess, shutil, tempfile, re, json, threading
from concurrent.futures import ThreadPoolExecutor
V = '/verif'
BINDIR = tempfile.mkdtemp(prefix='mtverif-bin-')
BIN = BINDIR + '/mtverif'
shutil.copy2(V + '/bin/mtverif', BIN)
jobs = 10
if '-j' in sys.argv:
    jobs = int(sys.argv[sys.argv.index('-j') + 1])
only = None
if '--only' in sys.argv:
    only = set(int(x) for x in sys.argv[sys.argv.index('--only') + 1].split(','))
env = dict(os.environ, GOFLAGS='-mod=mod', GOPROXY='off', GOSUMDB='off', GOTOOLCHAIN='local', GOWORK='off')
muts = json.load(open(sys.argv[1]))
# --recheck <old-results>: only the mutants that survived there, without building and testing them again
recheck = None
if '--recheck' in sys.argv:
    recheck = set()
    for l in open(sys.argv[sys.argv.index('--recheck') + 1]):
        r = json.loads(l)
        if r['status'] == 'survived':
            recheck.add(r['id'])
    muts = [m for m in muts if m['id'] in recheck]
if only is not None:
    muts = [m for m in muts if m['id'] in only]
done = set()
if os.path.exists(sys.argv[2]):
    for l in open(sys.argv[2]):
        done.add(json.loads(l)['id'])
muts = [m for m in muts if m['id'] not in done]
outf = open(sys.argv[2], 'a')
lock = threading.Lock()
local = threading.local()
dirs = []

def workdir():
    if not hasattr(local, 'd'):
        local.d = tempfile.mkdtemp(prefix='mtverif-mut-')
        dirs.append(local.d)
        subprocess.run(['cp', '-r', '/repo/.', local.d], check=True)
        shutil.rmtree(local.d + '/.git', ignore_errors=True)
    return local.d

def run(m):
    d = workdir()
    p = os.path.join(d, m['file'])
    src = open(p, 'rb').read()
    res = dict(id=m['id'], file=m['file'], line=m['line'], func=m['func'], kind=m['kind'], old=m['old'])
    try:
        open(p, 'wb').write(src[:m['start']] + m['new'].encode() + src[m['end']:])
        r = subprocess.run(['go', 'build', './...'], cwd=d, stdout=subprocess.DEVNULL, stderr=subprocess.DEVNULL, env=env) if recheck is None else subprocess.CompletedProcess([], 0)
        if r.returncode:
            res['status'] = 'nobuild'
            return res
        try:
            r = subprocess.CompletedProcess([], 0) if recheck is not None else subprocess.run(['go', 'test', '-vet=off', '-count=1', '-timeout', '60s', './...'], cwd=d, stdout=subprocess.DEVNULL, stderr=subprocess.DEVNULL, env=env, timeout=200)
        except subprocess.TimeoutExpired:
            res['status'] = 'killed'
            return res
        if r.returncode:
            res['status'] = 'killed'
            return res
        r = subprocess.run([BIN, '-repo', d, '-property', 'all', '-no-evidence'], capture_output=True, text=True, errors='replace', env=env)
        viol, und, rules = [], [], set()
        for l in r.stdout.split('\n'):
            mm = re.match(r'^(C\d+) tier=\S+ .* violated=(\d+) undecided=(\d+)', l)
            if mm:
                if mm.group(2) != '0':
                    viol.append(mm.group(1))
                elif mm.group(3) != '0':
                    und.append(mm.group(1))
            mm = re.match(r'^  violated: rule=(R[0-9.]+)', l)
            if mm:
                rules.add(mm.group(1))
        res['status'] = 'survived'
        res['viol'] = viol; res['und'] = und; res['rules'] = sorted(rules)
        if not re.search(r'^C\d+ tier', r.stdout, re.M):
            res['status'] = 'checker-no-output'
        return res
    finally:
        open(p, 'wb').write(src)

try:
    with ThreadPoolExecutor(jobs) as ex:
        for res in ex.map(run, muts):
            with lock:
                outf.write(json.dumps(res) + '\n'); outf.flush()
finally:
    for d in dirs:
        shutil.rmtree(d, ignore_errors=True)
    shutil.rmtree(BINDIR, ignore_errors=True)
