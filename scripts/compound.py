#!/usr/bin/env python3
"""Regression for the generalised rules: a behaviour-preserving refactoring from /verif/benign plus one
breaking edit inside the refactored code must be reported by the named property.
usage: compound.py [ids...]   (works on /repo, restores it afterwards)"""
import json, os, subprocess, sys
V = '/verif'
env = dict(os.environ, GOFLAGS='-mod=mod', GOPROXY='off', GOSUMDB='off', GOTOOLCHAIN='local')
cases = json.load(open(V + '/compound/cases.json'))
want = set(sys.argv[1:])
bad = 0
def sh(cmd, **kw):
    return subprocess.run(cmd, shell=True, capture_output=True, text=True, env=env, **kw)
if sh('git -C /repo status --porcelain').stdout.strip():
    print('/repo not clean'); sys.exit(3)
for c in cases:
    if want and c['id'] not in want:
        continue
    try:
        r = sh('git -C /repo apply %s/%s/patch.diff' % (V, c['base']))
        if r.returncode:
            print(c['id'], 'BASE DOES NOT APPLY'); bad += 1; continue
        edits = [c] + c.get('extra', [])
        okp = True
        for e in edits:
            p = '/repo/' + e['file']
            s = open(p).read()
            if s.count(e['old']) != 1 and not (c.get('first') and s.count(e['old']) >= 1):
                print(c['id'], 'EDIT PATTERN count=%d' % s.count(e['old'])); okp = False; break
            open(p, 'w').write(s.replace(e['old'], e['new'], 1))
        if not okp:
            bad += 1; continue
        r = sh('cd /repo && gofmt -l . ; go build ./... && go vet ./... 2>&1 | head -3')
        if r.returncode or 'declared and not used' in r.stdout + r.stderr:
            print(c['id'], 'DOES NOT BUILD', (r.stdout + r.stderr)[:300]); bad += 1; continue
        r = sh('%s/bin/mtverif -property %s -no-evidence' % (V, c['prop']))
        head = r.stdout.split('\n')[0]
        viol = [l for l in r.stdout.split('\n') if l.startswith('  violated')]
        ok = r.returncode == 1 and viol
        if c.get('expect') == 'undecided':
            ok = r.returncode == 2 and 'UNDECIDED' in r.stdout
        if c.get('expect') == 'any':
            ok = True
        print(c['id'], ('UNDECIDED(as expected)' if c.get('expect') == 'undecided' and ok else 'CAUGHT') if ok else 'MISSED', head[:110])
        if ok and viol:
            print('    ', viol[0][:220])
        elif ok:
            pass
        else:
            bad += 1
            for l in r.stdout.split('\n')[1:6]:
                print('    ', l[:220])
    finally:
        sh('git -C /repo checkout -- . && git -C /repo clean -fdq')
print('compound cases not caught:', bad)
sys.exit(1 if bad else 0)
