#!/usr/bin/env python3
"""Parallel false-alarm sweep: every behaviour-preserving patch under the given directory is applied to its own
scratch copy of /repo (under $TMPDIR, removed afterwards) and all properties are checked there in one process.
usage: benignpar.py [dir=/verif/benign] [-j N] [-seeds]   (-seeds: treat the directory as seeded breaking changes and
report which properties raise VIOLATION)"""
import os, sys, subprocess, shutil, tempfile, glob, re
from concurrent.futures import ThreadPoolExecutor
V = '/verif'
# a private copy of the checker: rebuilding bin/mtverif during a sweep must not change its results
import shutil as _sh, atexit as _ae
BIN = tempfile.mkdtemp(prefix='mtverif-bin-') + '/mtverif'
_sh.copy2(V + '/bin/mtverif', BIN)
_ae.register(lambda: _sh.rmtree(os.path.dirname(BIN), ignore_errors=True))
args = [a for a in sys.argv[1:] if not a.startswith('-')]
root = args[0] if args else V + '/benign'
jobs = 8
if '-j' in sys.argv:
    jobs = int(sys.argv[sys.argv.index('-j') + 1])
    if str(jobs) in args:
        args.remove(str(jobs)); root = args[0] if args else V + '/benign'
env = dict(os.environ, GOFLAGS='-mod=mod', GOPROXY='off', GOSUMDB='off', GOTOOLCHAIN='local', GOWORK='off')
patches = sorted(glob.glob(root + '/*/change*/patch.diff') + glob.glob(root + '/change*/patch.diff') + glob.glob(root + '/C*/patch.diff'))

def copy_repo(dst):
    for dp, dn, fn in os.walk('/repo'):
        dn[:] = [d for d in dn if d not in ('.git', 'testdata')]
        rel = os.path.relpath(dp, '/repo')
        os.makedirs(os.path.join(dst, rel), exist_ok=True)
        for f in fn:
            if (f.endswith('.go') and not f.endswith('_test.go')) or f in ('go.mod', 'go.sum'):
                shutil.copy(os.path.join(dp, f), os.path.join(dst, rel, f))

def run(p):
    name = '/'.join(p.split('/')[-3:-1])
    d = tempfile.mkdtemp(prefix='mtverif-bn-')
    try:
        copy_repo(d)
        r = subprocess.run(['git', 'apply', '--exclude=*_test.go', '--include=*.go', p], cwd=d, capture_output=True, text=True)
        if r.returncode:
            return name, None, None, 'PATCH DOES NOT APPLY'
        r = subprocess.run([BIN, '-repo', d, '-property', 'all', '-no-evidence'], capture_output=True, text=True, env=env)
        viol, und = [], []
        for l in r.stdout.split('\n'):
            m = re.match(r'^(C\d+) tier=\S+ .* violated=(\d+) undecided=(\d+)', l)
            if m:
                if m.group(2) != '0':
                    viol.append(m.group(1))
                elif m.group(3) != '0':
                    und.append(m.group(1))
        err = '' if re.search(r'^C\d+ tier', r.stdout, re.M) else 'NO OUTPUT: ' + (r.stdout + r.stderr)[:200]
        return name, viol, und, err
    finally:
        shutil.rmtree(d, ignore_errors=True)

bad = 0
with ThreadPoolExecutor(jobs) as ex:
    for name, viol, und, err in ex.map(run, patches):
        if err or viol or und:
            print('%s: FALSE-ALARM[%s] UNDEC[%s] %s' % (name, ' '.join(viol or []), ' '.join(und or []), err))
        if viol or err:
            bad += 1
print('%d patches, %d with a VIOLATION or an error' % (len(patches), bad))
