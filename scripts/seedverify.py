#!/usr/bin/env python3
"""Re-verify every sub-agent seed in a scratch worktree (never /repo):
 clean tree: suite passes, demo passes; change applied: builds, suite passes, demo fails.
 Writes <out>/verify.json per seed. usage: seedverify.py <seed-root> [ids...]"""
import json, os, subprocess, sys, glob, shutil
root = sys.argv[1]
only = sys.argv[2:]
WT = '/tmp/sv-worktree'
env = dict(os.environ, GOFLAGS='-mod=mod', GOPROXY='off', GOSUMDB='off', GOTOOLCHAIN='local')
def sh(cmd, cwd=WT, timeout=900):
    try:
        p = subprocess.run(cmd, shell=True, cwd=cwd, env=env, capture_output=True, text=True, timeout=timeout)
        return p.returncode, (p.stdout + p.stderr)[-3000:]
    except subprocess.TimeoutExpired:
        return 124, 'TIMEOUT'
subprocess.run('git -C /repo worktree remove --force %s 2>/dev/null; rm -rf %s; git -C /repo worktree add --detach %s HEAD' % (WT, WT, WT), shell=True, check=True, capture_output=True)
try:
    for d in sorted(glob.glob(root + '/C*/change*')):
        sid = os.path.basename(os.path.dirname(d)) + '/' + os.path.basename(d)
        if only and not any(sid.startswith(o) for o in only):
            continue
        meta = json.load(open(d + '/meta.json'))
        res = {'seed': sid}
        sh('git checkout -q -- . && git clean -fdq')
        placed = []
        for df in meta['demo_files']:
            dst = os.path.join(WT, df['place_at'])
            shutil.copy(os.path.join(d, df['file']), dst)
            placed.append(dst)
        cmd = meta['demo_cmd']
        SUITE = 'go test -vet=off -count=1 ./... 2>&1 | tail -8'
        # clean: suite (with demo files present they run too, so run the suite without them first)
        for p in placed: os.rename(p, p + '.off')
        rc, out = sh('go build ./... && go test -vet=off -count=1 ./...')
        res['clean_suite_ok'] = rc == 0
        for p in placed: os.rename(p + '.off', p)
        rc, out = sh(cmd)
        res['clean_demo_ok'] = rc == 0; res['clean_demo_tail'] = out[-400:]
        # patched
        rc, out = sh('git apply %s/patch.diff' % d)
        res['patch_applies'] = rc == 0
        for p in placed: os.rename(p, p + '.off')
        rc, out = sh('go build ./... && go test -vet=off -count=1 ./...')
        res['patched_suite_ok'] = rc == 0; res['patched_suite_tail'] = out[-300:]
        for p in placed: os.rename(p + '.off', p)
        rc, out = sh(cmd)
        res['patched_demo_fails'] = rc != 0; res['patched_demo_tail'] = out[-600:]
        res['confirmed'] = all([res['clean_suite_ok'], res['clean_demo_ok'], res['patch_applies'], res['patched_suite_ok'], res['patched_demo_fails']])
        json.dump(res, open(d + '/verify.json', 'w'), indent=1)
        print(sid, 'CONFIRMED' if res['confirmed'] else 'NOT-CONFIRMED', {k: v for k, v in res.items() if isinstance(v, bool)}, flush=True)
finally:
    subprocess.run('git -C /repo worktree remove --force %s; rm -rf %s' % (WT, WT), shell=True, capture_output=True)
