#!/usr/bin/env python3
"""Parallel version of seedmeta.py: every seeded change is applied to its own scratch copy of /repo (under $TMPDIR,
removed afterwards), all properties are checked there, and meta.json records which checks report it.
usage: seedpar.py [-j N]"""
import os, sys, subprocess, shutil, tempfile, glob, re, json
from concurrent.futures import ThreadPoolExecutor
V = '/verif'
# a private copy of the checker: rebuilding bin/mtverif during a sweep must not change its results
import shutil as _sh, atexit as _ae
BIN = tempfile.mkdtemp(prefix='mtverif-bin-') + '/mtverif'
_sh.copy2(V + '/bin/mtverif', BIN)
_ae.register(lambda: _sh.rmtree(os.path.dirname(BIN), ignore_errors=True))
jobs = 8
if '-j' in sys.argv:
    jobs = int(sys.argv[sys.argv.index('-j') + 1])
env = dict(os.environ, GOFLAGS='-mod=mod', GOPROXY='off', GOSUMDB='off', GOTOOLCHAIN='local', GOWORK='off')
seeds = sorted(glob.glob(V + '/seeded/C*/patch.diff'))

def copy_repo(dst):
    for dp, dn, fn in os.walk('/repo'):
        dn[:] = [d for d in dn if d not in ('.git', 'testdata')]
        rel = os.path.relpath(dp, '/repo')
        os.makedirs(os.path.join(dst, rel), exist_ok=True)
        for f in fn:
            if (f.endswith('.go') and not f.endswith('_test.go')) or f in ('go.mod', 'go.sum'):
                shutil.copy(os.path.join(dp, f), os.path.join(dst, rel, f))

def run(p):
    name = p.split('/')[-2]
    d = tempfile.mkdtemp(prefix='mtverif-sd-')
    try:
        copy_repo(d)
        r = subprocess.run(['git', 'apply', '--exclude=*_test.go', '--include=*.go', p], cwd=d, capture_output=True, text=True)
        if r.returncode:
            return name, None, None, None, 'PATCH DOES NOT APPLY'
        r = subprocess.run([BIN, '-repo', d, '-property', 'all', '-no-evidence'], capture_output=True, text=True, env=env)
        viol, und, rules = [], [], set()
        cur = None
        for l in r.stdout.split('\n'):
            m = re.match(r'^(C\d+) tier=\S+ .* violated=(\d+) undecided=(\d+)', l)
            if m:
                if m.group(2) != '0':
                    viol.append(m.group(1))
                elif m.group(3) != '0':
                    und.append(m.group(1))
            m = re.match(r'^  violated: rule=(R[0-9.]+)', l)
            if m:
                rules.add(m.group(1))
        err = '' if re.search(r'^C\d+ tier', r.stdout, re.M) else 'NO OUTPUT'
        return name, viol, und, sorted(rules), err
    finally:
        shutil.rmtree(d, ignore_errors=True)

missing = []
with ThreadPoolExecutor(jobs) as ex:
    for name, viol, und, rules, err in ex.map(run, seeds):
        if err:
            print(name, err); missing.append(name); continue
        mp = '%s/seeded/%s/meta.json' % (V, name)
        meta = json.load(open(mp))
        meta['checks_reporting_VIOLATION'] = viol; meta['rules_reporting'] = rules; meta['checks_undecided'] = und
        meta['caught_by_target_property'] = name.split('-')[0] in viol
        if not meta['caught_by_target_property']:
            missing.append(name)
        json.dump(meta, open(mp, 'w'), indent=1)
print(len(seeds), 'seeds; not caught by own property:', missing)
