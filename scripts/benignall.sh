#!/bin/bash
# usage: benignall.sh <dir with */change*/patch.diff> : runs every check on every behaviour-preserving patch; any VIOLATION is a false alarm
dir=${1:-/verif/benign}
for p in $(ls -d $dir/*/change* $dir/change* 2>/dev/null | sort); do
  [ -f $p/patch.diff ] || continue
  out=$(/verif/scripts/seedrun.sh $p/patch.diff 2>&1)
  viol=$(echo "$out" | grep -E "^C[0-9]+ tier" | grep -v "violated=0" | awk '{print $1}' | tr '\n' ' ')
  und=$(echo "$out" | grep -E "^C[0-9]+ tier" | grep "violated=0" | grep -v "undecided=0" | awk '{print $1}' | tr '\n' ' ')
  err=$(echo "$out" | grep -E "PATCH DOES NOT APPLY|DOES NOT BUILD|not clean")
  echo "$(basename $(dirname $p))/$(basename $p): FALSE-ALARM[$viol] UNDEC[$und] $err"
done
