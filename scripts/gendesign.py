#!/usr/bin/env python3
"""Regenerates the data-driven tables of DESIGN.md section 10 (rules per property, rule texts, seeded changes)
between the markers <!-- GEN:x --> ... <!-- /GEN:x -->."""
import json,glob,os,subprocess,re
lst=subprocess.run(['/verif/bin/mtverif','-list'],capture_output=True,text=True).stdout
props={};cur=None
for l in lst.splitlines():
    m=re.match(r'^(C\d+) \((\w+)\)',l)
    if m: cur=m.group(1); props[cur]={'level':m.group(2),'rules':[]}; continue
    m=re.match(r'^\s+(R[\d.]+)\s+min=(\d+)\s+(.*)',l)
    if m: props[cur]['rules'].append((m.group(1),m.group(3)))
rules={}
for p,v in props.items():
    for r,d in v['rules']:
        rules.setdefault(r,{'doc':d,'props':[]})['props'].append(p)
t1=['| property | level | rules |','|---|---|---|']
for p in sorted(props):
    t1.append('| %s | %s | %s |'%(p,props[p]['level'],', '.join(r for r,_ in props[p]['rules'])))
t2=['| rule | decides | used by |','|---|---|---|']
for r in sorted(rules,key=lambda x:[int(t) for t in x[1:].split('.')]):
    t2.append('| %s | %s | %s |'%(r,rules[r]['doc'].replace('|','\\|'),' '.join(sorted(set(rules[r]['props'])))))
t3=['| seed | round | what it needs to manifest | reported by (properties) | rules |','|---|---|---|---|---|']
def key(n):
    a,b=n.split('-');return (a,int(b))
for d in sorted(os.listdir('/verif/seeded'),key=key):
    m=json.load(open('/verif/seeded/%s/meta.json'%d))
    need=(m.get('needs_to_manifest') or '').replace('\n',' ').replace('|','/')
    if len(need)>150: need=need[:147]+'...'
    t3.append('| %s | %s | %s | %s | %s |'%(d,m.get('round',1),need,' '.join(m['checks_reporting_VIOLATION']),' '.join(m['rules_reporting'])))
s=open('/verif/DESIGN.md').read()
for name,tab in (('props',t1),('rules',t2),('seeds',t3)):
    a='<!-- GEN:%s -->'%name; b='<!-- /GEN:%s -->'%name
    if a in s:
        s=s[:s.index(a)+len(a)]+'\n'+'\n'.join(tab)+'\n'+s[s.index(b):]
open('/verif/DESIGN.md','w').write(s)
print('tables regenerated:',len(t1)-2,'properties',len(t2)-2,'rules',len(t3)-2,'seeds')
