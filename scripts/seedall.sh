#!/bin/bash
# usage: seedall.sh [dir]  -- dir holds <name>/patch.diff (default /verif/seeded); one summary line per seeded change.
# Each patch is applied to /repo, every check is run, and /repo is restored straight afterwards.
dir=${1:-/verif/seeded}
for p in $(find $dir -name patch.diff | sort); do
  d=$(dirname $p); name=${d#$dir/}
  out=$(/verif/scripts/seedrun.sh $p 2>&1)
  viol=$(echo "$out" | grep -E "^C[0-9]+ tier" | grep -v "violated=0" | awk '{print $1}' | tr '\n' ' ')
  und=$(echo "$out" | grep -E "^C[0-9]+ tier" | grep "violated=0" | grep -v "undecided=0" | awk '{print $1}' | tr '\n' ' ')
  err=$(echo "$out" | grep -E "PATCH DOES NOT APPLY|DOES NOT BUILD|not clean")
  rules=$(echo "$out" | grep "^  violated" | sed 's/.*rule=\([A-Z0-9.]*\).*/\1/' | sort -u | tr '\n' ' ')
  echo "$name: VIOL[$viol] rules[$rules] UNDEC[$und] $err"
done
