#!/bin/bash
# usage: seedall.sh <dir-with-Cxx/changeN/patch.diff ...>  -- summary line per seeded change
dir=${1:-/tmp/seed/out}
for p in $(ls -d $dir/C*/change* 2>/dev/null | sort); do
  id=$(basename $(dirname $p)); ch=$(basename $p)
  [ -f $p/patch.diff ] || continue
  out=$(/verif/scripts/seedrun.sh $p/patch.diff 2>&1)
  viol=$(echo "$out" | grep -E "^C[0-9]+ tier" | grep -v "violated=0" | awk '{print $1}' | tr '\n' ' ')
  und=$(echo "$out" | grep -E "^C[0-9]+ tier" | grep "violated=0" | grep -v "undecided=0" | awk '{print $1}' | tr '\n' ' ')
  err=$(echo "$out" | grep -E "PATCH DOES NOT APPLY|DOES NOT BUILD|not clean")
  rules=$(echo "$out" | grep "^  violated" | sed 's/.*rule=\([A-Z0-9.]*\).*/\1/' | sort -u | tr '\n' ' ')
  echo "$id/$ch: VIOL[$viol] rules[$rules] UNDEC[$und] $err"
done
