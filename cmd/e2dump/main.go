// Command e2dump prints the raw results of the linear-fact engine (debugging aid).
package main

import (
	"fmt"
	"os"
	"strings"

	"mtverif/internal/core"
	"mtverif/internal/e2"
)

func main() {
	dir := "/repo"
	if len(os.Args) > 1 {
		dir = os.Args[1]
	}
	c, err := core.Load(dir)
	if err != nil {
		fmt.Println(err)
		os.Exit(2)
	}
	r := e2.Run(c.Prog, core.InMod)
	ok := 0
	for _, s := range r.Sites {
		if s.OK {
			ok++
		} else {
			fmt.Printf("UNPROVEN %s %s %s :: %s :: %s\n", c.PosCol(s.Pos), core.FName(s.Fn), s.Kind, s.What, s.WhyNot)
		}
	}
	fmt.Printf("sites=%d proven=%d\n", len(r.Sites), ok)
	lok := 0
	for _, l := range r.Loops {
		if l.Ranked {
			lok++
		} else {
			fmt.Printf("LOOP %s b%d (%s) unranked\n", core.FName(l.Fn), l.Header.Index, l.Header.Comment)
		}
	}
	fmt.Printf("loops=%d ranked=%d\n", len(r.Loops), lok)
	if len(os.Args) > 2 {
		for f, ks := range r.Summaries {
			if len(ks) > 0 && strings.Contains(f.String(), os.Args[2]) {
				fmt.Printf("SUMMARY %s: %v\n", f, ks)
			}
		}
	}
}
