// mutgen enumerates small syntactic mutations of the non-test Go files of a repository copy. It only lists them
// (file, byte range, replacement); scripts/mutsweep.py applies each to a scratch copy, keeps those that still build and
// pass the existing tests, and runs the checks on them. It is a measuring instrument for the checker (which minimal
// edits go unnoticed), not one of the checks.
package main

import (
	"encoding/json"
	"fmt"
	"go/ast"
	"go/parser"
	"go/token"
	"os"
	"path/filepath"
	"strconv"
	"strings"
)

type mutant struct {
	ID    int    `json:"id"`
	File  string `json:"file"`
	Start int    `json:"start"`
	End   int    `json:"end"`
	New   string `json:"new"`
	Kind  string `json:"kind"`
	Func  string `json:"func"`
	Line  int    `json:"line"`
	Old   string `json:"old"`
}

var swaps = map[token.Token][]string{
	token.LSS: {"<="}, token.LEQ: {"<"}, token.GTR: {">="}, token.GEQ: {">"},
	token.EQL: {"!="}, token.NEQ: {"=="}, token.LAND: {"||"}, token.LOR: {"&&"},
	token.ADD: {"-"}, token.SUB: {"+"},
}

// strLits (second argument "strings"): list mutations of string literals only (import paths excluded by position: only
// literals inside function bodies and variable initialisers are visited).
var strLits bool

func main() {
	root := os.Args[1]
	strLits = len(os.Args) > 2 && os.Args[2] == "strings"
	var out []mutant
	fset := token.NewFileSet()
	filepath.Walk(root, func(p string, info os.FileInfo, err error) error {
		if err != nil {
			return nil
		}
		if info.IsDir() {
			if n := info.Name(); n == "testdata" || n == ".git" || n == "supported_mimes.md" {
				return filepath.SkipDir
			}
			return nil
		}
		if !strings.HasSuffix(p, ".go") || strings.HasSuffix(p, "_test.go") {
			return nil
		}
		src, _ := os.ReadFile(p)
		f, err := parser.ParseFile(fset, p, src, 0)
		if err != nil {
			return nil
		}
		rel, _ := filepath.Rel(root, p)
		off := func(pos token.Pos) int { return fset.Position(pos).Offset }
		for _, d := range f.Decls {
			fd, ok := d.(*ast.FuncDecl)
			var name string
			if ok {
				name = fd.Name.Name
				if fd.Recv != nil && len(fd.Recv.List) > 0 {
					t := fd.Recv.List[0].Type
					if s, ok := t.(*ast.StarExpr); ok {
						t = s.X
					}
					if id, ok := t.(*ast.Ident); ok {
						name = id.Name + "." + name
					}
				}
			} else {
				name = "<decl>"
			}
			add := func(s, e token.Pos, repl, kind string) {
				if strLits != strings.HasPrefix(kind, "str ") {
					return
				}
				out = append(out, mutant{File: rel, Start: off(s), End: off(e), New: repl, Kind: kind, Func: name,
					Line: fset.Position(s).Line, Old: string(src[off(s):off(e)])})
			}
			inLit := 0
			var visit func(n ast.Node) bool
			visit = func(n ast.Node) bool {
				switch x := n.(type) {
				case *ast.CompositeLit:
					// signature tables: element literals are data, not logic
					inLit++
					for _, e := range x.Elts {
						ast.Inspect(e, visit)
					}
					inLit--
					return false
				case *ast.BinaryExpr:
					for _, r := range swaps[x.Op] {
						if (x.Op == token.ADD || x.Op == token.SUB) && inLit > 0 {
							continue
						}
						add(x.OpPos, x.OpPos+token.Pos(len(x.Op.String())), r, "op "+x.Op.String()+"→"+r)
					}
				case *ast.UnaryExpr:
					if x.Op == token.NOT {
						add(x.OpPos, x.OpPos+1, "", "drop !")
					}
				case *ast.BasicLit:
					if x.Kind == token.STRING && strLits && len(x.Value) >= 3 && x.Value[0] == '"' {
						if v, err := strconv.Unquote(x.Value); err == nil && len(v) >= 1 {
							add(x.Pos(), x.End(), strconv.Quote(v[:len(v)-1]), "str drop-last")
							add(x.Pos(), x.End(), strconv.Quote(v+"x"), "str append")
							r := []byte(v)
							if r[0] >= 'a' && r[0] <= 'z' {
								r[0] -= 0x20
								add(x.Pos(), x.End(), strconv.Quote(string(r)), "str upper-first")
							} else if r[0] >= 'A' && r[0] <= 'Z' {
								r[0] += 0x20
								add(x.Pos(), x.End(), strconv.Quote(string(r)), "str lower-first")
							}
						}
					}
					if x.Kind == token.INT && inLit == 0 && !strLits {
						if v, err := strconv.ParseInt(x.Value, 0, 64); err == nil {
							add(x.Pos(), x.End(), fmt.Sprint(v+1), "lit+1")
							if v > 0 {
								add(x.Pos(), x.End(), fmt.Sprint(v-1), "lit-1")
							}
						}
					}
				case *ast.IfStmt:
					if x.Cond != nil {
						add(x.Cond.Pos(), x.Cond.End(), "false", "cond→false")
						add(x.Cond.Pos(), x.Cond.End(), "true", "cond→true")
					}
				case *ast.ExprStmt:
					add(x.Pos(), x.End(), "", "del stmt")
				case *ast.DeferStmt:
					add(x.Pos(), x.End(), "", "del defer")
				case *ast.IncDecStmt:
					add(x.Pos(), x.End(), "", "del incdec")
				case *ast.AssignStmt:
					if x.Tok != token.DEFINE {
						add(x.Pos(), x.End(), "", "del assign")
					}
				case *ast.BranchStmt:
					if x.Label == nil {
						switch x.Tok {
						case token.BREAK:
							add(x.Pos(), x.End(), "continue", "break→continue")
						case token.CONTINUE:
							add(x.Pos(), x.End(), "break", "continue→break")
						}
					}
				}
				return true
			}
			ast.Inspect(d, visit)
		}
		return nil
	})
	for i := range out {
		out[i].ID = i
	}
	enc := json.NewEncoder(os.Stdout)
	enc.SetIndent("", " ")
	enc.Encode(out)
}
