// Command ssaprint prints the SSA form, as the checker sees it, of the functions whose name contains the argument.
package main

import (
	"fmt"
	"os"
	"strings"

	"mtverif/internal/core"
)

func main() {
	c, err := core.Load(os.Args[1])
	if err != nil {
		fmt.Println(err)
		os.Exit(2)
	}
	for _, f := range c.AllModFuncs() {
		if strings.Contains(f.String(), os.Args[2]) {
			f.WriteTo(os.Stdout)
		}
	}
}
