// Command mtverif decides the properties C01..C19 of gabriel-vasile/mimetype
// by static analysis of the repository's current source. See /verif/DESIGN.md.
package main

import (
	"encoding/json"
	"flag"
	"fmt"
	"os"
	"path/filepath"
	"sort"
	"strconv"
	"strings"
	"time"

	"mtverif/internal/core"
	"mtverif/internal/rules"
	"mtverif/internal/selftest"
)

func main() {
	prop := flag.String("property", "", "property id (C01..C19) or 'all'")
	tier := flag.String("tier", "", "quick | thorough")
	repo := flag.String("repo", "/repo", "repository tree to analyse")
	verif := flag.String("verif", "/verif", "verification directory (evidence, known findings, reports)")
	replay := flag.String("replay", "", "re-analyse the obligation described by this report file")
	list := flag.Bool("list", false, "list properties and rules")
	verbose := flag.Bool("v", false, "print every obligation")
	noEvidence := flag.Bool("no-evidence", false, "do not write evidence / reports (used for scratch trees)")
	only := flag.String("rule", "", "run only this rule (with -property)")
	manifest := flag.Bool("manifest", false, "print MANIFEST.json generated from the property table")
	flag.Parse()
	if *manifest {
		printManifest()
		return
	}

	if *list {
		for _, p := range rules.Properties() {
			fmt.Printf("%s (%s)\n", p.ID, p.Level)
			for _, r := range p.Rules {
				fmt.Printf("   %-8s min=%-3d %s\n", r.ID, r.Min, r.Doc)
			}
		}
		return
	}
	if *tier == "" {
		*tier = os.Getenv("VERIF_TIER")
	}
	if *tier == "" {
		*tier = "quick"
	}
	if *tier != "quick" && *tier != "thorough" {
		fmt.Fprintln(os.Stderr, "bad -tier")
		os.Exit(2)
	}
	seed, _ := strconv.Atoi(os.Getenv("VERIF_SEED"))

	if *replay != "" {
		os.Exit(doReplay(*replay, *repo, *verif))
	}
	if *prop == "" {
		flag.Usage()
		os.Exit(2)
	}
	t0 := time.Now()
	ctx, err := core.Load(*repo)
	if err != nil {
		fmt.Fprintln(os.Stderr, "UNDECIDED: cannot load repository:", err)
		os.Exit(2)
	}
	loadS := time.Since(t0).Seconds()
	findings, err := core.LoadFindings(filepath.Join(*verif, "known_findings.txt"))
	if err != nil {
		fmt.Fprintln(os.Stderr, "UNDECIDED:", err)
		os.Exit(2)
	}
	var props []*core.Property
	for _, p := range rules.Properties() {
		if *prop == "all" || p.ID == *prop {
			props = append(props, p)
		}
	}
	if len(props) == 0 {
		fmt.Fprintln(os.Stderr, "unknown property", *prop)
		os.Exit(2)
	}
	exit := 0
	for _, p := range props {
		t1 := time.Now()
		res := &core.Result{Property: p, Tier: *tier, Seed: seed, Funcs: len(ctx.SrcFuncs()), Extra: map[string]interface{}{}}
		for _, r := range p.Rules {
			if *only != "" && r.ID != *only {
				continue
			}
			if r.Slow && *tier != "thorough" {
				continue
			}
			res.Rules = append(res.Rules, r.ID+": "+r.Doc)
			res.Obs = append(res.Obs, core.RunRule(ctx, r)...)
		}
		if *tier == "thorough" && !*noEvidence && *only == "" {
			selftest.VerifDir = *verif
			st := selftest.Run(ctx, p, *repo)
			res.Extra["selftest"] = st.Summary
			for _, o := range st.Obs {
				res.Obs = append(res.Obs, o)
			}
		}
		res.Classify(findings)
		res.WallS = time.Since(t1).Seconds() + loadS
		res.Extra["load_s"] = loadS
		res.Extra["repo"] = *repo
		if *verbose {
			for _, o := range res.Obs {
				fmt.Printf("  %-11s %-7s %s  @%s  %s %s\n", o.St, o.Rule, o.Key, o.Pos, o.By, o.Detail)
			}
		}
		code := report(res, *repo, *verif, *noEvidence)
		if code > exit {
			exit = code
		}
		if code == 2 && exit == 1 {
			exit = 1
		}
	}
	os.Exit(exit)
}

func report(res *core.Result, repo, verif string, noEvidence bool) int {
	p := res.Property
	disch := 0
	for _, o := range res.Obs {
		if o.Status == core.Discharged {
			disch++
		}
	}
	fmt.Printf("%s tier=%s obligations=%d discharged=%d known=%d violated=%d undecided=%d wall=%.1fs\n",
		p.ID, res.Tier, len(res.Obs), disch, len(res.Known), len(res.Viol), len(res.Und), res.WallS)
	perRule := map[string][2]int{}
	var order []string
	for _, o := range res.Obs {
		v, ok := perRule[o.Rule]
		if !ok {
			order = append(order, o.Rule)
		}
		v[0]++
		if o.Status == core.Discharged {
			v[1]++
		}
		perRule[o.Rule] = v
	}
	sort.Strings(order)
	for _, r := range order {
		fmt.Printf("   %-8s %d/%d\n", r, perRule[r][1], perRule[r][0])
	}
	if !noEvidence {
		cmd := fmt.Sprintf("bin/mtverif -property %s -tier %s", p.ID, res.Tier)
		if err := res.WriteEvidence(filepath.Join(verif, "evidence", p.ID+".json"), cmd, rules.Assumptions); err != nil {
			fmt.Fprintln(os.Stderr, "cannot write evidence:", err)
			return 2
		}
	}
	for _, o := range res.Known {
		fmt.Printf("KNOWN-FINDING: property=%s rule=%s construct=%q at %s: %s\n", p.ID, o.Rule, o.Key, o.Pos, o.Detail)
	}
	for _, o := range res.Und {
		fmt.Printf("UNDECIDED: property=%s rule=%s construct=%q at %s: %s\n", p.ID, o.Rule, o.Key, o.Pos, o.Detail)
	}
	if len(res.Viol) > 0 {
		dir := filepath.Join(verif, "reports")
		if noEvidence {
			dir = filepath.Join(os.TempDir(), "mtverif-reports")
		}
		paths := res.WriteReports(dir, repo)
		for i, o := range res.Viol {
			fmt.Printf("  violated: rule=%s construct=%q at %s: %s\n", o.Rule, o.Key, o.Pos, o.Detail)
			fmt.Printf("VIOLATION property=%s replay=%s\n", p.ID, paths[i])
		}
		return 1
	}
	if len(res.Und) > 0 {
		return 2
	}
	return 0
}

func doReplay(path, repo, verif string) int {
	b, err := os.ReadFile(path)
	if err != nil {
		fmt.Fprintln(os.Stderr, err)
		return 2
	}
	var rep struct{ Property, Rule, Construct string }
	if err := json.Unmarshal(b, &rep); err != nil {
		fmt.Fprintln(os.Stderr, err)
		return 2
	}
	ctx, err := core.Load(repo)
	if err != nil {
		fmt.Fprintln(os.Stderr, "UNDECIDED:", err)
		return 2
	}
	for _, p := range rules.Properties() {
		if p.ID != rep.Property {
			continue
		}
		for _, r := range p.Rules {
			if r.ID != rep.Rule {
				continue
			}
			found := false
			code := 0
			for _, o := range core.RunRule(ctx, r) {
				if o.Key == rep.Construct {
					found = true
					fmt.Printf("%s rule=%s construct=%q at %s: %s %s%s\n", o.St, o.Rule, o.Key, o.Pos, o.By, o.Detail, "")
					if o.Status == core.Violated {
						fmt.Printf("VIOLATION property=%s replay=%s\n", p.ID, path)
						code = 1
					}
				}
			}
			if !found {
				fmt.Printf("construct %q is no longer produced by rule %s on %s\n", rep.Construct, rep.Rule, repo)
			}
			return code
		}
	}
	fmt.Fprintln(os.Stderr, "unknown property/rule in report:", strings.TrimSpace(rep.Property+" "+rep.Rule))
	return 2
}

func printManifest() {
	type lvl struct {
		Category  string `json:"category"`
		Text      string `json:"text"`
		DesignRef string `json:"design_ref"`
	}
	type check struct {
		PropertyID  string `json:"property_id"`
		QuickCmd    string `json:"quick_cmd"`
		ThoroughCmd string `json:"thorough_cmd"`
		Evidence    string `json:"evidence_file"`
		Replay      string `json:"replay_cmd_template"`
		Engine      string `json:"engine"`
		Level       lvl    `json:"level_claimed"`
		LevelNote   string `json:"level_note"`
		Technique   string `json:"technique"`
	}
	type na struct {
		PropertyID string `json:"property_id"`
		Reason     string `json:"reason"`
	}
	var checks []check
	claimed := map[string]bool{}
	ps := rules.Properties()
	sort.Slice(ps, func(i, j int) bool { return ps[i].ID < ps[j].ID })
	for _, p := range ps {
		claimed[p.ID] = true
		checks = append(checks, check{
			PropertyID:  p.ID,
			QuickCmd:    "bin/mtverif -property " + p.ID + " -tier quick",
			ThoroughCmd: "bin/mtverif -property " + p.ID + " -tier thorough",
			Evidence:    "/verif/evidence/" + p.ID + ".json",
			Replay:      "bin/mtverif -replay {path}",
			Engine:      "mtverif",
			Level:       lvl{p.Level, p.LevelText, p.DesignRef},
			LevelNote:   strings.Join(rules.Assumptions, "; "),
			Technique:   p.Technique,
		})
	}
	nas := []na{}
	for _, n := range rules.NotApplicable {
		if !claimed[n[0]] {
			nas = append(nas, na{n[0], n[1]})
		}
	}
	m := map[string]interface{}{
		"version":   1,
		"setup_cmd": "cd /verif && env -u GOWORK GOFLAGS=-mod=mod GOPROXY=off GOSUMDB=off GOTOOLCHAIN=local go build -o bin/mtverif ./cmd/mtverif",
		"hooks": map[string]interface{}{
			"guard":            "verif",
			"enable":           "none: the checks read /repo's source; nothing is instrumented and no build tag is needed",
			"baseline_off_cmd": "cd /repo && GOPROXY=off GOSUMDB=off GOTOOLCHAIN=local go test -mod=mod -json -vet=off -count=1 -timeout 25m ./...",
			"source_commits":   []string{},
			"add_only":         true,
		},
		"engines": []map[string]interface{}{{
			"name": "mtverif", "path": "/verif/cmd/mtverif",
			"serves_properties": func() []string {
				var o []string
				for _, p := range ps {
					o = append(o, p.ID)
				}
				return o
			}(),
			"kind_free_text": "repository-specific static analyser over go/types + go/ssa (x/tools v0.29.0): tree model, linear-fact bounds prover, lockset/origin analysis, finite-domain evaluator, CFG typestate rules, lock-step prefix-monotonicity",
		}},
		"checks":         checks,
		"not_applicable": nas,
		"notes":          "All checks are static: they load /repo's current working tree (go/packages, non-test), build SSA and apply the rules of DESIGN.md. Exit 0 = every obligation discharged; exit 1 + VIOLATION line = a rule reports a construct; exit 2 (no VIOLATION) = the analyser could not set a rule up. Fixed defects are listed in known_findings.txt.",
	}
	b, _ := json.MarshalIndent(m, "", " ")
	fmt.Println(string(b))
}
