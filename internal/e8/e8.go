// Package e8 is engine E8: prefix-monotonicity of detectors by a relational
// (lock-step) argument over the detector's SSA. Ported from the design spike.
package e8

import (
	"fmt"
	"go/constant"
	"go/token"
	"go/types"
	"sort"
	"strings"

	"golang.org/x/tools/go/ssa"
)

const mod = "github.com/gabriel-vasile/mimetype"

// ---------- E8 ----------

type kind int

const (
	kUnknown   kind = iota
	kStable         // same on x and any extension y
	kGrow           // integer, non-decreasing as the header grows
	kExt            // slice: y's value is an extension of x's (same start)
	kSOF            // int: stable once found (>= 0), may turn from -1 to >= 0
	kU              // bool: may turn false -> true
	kD              // bool: may turn true -> false
	kTop            // anything
	kCutBefore      // slice: first result of Cut on a growing input: stable once the separator was found
	kCutAfter       // slice: second result of Cut on a growing input: an extension once the separator was found
)

func (k kind) String() string {
	return [...]string{"?", "S", "GROW", "EXT", "SOF", "U", "D", "TOP", "CUT0", "CUT1"}[k]
}

type ctx struct {
	prog           *ssa.Program
	memo           map[string]fnResult
	rootDetFns     map[*ssa.Function]bool // functions that are detectors of root-level non-text nodes
	rootDetGlobals map[*ssa.Global]bool
	pure           map[*ssa.Function]bool
	tupleMemo      map[string][]kind
	curArgConst    []constant.Value // constant arguments of the call analysed next (per parameter, nil: not constant)
	curArgMinLen   []int64          // lower bounds on the lengths of its slice arguments, known at the call site
	curFvElems     map[int][]elemFn // detector lists captured by the closure analysed next (combinators)
	curTag         string           // ... and a tag that distinguishes that closure instance in the memo
	tupleWhy       map[string][]string
	curFvK         []kind // kinds of the captured variables for the next analyseCtx call (closures created by detectors)
}

// elemFn is one element of a list of detectors captured by a combinator closure.
type elemFn struct {
	fn *ssa.Function
	g  *ssa.Global // the package-level detector variable the element was read from (nil: a function constant)
}

type fnResult struct {
	ret      kind // for bool functions: S, U, D or TOP ; for others S if pure function of stable args
	why      []string
	handover []string
}

type analysis struct {
	c         *ctx
	f         *ssa.Function
	fvK       []kind          // per free variable: the kind of the captured variable's content (nil: bound once at init, stable)
	fnArgs    []*ssa.Function // per parameter: the function constant bound to a function-typed parameter in this context
	argK      []kind
	guess     map[*ssa.Phi]kind
	kinds     map[ssa.Value]kind
	changed   bool
	tainted   map[*ssa.Phi]bool
	sofSrc    map[ssa.Value]ssa.Value
	why       []string
	handover  []string
	resIdx    int // the result position being judged (tuple helpers)
	fvElems   map[int][]elemFn
	argConst  []constant.Value
	argMinLen []int64
}

func isBool(t types.Type) bool {
	b, ok := t.Underlying().(*types.Basic)
	return ok && b.Info()&types.IsBoolean != 0
}

func constOf(v ssa.Value) bool {
	_, ok := v.(*ssa.Const)
	return ok
}

// k classifies v context-free.
func (a *analysis) k(v ssa.Value) kind {
	if kk, ok := a.kinds[v]; ok {
		return kk
	}
	if ph, ok := v.(*ssa.Phi); ok {
		g, ok := a.guess[ph]
		if !ok {
			g = kStable
			a.guess[ph] = g
		}
		a.kinds[v] = g
	} else {
		a.kinds[v] = kTop
	}
	kk := a.compute(v)
	a.kinds[v] = kk
	if ph, ok := v.(*ssa.Phi); ok && kk != a.guess[ph] {
		a.guess[ph] = kk
		a.changed = true
	}
	return kk
}

// kAt classifies v as used in block blk: a stable-once-found index is stable
// where a dominating test established that it was found.
func (a *analysis) kAt(v ssa.Value, blk *ssa.BasicBlock) kind {
	kk := a.k(v)
	if kk == kCutBefore || kk == kCutAfter {
		// where the same Cut's `found` result is known to be true the separator was found on the shorter header
		// already: at the same place on the longer one (first occurrence), so the part before it is the same and the
		// part after it is extended
		ex, _ := v.(*ssa.Extract)
		if ex != nil && blk != nil {
			for d := blk; d != nil; d = d.Idom() {
				if len(d.Preds) != 1 {
					continue
				}
				p := d.Preds[0]
				iff, ok := p.Instrs[len(p.Instrs)-1].(*ssa.If)
				if !ok || p.Succs[0] == p.Succs[1] {
					continue
				}
				onTrue := p.Succs[0] == d
				cond := iff.Cond
				neg := false
				if u, ok := cond.(*ssa.UnOp); ok && u.Op == token.NOT {
					cond, neg = u.X, true
				}
				if f, ok := cond.(*ssa.Extract); ok && f.Tuple == ex.Tuple && f.Index == 2 && onTrue != neg {
					if kk == kCutBefore {
						return kStable
					}
					return kExt
				}
			}
		}
		return kTop
	}
	if kk != kSOF {
		return kk
	}
	src := v
	if s, ok := a.sofSrc[v]; ok {
		src = s
	}
	for d := blk; d != nil; d = d.Idom() {
		if len(d.Preds) != 1 {
			continue
		}
		p := d.Preds[0]
		iff, ok := p.Instrs[len(p.Instrs)-1].(*ssa.If)
		if !ok || p.Succs[0] == p.Succs[1] {
			continue
		}
		onTrue := p.Succs[0] == d
		if b, ok := iff.Cond.(*ssa.BinOp); ok && b.X == src && constOf(b.Y) {
			cv, _ := constant.Int64Val(b.Y.(*ssa.Const).Value)
			switch {
			case onTrue && (b.Op == token.GTR && cv >= -1 || b.Op == token.GEQ && cv >= 0 || b.Op == token.NEQ && cv == -1):
				return kStable
			case !onTrue && (b.Op == token.EQL && cv == -1 || b.Op == token.LSS && cv >= 0 || b.Op == token.LEQ && cv >= -1):
				return kStable
			}
		}
	}
	return kSOF
}

func allStable(ks ...kind) bool {
	for _, k := range ks {
		if k != kStable {
			return false
		}
	}
	return true
}

func blockOf(v ssa.Value) *ssa.BasicBlock {
	if in, ok := v.(ssa.Instruction); ok {
		return in.Block()
	}
	return nil
}

func (a *analysis) compute(v ssa.Value) kind {
	blk := blockOf(v)
	at := func(x ssa.Value) kind {
		if blk != nil {
			return a.kAt(x, blk)
		}
		return a.k(x)
	}
	switch x := v.(type) {
	case *ssa.Const, *ssa.Function, *ssa.Global:
		return kStable
	case *ssa.Parameter:
		for i, p := range a.f.Params {
			if p == x {
				return a.argK[i]
			}
		}
	case *ssa.FreeVar:
		return kStable // closure cells bound once at init (signature tables)
	case *ssa.Alloc:
		return kStable
	case *ssa.UnOp:
		switch x.Op {
		case token.MUL: // load
			switch addr := x.X.(type) {
			case *ssa.SliceToArrayPointer:
				// the array value of a fixed-size conversion: the first N elements of the slice (in bounds by C01)
				if k := at(addr); k == kStable {
					return kStable
				}
				return kTop
			case *ssa.IndexAddr:
				bk, ik := at(addr.X), at(addr.Index)
				if (bk == kExt || bk == kStable) && ik == kStable {
					return kStable // element at a stable position (in bounds by C01)
				}
				return kTop
			case *ssa.FreeVar:
				// a captured variable: stable when bound once at init (signature tables); inside a closure that the
				// enclosing detector creates, the kind of what the enclosing function stored in it
				if a.fvK != nil {
					for i, fv := range a.f.FreeVars {
						if fv == addr && i < len(a.fvK) {
							return a.fvK[i]
						}
					}
					return kTop
				}
				return kStable
			case *ssa.Global, *ssa.FieldAddr:
				return kStable
			case *ssa.Alloc:
				// a local that lives in memory because a closure captures it, assigned once before any use: its
				// content is the assigned value
				if st := writeOnce(addr); st != nil {
					sb, lb := st.Block(), x.Block()
					if sb == lb || sb.Dominates(lb) {
						return at(st.Val)
					}
				}
				// a local composite literal of constants, read as a whole
				if constLiteral(addr) {
					return kStable
				}
				// other local variables whose address is taken: only constant tables / named results in detectors
				return kTop
			}
			return kTop
		case token.NOT:
			switch at(x.X) {
			case kStable:
				return kStable
			case kU:
				return kD
			case kD:
				return kU
			}
			return kTop
		case token.SUB, token.XOR:
			if at(x.X) == kStable {
				return kStable
			}
		}
	case *ssa.SliceToArrayPointer:
		// a pointer to the first N elements: the same bytes on both runs when the slice starts at the same place
		if k := at(x.X); k == kStable || k == kExt {
			return kStable
		}
		return kTop
	case *ssa.IndexAddr, *ssa.FieldAddr:
		return kStable // an address; classified at the load
	case *ssa.Slice:
		bk := at(x.X)
		lo, hi := kStable, kind(kUnknown)
		if x.Low != nil {
			lo = at(x.Low)
		}
		if x.High != nil {
			hi = at(x.High)
		}
		if _, ok := x.X.Type().Underlying().(*types.Pointer); ok && x.Low == nil && x.High == nil {
			return kStable // slice of a local array literal
		}
		switch {
		case bk == kStable && lo == kStable && (hi == kStable || hi == kUnknown):
			return kStable
		case bk == kExt && lo == kStable && hi == kStable:
			return kStable // fixed window
		case bk == kExt && lo == kStable && (hi == kUnknown || hi == kGrow):
			return kExt // open suffix / growing window
		}
		return kTop
	case *ssa.BinOp:
		xk, yk := at(x.X), at(x.Y)
		if allStable(xk, yk) {
			return kStable
		}
		if a.lenDecided(x, blk) {
			return kStable // a length test already settled by what the caller knows: the same on both runs
		}
		switch x.Op {
		case token.GTR, token.GEQ:
			if xk == kGrow && yk == kStable {
				return kU
			}
			if xk == kStable && yk == kGrow {
				return kD
			}
			if xk == kSOF && constOf(x.Y) {
				return kU // idx > c (c >= -1): not found -> found only
			}
		case token.LSS, token.LEQ:
			if xk == kGrow && yk == kStable {
				return kD
			}
			if xk == kStable && yk == kGrow {
				return kU
			}
			if xk == kSOF && constOf(x.Y) {
				return kD
			}
		case token.NEQ:
			if xk == kSOF && constOf(x.Y) {
				return kU
			}
			if xk == kGrow && isLenCall(x.X) && isZeroConst(x.Y) {
				return kU // len(...) != 0: a growing length leaves zero once and for all
			}
		case token.EQL:
			if xk == kSOF && constOf(x.Y) {
				return kD
			}
			if xk == kGrow && isLenCall(x.X) && isZeroConst(x.Y) {
				return kD // len(...) == 0 may turn false, never true again
			}
		case token.ADD:
			if (xk == kSOF && yk == kStable) || (xk == kStable && yk == kSOF) {
				src := x.X
				if xk != kSOF {
					src = x.Y
				}
				if s, ok := a.sofSrc[src]; ok {
					src = s
				}
				a.sofSrc[x] = src
				return kSOF
			}
			if (xk == kGrow && yk == kStable) || (xk == kStable && yk == kGrow) {
				return kGrow
			}
		case token.SUB:
			if xk == kGrow && yk == kStable {
				return kGrow
			}
		}
		return kTop
	case *ssa.Convert:
		return at(x.X)
	case *ssa.ChangeType:
		return at(x.X)
	case *ssa.MakeInterface:
		return at(x.X)
	case *ssa.Extract:
		if call, ok := x.Tuple.(*ssa.Call); ok {
			if g := call.Call.StaticCallee(); g != nil && (g.String() == "bytes.Cut" || g.String() == "strings.Cut") && len(call.Call.Args) == 2 {
				k0, k1 := a.kAt(call.Call.Args[0], call.Block()), a.kAt(call.Call.Args[1], call.Block())
				switch {
				case k0 == kStable && k1 == kStable:
					return kStable
				case k0 == kExt && k1 == kStable:
					switch x.Index {
					case 0:
						return kCutBefore
					case 1:
						return kCutAfter
					default:
						return kU // found: may turn true when the separator comes into view
					}
				}
				return kTop
			}
		}
		if k := at(x.Tuple); k != kTop {
			return k
		}
		if call, ok := x.Tuple.(*ssa.Call); ok {
			if g := call.Call.StaticCallee(); g != nil && g.Blocks != nil && strings.HasPrefix(pkgPath(g), mod) {
				var ks []kind
				for _, arg := range call.Call.Args {
					ks = append(ks, a.kAt(arg, call.Block()))
				}
				rs, why := a.c.analyseTuple(g, ks)
				if x.Index < len(rs) {
					if rs[x.Index] == kTop {
						a.why = append(a.why, fmt.Sprintf("result #%d of %s is TOP: %v", x.Index, g.Name(), why))
					}
					return rs[x.Index]
				}
			}
		}
		return kTop
	case *ssa.Phi:
		ks := map[kind]int{}
		same := true
		var first ssa.Value
		for i, e := range x.Edges {
			if e == ssa.Value(x) {
				continue
			}
			if first == nil {
				first = e
			} else if e != first {
				same = false
			}
			ks[a.kAt(e, x.Block().Preds[i])]++
		}
		if a.isClampSlicePhi(x) {
			return kExt
		}
		if len(ks) == 1 {
			for k := range ks {
				switch k {
				case kStable:
					if a.tainted[x] && !same {
						return kTop
					}
					return kStable
				case kGrow, kExt:
					if a.tainted[x] && !same {
						return kTop
					}
					return k
				}
			}
		}
		if ks[kStable] > 0 && ks[kGrow] > 0 && len(ks) == 2 && a.isMinMaxPhi(x) {
			return kGrow
		}
		if isBool(x.Type()) {
			// materialised && / ||: constant on the short-circuit edge, value on the other
			if ks[kTop] == 0 && ks[kD] == 0 && ks[kSOF] == 0 {
				return kU
			}
			if ks[kTop] == 0 && ks[kU] == 0 && ks[kSOF] == 0 {
				return kD
			}
		}
		return kTop
	case *ssa.Call:
		return a.call(x)
	case *ssa.MakeSlice, *ssa.MakeClosure:
		return kStable
	case *ssa.Lookup:
		if allStable(at(x.X), at(x.Index)) {
			return kStable
		}
	case *ssa.Index:
		if allStable(at(x.X), at(x.Index)) {
			return kStable
		}
	}
	return kTop
}

func isLenCall(v ssa.Value) bool {
	c, ok := v.(*ssa.Call)
	if !ok {
		return false
	}
	b, ok := c.Call.Value.(*ssa.Builtin)
	return ok && b.Name() == "len"
}

func isZeroConst(v ssa.Value) bool {
	k, ok := v.(*ssa.Const)
	if !ok || k.Value == nil || k.Value.Kind() != constant.Int {
		return false
	}
	i, exact := constant.Int64Val(k.Value)
	return exact && i == 0
}

// constLiteral: the local is filled only with constants (element by element,
// possibly nested) and is otherwise only read or sliced.
func constLiteral(a *ssa.Alloc) bool {
	var okAddr func(v ssa.Value, depth int) bool
	okAddr = func(v ssa.Value, depth int) bool {
		if depth > 4 {
			return false
		}
		refs := v.Referrers()
		if refs == nil {
			return false
		}
		for _, ref := range *refs {
			switch x := ref.(type) {
			case *ssa.IndexAddr:
				if x.X != v || !okAddr(x, depth+1) {
					return false
				}
			case *ssa.FieldAddr:
				if x.X != v || !okAddr(x, depth+1) {
					return false
				}
			case *ssa.Store:
				if x.Addr != v {
					return false
				}
				if _, isK := x.Val.(*ssa.Const); !isK {
					return false
				}
			case *ssa.UnOp, *ssa.Slice, *ssa.DebugRef:
			default:
				return false
			}
		}
		return true
	}
	return okAddr(a, 0)
}

// isMinMaxPhi: v = phi(c, g) realising min(c,g) or max(c,g) for a stable c and a growing g.
func (a *analysis) isMinMaxPhi(p *ssa.Phi) bool {
	if len(p.Edges) != 2 {
		return false
	}
	var c, g ssa.Value
	var gPred, cPred *ssa.BasicBlock
	for i, e := range p.Edges {
		switch a.k(e) {
		case kStable:
			c, cPred = e, p.Block().Preds[i]
		case kGrow:
			g, gPred = e, p.Block().Preds[i]
		}
	}
	if c == nil || g == nil {
		return false
	}
	// controlling branch: the idom of the phi block must end in If comparing g with c
	ctl := p.Block().Idom()
	if ctl == nil {
		return false
	}
	iff, ok := ctl.Instrs[len(ctl.Instrs)-1].(*ssa.If)
	if !ok {
		return false
	}
	b, ok := iff.Cond.(*ssa.BinOp)
	if !ok {
		return false
	}
	// which side does the g edge come from?
	side := func(pred *ssa.BasicBlock) int { // 0 = true side, 1 = false side, -1 unknown
		for i, s := range ctl.Succs {
			if pred == ctl && s == p.Block() {
				return i
			}
			if s != p.Block() && (s == pred || s.Dominates(pred)) && len(s.Preds) == 1 {
				return i
			}
		}
		return -1
	}
	gs, cs := side(gPred), side(cPred)
	if gs < 0 || cs < 0 || gs == cs {
		return false
	}
	var gLess bool // condition true means g < c (or <=)
	switch {
	case b.X == g && b.Y == c && (b.Op == token.LSS || b.Op == token.LEQ):
		gLess = true
	case b.X == c && b.Y == g && (b.Op == token.GTR || b.Op == token.GEQ):
		gLess = true
	case b.X == g && b.Y == c && (b.Op == token.GTR || b.Op == token.GEQ):
		gLess = false
	case b.X == c && b.Y == g && (b.Op == token.LSS || b.Op == token.LEQ):
		gLess = false
	default:
		return false
	}
	// min: g chosen when g<c ; max: g chosen when g>c. Both are monotone in g.
	_ = gLess
	return true
}

// isClampSlicePhi: p is `v` when len(v) <= K and `v[:K]` when len(v) > K (K constant, v a growing input), i.e. the first
// min(len(v), K) bytes of v. Whichever edges the shorter and the longer run arrive on, the longer run's value extends
// the shorter run's: (v1, v2) and (v1[:K], v2[:K]) trivially, (v1, v2[:K]) because len(v1) <= K there, and (v1[:K], v2)
// cannot happen (len(v2) >= len(v1) > K).
func (a *analysis) isClampSlicePhi(p *ssa.Phi) bool {
	if len(p.Edges) != 2 || !isByteSlice(p.Type()) {
		return false
	}
	var whole ssa.Value
	var cut *ssa.Slice
	var cutPred *ssa.BasicBlock
	for i, e := range p.Edges {
		if sl, ok := e.(*ssa.Slice); ok && sl.High != nil && (sl.Low == nil || isZeroConst(sl.Low)) && sl.Max == nil {
			cut, cutPred = sl, p.Block().Preds[i]
		} else {
			whole = e
		}
	}
	if cut == nil || whole == nil || cut.X != whole || a.k(whole) != kExt {
		return false
	}
	kc, ok := cut.High.(*ssa.Const)
	if !ok || kc.Value == nil || kc.Value.Kind() != constant.Int {
		return false
	}
	ctl := p.Block().Idom()
	if ctl == nil || len(ctl.Instrs) == 0 {
		return false
	}
	iff, ok := ctl.Instrs[len(ctl.Instrs)-1].(*ssa.If)
	if !ok {
		return false
	}
	b, ok := iff.Cond.(*ssa.BinOp)
	if !ok {
		return false
	}
	// the cut edge is the side on which len(whole) > K (or >= K) holds
	cutSide := -1
	for i, sc := range ctl.Succs {
		if sc != p.Block() && (sc == cutPred || sc.Dominates(cutPred)) && len(sc.Preds) == 1 {
			cutSide = i
		}
	}
	if cutSide < 0 {
		return false
	}
	isLenOfWhole := func(v ssa.Value) bool {
		c, ok := v.(*ssa.Call)
		return ok && isLenCall(c) && c.Call.Args[0] == whole
	}
	sameK := func(v ssa.Value) bool {
		k2, ok := v.(*ssa.Const)
		return ok && k2.Value != nil && k2.Value.Kind() == constant.Int && constant.Compare(k2.Value, token.EQL, kc.Value)
	}
	var longOnTrue bool
	switch {
	case isLenOfWhole(b.X) && sameK(b.Y) && (b.Op == token.GTR || b.Op == token.GEQ):
		longOnTrue = true
	case isLenOfWhole(b.X) && sameK(b.Y) && (b.Op == token.LSS || b.Op == token.LEQ):
		longOnTrue = false
	case sameK(b.X) && isLenOfWhole(b.Y) && (b.Op == token.LSS || b.Op == token.LEQ):
		longOnTrue = true
	case sameK(b.X) && isLenOfWhole(b.Y) && (b.Op == token.GTR || b.Op == token.GEQ):
		longOnTrue = false
	default:
		return false
	}
	return (cutSide == 0) == longOnTrue
}

func (a *analysis) call(c *ssa.Call) kind {
	blk := c.Block()
	if b, ok := c.Call.Value.(*ssa.Builtin); ok {
		switch b.Name() {
		case "len":
			switch a.kAt(c.Call.Args[0], blk) {
			case kStable:
				return kStable
			case kExt:
				return kGrow
			}
			return kTop
		case "min", "max":
			ks := map[kind]bool{}
			for _, x := range c.Call.Args {
				ks[a.kAt(x, blk)] = true
			}
			if len(ks) == 1 && ks[kStable] {
				return kStable
			}
			if !ks[kTop] && !ks[kSOF] && !ks[kUnknown] && !ks[kExt] {
				return kGrow
			}
		}
		return kTop
	}
	var ks []kind
	for _, x := range c.Call.Args {
		ks = append(ks, a.kAt(x, blk))
	}
	callee := c.Call.StaticCallee()
	if callee == nil {
		// a function-typed parameter bound to a function constant in this calling context
		if p, ok := c.Call.Value.(*ssa.Parameter); ok {
			for i, q := range a.f.Params {
				if q == p && i < len(a.fnArgs) && a.fnArgs[i] != nil {
					callee = a.fnArgs[i]
				}
			}
		}
	}
	name := ""
	if callee != nil {
		name = callee.String()
	}
	if callee != nil && callee.Pkg == nil && callee.Origin() != nil {
		name = callee.Origin().String()
	}
	switch name {
	case "slices.ContainsFunc":
		// any element of a stable list satisfies the predicate: as stable / upward / downward as the predicate is
		if len(c.Call.Args) == 2 && ks[0] == kStable {
			if mc, ok := c.Call.Args[1].(*ssa.MakeClosure); ok {
				clo := mc.Fn.(*ssa.Function)
				var fvK []kind
				for _, b := range mc.Bindings {
					k := kTop
					if al, ok := b.(*ssa.Alloc); ok {
						if st := writeOnce(al); st != nil && (st.Block() == mc.Block() || st.Block().Dominates(mc.Block())) {
							k = a.kAt(st.Val, blk)
						}
					}
					fvK = append(fvK, k)
				}
				argK := make([]kind, len(clo.Params))
				for i := range argK {
					argK[i] = kStable // an element of the stable list
				}
				r := a.c.analyseClosure(clo, argK, fvK)
				if r.ret == kTop {
					a.why = append(a.why, fmt.Sprintf("predicate %s is TOP: %v", clo.Name(), r.why))
				}
				return r.ret
			}
			if fn, ok := c.Call.Args[1].(*ssa.Function); ok {
				r := a.c.analyse(fn, []kind{kStable})
				return r.ret
			}
		}
		return kTop
	case "bytes.HasPrefix":
		switch {
		case allStable(ks...):
			return kStable
		case ks[0] == kExt && ks[1] == kStable:
			return kU
		}
		return kTop
	case "bytes.Equal":
		if allStable(ks...) {
			return kStable
		}
		return kTop
	case "bytes.Contains":
		switch {
		case allStable(ks...):
			return kStable
		case ks[0] == kExt && ks[1] == kStable:
			return kU
		}
		return kTop
	case "bytes.Index", "bytes.IndexByte":
		switch {
		case allStable(ks...):
			return kStable
		case ks[0] == kExt && ks[1] == kStable:
			return kSOF
		}
		return kTop
	case "bytes.Trim", "bytes.TrimSpace":
		if allStable(ks...) {
			return kStable
		}
		return kTop
	case "(encoding/binary.littleEndian).Uint32", "(encoding/binary.bigEndian).Uint32",
		"(encoding/binary.littleEndian).Uint16", "(encoding/binary.bigEndian).Uint16",
		"(encoding/binary.littleEndian).Uint64", "(encoding/binary.bigEndian).Uint64":
		if ks[1] == kStable || ks[1] == kExt {
			return kStable // reads a fixed-size prefix, in bounds by C01
		}
		return kTop
	}
	if callee == nil {
		// call of an element of a captured list of detectors (anyOf(d1, d2)): any of them may be the callee
		if els := a.elemsOf(c.Call.Value); els != nil {
			res := kStable
			for _, e := range els {
				var r fnResult
				if e.g != nil {
					r = a.c.analyseGlobal(e.g, e.fn, ks)
				} else {
					r = a.c.analyse(e.fn, ks)
				}
				if len(r.handover) > 0 && !a.isUnmodifiedInput(c.Call.Args[0]) {
					return kTop
				}
				a.handover = append(a.handover, r.handover...)
				k := r.ret
				if k == kU && e.g != nil && a.c.rootDetGlobals[e.g] && a.isUnmodifiedInput(c.Call.Args[0]) {
					a.handover = append(a.handover, e.g.Name())
					k = kStable // excused: if it flips, that root-level format takes over
				}
				switch {
				case k == kStable:
				case k == kU && (res == kStable || res == kU):
					res = kU
				default:
					a.why = append(a.why, fmt.Sprintf("list element %s is %s: %v", e.fn.Name(), k, r.why))
					return kTop
				}
			}
			return res
		}
		// call through a package variable holding a detector closure (e.g. MsAccessAce)
		if u, ok := c.Call.Value.(*ssa.UnOp); ok && u.Op == token.MUL {
			if g, ok := u.X.(*ssa.Global); ok {
				if fn := a.c.closureOfGlobal(g); fn != nil {
					r := a.c.analyseGlobal(g, fn, ks)
					if len(r.handover) > 0 && !a.isUnmodifiedInput(c.Call.Args[0]) {
						// the excuse "another root-level format takes over" was made for the callee's own header
						a.why = append(a.why, fmt.Sprintf("%s relies on a hand-over but is not given the unmodified header", g.Name()))
						return kTop
					}
					a.handover = append(a.handover, r.handover...)
					if r.ret == kU && a.c.rootDetGlobals[g] && a.isUnmodifiedInput(c.Call.Args[0]) {
						a.handover = append(a.handover, g.Name())
						return kStable // excused: if it flips, that root-level format takes over
					}
					return r.ret
				}
			}
		}
		return kTop
	}
	if callee.Blocks == nil || !strings.HasPrefix(pkgPath(callee), mod) {
		// a side-effect-free library function of values that are the same on both runs (no function arguments:
		// what a callback does is not known here)
		if isPureStd(name) && allStable(ks...) {
			for _, x := range c.Call.Args {
				if _, isFn := x.Type().Underlying().(*types.Signature); isFn {
					return kTop
				}
			}
			return kStable
		}
		return kTop
	}
	// selector helpers (min/max written by hand)
	if k, ok := a.c.selectorKind(callee, ks); ok {
		return k
	}
	// function constants passed for function-typed parameters become part of the callee's context
	var fns []*ssa.Function
	for i, x := range c.Call.Args {
		var g *ssa.Function
		switch y := x.(type) {
		case *ssa.Function:
			g = y
		case *ssa.ChangeType:
			g, _ = y.X.(*ssa.Function)
		case *ssa.Parameter:
			// handed on from this function's own context
			for j, q := range a.f.Params {
				if q == y && j < len(a.fnArgs) {
					g = a.fnArgs[j]
				}
			}
		}
		if g != nil {
			if fns == nil {
				fns = make([]*ssa.Function, len(c.Call.Args))
			}
			fns[i] = g
		}
	}
	// constants and known minimum lengths are part of the callee's context (hasAt(raw, 4, "ftyp") under len(raw) >= 12)
	cs := make([]constant.Value, len(c.Call.Args))
	ms := make([]int64, len(c.Call.Args))
	anyCtx := false
	for i, x := range c.Call.Args {
		if k, ok := a.constVal(x); ok {
			cs[i], anyCtx = k, true
		}
		if _, isSl := x.Type().Underlying().(*types.Slice); isSl {
			if m := a.minLenAt(x, blk); m > 0 {
				ms[i], anyCtx = m, true
			}
		}
	}
	if anyCtx {
		a.c.curArgConst, a.c.curArgMinLen = cs, ms
	}
	r := a.c.analyseCtx(callee, ks, fns)
	if len(r.handover) > 0 && !(len(c.Call.Args) > 0 && a.isUnmodifiedInput(c.Call.Args[0])) {
		a.why = append(a.why, fmt.Sprintf("callee %s relies on a hand-over but is not given the unmodified header", callee.Name()))
		return kTop
	}
	a.handover = append(a.handover, r.handover...)
	if r.ret == kTop {
		a.why = append(a.why, fmt.Sprintf("callee %s is TOP: %v", callee.Name(), r.why))
	}
	return r.ret
}

// selectorKind recognises func(a, b int) int returning min or max of its parameters.
func (c *ctx) selectorKind(f *ssa.Function, ks []kind) (kind, bool) {
	if len(f.Params) != 2 || f.Signature.Results().Len() != 1 || !isIntT(f.Params[0].Type()) || !isIntT(f.Params[1].Type()) || !isIntT(f.Signature.Results().At(0).Type()) {
		return 0, false
	}
	if len(f.Blocks) > 4 {
		return 0, false
	}
	conds := 0
	for _, b := range f.Blocks {
		for _, in := range b.Instrs {
			switch x := in.(type) {
			case *ssa.If:
				bo, ok := x.Cond.(*ssa.BinOp)
				if !ok {
					return 0, false
				}
				okOps := bo.Op == token.LSS || bo.Op == token.LEQ || bo.Op == token.GTR || bo.Op == token.GEQ
				okArgs := (bo.X == ssa.Value(f.Params[0]) && bo.Y == ssa.Value(f.Params[1])) || (bo.X == ssa.Value(f.Params[1]) && bo.Y == ssa.Value(f.Params[0]))
				if !okOps || !okArgs {
					return 0, false
				}
				conds++
			case *ssa.Return:
				if x.Results[0] != ssa.Value(f.Params[0]) && x.Results[0] != ssa.Value(f.Params[1]) {
					return 0, false
				}
			case *ssa.BinOp, *ssa.Jump, *ssa.DebugRef:
			default:
				return 0, false
			}
		}
	}
	if conds != 1 {
		return 0, false
	}
	// min/max: monotone in each argument
	set := map[kind]bool{}
	for _, k := range ks {
		set[k] = true
	}
	if len(set) == 1 && set[kStable] {
		return kStable, true
	}
	if (set[kStable] || set[kGrow]) && len(set) <= 2 && !set[kTop] && !set[kSOF] && !set[kExt] && !set[kU] && !set[kD] {
		return kGrow, true
	}
	return kTop, true
}

func isIntT(t types.Type) bool {
	b, ok := t.Underlying().(*types.Basic)
	return ok && b.Info()&types.IsInteger != 0
}

func (a *analysis) isUnmodifiedInput(v ssa.Value) bool {
	p, ok := v.(*ssa.Parameter)
	return ok && len(a.f.Params) > 0 && p == a.f.Params[0]
}

func pkgPath(f *ssa.Function) string {
	for p := f; p != nil; p = p.Parent() {
		if p.Pkg != nil {
			return p.Pkg.Pkg.Path()
		}
		// an instance of a generic function belongs to the package of the generic
		if o := p.Origin(); o != nil && o != p && o.Pkg != nil {
			return o.Pkg.Pkg.Path()
		}
	}
	return ""
}

// closureOfGlobal: package var initialised in init by `g = ctor(consts...)` where ctor returns one closure.
func (c *ctx) closureOfGlobal(g *ssa.Global) *ssa.Function {
	init := g.Pkg.Func("init")
	for _, b := range init.Blocks {
		for _, in := range b.Instrs {
			st, ok := in.(*ssa.Store)
			if !ok || st.Addr != ssa.Value(g) {
				continue
			}
			call, ok := st.Val.(*ssa.Call)
			if !ok {
				return nil
			}
			ctor := call.Call.StaticCallee()
			if ctor == nil {
				return nil
			}
			var cl *ssa.Function
			n := 0
			for _, bb := range ctor.Blocks {
				for _, ii := range bb.Instrs {
					if mc, ok := ii.(*ssa.MakeClosure); ok {
						cl = mc.Fn.(*ssa.Function)
						n++
					}
				}
			}
			if n == 1 {
				return cl
			}
			return nil
		}
	}
	return nil
}

// constVal folds v to a constant: a literal, a conversion of one, a parameter
// bound to a constant in this calling context, len of such a string, sums.
func (a *analysis) constVal(v ssa.Value) (constant.Value, bool) {
	switch x := v.(type) {
	case *ssa.Const:
		if x.Value != nil {
			return x.Value, true
		}
	case *ssa.Parameter:
		for i, p := range a.f.Params {
			if p == x && i < len(a.argConst) && a.argConst[i] != nil {
				return a.argConst[i], true
			}
		}
	case *ssa.Convert:
		if k, ok := a.constVal(x.X); ok && k.Kind() == constant.Int && isIntT(x.Type()) {
			return k, true
		}
	case *ssa.Call:
		if b, ok := x.Call.Value.(*ssa.Builtin); ok && b.Name() == "len" {
			if k, ok := a.constVal(x.Call.Args[0]); ok && k.Kind() == constant.String {
				return constant.MakeInt64(int64(len(constant.StringVal(k)))), true
			}
		}
	case *ssa.BinOp:
		if x.Op == token.ADD || x.Op == token.SUB {
			l, ok1 := a.constVal(x.X)
			r, ok2 := a.constVal(x.Y)
			if ok1 && ok2 && l.Kind() == constant.Int && r.Kind() == constant.Int {
				return constant.BinaryOp(l, x.Op, r), true
			}
		}
	}
	return nil, false
}

// minLenAt: a lower bound on len(v) that holds whenever block blk runs: from
// the calling context (v a parameter) and from the length tests dominating blk.
func (a *analysis) minLenAt(v ssa.Value, blk *ssa.BasicBlock) int64 {
	var m int64
	if p, ok := v.(*ssa.Parameter); ok {
		for i, q := range a.f.Params {
			if q == p && i < len(a.argMinLen) {
				m = a.argMinLen[i]
			}
		}
	}
	for d := blk; d != nil; d = d.Idom() {
		if len(d.Preds) != 1 {
			continue
		}
		p := d.Preds[0]
		iff, ok := p.Instrs[len(p.Instrs)-1].(*ssa.If)
		if !ok || p.Succs[0] == p.Succs[1] {
			continue
		}
		onTrue := p.Succs[0] == d
		b, ok := iff.Cond.(*ssa.BinOp)
		if !ok {
			continue
		}
		lx, op, ky := b.X, b.Op, b.Y
		if ln, isLen := ky.(*ssa.Call); isLen {
			if bi, ok := ln.Call.Value.(*ssa.Builtin); ok && bi.Name() == "len" {
				// K op len(v): mirror
				lx, ky = b.Y, b.X
				switch op {
				case token.LSS:
					op = token.GTR
				case token.LEQ:
					op = token.GEQ
				case token.GTR:
					op = token.LSS
				case token.GEQ:
					op = token.LEQ
				}
			}
		}
		ln, isLen := lx.(*ssa.Call)
		if !isLen {
			continue
		}
		if bi, ok := ln.Call.Value.(*ssa.Builtin); !ok || bi.Name() != "len" || ln.Call.Args[0] != v {
			continue
		}
		kv, ok := a.constVal(ky)
		if !ok || kv.Kind() != constant.Int {
			continue
		}
		k, _ := constant.Int64Val(kv)
		var lb int64 = -1
		switch {
		case op == token.GEQ && onTrue, op == token.LSS && !onTrue:
			lb = k
		case op == token.GTR && onTrue, op == token.LEQ && !onTrue:
			lb = k + 1
		case op == token.EQL && onTrue, op == token.NEQ && !onTrue:
			lb = k
		}
		if lb > m {
			m = lb
		}
	}
	return m
}

// lenDecided: x compares len(s) with a constant K and the known lower bound on
// len(s) already decides it (len >= K, len > K hold; len < K, len <= K fail).
func (a *analysis) lenDecided(x *ssa.BinOp, blk *ssa.BasicBlock) bool {
	lx, op, ky := x.X, x.Op, x.Y
	isLenCall := func(v ssa.Value) (*ssa.Call, bool) {
		c, ok := v.(*ssa.Call)
		if !ok {
			return nil, false
		}
		bi, ok := c.Call.Value.(*ssa.Builtin)
		return c, ok && bi.Name() == "len"
	}
	if _, ok := isLenCall(ky); ok {
		lx, ky = x.Y, x.X
		switch op {
		case token.LSS:
			op = token.GTR
		case token.LEQ:
			op = token.GEQ
		case token.GTR:
			op = token.LSS
		case token.GEQ:
			op = token.LEQ
		}
	}
	ln, ok := isLenCall(lx)
	if !ok {
		return false
	}
	kv, ok := a.constVal(ky)
	if !ok || kv.Kind() != constant.Int {
		return false
	}
	k, _ := constant.Int64Val(kv)
	if blk == nil {
		blk = x.Block()
	}
	m := a.minLenAt(ln.Call.Args[0], blk)
	switch op {
	case token.GEQ, token.LSS:
		return m >= k
	case token.GTR, token.LEQ:
		return m > k
	}
	return false
}

// elemsOf: v is an element loaded from the list held in a captured variable of
// the closure under analysis; the detectors that list holds.
func (a *analysis) elemsOf(v ssa.Value) []elemFn {
	ld, ok := v.(*ssa.UnOp)
	if !ok || ld.Op != token.MUL {
		return nil
	}
	ia, ok := ld.X.(*ssa.IndexAddr)
	if !ok {
		return nil
	}
	lst, ok := ia.X.(*ssa.UnOp)
	if !ok || lst.Op != token.MUL {
		return nil
	}
	fv, ok := lst.X.(*ssa.FreeVar)
	if !ok {
		return nil
	}
	for i, x := range a.f.FreeVars {
		if x == fv {
			return a.fvElems[i]
		}
	}
	return nil
}

// analyseGlobal analyses the closure fn held by the package-level detector
// variable g, with the detector lists its constructor call captured.
func (c *ctx) analyseGlobal(g *ssa.Global, fn *ssa.Function, argK []kind) fnResult {
	if els := c.closureElems(g, fn); len(els) > 0 {
		c.curFvElems, c.curTag = els, "|global="+g.Name()
	}
	return c.analyseCtx(fn, argK, nil)
}

// closureElems: g = ctor(list...) in the package initialiser, ctor stores its
// variadic parameter of functions once in a cell captured by its only closure
// fn, and the call passes a literal list of function constants and of loads of
// package-level detector variables: the elements, per captured variable.
func (c *ctx) closureElems(g *ssa.Global, fn *ssa.Function) map[int][]elemFn {
	init := g.Pkg.Func("init")
	var call *ssa.Call
	for _, b := range init.Blocks {
		for _, in := range b.Instrs {
			if st, ok := in.(*ssa.Store); ok && st.Addr == ssa.Value(g) {
				if call != nil {
					return nil
				}
				call, _ = st.Val.(*ssa.Call)
			}
		}
	}
	if call == nil {
		return nil
	}
	ctor := call.Call.StaticCallee()
	if ctor == nil || fn.Parent() != ctor {
		return nil
	}
	var mc *ssa.MakeClosure
	for _, b := range ctor.Blocks {
		for _, in := range b.Instrs {
			if m, ok := in.(*ssa.MakeClosure); ok && m.Fn == ssa.Value(fn) {
				mc = m
			}
		}
	}
	if mc == nil {
		return nil
	}
	out := map[int][]elemFn{}
	for i, bnd := range mc.Bindings {
		cell, ok := bnd.(*ssa.Alloc)
		if !ok {
			continue
		}
		st := writeOnce(cell)
		if st == nil {
			continue
		}
		pi := -1
		for j, p := range ctor.Params {
			if st.Val == ssa.Value(p) {
				pi = j
			}
		}
		if pi < 0 {
			continue
		}
		sl, ok := ctor.Params[pi].Type().Underlying().(*types.Slice)
		if !ok {
			continue
		}
		if _, isFn := sl.Elem().Underlying().(*types.Signature); !isFn {
			continue
		}
		// the closure must not write the captured list
		wr := false
		for _, ref := range *fn.FreeVars[i].Referrers() {
			if s2, ok := ref.(*ssa.Store); ok && s2.Addr == ssa.Value(fn.FreeVars[i]) {
				wr = true
			}
		}
		arg, ok := call.Call.Args[pi].(*ssa.Slice)
		if wr || !ok {
			return nil
		}
		arr, ok := arg.X.(*ssa.Alloc)
		if !ok {
			return nil
		}
		var els []elemFn
		for _, ref := range *arr.Referrers() {
			ia, ok := ref.(*ssa.IndexAddr)
			if !ok {
				continue
			}
			for _, r2 := range *ia.Referrers() {
				s2, ok := r2.(*ssa.Store)
				if !ok {
					continue
				}
				v := s2.Val
				if ct, ok := v.(*ssa.ChangeType); ok {
					v = ct.X
				}
				switch e := v.(type) {
				case *ssa.Function:
					els = append(els, elemFn{fn: e})
				case *ssa.UnOp:
					eg, isG := e.X.(*ssa.Global)
					if !isG {
						return nil
					}
					ef := c.closureOfGlobal(eg)
					if ef == nil {
						return nil
					}
					els = append(els, elemFn{fn: ef, g: eg})
				default:
					return nil
				}
			}
		}
		if len(els) == 0 {
			return nil
		}
		out[i] = els
	}
	return out
}

// retSet: possible constant results when control enters blk from pred.
// values: "true","false","?" (non-constant)
func (a *analysis) retSet(pred, blk *ssa.BasicBlock, seen map[[2]int]bool, out map[string]bool, stop *ssa.BasicBlock, reachedStop *bool) {
	key := [2]int{pred.Index, blk.Index}
	if seen[key] {
		return
	}
	seen[key] = true
	if stop != nil && blk == stop {
		*reachedStop = true
		return
	}
	last := blk.Instrs[len(blk.Instrs)-1]
	switch t := last.(type) {
	case *ssa.Return:
		v := t.Results[a.resIdx]
		if ph, ok := v.(*ssa.Phi); ok && ph.Block() == blk {
			for i, p := range blk.Preds {
				if p == pred {
					v = ph.Edges[i]
				}
			}
		}
		if k, ok := v.(*ssa.Const); ok && k.Value != nil && k.Value.Kind() == constant.Bool {
			if constant.BoolVal(k.Value) {
				out["true"] = true
			} else {
				out["false"] = true
			}
		} else {
			// a returned U value behaves like "branch to true/false" – record its kind
			switch a.kAt(v, blk) {
			case kU:
				out["U"] = true
			case kStable:
				out["S"] = true
			case kD:
				out["D"] = true
			default:
				out["?"] = true
			}
		}
	default:
		for _, s := range blk.Succs {
			a.retSet(blk, s, seen, out, stop, reachedStop)
		}
	}
}

func subset(m map[string]bool, allowed ...string) bool {
	for k := range m {
		ok := false
		for _, a := range allowed {
			if k == a {
				ok = true
			}
		}
		if !ok {
			return false
		}
	}
	return true
}

func hasPhi(b *ssa.BasicBlock) bool {
	if len(b.Instrs) == 0 {
		return false
	}
	_, ok := b.Instrs[0].(*ssa.Phi)
	return ok
}

func (c *ctx) analyse(f *ssa.Function, argK []kind) fnResult {
	return c.analyseCtx(f, argK, nil)
}

// analyseClosure analyses a closure created inside a detector: fvK gives the kinds of its captured variables.
func (c *ctx) analyseClosure(f *ssa.Function, argK, fvK []kind) fnResult {
	c.curFvK = fvK
	defer func() { c.curFvK = nil }()
	return c.analyseCtx(f, argK, nil)
}

// writeOnce: the single store to a local cell whose address only goes to loads and closures that only load it.
func writeOnce(a *ssa.Alloc) *ssa.Store {
	var st *ssa.Store
	for _, r := range *a.Referrers() {
		switch x := r.(type) {
		case *ssa.Store:
			if x.Addr != ssa.Value(a) || st != nil {
				return nil
			}
			st = x
		case *ssa.MakeClosure:
			clo, _ := x.Fn.(*ssa.Function)
			if clo == nil {
				return nil
			}
			for i, b := range x.Bindings {
				if b != ssa.Value(a) {
					continue
				}
				for _, r2 := range *clo.FreeVars[i].Referrers() {
					switch r2.(type) {
					case *ssa.UnOp, *ssa.DebugRef:
					default:
						return nil
					}
				}
			}
		case *ssa.UnOp, *ssa.DebugRef:
		default:
			return nil
		}
	}
	return st
}

func (c *ctx) analyseCtx(f *ssa.Function, argK []kind, fns []*ssa.Function) fnResult {
	fvK := c.curFvK
	c.curFvK = nil
	fvElems, tag := c.curFvElems, c.curTag
	c.curFvElems, c.curTag = nil, ""
	argConst, argMinLen := c.curArgConst, c.curArgMinLen
	c.curArgConst, c.curArgMinLen = nil, nil
	key := f.String() + fmt.Sprint(argK) + fmt.Sprint(fvK) + tag
	for i, k := range argConst {
		if k != nil {
			key += fmt.Sprintf("|c%d=%s", i, k.ExactString())
		}
	}
	for i, m := range argMinLen {
		if m > 0 {
			key += fmt.Sprintf("|m%d=%d", i, m)
		}
	}
	for i, g := range fns {
		if g != nil {
			key += fmt.Sprintf("|%d=%s", i, g.String())
		}
	}
	if r, ok := c.memo[key]; ok {
		return r
	}
	c.memo[key] = fnResult{ret: kTop, why: []string{"recursive"}}
	res := fnResult{}
	nres := f.Signature.Results().Len()
	if nres == 0 || !isBool(f.Signature.Results().At(0).Type()) || nres != 1 {
		// non-bool helper: stable iff pure and all args stable
		st := true
		for _, k := range argK {
			if k != kStable {
				st = false
			}
		}
		if st && c.isPure(f) {
			res.ret = kStable
		} else {
			res.ret = kTop
			res.why = append(res.why, "non-bool helper with non-stable args or impure")
		}
		c.memo[key] = res
		return res
	}
	a := &analysis{c: c, f: f, argK: argK, fnArgs: fns, fvK: fvK, fvElems: fvElems, argConst: argConst, argMinLen: argMinLen, guess: map[*ssa.Phi]kind{}, tainted: map[*ssa.Phi]bool{}, sofSrc: map[ssa.Value]ssa.Value{}}
	if !a.classify() {
		// the phi classification did not reach a fixpoint: nothing may be concluded from the last guesses
		res.ret = kTop
		res.why = append(res.why, f.Name()+": classification of loop-carried values did not converge")
		c.memo[key] = res
		return res
	}
	overall, why := a.boolResult(0)
	res.ret = overall
	res.why = append(res.why, why...)
	res.why = append(res.why, a.why...)
	res.handover = a.handover
	c.memo[key] = res
	return res
}

// classify runs the kind classification of f's values to a fixpoint of the
// loop-carried guesses and the taint set; false when it does not converge.
func (a *analysis) classify() bool {
	f := a.f
	converged := false
	for iter := 0; iter < 40; iter++ {
		a.kinds = map[ssa.Value]kind{}
		a.changed = false
		a.why, a.handover = nil, nil
		// classify everything
		for _, b := range f.Blocks {
			for _, in := range b.Instrs {
				if v, ok := in.(ssa.Value); ok {
					a.k(v)
				}
			}
		}
		// taint: a join block reached from both sides of a non-stable branch
		nt := map[*ssa.Phi]bool{}
		for _, b := range f.Blocks {
			iff, ok := b.Instrs[len(b.Instrs)-1].(*ssa.If)
			if !ok || a.k(iff.Cond) == kStable {
				continue
			}
			r0 := reachFrom(b.Succs[0])
			r1 := reachFrom(b.Succs[1])
			for _, j := range f.Blocks {
				if len(j.Preds) < 2 || !(r0[j] && r1[j]) {
					continue
				}
				for _, in := range j.Instrs {
					ph, ok := in.(*ssa.Phi)
					if !ok {
						break
					}
					// the diverged runs can only arrive on edges from blocks after the branch
					var first ssa.Value
					same := true
					for i, pr := range j.Preds {
						if pr == b || r0[pr] || r1[pr] {
							if first == nil {
								first = ph.Edges[i]
							} else if ph.Edges[i] != first {
								same = false
							}
						}
					}
					if !same {
						nt[ph] = true
					}
				}
			}
		}
		same := len(nt) == len(a.tainted)
		for k := range nt {
			if !a.tainted[k] {
				same = false
			}
		}
		a.tainted = nt
		if !a.changed && same {
			converged = true
			break
		}
	}
	return converged
}

// boolResult judges the boolean result at position idx: S, U or TOP.
func (a *analysis) boolResult(idx int) (kind, []string) {
	f := a.f
	overall := kStable
	var why []string
	a.resIdx = idx
	for _, b := range f.Blocks {
		last := b.Instrs[len(b.Instrs)-1]
		switch t := last.(type) {
		case *ssa.If:
			ck := a.k(t.Cond)
			if ck == kStable {
				continue
			}
			tE, fE := b.Succs[0], b.Succs[1]
			// x takes xSide, y takes ySide (the runs diverge here).
			simulable := func(xSide, ySide *ssa.BasicBlock) bool {
				var dummy bool
				xs := map[string]bool{}
				a.retSet(b, xSide, map[[2]int]bool{}, xs, nil, &dummy)
				if subset(xs, "false") {
					return true // x answers false: nothing to show
				}
				ys := map[string]bool{}
				a.retSet(b, ySide, map[[2]int]bool{}, ys, nil, &dummy)
				if subset(ys, "true") {
					return true // y answers true whatever x does
				}
				// y runs ahead and re-joins x's block: allowed if it can only return true before that
				ys2 := map[string]bool{}
				reached := false
				a.retSet(b, ySide, map[[2]int]bool{}, ys2, xSide, &reached)
				if subset(ys2, "true") && a.phisTolerant(xSide) {
					return true
				}
				// x runs ahead and re-joins y's block: allowed if it can only return false before that
				xs2 := map[string]bool{}
				reached = false
				a.retSet(b, xSide, map[[2]int]bool{}, xs2, ySide, &reached)
				if subset(xs2, "false") && a.phisTolerant(ySide) {
					return true
				}
				return false
			}
			okb := false
			switch ck {
			case kU: // false on x, true on y
				okb = simulable(fE, tE)
			case kD: // true on x, false on y
				okb = simulable(tE, fE)
			}
			if !okb {
				overall = kTop
				why = append(why, fmt.Sprintf("%s: branch at block %d on %s-condition %s not simulable", f.Name(), b.Index, ck, t.Cond))
			} else if overall == kStable {
				overall = kU
			}
		case *ssa.Return:
			v := t.Results[idx]
			if _, ok := v.(*ssa.Const); ok {
				continue
			}
			rk := a.kAt(v, b)
			if ph, ok := v.(*ssa.Phi); ok && ph.Block() == b {
				rk = kStable
				for i, e := range ph.Edges {
					switch a.kAt(e, b.Preds[i]) {
					case kStable:
					case kU:
						if rk == kStable {
							rk = kU
						}
					default:
						rk = kTop
					}
				}
			}
			switch rk {
			case kStable:
			case kU:
				if overall == kStable {
					overall = kU
				}
			default:
				overall = kTop
				why = append(why, fmt.Sprintf("%s: returns %s-valued %s", f.Name(), rk, v))
			}
		}
	}
	return overall, why
}

// analyseTuple judges a module helper with several results under the argument
// kinds argK, one kind per result position:
//   - a boolean result is judged like a detector's verdict (S, U or TOP);
//   - a byte-slice result is EXT (y's value extends x's) when every return gives
//     nil or an S/EXT value and, wherever the two runs can part (a branch on a U
//     or D condition), the run on the shorter header can only reach returns that
//     give nil at this position: nil is extended by anything;
//   - any other result is S only for a pure function of stable arguments.
func (c *ctx) analyseTuple(f *ssa.Function, argK []kind) ([]kind, []string) {
	key := "tuple:" + f.String() + fmt.Sprint(argK)
	nres := f.Signature.Results().Len()
	top := make([]kind, nres)
	for i := range top {
		top[i] = kTop
	}
	if r, ok := c.tupleMemo[key]; ok {
		return r, c.tupleWhy[key]
	}
	if c.tupleMemo == nil {
		c.tupleMemo = map[string][]kind{}
		c.tupleWhy = map[string][]string{}
	}
	c.tupleMemo[key] = top // recursion
	a := &analysis{c: c, f: f, argK: argK, guess: map[*ssa.Phi]kind{}, tainted: map[*ssa.Phi]bool{}, sofSrc: map[ssa.Value]ssa.Value{}}
	if !a.classify() {
		return top, []string{f.Name() + ": classification of loop-carried values did not converge"}
	}
	out := make([]kind, nres)
	var why []string
	isNil := func(v ssa.Value) bool {
		k, ok := v.(*ssa.Const)
		return ok && k.Value == nil
	}
	for i := 0; i < nres; i++ {
		t := f.Signature.Results().At(i).Type()
		switch {
		case isBool(t):
			k, w := a.boolResult(i)
			out[i] = k
			why = append(why, w...)
		case isByteSlice(t):
			k := kStable
			for _, b := range f.Blocks {
				r, ok := b.Instrs[len(b.Instrs)-1].(*ssa.Return)
				if !ok || isNil(r.Results[i]) {
					continue
				}
				switch a.kAt(r.Results[i], b) {
				case kStable:
				case kExt:
					k = kExt
				default:
					k = kTop
					why = append(why, fmt.Sprintf("%s: result #%d %s is neither stable nor an extension", f.Name(), i, r.Results[i]))
				}
			}
			// where the runs part, the run on the shorter header may only reach nil returns
			for _, b := range f.Blocks {
				iff, ok := b.Instrs[len(b.Instrs)-1].(*ssa.If)
				if !ok || k == kTop {
					continue
				}
				var xSide *ssa.BasicBlock
				switch a.k(iff.Cond) {
				case kStable:
					continue
				case kU: // false on x, true on y
					xSide = b.Succs[1]
				case kD:
					xSide = b.Succs[0]
				default:
					k = kTop
					why = append(why, fmt.Sprintf("%s: branch at block %d on a condition of unknown direction", f.Name(), b.Index))
					continue
				}
				ySide := b.Succs[0]
				if ySide == xSide {
					ySide = b.Succs[1]
				}
				// returns reachable from `from` before `stop` (nil: to the end): all nil at this position? any at all?
				rets := func(from, stop *ssa.BasicBlock) (allNil, none bool) {
					allNil, none = true, true
					seen := map[*ssa.BasicBlock]bool{}
					var walk func(x *ssa.BasicBlock)
					walk = func(x *ssa.BasicBlock) {
						if seen[x] || x == stop {
							return
						}
						seen[x] = true
						if r, ok := x.Instrs[len(x.Instrs)-1].(*ssa.Return); ok {
							none = false
							if !isNil(r.Results[i]) {
								allNil = false
							}
						}
						for _, sc := range x.Succs {
							walk(sc)
						}
					}
					walk(from)
					return
				}
				okDiv := false
				if allNil, _ := rets(xSide, nil); allNil {
					okDiv = true // the shorter run gives nil whatever the longer one gives
				} else if allNil, _ := rets(xSide, ySide); allNil && reachFrom(xSide)[ySide] && a.phisTolerant(ySide) {
					okDiv = true // the shorter run re-joins the longer one's block, giving at most nil before
				} else if _, none := rets(ySide, xSide); none && reachFrom(ySide)[xSide] && a.phisTolerant(xSide) {
					okDiv = true // the longer run re-joins the shorter one's block without returning before
				}
				if !okDiv {
					k = kTop
					why = append(why, fmt.Sprintf("%s: after the branch at block %d the shorter run can return a non-nil result #%d while the longer one is elsewhere", f.Name(), b.Index, i))
				}
				if k != kTop {
					k = kExt
				}
			}
			out[i] = k
		default:
			st := true
			for _, ak := range argK {
				if ak != kStable {
					st = false
				}
			}
			if st && c.isPure(f) {
				out[i] = kStable
			} else {
				out[i] = kTop
				why = append(why, fmt.Sprintf("%s: result #%d is not a bool or byte slice and the arguments are not stable", f.Name(), i))
			}
		}
	}
	why = append(why, a.why...)
	c.tupleMemo[key] = out
	c.tupleWhy[key] = why
	return out, why
}

func isByteSlice(t types.Type) bool {
	sl, ok := t.Underlying().(*types.Slice)
	if !ok {
		return false
	}
	b, ok := sl.Elem().Underlying().(*types.Basic)
	return ok && b.Kind() == types.Byte
}

// phisTolerant: every phi of the re-join block is classified with a kind that
// already accounts for the two runs arriving on different edges.
func (a *analysis) phisTolerant(b *ssa.BasicBlock) bool {
	for _, in := range b.Instrs {
		ph, ok := in.(*ssa.Phi)
		if !ok {
			break
		}
		switch a.k(ph) {
		case kGrow, kU:
		case kExt:
			// a slice phi of a re-join block is tainted, hence TOP, unless all arriving edges carry the same value or it is
			// the clamp form v / v[:K], for which every pairing of edges keeps "the longer run's value extends the shorter's"
		default:
			return false
		}
	}
	return true
}

func reachFrom(b *ssa.BasicBlock) map[*ssa.BasicBlock]bool {
	r := map[*ssa.BasicBlock]bool{}
	st := []*ssa.BasicBlock{b}
	for len(st) > 0 {
		x := st[len(st)-1]
		st = st[:len(st)-1]
		if r[x] {
			continue
		}
		r[x] = true
		st = append(st, x.Succs...)
	}
	return r
}

// isPureStd: standard-library functions without side effects whose result is a function of their arguments' values.
func isPureStd(name string) bool {
	for _, pre := range []string{"bytes.", "(encoding/binary.", "math/bits.", "strings.", "unicode.", "unicode/utf8.", "unicode/utf16.", "slices.", "cmp."} {
		if strings.HasPrefix(name, pre) {
			return true
		}
	}
	return false
}

func (c *ctx) isPure(f *ssa.Function) bool {
	if p, ok := c.pure[f]; ok {
		return p
	}
	c.pure[f] = true
	ok := true
	for _, b := range f.Blocks {
		for _, in := range b.Instrs {
			switch x := in.(type) {
			case *ssa.Store:
				root := x.Addr
				for {
					switch y := root.(type) {
					case *ssa.IndexAddr:
						root = y.X
						continue
					case *ssa.FieldAddr:
						root = y.X
						continue
					}
					break
				}
				if al, isA := root.(*ssa.Alloc); !isA || al.Parent() != f {
					ok = false
				}
			case *ssa.Call:
				if _, isB := x.Call.Value.(*ssa.Builtin); isB {
					continue
				}
				cal := x.Call.StaticCallee()
				if cal == nil {
					ok = false
				} else if strings.HasPrefix(pkgPath(cal), mod) {
					if !c.isPure(cal) {
						ok = false
					}
				} else if !isPureStd(cal.String()) {
					ok = false
				}
			}
		}
	}
	c.pure[f] = ok
	return ok
}

// Verdict for one detector.
type Verdict struct {
	Fn       *ssa.Function
	Monotone bool
	Kind     string
	Why      []string
	Handover []string
}

// Engine analyses detectors against a set of root-level detectors (hand-over targets).
type Engine struct{ c *ctx }

// New creates an engine; rootFns / rootGlobals are the detector functions and
// detector variables of root-level non-text nodes.
func New(prog *ssa.Program, rootFns map[*ssa.Function]bool, rootGlobals map[*ssa.Global]bool) *Engine {
	return &Engine{c: &ctx{prog: prog, memo: map[string]fnResult{}, rootDetFns: rootFns, rootDetGlobals: rootGlobals, pure: map[*ssa.Function]bool{}}}
}

// Analyse decides one detector body (header parameter growing, limit unconstrained).
func (e *Engine) Analyse(fn *ssa.Function) Verdict {
	r := e.c.analyse(fn, []kind{kExt, kTop})
	v := Verdict{Fn: fn, Kind: r.ret.String(), Why: r.why, Handover: r.handover}
	v.Monotone = r.ret == kStable || r.ret == kU
	sort.Strings(v.Handover)
	return v
}

// AnalyseGlobal decides the detector held by the package-level variable g (a
// closure built by a constructor in the package initialiser, possibly a
// combinator over other detectors).
func (e *Engine) AnalyseGlobal(g *ssa.Global, fn *ssa.Function) Verdict {
	r := e.c.analyseGlobal(g, fn, []kind{kExt, kTop})
	v := Verdict{Fn: fn, Kind: r.ret.String(), Why: r.why, Handover: r.handover}
	v.Monotone = r.ret == kStable || r.ret == kU
	sort.Strings(v.Handover)
	return v
}

var _ = strings.HasPrefix
var _ = constant.MakeBool
var _ = token.ADD
var _ = types.Typ
