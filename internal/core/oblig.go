package core

import (
	"encoding/json"
	"fmt"
	"os"
	"path/filepath"
	"sort"
	"strings"
)

// Status of an obligation.
type Status int

const (
	Discharged Status = iota
	Violated
	UndecidedSt
)

func (s Status) String() string {
	switch s {
	case Discharged:
		return "discharged"
	case Violated:
		return "violated"
	}
	return "undecided"
}

// Obligation is one construct examined by one rule.
type Obligation struct {
	Rule   string `json:"rule"`
	Key    string `json:"construct"` // rule-independent descriptor: function + canonical construct, no line numbers
	Pos    string `json:"pos"`       // file:line (informational)
	Func   string `json:"func,omitempty"`
	Status Status `json:"-"`
	St     string `json:"status"`
	By     string `json:"by,omitempty"`     // fact set / sub-rule that discharged it
	Detail string `json:"detail,omitempty"` // residual goal or the offending construct
	// Trivial marks obligations discharged without any reasoning (e.g. a
	// constant index into a constant-length array); they are counted in
	// evaluations but not in distinct_nontrivial.
	Trivial bool `json:"trivial,omitempty"`
}

// Sink collects the obligations of one rule run.
type Sink struct {
	Rule string
	Obs  []Obligation
}

func (s *Sink) add(st Status, key, pos, fn, by, detail string, trivial bool) {
	s.Obs = append(s.Obs, Obligation{Rule: s.Rule, Key: key, Pos: pos, Func: fn, Status: st, St: st.String(), By: by, Detail: detail, Trivial: trivial})
}

// OK records a discharged obligation.
func (s *Sink) OK(key, pos, by string) { s.add(Discharged, key, pos, "", by, "", false) }

// OKTrivial records an obligation that needed no reasoning.
func (s *Sink) OKTrivial(key, pos, by string) { s.add(Discharged, key, pos, "", by, "", true) }

// Bad records a violated obligation.
func (s *Sink) Bad(key, pos, detail string) { s.add(Violated, key, pos, "", "", detail, false) }

// Und records an obligation the rule could not decide (exit 2).
func (s *Sink) Und(key, pos, detail string) { s.add(UndecidedSt, key, pos, "", "", detail, false) }

// Check records OK or Bad depending on cond.
func (s *Sink) Check(cond bool, key, pos, by, detailIfBad string) bool {
	if cond {
		s.OK(key, pos, by)
	} else {
		s.Bad(key, pos, detailIfBad)
	}
	return cond
}

// Rule is one static rule.
type Rule struct {
	ID   string
	Doc  string
	Min  int // minimum number of obligations the rule must produce (frozen from the pinned tree)
	Run  func(c *Ctx, s *Sink)
	Slow bool // only in the thorough tier
}

// Property binds rules to a property id.
type Property struct {
	ID          string
	Level       string // evidence level
	Explanation string
	NotCovered  []string
	Rules       []*Rule
	Trusted     []string
	LevelText   string // MANIFEST level_claimed.text
	Technique   string // MANIFEST technique
	DesignRef   string
}

// RunRule executes a rule, converting Bail panics to an undecided obligation.
func RunRule(c *Ctx, r *Rule) (obs []Obligation) {
	s := &Sink{Rule: r.ID}
	defer func() {
		if x := recover(); x != nil {
			if u, ok := x.(Undecided); ok {
				s.Und("rule-setup", "-", u.Msg)
			} else {
				s.Und("rule-panic", "-", fmt.Sprintf("analyser panic: %v", x))
				if os.Getenv("MTVERIF_PANIC") != "" {
					panic(x)
				}
			}
		}
		obs = s.Obs
		if len(obs) < r.Min {
			obs = append(obs, Obligation{Rule: r.ID, Key: "instance-count", Pos: "-", Status: UndecidedSt, St: "undecided",
				Detail: fmt.Sprintf("rule produced %d obligations, frozen minimum is %d (a rule that matches nothing must not pass)", len(s.Obs), r.Min)})
		}
	}()
	r.Run(c, s)
	return
}

// ---- known findings ----

// Finding is one line of known_findings.txt.
type Finding struct {
	Kind      string // open | fixed
	Property  string
	Rule      string
	Construct string
	Rest      string
}

// LoadFindings parses the committed known-findings file.
func LoadFindings(path string) ([]Finding, error) {
	b, err := os.ReadFile(path)
	if err != nil {
		if os.IsNotExist(err) {
			return nil, nil
		}
		return nil, err
	}
	var out []Finding
	for _, ln := range strings.Split(string(b), "\n") {
		ln = strings.TrimSpace(ln)
		if ln == "" || strings.HasPrefix(ln, "#") {
			continue
		}
		var f Finding
		switch {
		case strings.HasPrefix(ln, "open:"):
			f.Kind = "open"
			ln = strings.TrimSpace(strings.TrimPrefix(ln, "open:"))
		case strings.HasPrefix(ln, "fixed:"):
			f.Kind = "fixed"
			ln = strings.TrimSpace(strings.TrimPrefix(ln, "fixed:"))
		default:
			return nil, fmt.Errorf("known findings: unrecognised line %q", ln)
		}
		// key=value fields; construct may be quoted
		rest := ln
		for _, k := range []string{"property", "rule", "construct"} {
			pfx := k + "="
			i := strings.Index(rest, pfx)
			if i < 0 {
				continue
			}
			v := rest[i+len(pfx):]
			var val string
			if strings.HasPrefix(v, "\"") {
				j := strings.Index(v[1:], "\"")
				if j < 0 {
					return nil, fmt.Errorf("known findings: unterminated quote in %q", ln)
				}
				val = v[1 : 1+j]
				v = v[j+2:]
			} else {
				j := strings.IndexAny(v, " \t")
				if j < 0 {
					j = len(v)
				}
				val = v[:j]
				v = v[j:]
			}
			rest = strings.TrimSpace(rest[:i] + v)
			switch k {
			case "property":
				f.Property = val
			case "rule":
				f.Rule = val
			case "construct":
				f.Construct = val
			}
		}
		f.Rest = rest
		out = append(out, f)
	}
	return out, nil
}

// ---- result of a property run ----

// Result aggregates one property run.
type Result struct {
	Property  *Property
	Tier      string
	Seed      int
	Obs       []Obligation
	Known     []Obligation // violated but listed as open finding
	Viol      []Obligation
	Und       []Obligation
	WallS     float64
	Funcs     int
	Extra     map[string]interface{}
	Rules     []string
	ReportDir string
}

// Classify splits obligations using the open known findings.
func (r *Result) Classify(fs []Finding) {
	for _, o := range r.Obs {
		switch o.Status {
		case Violated:
			known := false
			for _, f := range fs {
				if f.Kind == "open" && f.Property == r.Property.ID && f.Rule == o.Rule && f.Construct == o.Key {
					known = true
				}
			}
			if known {
				r.Known = append(r.Known, o)
			} else {
				r.Viol = append(r.Viol, o)
			}
		case UndecidedSt:
			r.Und = append(r.Und, o)
		}
	}
}

func sample(obs []Obligation, n int) []interface{} {
	// pick a spread: first of every rule, then fill
	var out []interface{}
	seen := map[string]int{}
	for _, o := range obs {
		if o.Trivial {
			continue
		}
		if seen[o.Rule] < 2 && len(out) < n {
			seen[o.Rule]++
			out = append(out, o)
		}
	}
	for _, o := range obs {
		if len(out) >= n {
			break
		}
		if o.Status != Discharged {
			out = append(out, o)
		}
	}
	if len(out) == 0 && len(obs) > 0 {
		out = append(out, obs[0])
	}
	return out
}

// WriteEvidence writes /verif/evidence/<id>.json.
func (r *Result) WriteEvidence(path, checkerCmd string, assumptions []string) error {
	distinct := map[string]bool{}
	disch := 0
	perRule := map[string]map[string]int{}
	for _, o := range r.Obs {
		if !o.Trivial {
			distinct[o.Rule+"|"+o.Key] = true
		}
		if o.Status == Discharged {
			disch++
		}
		m := perRule[o.Rule]
		if m == nil {
			m = map[string]int{}
			perRule[o.Rule] = m
		}
		m["obligations"]++
		m[o.Status.String()]++
	}
	cov := map[string]interface{}{
		"evaluations":         len(r.Obs),
		"distinct_nontrivial": len(distinct),
		"rule": "every construct matched by each static rule of this property on /repo's current source is one obligation " +
			"(key = rule + function + canonical construct descriptor, never a line); an obligation is non-trivial unless the rule " +
			"discharged it without reasoning (marked trivial); distinct = distinct (rule, construct) keys",
		"samples":            sample(r.Obs, 12),
		"obligations":        len(r.Obs),
		"discharged":         disch,
		"checker_cmd":        checkerCmd,
		"trusted_base":       r.Property.Trusted,
		"explanation":        r.Property.Explanation,
		"not_covered":        r.Property.NotCovered,
		"rules":              r.Rules,
		"per_rule":           perRule,
		"functions_analysed": r.Funcs,
		"known_findings":     len(r.Known),
		"undecided":          len(r.Und),
		"exhaustive":         true,
	}
	for k, v := range r.Extra {
		cov[k] = v
	}
	ev := map[string]interface{}{
		"property_id": r.Property.ID,
		"tier":        r.Tier,
		"seed":        r.Seed,
		"level":       r.Property.Level,
		"coverage":    cov,
		"assumptions": assumptions,
		"wall_s":      r.WallS,
		"violations":  len(r.Viol),
	}
	b, err := json.MarshalIndent(ev, "", " ")
	if err != nil {
		return err
	}
	if err := os.MkdirAll(filepath.Dir(path), 0o755); err != nil {
		return err
	}
	return os.WriteFile(path, append(b, '\n'), 0o644)
}

// WriteReports writes one report per violation and returns the paths.
func (r *Result) WriteReports(dir, repo string) []string {
	os.MkdirAll(dir, 0o755)
	var out []string
	sort.SliceStable(r.Viol, func(i, j int) bool { return r.Viol[i].Rule+r.Viol[i].Key < r.Viol[j].Rule+r.Viol[j].Key })
	for i, o := range r.Viol {
		p := filepath.Join(dir, fmt.Sprintf("%s-%d.json", r.Property.ID, i+1))
		b, _ := json.MarshalIndent(map[string]interface{}{
			"property": r.Property.ID, "rule": o.Rule, "construct": o.Key, "pos": o.Pos, "detail": o.Detail,
			"repo": repo, "tier": r.Tier,
		}, "", " ")
		os.WriteFile(p, append(b, '\n'), 0o644)
		out = append(out, p)
	}
	return out
}
