// Package core holds the loader and the obligation / evidence / report
// plumbing shared by every rule of mtverif.
package core

import (
	"fmt"
	"go/token"
	"go/types"
	"os"
	"path/filepath"
	"sort"
	"strings"
	"sync"

	"golang.org/x/tools/go/callgraph"
	"golang.org/x/tools/go/callgraph/cha"
	"golang.org/x/tools/go/callgraph/vta"
	"golang.org/x/tools/go/packages"
	"golang.org/x/tools/go/ssa"
	"golang.org/x/tools/go/ssa/ssautil"
)

// Mod is the module path of the analysed repository.
const Mod = "github.com/gabriel-vasile/mimetype"

// Undecided is the panic value used by rules that cannot set themselves up
// (anchor not found, tree not extractable ...). It maps to exit status 2 and
// never to a VIOLATION line.
type Undecided struct{ Msg string }

func (u Undecided) Error() string { return u.Msg }

// Bail aborts the current rule as undecided.
func Bail(format string, a ...interface{}) {
	panic(Undecided{fmt.Sprintf(format, a...)})
}

// Ctx is one loaded, type-checked, SSA-built view of a repository tree.
type Ctx struct {
	Dir     string
	Fset    *token.FileSet
	Pkgs    []*packages.Package
	ByPath  map[string]*packages.Package
	Prog    *ssa.Program
	SSA     map[string]*ssa.Package // by package path
	ModPkgs []*packages.Package     // packages of the module, sorted by path

	allOnce sync.Once
	all     []*ssa.Function // module functions with bodies (incl. init, closures)
	cgOnce  sync.Once
	cg      *callgraph.Graph

	Memo map[string]interface{} // engines cache their per-ctx state here
}

// Load type-checks dir/... (non-test) with dependencies and builds SSA.
func Load(dir string, extraEnv ...string) (*Ctx, error) {
	env := os.Environ()
	env = append(env, "GOWORK=off", "GOFLAGS=-mod=mod", "GOPROXY=off", "GOSUMDB=off", "GOTOOLCHAIN=local")
	env = append(env, extraEnv...)
	cfg := &packages.Config{Mode: packages.LoadAllSyntax, Dir: dir, Tests: false, Env: env}
	pkgs, err := packages.Load(cfg, "./...")
	if err != nil {
		return nil, fmt.Errorf("load %s: %v", dir, err)
	}
	if len(pkgs) == 0 {
		return nil, fmt.Errorf("load %s: no packages", dir)
	}
	var errs []string
	packages.Visit(pkgs, nil, func(p *packages.Package) {
		for _, e := range p.Errors {
			errs = append(errs, e.Error())
		}
	})
	if len(errs) > 0 {
		return nil, fmt.Errorf("load %s: %d type/parse errors, first: %s", dir, len(errs), errs[0])
	}
	c := &Ctx{Dir: dir, Pkgs: pkgs, ByPath: map[string]*packages.Package{}, SSA: map[string]*ssa.Package{}, Memo: map[string]interface{}{}}
	prog, _ := ssautil.AllPackages(pkgs, ssa.InstantiateGenerics)
	prog.Build()
	c.Prog = prog
	c.Fset = prog.Fset
	packages.Visit(pkgs, nil, func(p *packages.Package) {
		c.ByPath[p.PkgPath] = p
		if sp := prog.Package(p.Types); sp != nil {
			c.SSA[p.PkgPath] = sp
		}
		if p.PkgPath == Mod || strings.HasPrefix(p.PkgPath, Mod+"/") {
			c.ModPkgs = append(c.ModPkgs, p)
		}
	})
	sort.Slice(c.ModPkgs, func(i, j int) bool { return c.ModPkgs[i].PkgPath < c.ModPkgs[j].PkgPath })
	if c.ByPath[Mod] == nil {
		return nil, fmt.Errorf("load %s: package %s not found", dir, Mod)
	}
	return c, nil
}

// FuncPkg returns the package owning f (closures inherit their parent's).
func FuncPkg(f *ssa.Function) *ssa.Package {
	for p := f; p != nil; p = p.Parent() {
		if p.Pkg != nil {
			return p.Pkg
		}
	}
	if f != nil && f.Origin() != nil {
		return FuncPkg(f.Origin())
	}
	return nil
}

// InMod reports whether f belongs to the analysed module.
func InMod(f *ssa.Function) bool {
	if f == nil {
		return false
	}
	pk := FuncPkg(f)
	if pk == nil {
		return false
	}
	p := pk.Pkg.Path()
	return p == Mod || strings.HasPrefix(p, Mod+"/")
}

// AllModFuncs returns every module function with a body, including package
// initialisers and closures, in a stable order.
func (c *Ctx) AllModFuncs() []*ssa.Function {
	c.allOnce.Do(func() {
		for f := range ssautil.AllFunctions(c.Prog) {
			if InMod(f) && f.Blocks != nil {
				c.all = append(c.all, f)
			}
		}
		sort.Slice(c.all, func(i, j int) bool {
			a, b := c.all[i], c.all[j]
			if a.String() != b.String() {
				return a.String() < b.String()
			}
			return a.Pos() < b.Pos()
		})
	})
	return c.all
}

// SrcFuncs is AllModFuncs without synthetic functions (init, wrappers).
func (c *Ctx) SrcFuncs() []*ssa.Function {
	var out []*ssa.Function
	for _, f := range c.AllModFuncs() {
		if f.Synthetic == "" {
			out = append(out, f)
		}
	}
	return out
}

// CallGraph returns the VTA call graph seeded by CHA over the whole program.
func (c *Ctx) CallGraph() *callgraph.Graph {
	c.cgOnce.Do(func() {
		c.cg = vta.CallGraph(ssautil.AllFunctions(c.Prog), cha.CallGraph(c.Prog))
	})
	return c.cg
}

// Pos renders a position relative to the repository directory.
func (c *Ctx) Pos(p token.Pos) string {
	if !p.IsValid() {
		return "-"
	}
	q := c.Fset.Position(p)
	rel, err := filepath.Rel(c.Dir, q.Filename)
	if err != nil || strings.HasPrefix(rel, "..") {
		rel = q.Filename
	}
	return fmt.Sprintf("%s:%d", rel, q.Line)
}

// PosCol is Pos with the column.
func (c *Ctx) PosCol(p token.Pos) string {
	if !p.IsValid() {
		return "-"
	}
	q := c.Fset.Position(p)
	rel, err := filepath.Rel(c.Dir, q.Filename)
	if err != nil || strings.HasPrefix(rel, "..") {
		rel = q.Filename
	}
	return fmt.Sprintf("%s:%d:%d", rel, q.Line, q.Column)
}

// FName is a short stable name for a function: pkgbase.(Recv).Name or
// pkgbase.Name$k for closures.
func FName(f *ssa.Function) string {
	if f == nil {
		return "<nil>"
	}
	s := f.String()
	s = strings.ReplaceAll(s, Mod+"/internal/", "")
	s = strings.ReplaceAll(s, Mod, "mimetype")
	return s
}

// Func looks a package-level function up by package path and name.
func (c *Ctx) Func(pkgPath, name string) *ssa.Function {
	if p := c.SSA[pkgPath]; p != nil {
		return p.Func(name)
	}
	return nil
}

// Method looks up method name on *T or T of the named type typ in pkgPath.
func (c *Ctx) Method(pkgPath, typ, name string) *ssa.Function {
	p := c.ByPath[pkgPath]
	if p == nil {
		return nil
	}
	obj := p.Types.Scope().Lookup(typ)
	if obj == nil {
		return nil
	}
	for _, t := range []types.Type{types.NewPointer(obj.Type()), obj.Type()} {
		ms := c.Prog.MethodSets.MethodSet(t)
		for i := 0; i < ms.Len(); i++ {
			if ms.At(i).Obj().Name() == name {
				return c.Prog.MethodValue(ms.At(i))
			}
		}
	}
	return nil
}

// MustFunc is Func that bails (undecided) when the anchor is missing.
func (c *Ctx) MustFunc(pkgPath, name string) *ssa.Function {
	f := c.Func(pkgPath, name)
	if f == nil || f.Blocks == nil {
		Bail("anchor function %s.%s not found", pkgPath, name)
	}
	return f
}

// MustMethod is Method that bails when the anchor is missing.
func (c *Ctx) MustMethod(pkgPath, typ, name string) *ssa.Function {
	f := c.Method(pkgPath, typ, name)
	if f == nil || f.Blocks == nil {
		Bail("anchor method %s.(%s).%s not found", pkgPath, typ, name)
	}
	return f
}

// Global looks a package-level variable up.
func (c *Ctx) Global(pkgPath, name string) *ssa.Global {
	if p := c.SSA[pkgPath]; p != nil {
		if g, ok := p.Members[name].(*ssa.Global); ok {
			return g
		}
	}
	return nil
}

// Package paths of the module.
const (
	PkgRoot    = Mod
	PkgMagic   = Mod + "/internal/magic"
	PkgJSON    = Mod + "/internal/json"
	PkgCharset = Mod + "/internal/charset"
)
