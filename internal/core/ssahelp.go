package core

import (
	"go/constant"
	"go/token"
	"go/types"

	"golang.org/x/tools/go/ssa"
)

// ConstInt returns the integer value of a constant SSA value.
func ConstInt(v ssa.Value) (int64, bool) {
	k, ok := v.(*ssa.Const)
	if !ok || k.Value == nil {
		return 0, false
	}
	if k.Value.Kind() != constant.Int {
		return 0, false
	}
	i, ok := constant.Int64Val(k.Value)
	return i, ok
}

// IsConstInt reports whether v is the integer constant want.
func IsConstInt(v ssa.Value, want int64) bool {
	i, ok := ConstInt(v)
	return ok && i == want
}

// ConstString returns the value of a constant string.
func ConstString(v ssa.Value) (string, bool) {
	k, ok := v.(*ssa.Const)
	if !ok || k.Value == nil || k.Value.Kind() != constant.String {
		return "", false
	}
	return constant.StringVal(k.Value), true
}

// ConstBool returns the value of a constant bool.
func ConstBool(v ssa.Value) (bool, bool) {
	k, ok := v.(*ssa.Const)
	if !ok || k.Value == nil || k.Value.Kind() != constant.Bool {
		return false, false
	}
	return constant.BoolVal(k.Value), true
}

// IsNilConst reports whether v is the nil constant.
func IsNilConst(v ssa.Value) bool {
	k, ok := v.(*ssa.Const)
	return ok && k.Value == nil
}

// Reach returns the blocks reachable from b (including b).
func Reach(from *ssa.BasicBlock) map[*ssa.BasicBlock]bool {
	r := map[*ssa.BasicBlock]bool{}
	st := []*ssa.BasicBlock{from}
	for len(st) > 0 {
		x := st[len(st)-1]
		st = st[:len(st)-1]
		if r[x] {
			continue
		}
		r[x] = true
		st = append(st, x.Succs...)
	}
	return r
}

// ReachAvoiding returns blocks reachable from `from` without entering `avoid`.
func ReachAvoiding(from *ssa.BasicBlock, avoid map[*ssa.BasicBlock]bool) map[*ssa.BasicBlock]bool {
	r := map[*ssa.BasicBlock]bool{}
	if avoid[from] {
		return r
	}
	st := []*ssa.BasicBlock{from}
	for len(st) > 0 {
		x := st[len(st)-1]
		st = st[:len(st)-1]
		if r[x] || avoid[x] {
			continue
		}
		r[x] = true
		st = append(st, x.Succs...)
	}
	return r
}

// EdgeDominates: is b only reachable through the edge from->to?
func EdgeDominates(from, to, b *ssa.BasicBlock) bool {
	return len(to.Preds) == 1 && to.Preds[0] == from && (to == b || to.Dominates(b))
}

// Callee returns the statically resolved callee of a call instruction.
func Callee(in ssa.CallInstruction) *ssa.Function {
	if in == nil {
		return nil
	}
	return in.Common().StaticCallee()
}

// CalleeIs reports whether the call's static callee is pkgPath.name (package
// function) — resolved through the type checker, not by text.
func CalleeIs(c *ssa.CallCommon, pkgPath, name string) bool {
	f := c.StaticCallee()
	if f == nil {
		return false
	}
	if f.Signature.Recv() != nil {
		return false
	}
	o := f.Object()
	if o == nil || o.Pkg() == nil {
		// instantiated generic
		if f.Origin() != nil {
			o = f.Origin().Object()
		}
		if o == nil || o.Pkg() == nil {
			return false
		}
	}
	return o.Pkg().Path() == pkgPath && o.Name() == name
}

// MethodCalleeIs reports whether the call's callee is method name on the
// named type pkgPath.typ (pointer or value receiver), static or via interface.
func MethodCalleeIs(c *ssa.CallCommon, pkgPath, typ, name string) bool {
	var fn *types.Func
	if c.IsInvoke() {
		fn = c.Method
	} else if f := c.StaticCallee(); f != nil {
		fn, _ = f.Object().(*types.Func)
	}
	if fn == nil || fn.Name() != name || fn.Pkg() == nil || fn.Pkg().Path() != pkgPath {
		return false
	}
	sig := fn.Type().(*types.Signature)
	if sig.Recv() == nil {
		return false
	}
	t := sig.Recv().Type()
	if p, ok := t.(*types.Pointer); ok {
		t = p.Elem()
	}
	n, ok := t.(*types.Named)
	return ok && n.Obj().Name() == typ
}

// IsBuiltin reports whether the call is to the named builtin.
func IsBuiltin(c *ssa.CallCommon, name string) bool {
	b, ok := c.Value.(*ssa.Builtin)
	return ok && b.Name() == name
}

// LoadOfField: if v is a load *(&x.f) returns x and the field index.
func LoadOfField(v ssa.Value) (base ssa.Value, field int, ok bool) {
	u, isU := v.(*ssa.UnOp)
	if !isU || u.Op != token.MUL {
		return nil, 0, false
	}
	fa, isFA := u.X.(*ssa.FieldAddr)
	if !isFA {
		return nil, 0, false
	}
	return fa.X, fa.Field, true
}

// LoadOfGlobal: if v is a load of a package variable returns it.
func LoadOfGlobal(v ssa.Value) (*ssa.Global, bool) {
	u, ok := v.(*ssa.UnOp)
	if !ok || u.Op != token.MUL {
		return nil, false
	}
	g, ok := u.X.(*ssa.Global)
	return g, ok
}

// Returns lists the return instructions of f. The synthetic recover block
// (f.Recover) is skipped: it runs only after a deferred call recovered from a
// panic, and rule R01.6 asserts that the module never calls recover().
func Returns(f *ssa.Function) []*ssa.Return {
	var out []*ssa.Return
	for _, b := range f.Blocks {
		if len(b.Instrs) == 0 || b == f.Recover {
			continue
		}
		if r, ok := b.Instrs[len(b.Instrs)-1].(*ssa.Return); ok {
			out = append(out, r)
		}
	}
	return out
}

// Calls lists call instructions (Call, Defer, Go) of f in block order.
func Calls(f *ssa.Function) []ssa.CallInstruction {
	var out []ssa.CallInstruction
	for _, b := range f.Blocks {
		for _, in := range b.Instrs {
			if c, ok := in.(ssa.CallInstruction); ok {
				out = append(out, c)
			}
		}
	}
	return out
}

// InstrIndex returns the index of in within its block.
func InstrIndex(in ssa.Instruction) int {
	for i, x := range in.Block().Instrs {
		if x == in {
			return i
		}
	}
	return -1
}

// Before reports whether a executes before b on every path reaching b
// (a's block dominates b's, or same block and earlier).
func Before(a, b ssa.Instruction) bool {
	if a.Block() == b.Block() {
		return InstrIndex(a) < InstrIndex(b)
	}
	return a.Block().Dominates(b.Block())
}

// IfOf returns the If terminating block b, if any.
func IfOf(b *ssa.BasicBlock) *ssa.If {
	if len(b.Instrs) == 0 {
		return nil
	}
	iff, _ := b.Instrs[len(b.Instrs)-1].(*ssa.If)
	return iff
}

// DomEdge is a conditional edge dominating a block: cond == val holds there.
type DomEdge struct {
	Cond ssa.Value
	Val  bool
	From *ssa.BasicBlock
}

// DominatingConds returns the branch conditions known at entry to b: for every
// dominator d of b (including b) with a single predecessor ending in an If.
func DominatingConds(b *ssa.BasicBlock) []DomEdge {
	var out []DomEdge
	for d := b; d != nil; d = d.Idom() {
		if len(d.Preds) != 1 {
			continue
		}
		p := d.Preds[0]
		iff := IfOf(p)
		if iff == nil || p.Succs[0] == p.Succs[1] {
			continue
		}
		out = append(out, DomEdge{iff.Cond, p.Succs[0] == d, p})
	}
	return out
}

// StripNot peels !x wrappers, flipping val.
func StripNot(cond ssa.Value, val bool) (ssa.Value, bool) {
	for {
		u, ok := cond.(*ssa.UnOp)
		if !ok || u.Op != token.NOT {
			return cond, val
		}
		cond, val = u.X, !val
	}
}

// IsByteSlice reports whether t is []byte.
func IsByteSlice(t types.Type) bool {
	s, ok := t.Underlying().(*types.Slice)
	if !ok {
		return false
	}
	b, ok := s.Elem().Underlying().(*types.Basic)
	return ok && b.Kind() == types.Uint8
}

// IsString reports whether t is a string type.
func IsString(t types.Type) bool {
	b, ok := t.Underlying().(*types.Basic)
	return ok && b.Info()&types.IsString != 0
}

// IsInteger reports whether t is an integer type.
func IsInteger(t types.Type) bool {
	b, ok := t.Underlying().(*types.Basic)
	return ok && b.Info()&types.IsInteger != 0
}

// Unwrap peels ChangeType / MakeInterface / ChangeInterface.
func Unwrap(v ssa.Value) ssa.Value {
	for {
		switch x := v.(type) {
		case *ssa.ChangeType:
			v = x.X
		case *ssa.MakeInterface:
			v = x.X
		case *ssa.ChangeInterface:
			v = x.X
		default:
			return v
		}
	}
}
