package selftest

import (
	"encoding/json"
	"fmt"
	"io/fs"
	"os"
	"os/exec"
	"path/filepath"
	"sort"
	"strings"
	"time"

	"mtverif/internal/core"
)

// Edit is one textual replacement (first occurrence) in a repository file.
type Edit struct{ File, Old, New string }

// Mutant is a single-instance break of a rule's clause that still compiles.
type Mutant struct {
	ID    string
	Rules []string // rules that must report it
	Edits []Edit
	Note  string
	Base  string // optional: directory (relative to the verification directory) of a behaviour-preserving patch applied first
	Prop  string // for compound cases: the property all of whose rules are run
}

// compoundCases reads compound/cases.json: a behaviour-preserving refactoring
// from the corpus plus one breaking edit inside the refactored code.
func compoundCases(prop string) []Mutant {
	b, err := os.ReadFile(filepath.Join(VerifDir, "compound", "cases.json"))
	if err != nil {
		return nil
	}
	var cs []struct {
		ID, Base, File, Old, New, Prop, Note, Expect string
		Extra                                        []struct{ File, Old, New string }
	}
	if json.Unmarshal(b, &cs) != nil {
		return nil
	}
	var out []Mutant
	for _, c := range cs {
		if c.Prop != prop || c.Expect != "" {
			continue
		}
		m := Mutant{ID: "compound-" + c.ID, Note: c.Note + " (on top of " + c.Base + ")", Base: c.Base, Prop: c.Prop, Edits: []Edit{{c.File, c.Old, c.New}}}
		for _, e := range c.Extra {
			m.Edits = append(m.Edits, Edit{e.File, e.Old, e.New})
		}
		out = append(out, m)
	}
	return out
}

var catalogue = []Mutant{
	{ID: "dcm-guard", Rules: []string{"R01.1"}, Note: "Dcm: len(raw) > 131 -> > 130", Edits: []Edit{{"internal/magic/binary.go", "return len(raw) > 131 &&", "return len(raw) > 130 &&"}}},
	{ID: "advance-neg", Rules: []string{"R01.1"}, Note: "readBuf.advance: drop n < 0", Edits: []Edit{{"internal/magic/magic.go", "if n < 0 || len(*b) < n {", "if len(*b) < n {"}}},
	{ID: "partial-rune-lower", Rules: []string{"R01.1"}, Note: "FromPlain: drop i >= 0", Edits: []Edit{{"internal/charset/charset.go", "for i := len(content) - 1; i >= 0 && i > len(content)-4; i-- {", "for i := len(content) - 1; i > len(content)-4; i-- {"}}},
	{ID: "ole-offset", Rules: []string{"R01.1"}, Note: "OLE: weaker CLSID guard", Edits: []Edit{{"internal/magic/ms_office.go", "if len(in) <= clsidOffset+16 {", "if len(in) < clsidOffset-1 {"}}},
	{ID: "zip-size-short", Rules: []string{"R01.1"}, Note: "zip walker: length guard below the size field", Edits: []Edit{{"internal/magic/zip.go", "if len(b) < 0x1E {\n\t\treturn false\n\t}\n\n\tif !b.advance(0x1E) {\n\t\treturn false\n\t}", "if len(b) < 0x10 {\n\t\treturn false\n\t}\n\tb = b[0x10:]"}}},
	{ID: "firstline-step", Rules: []string{"R01.4"}, Note: "firstLine: step removed", Edits: []Edit{{"internal/magic/magic.go", "for ; lineEnd < len(in) && in[lineEnd] != '\\n'; lineEnd++ {", "for ; lineEnd < len(in) && in[lineEnd] != '\\n'; lineEnd += 0 {"}}},
	{ID: "pool-type", Rules: []string{"R04.3"}, Note: "reader pool New returns another type", Edits: []Edit{{"internal/magic/text_csv.go", "return bufio.NewReader(nil)", "return bufio.NewWriter(nil)"}}},
	{ID: "sniffer-nil", Rules: []string{"R01.3", "R02.2"}, Note: "sniffer called without the ok test", Edits: []Edit{{"mime.go", "if f, ok := needsCharset[m.mime]; ok {", "if f, ok := needsCharset[m.mime]; ok || len(in) > 0 {"}}},
	{ID: "bad-name", Rules: []string{"R02.1"}, Note: "registered type with a space", Edits: []Edit{{"tree.go", "\"application/x-xz\"", "\"application/x xz\""}}},
	{ID: "fourth-sniffer", Rules: []string{"R12.1"}, Note: "charset on a fourth type", Edits: []Edit{{"mime.go", "\"text/xml\":   charset.FromXML,", "\"text/xml\":   charset.FromXML,\n\t\t\"text/csv\":   charset.FromPlain,"}}},
	{ID: "ancestor-params", Rules: []string{"R03.3"}, Note: "ancestors cloned with the parameter map", Edits: []Edit{{"mime.go", "pClone := p.clone(nil)", "pClone := p.clone(ps)"}}},
	{ID: "concat-charset", Rules: []string{"R02.2"}, Note: "charset concatenated instead of FormatMediaType", Edits: []Edit{{"mime.go", "clonedMIME = mime.FormatMediaType(m.mime, ps)", "clonedMIME = m.mime + \"; charset=\" + ps[\"charset\"]"}}},
	{ID: "err-root", Rules: []string{"R02.5"}, Note: "error return carries the shared root", Edits: []Edit{{"mimetype.go", "f, err := os.Open(path)\n\tif err != nil {\n\t\treturn errMIME, err", "f, err := os.Open(path)\n\tif err != nil {\n\t\treturn root, err"}}},
	{ID: "third-sentinel", Rules: []string{"R02.5"}, Note: "a third error sentinel is excused", Edits: []Edit{{"mimetype.go", "err != io.ErrUnexpectedEOF {", "err != io.ErrUnexpectedEOF && err != io.ErrClosedPipe {"}}},
	{ID: "child-half", Rules: []string{"R03.2"}, Note: "children judge half the header", Edits: []Edit{{"mime.go", "return c.match(in, readLimit)", "return c.match(in[:len(in)/2], readLimit)"}}},
	{ID: "double-parent", Rules: []string{"R03.1"}, Note: "a node listed under two parents", Edits: []Edit{{"tree.go", "magic.Ogg, oggAudio, oggVideo)", "magic.Ogg, oggAudio, oggVideo, png)"}}},
	{ID: "slice-off-by-one", Rules: []string{"R04.1"}, Note: "Detect cuts one byte late", Edits: []Edit{{"mimetype.go", "if l > 0 && len(in) > int(l) {", "if l > 0 && len(in) > int(l)+1 {"}}},
	{ID: "detector-writes", Rules: []string{"R04.2"}, Note: "a detector writes its input", Edits: []Edit{{"internal/magic/text.go", "func Svg(raw []byte, limit uint32) bool {\n", "func Svg(raw []byte, limit uint32) bool {\n\tcopy(raw, raw[:0])\n"}}},
	{ID: "no-reset", Rules: []string{"R04.3"}, Note: "pooled scanner not reset", Edits: []Edit{{"internal/json/parser.go", "\tp.reset()\n", "\t_ = p\n"}}},
	{ID: "reset-misses-field", Rules: []string{"R04.3"}, Note: "reset forgets a field", Edits: []Edit{{"internal/json/parser.go", "\tp.querySatisfied = false\n\tp.failed = false", "\tp.failed = false"}}},
	{ID: "buf-plus-one", Rules: []string{"R05.2"}, Note: "ReadFull buffer one byte larger", Edits: []Edit{{"mimetype.go", "in = make([]byte, l)", "in = make([]byte, l+1)"}}},
	{ID: "no-cut", Rules: []string{"R05.2"}, Note: "buffer not cut to bytes read", Edits: []Edit{{"mimetype.go", "\t\tin = in[:n]\n", "\t\t_ = n\n"}}},
	{ID: "plain-limit", Rules: []string{"R06.1"}, Note: "plain read of the limit", Edits: []Edit{{"mimetype.go", "func Detect(in []byte) *MIME {\n\t// Using atomic because readLimit can be written at the same time in other goroutine.\n\tl := atomic.LoadUint32(&readLimit)", "func Detect(in []byte) *MIME {\n\tl := readLimit"}}},
	{ID: "lookup-unlocked", Rules: []string{"R06.2"}, Note: "Lookup without the lock", Edits: []Edit{{"mimetype.go", "\tmu.RLock()\n\tdefer mu.RUnlock()\n\treturn root.lookup(mime)", "\treturn root.lookup(mime)"}}},
	{ID: "extend-rlock", Rules: []string{"R06.2", "R14.1"}, Note: "Extend publishes under the read lock", Edits: []Edit{{"mime.go", "\tmu.Lock()\n\tm.children = append([]*MIME{c}, m.children...)\n\tmu.Unlock()", "\tmu.RLock()\n\tm.children = append([]*MIME{c}, m.children...)\n\tmu.RUnlock()"}}},
	{ID: "store-after-publication", Rules: []string{"R06.3"}, Note: "accessor writes a node field", Edits: []Edit{{"mime.go", "func (m *MIME) Extension() string {\n\treturn m.extension", "func (m *MIME) Extension() string {\n\tm.extension = m.extension + \"\"\n\treturn m.extension"}}},
	{ID: "shared-append", Rules: []string{"R06.4"}, Note: "lookup appends to the alias slice again", Edits: []Edit{{"mime.go", "for _, n := range m.aliases {\n\t\tif n == mime {", "for _, n := range append(m.aliases, m.mime) {\n\t\tif n == mime {"}}},
	{ID: "package-cache", Rules: []string{"R06.5"}, Note: "result memoised in a package variable", Edits: []Edit{{"mime.go", "\treturn m.cloneHierarchy(ps)\n}", "\tlastResult = m.cloneHierarchy(ps)\n\treturn lastResult\n}\n\nvar lastResult *MIME"}}},
	{ID: "second-load", Rules: []string{"R06.6"}, Note: "limit loaded again for the walk", Edits: []Edit{{"mimetype.go", "\tdefer mu.RUnlock()\n\treturn root.match(in, l)\n}", "\tdefer mu.RUnlock()\n\treturn root.match(in, atomic.LoadUint32(&readLimit))\n}"}}},
	{ID: "shared-result", Rules: []string{"R06.7"}, Note: "walk returns the shared node when there is no charset", Edits: []Edit{{"mime.go", "\treturn m.cloneHierarchy(ps)\n}", "\tif len(ps) > 0 {\n\t\treturn m.cloneHierarchy(ps)\n\t}\n\treturn m\n}"}}},
	{ID: "text-1b", Rules: []string{"R07.1"}, Note: "ESC counted as binary", Edits: []Edit{{"internal/magic/text.go", "0x0E <= b && b <= 0x1A ||", "0x0E <= b && b <= 0x1B ||"}}},
	{ID: "text-512", Rules: []string{"R07.2"}, Note: "text scan limited to 512 bytes", Edits: []Edit{{"internal/magic/text.go", "\tfor _, b := range raw {\n\t\tif b <= 0x08 ||", "\tfor _, b := range raw[:min(len(raw), 512)] {\n\t\tif b <= 0x08 ||"}}},
	{ID: "bom-order", Rules: []string{"R07.3"}, Note: "utf-16le before utf-32le", Edits: []Edit{{"internal/charset/charset.go", "\t\t{[]byte{0xFF, 0xFE, 0x00, 0x00}, \"utf-32le\"},\n\t\t{[]byte{0xFE, 0xFF}, \"utf-16be\"},\n\t\t{[]byte{0xFF, 0xFE}, \"utf-16le\"},", "\t\t{[]byte{0xFF, 0xFE}, \"utf-16le\"},\n\t\t{[]byte{0xFF, 0xFE, 0x00, 0x00}, \"utf-32le\"},\n\t\t{[]byte{0xFE, 0xFF}, \"utf-16be\"},"}}},
	{ID: "text-not-last", Rules: []string{"R07.4"}, Note: "text before parquet", Edits: []Edit{{"tree.go", "cabIS, jxr, parquet,\n\t// Keep text last because it is the slowest check.\n\ttext,\n)", "cabIS, jxr,\n\t// Keep text last because it is the slowest check.\n\ttext, parquet,\n)"}}},
	{ID: "json-trunc-le", Rules: []string{"R08.1"}, Note: "len == limit treated as whole", Edits: []Edit{{"internal/magic/text.go", "if limit == 0 || lraw < int(limit) {", "if limit == 0 || lraw <= int(limit) {"}}},
	{ID: "nested-failure-swallowed", Rules: []string{"R08.2"}, Note: "nested failure returns n again", Edits: []Edit{{"internal/json/parser.go", "\t\tif lvl > 0 {\n\t\t\treturn 0\n\t\t}\n\t\treturn n", "\t\treturn n"}}},
	{ID: "inspected-is-len", Rules: []string{"R08.3"}, Note: "entry reports len(raw) as inspected", Edits: []Edit{{"internal/json/parser.go", "return got, p.ib, p.firstToken, p.querySatisfied", "return got, len(raw), p.firstToken, p.querySatisfied"}}},
	{ID: "object-closed-by-bracket", Rules: []string{"R09.3"}, Note: "']' also closes an object", Edits: []Edit{{"internal/json/parser.go", "\t\tcase '}':\n\t\t\tp.currPath = p.currPath[:len(p.currPath)-1]", "\t\tcase '}', ']':\n\t\t\tp.currPath = p.currPath[:len(p.currPath)-1]"}}},
	{ID: "geo-accepts-array", Rules: []string{"R09.4"}, Note: "GeoJSON mask admits arrays", Edits: []Edit{{"internal/magic/text.go", "json.QueryGeo, json.TokObject)", "json.QueryGeo, json.TokObject|json.TokArray)"}}},
	{ID: "array-pop-missing", Rules: []string{"R10.1"}, Note: "pop after a non-empty array removed", Edits: []Edit{{"internal/json/parser.go", "\t\tcase ']':\n\t\t\tp.ib++\n\t\t\tp.currPath = p.currPath[:len(p.currPath)-1]\n\t\t\treturn n + 1\n\t\tdefault:", "\t\tcase ']':\n\t\t\tp.ib++\n\t\t\treturn n + 1\n\t\tdefault:"}}},
	{ID: "geo-table", Rules: []string{"R10.2"}, Note: "RFC 7946 name misspelt", Edits: []Edit{{"internal/json/parser.go", "[]byte(`\"MultiPolygon\"`),", "[]byte(`\"MultiPolygons\"`),"}}},
	{ID: "har-after-gltf", Rules: []string{"R10.3"}, Note: "gltf before har", Edits: []Edit{{"tree.go", "magic.JSON, geoJSON, har, gltf)", "magic.JSON, geoJSON, gltf, har)"}}},
	{ID: "match-only-shallow", Rules: []string{"R10.4"}, Note: "keys matched only at shallow depth", Edits: []Edit{{"internal/json/parser.go", "if !p.querySatisfied {\n\t\t\t\tqueryMatched = queryPathMatch(qs, p.currPath)", "if !p.querySatisfied && lvl < 3 {\n\t\t\t\tqueryMatched = queryPathMatch(qs, p.currPath)"}}},
	{ID: "utf8-unvalidated", Rules: []string{"R11.3"}, Note: "utf-8 without validation", Edits: []Edit{{"internal/charset/charset.go", "if hasHighBit && utf8.Valid(content) {", "if hasHighBit && len(content) > 0 {"}}},
	{ID: "ascii-nel", Rules: []string{"R11.4"}, Note: "ASCII shortcut accepts NEL again", Edits: []Edit{{"internal/charset/charset.go", "if b >= 0x80 || textChars[b] != T {", "if textChars[b] != T {"}}},
	{ID: "trim-unconditional", Rules: []string{"R11.5"}, Note: "last rune trimmed unconditionally", Edits: []Edit{{"internal/charset/charset.go", "\t\t\tif !utf8.FullRune(content[i:]) {\n\t\t\t\tcontent = content[:i]\n\t\t\t}", "\t\t\tcontent = content[:i]"}}},
	{ID: "c1-range", Rules: []string{"R11.6"}, Note: "C1 range starts too late (NEL 0x85 not flagged)", Edits: []Edit{{"internal/charset/charset.go", "if b >= 0x80 && b <= 0x9F {", "if b >= 0x86 && b <= 0x9F {"}}},
	{ID: "html-plain-sniffer", Rules: []string{"R12.1"}, Note: "text/html mapped to the plain sniffer", Edits: []Edit{{"mime.go", "\"text/html\":  charset.FromHTML,", "\"text/html\":  charset.FromPlain,"}}},
	{ID: "no-charset-reader", Rules: []string{"R12.2"}, Note: "decoder without CharsetReader", Edits: []Edit{{"internal/charset/charset.go", "\tdec.CharsetReader = func(_ string, input io.Reader) (io.Reader, error) {\n\t\treturn input, nil\n\t}", "\t_ = io.EOF"}}},
	{ID: "xml-label-case", Rules: []string{"R12.3"}, Note: "XML label not lower-cased", Edits: []Edit{{"internal/charset/charset.go", "return strings.ToLower(xmlEncoding(string(t.Inst)))", "return xmlEncoding(string(t.Inst))"}}},
	{ID: "html-lowercase-range", Rules: []string{"R12.3"}, Note: "lower-casing misses Z", Edits: []Edit{{"internal/charset/charset.go", "if 'A' <= c && c <= 'Z' {\n\t\t\t\t\t\tval[i] = c + 0x20", "if 'A' <= c && c < 'Z' {\n\t\t\t\t\t\tval[i] = c + 0x20"}}},
	{ID: "pragma-any", Rules: []string{"R12.4"}, Note: "content attribute accepted without http-equiv", Edits: []Edit{{"internal/charset/charset.go", "if needPragma == dontKnow || needPragma == doNeedPragma && !gotPragma {", "if needPragma == dontKnow || needPragma == doNeedPragma && gotPragma {"}}},
	{ID: "droplast-le", Rules: []string{"R13.1"}, Note: "len == limit not cut", Edits: []Edit{{"internal/magic/text_csv.go", "if readLimit == 0 || uint32(len(b)) < readLimit {", "if readLimit == 0 || uint32(len(b)) <= readLimit {"}}},
	{ID: "ndjson-inspected", Rules: []string{"R13.2"}, Note: "NDJSON judged by inspected bytes again", Edits: []Edit{{"internal/magic/text.go", "parsed, _, firstToken, _ := json.Parse(json.QueryNone, l)\n\t\tif len(l) != parsed {", "_, inspected, firstToken, _ := json.Parse(json.QueryNone, l)\n\t\tif len(l) != inspected {"}}},
	{ID: "ndjson-one-line", Rules: []string{"R13.3"}, Note: "one line suffices", Edits: []Edit{{"internal/magic/text.go", "return lCount > 1 && objOrArr > 0", "return lCount > 0 && objOrArr > 0"}}},
	{ID: "csv-one-record", Rules: []string{"R13.3"}, Note: "one record suffices", Edits: []Edit{{"internal/magic/text_csv.go", "return r.FieldsPerRecord > 1 && lines > 1", "return r.FieldsPerRecord > 1 && lines > 0"}}},
	{ID: "csv-ragged", Rules: []string{"R13.3"}, Note: "ragged tables allowed", Edits: []Edit{{"internal/magic/text_csv.go", "\tr.Comment = '#'\n", "\tr.Comment = '#'\n\tr.FieldsPerRecord = -1\n"}}},
	{ID: "extend-append", Rules: []string{"R14.1"}, Note: "extension appended instead of prepended", Edits: []Edit{{"mime.go", "m.children = append([]*MIME{c}, m.children...)", "m.children = append(m.children, c)"}}},
	{ID: "lookup-no-type", Rules: []string{"R14.4"}, Note: "lookup ignores the main type", Edits: []Edit{{"mime.go", "\tif m.mime == mime {\n\t\treturn m\n\t}\n\tfor _, n := range m.aliases {", "\tfor _, n := range m.aliases {"}}},
	{ID: "is-unparsed", Rules: []string{"R15.1"}, Note: "Is compares the raw type string", Edits: []Edit{{"mime.go", "found, _, _ := mime.ParseMediaType(m.mime)", "found := m.mime"}}},
	{ID: "alias-case", Rules: []string{"R15.2"}, Note: "alias with an upper-case letter", Edits: []Edit{{"tree.go", "alias(\"application/x-zip\",", "alias(\"application/X-zip\","}}},
	{ID: "no-cap", Rules: []string{"R16.2"}, Note: "pool constructor without the cap", Edits: []Edit{{"internal/json/parser.go", "return &parserState{maxRecursion: maxRecursion}", "return &parserState{}"}}},
	{ID: "depth-not-growing", Rules: []string{"R16.2"}, Note: "array depth not incremented", Edits: []Edit{{"internal/json/parser.go", "rv = p.consumeArray(b[n:], qs, lvl+1)", "rv = p.consumeArray(b[n:], qs, lvl)"}}},
	{ID: "zip-upper-bound", Rules: []string{"R17.1"}, Note: "Zip bounded above", Edits: []Edit{{"internal/magic/zip.go", "return len(raw) > 3 &&\n\t\traw[0] == 0x50", "return len(raw) > 3 && len(raw) < 100000 &&\n\t\traw[0] == 0x50"}}},
	{ID: "handover-target-gone", Rules: []string{"R17.1"}, Note: "accdb no longer root-level", Edits: []Edit{{"tree.go", "hdr, mrc, mdb, accdb, zstd,", "hdr, mrc, mdb, zstd,"}}},
	{ID: "tar-window", Rules: []string{"R18.1"}, Note: "blanked window one byte longer", Edits: []Edit{{"internal/magic/archive.go", "if 148 <= i && i < 156 {", "if 148 <= i && i <= 156 {"}}},
	{ID: "tar-parse-window", Rules: []string{"R18.1"}, Note: "parsed window shifted", Edits: []Edit{{"internal/magic/archive.go", "tarParseOctal(raw[148:156])", "tarParseOctal(raw[147:155])"}}},
	{ID: "xlsx-no-mso", Rules: []string{"R19.1"}, Note: "xlsx without the first-entry list", Edits: []Edit{{"internal/magic/ms_office.go", "[]byte(\"xl/\"), true)", "[]byte(\"xl/\"), false)"}}},
	{ID: "odc-signature", Rules: []string{"R19.2"}, Note: "ODF chart signature misspelt", Edits: []Edit{{"internal/magic/zip.go", "opendocument.chart\"), 30)", "opendocument.charts\"), 30)"}}},
	{ID: "zip-loop-3", Rules: []string{"R19.5"}, Note: "one entry fewer", Edits: []Edit{{"internal/magic/zip.go", "for i := 0; i < 4; i++ {", "for i := 0; i < 3; i++ {"}}},
	{ID: "recursive-helper", Rules: []string{"R16.1"}, Note: "a new input-driven recursion", Edits: []Edit{{"internal/magic/magic.go", "func isWS(b byte) bool {", "func skipWSRec(in []byte) []byte {\n\tif len(in) > 0 && isWS(in[0]) {\n\t\treturn skipWSRec(in[1:])\n\t}\n\treturn in\n}\n\nvar _ = skipWSRec\n\nfunc isWS(b byte) bool {"}}},
	// small mutations (round 7 of the seeds, mutation sweep): one clause each of the rules added for them
	{ID: "xml-single-quote", Rules: []string{"R12.8"}, Note: "xmlEncoding accepts only the double quote", Edits: []Edit{{"internal/charset/charset.go", "if v[0] != '\\'' && v[0] != '\"' {", "if v[0] != '\"' {"}}},
	{ID: "html-selfclosing", Rules: []string{"R12.9"}, Note: "self-closing <meta/> skipped", Edits: []Edit{{"internal/charset/charset.go", "case html.StartTagToken, html.SelfClosingTagToken:", "case html.StartTagToken:"}}},
	{ID: "xml-answer-dropped", Rules: []string{"R12.10"}, Note: "FromXML ignores what its reader found", Edits: []Edit{{"internal/charset/charset.go", "if cset := fromXML(content); cset != \"\" {", "if cset := fromXML(content); false {"}}},
	{ID: "xml-procinst-negated", Rules: []string{"R12.10"}, Note: "label returned only when the token is not a processing instruction", Edits: []Edit{{"internal/charset/charset.go", "t, ok := rawT.(xml.ProcInst)\n\tif !ok {", "t, ok := rawT.(xml.ProcInst)\n\tif ok {"}}},
	{ID: "charset-attr-lost", Rules: []string{"R12.10"}, Note: "value of the charset attribute not kept", Edits: []Edit{{"internal/charset/charset.go", "\t\t\t\t\tname = string(val)\n", ""}}},
	{ID: "pragma-quotes-and", Rules: []string{"R12.11"}, Note: "quote test can never hold", Edits: []Edit{{"internal/charset/charset.go", "q == '\"' || q == '\\''", "q == '\"' && q == '\\''"}}},
	{ID: "pragma-closing-from-opening", Rules: []string{"R12.11"}, Note: "closing quote searched from the opening one", Edits: []Edit{{"internal/charset/charset.go", "\t\t\ts = s[1:]\n\t\t\tcloseQuote := strings.IndexRune(s, rune(q))", "\t\t\tcloseQuote := strings.IndexRune(s, rune(q))"}}},
	{ID: "pragma-no-trim-before-eq", Rules: []string{"R12.11"}, Note: "whitespace before = not skipped", Edits: []Edit{{"internal/charset/charset.go", "\t\ts = s[csLoc+len(\"charset\"):]\n\t\ts = strings.TrimLeft(s, \" \\t\\n\\f\\r\")\n", "\t\ts = s[csLoc+len(\"charset\"):]\n"}}},
	{ID: "index-unguarded", Rules: []string{"R01.1"}, Note: "xmlEncoding slices at the search result without testing for -1 (Index contract holds for a match only)", Edits: []Edit{{"internal/charset/charset.go", "\tidx := strings.Index(s, param)\n\tif idx == -1 {\n\t\treturn \"\"\n\t}\n", "\tidx := strings.Index(s, param)\n"}}},
	{ID: "lookback-two", Rules: []string{"R11.5"}, Note: "look-back window of two bytes", Edits: []Edit{{"internal/charset/charset.go", "i > len(content)-4; i--", "i > len(content)-3; i--"}}},
	{ID: "cut-unreachable", Rules: []string{"R11.5"}, Note: "cut behind a constant-false test", Edits: []Edit{{"internal/charset/charset.go", "if utf8.RuneStart(b) {", "if utf8.RuneStart(b) && false {"}}},
	{ID: "bom-contains", Rules: []string{"R07.3"}, Note: "mark looked for anywhere", Edits: []Edit{{"internal/charset/charset.go", "if bytes.HasPrefix(content, b.bom) {", "if bytes.Contains(content, b.bom) {"}}},
	{ID: "gate-break", Rules: []string{"R08.8"}, Note: "gate gives up at leading whitespace", Edits: []Edit{{"internal/json/parser.go", "\t\tif isSpace(raw[i]) {\n\t\t\tcontinue\n\t\t}", "\t\tif isSpace(raw[i]) {\n\t\t\tbreak\n\t\t}"}}},
	{ID: "gate-no-tab", Rules: []string{"R08.8"}, Note: "gate does not step over TAB", Edits: []Edit{{"internal/json/parser.go", "\t\tif isSpace(raw[i]) {\n\t\t\tcontinue\n\t\t}", "\t\tif raw[i] == ' ' || raw[i] == '\\n' || raw[i] == '\\r' {\n\t\t\tcontinue\n\t\t}"}}},
	{ID: "len-one-header", Rules: []string{"R08.1"}, Note: "a one-byte truncated header is refused", Edits: []Edit{{"internal/magic/text.go", "return inspected == lraw && lraw > 0", "return inspected == lraw && lraw > 1"}}},
	{ID: "put-in-called-literal", Rules: []string{"R04.3"}, Note: "deferred release turned into an immediate call", Edits: []Edit{{"internal/json/parser.go", "\tdefer func() {\n\t\t// Avoid hanging on to too much memory in extreme input cases.", "\tfunc() {\n\t\t// Avoid hanging on to too much memory in extreme input cases."}}},
	{ID: "gpkg-needle", Rules: []string{"R18.1"}, Note: "tar exclusion without the terminating NUL", Edits: []Edit{{"internal/magic/archive.go", "[]byte(\"/gpkg-1\\x00\")", "[]byte(\"/gpkg-1\")"}}},
	{ID: "gpkg-window", Rules: []string{"R18.1"}, Note: "tar exclusion searched in the whole block", Edits: []Edit{{"internal/magic/archive.go", "bytes.Contains(raw[:100], []byte(\"/gpkg-1\\x00\"))", "bytes.Contains(raw[:512], []byte(\"/gpkg-1\\x00\"))"}}},
	{ID: "zip-name-offset", Rules: []string{"R19.5"}, Note: "looped entries: name read at header + 31", Edits: []Edit{{"internal/magic/zip.go", "if !b.advance(nextHeader + 0x1E) {", "if !b.advance(nextHeader + 0x1F) {"}}},
	{ID: "zip-follow-minus-one", Rules: []string{"R19.5"}, Note: "a search that found nothing is followed", Edits: []Edit{{"internal/magic/zip.go", "\t\tif nextHeader == -1 {\n\t\t\treturn false\n\t\t}\n", ""}}},
	{ID: "zip-loop-dead", Rules: []string{"R19.5"}, Note: "looped entries never reached", Edits: []Edit{{"internal/magic/zip.go", "\t\tif nextHeader == -1 {", "\t\tif nextHeader != -1 {"}}},
	{ID: "ndjson-count-from-one", Rules: []string{"R13.3"}, Note: "line counter starts at 1", Edits: []Edit{{"internal/magic/text.go", "lCount, objOrArr := 0, 0", "lCount, objOrArr := 1, 0"}}},
	{ID: "ancestor-loop-negated", Rules: []string{"R03.3"}, Note: "ancestor loop runs while p == nil", Edits: []Edit{{"mime.go", "for p := m.Parent(); p != nil; p = p.Parent() {", "for p := m.Parent(); p == nil; p = p.Parent() {"}}},
	{ID: "extend-keeps-lock", Rules: []string{"R06.2"}, Note: "Extend returns with the write lock held", Edits: []Edit{{"mime.go", "\tm.children = append([]*MIME{c}, m.children...)\n\tmu.Unlock()\n", "\tm.children = append([]*MIME{c}, m.children...)\n"}}},
	{ID: "detect-keeps-rlock", Rules: []string{"R06.2"}, Note: "Detect never releases the read lock", Edits: []Edit{{"mimetype.go", "\tmu.RLock()\n\tdefer mu.RUnlock()\n\treturn root.match(in, l)\n}", "\tmu.RLock()\n\treturn root.match(in, l)\n}"}}},
	{ID: "colon-test-removed", Rules: []string{"R09.3"}, Note: "object scanner no longer requires ':' after the key", Edits: []Edit{{"internal/json/parser.go", "\t\tif b[n] != ':' {\n\t\t\treturn 0\n\t\t} else {\n\t\t\tn += 1\n\t\t\tp.ib++\n\t\t}\n", "\t\tn += 1\n\t\tp.ib++\n"}}},
	{ID: "clone-drops-params", Rules: []string{"R02.2"}, Note: "clone never formats the parameters into the type string", Edits: []Edit{{"mime.go", "\t\tclonedMIME = mime.FormatMediaType(m.mime, ps)\n", "\t\t_ = ps\n"}}},
	{ID: "xml-no-fallback", Rules: []string{"R12.10"}, Note: "FromXML returns the empty answer instead of falling back", Edits: []Edit{{"internal/charset/charset.go", "if cset := fromXML(content); cset != \"\" {", "if cset := fromXML(content); true {"}}},
	{ID: "extend-late-field", Rules: []string{"R14.1"}, Note: "a field of the new node is written after its publication", Edits: []Edit{{"mime.go", "\t\tparent:    m,\n\t\taliases:   aliases,\n\t}\n\n\tmu.Lock()\n\tm.children = append([]*MIME{c}, m.children...)\n\tmu.Unlock()\n", "\t\tparent:    m,\n\t}\n\n\tmu.Lock()\n\tm.children = append([]*MIME{c}, m.children...)\n\tmu.Unlock()\n\tc.aliases = aliases\n"}}},
	{ID: "put-before-wrapped-use", Rules: []string{"R04.3"}, Note: "pooled reader released before the csv reader built on it is used", Edits: []Edit{{"internal/magic/text_csv.go", "\tdefer readerPool.Put(br)\n", "\treaderPool.Put(br)\n"}}},
	{ID: "bom-extra-guard", Rules: []string{"R07.3"}, Note: "an input that is exactly a mark is passed over", Edits: []Edit{{"internal/charset/charset.go", "if bytes.HasPrefix(content, b.bom) {", "if len(content) > len(b.bom) && bytes.HasPrefix(content, b.bom) {"}}},
	{ID: "cap-too-small", Rules: []string{"R16.2"}, Note: "recursion cap below the supported depth", Edits: []Edit{{"internal/json/parser.go", "maxRecursion = 4096", "maxRecursion = 1024"}}},
	{ID: "cap-never-reached", Rules: []string{"R16.2"}, Note: "recursion cap of 2^28", Edits: []Edit{{"internal/json/parser.go", "maxRecursion = 4096", "maxRecursion = 4096 << 16"}}},
	{ID: "csv-before-json", Rules: []string{"R10.3"}, Note: "CSV consulted before JSON", Edits: []Edit{{"tree.go", "python, json, ndJSON, rtf, srt, tcl, csv, tsv,", "python, csv, json, ndJSON, rtf, srt, tcl, tsv,"}}},
	{ID: "cut-continues", Rules: []string{"R11.5"}, Note: "search goes on after the cut", Edits: []Edit{{"internal/charset/charset.go", "\t\t\t\tcontent = content[:i]\n\t\t\t}\n\t\t\tbreak\n", "\t\t\t\tcontent = content[:i]\n\t\t\t\tcontinue\n\t\t\t}\n\t\t\tbreak\n"}}},
	{ID: "xml-no-trim", Rules: []string{"R12.11"}, Note: "XML decoder sees the leading whitespace", Edits: []Edit{{"internal/charset/charset.go", "\tcontent = trimLWS(content)\n\tdec := xml.NewDecoder", "\tdec := xml.NewDecoder"}}},
	{ID: "bare-label-no-semicolon", Rules: []string{"R12.11"}, Note: "bare label not ended by ;", Edits: []Edit{{"internal/charset/charset.go", "strings.IndexAny(s, \"; \\t\\n\\f\\r\")", "strings.IndexAny(s, \" \\t\\n\\f\\r\")"}}},
	{ID: "alias-tail", Rules: []string{"R15.2"}, Note: "first alias not registered", Edits: []Edit{{"mime.go", "\tm.aliases = aliases\n\treturn m", "\tm.aliases = aliases[1:]\n\treturn m"}}},
	{ID: "tar-trimleft", Rules: []string{"R18.1"}, Note: "checksum padding stripped in front only", Edits: []Edit{{"internal/magic/archive.go", "b = bytes.Trim(b, \" \\x00\")", "b = bytes.TrimLeft(b, \" \\x00\")"}}},
	{ID: "two-limit-variables", Rules: []string{"R04.1"}, Note: "SetLimit stores into another variable", Edits: []Edit{{"mimetype.go", "atomic.StoreUint32(&readLimit, limit)", "atomic.StoreUint32(&defaultLimit, limit)"}}},
	{ID: "ndjson-parsed-less", Rules: []string{"R13.2"}, Note: "NDJSON line accepted when parsed beyond / short of its end", Edits: []Edit{{"internal/magic/text.go", "if len(l) != parsed {", "if len(l) < parsed {"}}},
	{ID: "valid-on-uncut", Rules: []string{"R11.5"}, Note: "validation of the uncut input", Edits: []Edit{{"internal/charset/charset.go", "if hasHighBit && utf8.Valid(content) {", "if hasHighBit && utf8.Valid(origContent) {"}}},
	{ID: "apk-marker-short", Rules: []string{"R19.1"}, Note: "APK entry name shortened", Edits: []Edit{{"internal/magic/zip.go", "[]byte(\"classes.dex\"),", "[]byte(\"classes\"),"}}},
	{ID: "extend-under-root", Rules: []string{"R14.1"}, Note: "Extend publishes under the root instead of its receiver", Edits: []Edit{{"mime.go", "\tm.children = append([]*MIME{c}, m.children...)\n", "\troot.children = append([]*MIME{c}, root.children...)\n"}}},
	{ID: "pool-new-shared", Rules: []string{"R04.3"}, Note: "pool New hands out one package-level object", Edits: []Edit{{"internal/json/parser.go", "var parserPool = sync.Pool{\n\tNew: func() any {\n\t\treturn &parserState{maxRecursion: maxRecursion}", "var sharedState = parserState{maxRecursion: maxRecursion}\n\nvar parserPool = sync.Pool{\n\tNew: func() any {\n\t\treturn &sharedState"}}},
	{ID: "csv-no-comment", Rules: []string{"R13.3"}, Note: "csv comment character not set", Edits: []Edit{{"internal/magic/text_csv.go", "\tr.Comment = '#'\n", ""}}},
	{ID: "ndjson-behind-csv", Rules: []string{"R10.3"}, Note: "NDJSON consulted after CSV", Edits: []Edit{{"tree.go", "python, json, ndJSON, rtf, srt, tcl, csv, tsv,", "python, json, rtf, srt, tcl, csv, ndJSON, tsv,"}}},
	{ID: "pragma-same-state", Rules: []string{"R12.4"}, Note: "content attribute sets the charset attribute's state", Edits: []Edit{{"internal/charset/charset.go", "\t\t\t\t\t\tneedPragma = doNeedPragma\n", "\t\t\t\t\t\tneedPragma = doNotNeedPragma\n"}}},
	{ID: "ascii-skips-first", Rules: []string{"R11.4"}, Note: "ASCII test skips the first byte", Edits: []Edit{{"internal/charset/charset.go", "func ascii(content []byte) bool {\n\tfor _, b := range content {", "func ascii(content []byte) bool {\n\tfor _, b := range content[1:] {"}}},
	{ID: "setlimit-noop", Rules: []string{"R04.1"}, Note: "SetLimit stores nothing", Edits: []Edit{{"mimetype.go", "\tatomic.StoreUint32(&readLimit, limit)\n", "\t_ = limit\n"}}},
}

func copyTree(src, dst string) error {
	return filepath.WalkDir(src, func(p string, d fs.DirEntry, err error) error {
		if err != nil {
			return err
		}
		rel, _ := filepath.Rel(src, p)
		if d.IsDir() {
			if d.Name() == ".git" || d.Name() == "testdata" {
				return filepath.SkipDir
			}
			return os.MkdirAll(filepath.Join(dst, rel), 0o755)
		}
		if strings.HasSuffix(p, "_test.go") {
			return nil
		}
		if !(strings.HasSuffix(p, ".go") || d.Name() == "go.mod" || d.Name() == "go.sum") {
			return nil
		}
		b, err := os.ReadFile(p)
		if err != nil {
			return err
		}
		return os.WriteFile(filepath.Join(dst, rel), b, 0o644)
	})
}

func run(c *core.Ctx, p *core.Property, repo string) Outcome {
	out := Outcome{Summary: map[string]interface{}{}}
	ruleOf := map[string]*core.Rule{}
	for _, r := range p.Rules {
		ruleOf[r.ID] = r
	}
	type res struct {
		ID, Note, Status, Detail string
		Rules                    []string
	}
	var results []res
	t0 := time.Now()
	all := append(append([]Mutant{}, catalogue...), compoundCases(p.ID)...)
	for _, m := range all {
		var rs []*core.Rule
		for _, id := range m.Rules {
			if r := ruleOf[id]; r != nil {
				rs = append(rs, r)
			}
		}
		if m.Prop == p.ID {
			for _, r := range p.Rules {
				if !r.Slow {
					rs = append(rs, r)
				}
			}
		}
		if len(rs) == 0 {
			continue
		}
		r := res{ID: m.ID, Note: m.Note, Rules: m.Rules}
		dir, err := os.MkdirTemp("", "mtverif-selftest-")
		if err != nil {
			r.Status, r.Detail = "error", err.Error()
			results = append(results, r)
			continue
		}
		func() {
			defer os.RemoveAll(dir)
			if err := copyTree(repo, dir); err != nil {
				r.Status, r.Detail = "error", err.Error()
				return
			}
			if m.Base != "" {
				cmd := exec.Command("git", "apply", filepath.Join(VerifDir, m.Base, "patch.diff"))
				cmd.Dir = dir
				if outb, err := cmd.CombinedOutput(); err != nil {
					r.Status, r.Detail = "stale", "base patch does not apply (the source changed; case skipped): "+strings.TrimSpace(string(outb))
					return
				}
			}
			for _, e := range m.Edits {
				fp := filepath.Join(dir, e.File)
				b, err := os.ReadFile(fp)
				if err != nil || !strings.Contains(string(b), e.Old) {
					r.Status, r.Detail = "stale", "pattern not found in "+e.File+" (the source changed; mutant skipped)"
					return
				}
				os.WriteFile(fp, []byte(strings.Replace(string(b), e.Old, e.New, 1)), 0o644)
			}
			mc, err := core.Load(dir)
			if err != nil {
				r.Status, r.Detail = "does-not-compile", err.Error()
				return
			}
			viol := 0
			var first string
			for _, rule := range rs {
				for _, o := range core.RunRule(mc, rule) {
					if o.Status == core.Violated {
						viol++
						if first == "" {
							first = o.Rule + " " + o.Key + " @" + o.Pos
						}
					}
				}
			}
			if viol > 0 {
				r.Status, r.Detail = "killed", first
			} else {
				r.Status, r.Detail = "survived", "no rule of this property reported the mutant"
			}
		}()
		results = append(results, r)
	}
	sort.Slice(results, func(i, j int) bool { return results[i].ID < results[j].ID })
	killed, stale := 0, 0
	for _, r := range results {
		key := "self-test mutant " + r.ID
		switch r.Status {
		case "killed":
			killed++
			out.Obs = append(out.Obs, core.Obligation{Rule: "selftest", Key: key, Pos: "-", Status: core.Discharged, St: "discharged", By: "reported: " + r.Detail, Detail: r.Note})
		case "stale":
			stale++
		default:
			// a mutant that is not reported (or cannot be built) means the checker is broken: undecided, never a VIOLATION
			out.Obs = append(out.Obs, core.Obligation{Rule: "selftest", Key: key, Pos: "-", Status: core.UndecidedSt, St: "undecided", Detail: fmt.Sprintf("%s: %s (%s)", r.Status, r.Detail, r.Note)})
		}
	}
	out.Summary["mutants"] = len(results)
	out.Summary["killed"] = killed
	out.Summary["stale"] = stale
	out.Summary["wall_s"] = time.Since(t0).Seconds()
	out.Summary["results"] = results
	return out
}
