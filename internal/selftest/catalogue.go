package selftest

import "mtverif/internal/core"

func run(c *core.Ctx, p *core.Property, repo string) Outcome {
	return Outcome{Summary: map[string]interface{}{"mutants": 0}}
}
