// Package selftest applies catalogued single-instance source mutations to a
// scratch copy of the repository and requires the rule under test to report
// the mutated construct (thorough tier). See DESIGN.md §2.4(d).
package selftest

import (
	"mtverif/internal/core"
)

// Outcome of the self-test of one property.
type Outcome struct {
	Summary map[string]interface{}
	Obs     []core.Obligation
}

// VerifDir is where the behaviour-preserving corpus and the compound cases live.
var VerifDir = "/verif"

// Run is filled in by catalogue.go.
func Run(c *core.Ctx, p *core.Property, repo string) Outcome {
	return run(c, p, repo)
}
