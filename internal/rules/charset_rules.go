package rules

import (
	"bytes"
	"fmt"
	"go/constant"
	"go/token"
	"go/types"
	"os"
	"strings"
	"unicode/utf8"

	"golang.org/x/tools/go/ssa"

	"mtverif/internal/core"
	"mtverif/internal/fde"
	"mtverif/internal/tree"
)

func whatwgBinary(b int) bool {
	return b <= 0x08 || b == 0x0B || (0x0E <= b && b <= 0x1A) || (0x1C <= b && b <= 0x1F)
}

// bytePredicate tabulates, for the unique range loop over x in f, what one
// iteration does with each byte value: "cont" (back to the header), or the
// return reached. extra pins further values (e.g. a flag phi).
type iterOutcome struct {
	cont bool
	ret  *ssa.Return
	exit fde.Exit
}

func tabulateRange(c *core.Ctx, f *ssa.Function, x ssa.Value, extra fde.Env) (fde.RangeElem, [256]iterOutcome, *fde.Eval, error) {
	var tab [256]iterOutcome
	rs := fde.FindRangeOver(f, x)
	if len(rs) != 1 {
		return fde.RangeElem{}, tab, nil, fmt.Errorf("%d range loops over the input found in %s (need exactly 1)", len(rs), f.Name())
	}
	r := rs[0]
	ev := newEval(c)
	for b := 0; b < 256; b++ {
		ev.Env = fde.Env{r.Load: constant.MakeInt64(int64(b))}
		for k, v := range extra {
			ev.Env[k] = v
		}
		exits, err := ev.Walk(r.Body, r.Header, func(blk *ssa.BasicBlock) bool { return blk == r.Header }, 0)
		if err != nil {
			return r, tab, ev, fmt.Errorf("byte %#02x: %v", b, err)
		}
		if len(exits) != 1 {
			return r, tab, ev, fmt.Errorf("byte %#02x: %d outcomes", b, len(exits))
		}
		tab[b] = iterOutcome{cont: exits[0].Stop == r.Header, ret: exits[0].Ret, exit: exits[0]}
	}
	return r, tab, ev, nil
}

// R07.1
var ruleTextPredicate = &core.Rule{ID: "R07.1", Min: 256,
	Doc: "the text detector's per-byte rejection predicate, tabulated over 0..255 from its scanning loop, equals the WHATWG binary-data-byte table (the scan may be bytes.IndexAny / ContainsAny over a constant set of ASCII characters: its set is the table)",
	Run: func(c *core.Ctx, s *core.Sink) {
		_, f := textDetector(c)
		if call, set, _ := textSearchForm(f); call != nil {
			for b := 0; b < 256; b++ {
				key := fmt.Sprintf("byte %#02x", b)
				want := whatwgBinary(b)
				if set[byte(b)] == want {
					s.OK(key, c.Pos(call.Pos()), map[bool]string{true: "binary data byte, in the searched set", false: "text byte, not searched for"}[want])
				} else {
					s.Bad(key, c.Pos(call.Pos()), fmt.Sprintf("code treats byte %#02x as binary=%v, the WHATWG binary data byte table says %v", b, set[byte(b)], want))
				}
			}
			return
		}
		_, tab, _, err := tabulateRange(c, f, f.Params[0], nil)
		if err != nil {
			core.Bail("text detector: %v", err)
		}
		for b := 0; b < 256; b++ {
			o := tab[b]
			key := fmt.Sprintf("byte %#02x", b)
			pos := c.Pos(f.Pos())
			rejected := o.ret != nil
			if rejected {
				if v, ok := core.ConstBool(o.ret.Results[0]); !ok || v {
					s.Bad(key, c.Pos(o.ret.Pos()), "the scanning loop returns something other than false for this byte")
					continue
				}
			}
			want := whatwgBinary(b)
			if rejected == want {
				s.OK(key, pos, map[bool]string{true: "binary data byte, rejected", false: "text byte, scan continues"}[want])
			} else {
				s.Bad(key, pos, fmt.Sprintf("code treats byte %#02x as binary=%v, the WHATWG binary data byte table says %v", b, rejected, want))
			}
		}
	}}

// textSearchForm recognises the scan written as a library search: the verdict
// after the BOM exit is bytes.IndexAny(header, K) == -1 (or < 0), or
// !bytes.ContainsAny(header, K), on the unmodified header with a constant K of
// ASCII characters only (for such K both functions look at single bytes). It
// returns the call, the set and the return it decides.
func textSearchForm(f *ssa.Function) (*ssa.Call, map[byte]bool, *ssa.Return) {
	for _, r := range core.Returns(f) {
		v := r.Results[0]
		neg := false
		if u, ok := v.(*ssa.UnOp); ok && u.Op == token.NOT {
			v, neg = u.X, true
		}
		var call *ssa.Call
		if bo, ok := v.(*ssa.BinOp); ok && !neg {
			c2, isCall := bo.X.(*ssa.Call)
			if !isCall || !core.CalleeIs(&c2.Call, "bytes", "IndexAny") {
				continue
			}
			if !((bo.Op == token.EQL && core.IsConstInt(bo.Y, -1)) || (bo.Op == token.LSS && core.IsConstInt(bo.Y, 0))) {
				continue
			}
			call = c2
		} else if c2, ok := v.(*ssa.Call); ok && neg && core.CalleeIs(&c2.Call, "bytes", "ContainsAny") {
			call = c2
		}
		if call == nil || call.Call.Args[0] != ssa.Value(f.Params[0]) {
			continue
		}
		k, ok := core.ConstString(call.Call.Args[1])
		if !ok {
			continue
		}
		set := map[byte]bool{}
		ascii := true
		for i := 0; i < len(k); i++ {
			if k[i] >= 0x80 {
				ascii = false
			}
			set[k[i]] = true
		}
		if !ascii {
			continue
		}
		return call, set, r
	}
	return nil, nil, nil
}

// R07.2
var ruleTextShape = &core.Rule{ID: "R07.2", Min: 4,
	Doc: "the text detector scans the whole unmodified header from index 0; the only exits are true after the loop and true when the BOM lookup on the unmodified header is non-empty (which precedes the loop); the limit parameter is not consulted",
	Run: func(c *core.Ctx, s *core.Sink) {
		cm := getCharset(c)
		cm.needBOM()
		_, f := textDetector(c)
		if call, _, sret := textSearchForm(f); call != nil && loopHeaderOf(f) == nil {
			s.OK("scan over unmodified header parameter from index 0", c.Pos(call.Pos()), "library search over the whole parameter")
			for _, ret := range core.Returns(f) {
				key := returnOrdinal(ret)
				if ret == sret {
					s.OK(key, c.Pos(ret.Pos()), "verdict of the search (byte table: R07.1)")
					continue
				}
				v, isConst := core.ConstBool(ret.Results[0])
				ok := false
				for _, de := range core.DominatingConds(ret.Block()) {
					if isBomNonEmpty(cm, de, f.Params[0]) {
						ok = true
					}
				}
				s.Check(isConst && v && ok, key, c.Pos(ret.Pos()), "true under BOM lookup(header) != \"\"", "an exit other than the search's verdict that is not `true` under a non-empty BOM lookup of the unmodified header")
			}
			// nothing but the BOM lookup runs before the search
			for _, ci := range core.Calls(f) {
				if ci == ssa.CallInstruction(call) || core.IsBuiltin(ci.Common(), "len") {
					continue
				}
				s.Check(ci.Common().StaticCallee() == cm.bomFn && ci.Common().Args[0] == ssa.Value(f.Params[0]), "only the BOM lookup precedes the search: "+callOrdinal(ci), c.Pos(ci.Pos()), "BOM lookup on the header", "the text detector calls something else than the BOM lookup and the search")
			}
			used := false
			if len(f.Params) > 1 {
				for _, ref := range *f.Params[1].Referrers() {
					if _, dbg := ref.(*ssa.DebugRef); !dbg {
						used = true
					}
				}
			}
			s.Check(!used, "limit parameter unused", c.Pos(f.Pos()), "no use", "the text detector consults the limit parameter")
			return
		}
		rs := fde.FindRangeOver(f, f.Params[0])
		if len(rs) == 0 && loopHeaderOf(f) != nil {
			s.Bad("scan over unmodified header parameter from index 0", c.Pos(f.Pos()), "the text detector's scanning loop does not range over the whole unmodified header from its first byte (it scans a re-slice or a window): binary data bytes outside the scanned part would go unnoticed")
			return
		}
		if len(rs) != 1 {
			core.Bail("text detector: %d range loops over the header parameter", len(rs))
		}
		r := rs[0]
		s.OK("scan over unmodified header parameter from index 0", c.Pos(f.Pos()), "range loop over parameter 0, len of the parameter")
		loop := core.ReachAvoiding(r.Body, map[*ssa.BasicBlock]bool{r.Header: true})
		for _, ret := range core.Returns(f) {
			key := returnOrdinal(ret)
			v, isConst := core.ConstBool(ret.Results[0])
			switch {
			case !isConst:
				s.Bad(key, c.Pos(ret.Pos()), "non-constant verdict in the text detector")
			case loop[ret.Block()] && ret.Block() != r.Done && !r.Done.Dominates(ret.Block()):
				// inside the loop body: judged per byte by R07.1
				s.Check(!v, key, c.Pos(ret.Pos()), "rejection inside the scan (byte table: R07.1)", "return true from inside the scanning loop: later bytes are not examined")
			case ret.Block() == r.Done || r.Done.Dominates(ret.Block()):
				s.Check(v && ret.Block() == r.Done, key, c.Pos(ret.Pos()), "true after the full scan", "the exit after the scanning loop is not an unconditional true")
			default:
				// before the loop: must be true under BOM lookup != ""
				ok := false
				for _, de := range core.DominatingConds(ret.Block()) {
					if isBomNonEmpty(cm, de, f.Params[0]) {
						ok = true
					}
				}
				s.Check(v && ok, key, c.Pos(ret.Pos()), "true under BOM lookup(header) != \"\"", "an exit before the scanning loop that is not `true` under a non-empty BOM lookup of the unmodified header")
			}
		}
		// the limit parameter must not influence the verdict
		used := false
		if len(f.Params) > 1 {
			for _, ref := range *f.Params[1].Referrers() {
				if _, dbg := ref.(*ssa.DebugRef); !dbg {
					used = true
				}
			}
		}
		s.Check(!used, "limit parameter unused", c.Pos(f.Pos()), "no use", "the text detector consults the limit parameter")
	}}

func isBomNonEmpty(cm *charsetModel, de core.DomEdge, arg ssa.Value) bool {
	cond, val := core.StripNot(de.Cond, de.Val)
	bo, ok := cond.(*ssa.BinOp)
	if !ok {
		return false
	}
	call, ok := bo.X.(*ssa.Call)
	if !ok || call.Call.StaticCallee() != cm.bomFn || cm.bomFn == nil {
		return false
	}
	if arg != nil && call.Call.Args[0] != arg {
		return false
	}
	if k, ok := core.ConstString(bo.Y); !ok || k != "" {
		return false
	}
	return (bo.Op == token.NEQ && val) || (bo.Op == token.EQL && !val)
}

var wantBOMs = []struct {
	mark []byte
	name string
}{
	{[]byte{0xEF, 0xBB, 0xBF}, "utf-8"},
	{[]byte{0x00, 0x00, 0xFE, 0xFF}, "utf-32be"},
	{[]byte{0xFF, 0xFE, 0x00, 0x00}, "utf-32le"},
	{[]byte{0xFE, 0xFF}, "utf-16be"},
	{[]byte{0xFF, 0xFE}, "utf-16le"},
}

// R07.3 / R11.1
var ruleBOMTable = &core.Rule{ID: "R07.3", Min: 7,
	Doc: "the BOM table is exactly the five Unicode marks with their charset names, no entry is shadowed by an earlier entry that is its prefix, and the lookup returns the name of the first entry that prefixes the input, else the empty string; a hand-written lookup without a table is judged by the path conditions of its returns (exactly the mark's bytes, length bound exactly len(mark)) and folded for each mark; a table lookup that matches the marks with bytes.Contains / HasSuffix / Equal instead of HasPrefix is a violation",
	Run: func(c *core.Ctx, s *core.Sink) {
		cm := getCharset(c)
		if cm.bomSwitch {
			bomSwitchCheck(c, s, cm.bomFn)
			return
		}
		if cm.bomFn == nil && cm.bomWrong != nil {
			s.Bad("lookup shape", c.Pos(cm.bomWrong.Pos()), fmt.Sprintf("the table of byte-order marks is matched against the input with bytes.%s instead of bytes.HasPrefix: a mark is a mark only at the very start of the content; elsewhere the same bytes are data (binary files containing EF BB BF or FF FE would be taken for text)", cm.bomWrong.Call.StaticCallee().Name()))
			return
		}
		if cm.bomFn == nil || !cm.bomsOK {
			core.Bail("BOM lookup function / constant table not found")
		}
		for _, w := range wantBOMs {
			found := false
			for _, e := range cm.boms {
				if bytes.Equal(e.mark, w.mark) {
					found = true
					s.Check(e.name == w.name, fmt.Sprintf("mark % x", w.mark), c.Pos(e.pos), w.name, fmt.Sprintf("mark % x is named %q, Unicode says %q", w.mark, e.name, w.name))
				}
			}
			if !found {
				s.Bad(fmt.Sprintf("mark % x", w.mark), c.Pos(cm.bomTable.Pos()), "Unicode byte-order mark missing from the table")
			}
		}
		for i, e := range cm.boms {
			known := false
			for _, w := range wantBOMs {
				if bytes.Equal(e.mark, w.mark) {
					known = true
				}
			}
			if !known {
				s.Bad(fmt.Sprintf("extra mark % x", e.mark), c.Pos(e.pos), fmt.Sprintf("table entry % x -> %q is not a Unicode byte-order mark", e.mark, e.name))
			}
			if e.name == "" {
				s.Bad(fmt.Sprintf("empty name for % x", e.mark), c.Pos(e.pos), "entry with an empty charset name is indistinguishable from no BOM")
			}
			for j := 0; j < i; j++ {
				if bytes.HasPrefix(e.mark, cm.boms[j].mark) {
					s.Bad(fmt.Sprintf("shadowing of % x", e.mark), c.Pos(e.pos), fmt.Sprintf("entry %d (% x) can never match: earlier entry %d (% x) is its prefix", i, e.mark, j, cm.boms[j].mark))
				}
			}
		}
		s.OK("no shadowed entry", c.Pos(cm.bomTable.Pos()), fmt.Sprintf("%d entries, prefix order checked", len(cm.boms)))
		// lookup shape
		f := cm.bomFn
		var tblLoad ssa.Value
		for _, b := range f.Blocks {
			for _, in := range b.Instrs {
				if g, ok := core.LoadOfGlobal(valueOf(in)); ok && g == cm.bomTable {
					tblLoad = valueOf(in)
				}
			}
		}
		rs := fde.FindRangeOver2(f, tblLoad)
		if tblLoad == nil || len(rs) != 1 {
			s.Bad("lookup shape", c.Pos(f.Pos()), "BOM lookup does not range over the whole table from its first entry")
			return
		}
		r := rs[0]
		okShape := true
		why := ""
		for _, ret := range core.Returns(f) {
			if ret.Block() == r.Done {
				if k, ok := core.ConstString(ret.Results[0]); !ok || k != "" {
					okShape, why = false, "after the table scan the lookup does not return the empty string"
				}
				continue
			}
			// an early "" for an input shorter than every mark: nothing that short starts with a mark
			if k, ok := core.ConstString(ret.Results[0]); ok && k == "" && !r.Header.Dominates(ret.Block()) {
				minLen := -1
				for _, e := range cm.boms {
					if minLen < 0 || len(e.mark) < minLen {
						minLen = len(e.mark)
					}
				}
				short := false
				conds := core.DominatingConds(ret.Block())
				for _, de := range conds {
					cond, val := core.StripNot(de.Cond, de.Val)
					if bo, ok := cond.(*ssa.BinOp); ok {
						if ln, ok := bo.X.(*ssa.Call); ok && core.IsBuiltin(&ln.Call, "len") && ln.Call.Args[0] == ssa.Value(f.Params[0]) {
							if kk, ok := core.ConstInt(bo.Y); ok {
								// len < kk (true edge) or len >= kk (false edge) with kk <= shortest mark; len == 0; len <= kk-1
								lt := (bo.Op == token.LSS && val) || (bo.Op == token.GEQ && !val)
								le := (bo.Op == token.LEQ && val) || (bo.Op == token.GTR && !val)
								eq0 := (bo.Op == token.EQL && val && kk == 0)
								if (lt && int(kk) <= minLen) || (le && int(kk) < minLen) || eq0 {
									short = true
								}
							}
						}
					}
				}
				if short && len(conds) == 1 && minLen > 0 {
					continue
				}
			}
			// must be under HasPrefix(param, elem.mark) == true and return elem.name of the same element
			under := false
			for _, de := range core.DominatingConds(ret.Block()) {
				cond, val := core.StripNot(de.Cond, de.Val)
				if call, ok := cond.(*ssa.Call); ok && val && core.CalleeIs(&call.Call, "bytes", "HasPrefix") && call.Call.Args[0] == ssa.Value(f.Params[0]) && isFieldOfElem(call.Call.Args[1], r, 0) {
					under = true
				}
			}
			if !under || !isFieldOfElem(ret.Results[0], r, 1) {
				okShape, why = false, "a return that is not `name of the current entry` under HasPrefix(input, mark of the current entry)"
			}
		}
		// a prefix match must lead to that return unconditionally: no further test may send a matching entry back to the loop
		for _, b := range f.Blocks {
			iff := core.IfOf(b)
			if iff == nil {
				continue
			}
			cond, pos := core.StripNot(iff.Cond, true)
			call, ok := cond.(*ssa.Call)
			if !ok || !core.CalleeIs(&call.Call, "bytes", "HasPrefix") || call.Call.Args[0] != ssa.Value(f.Params[0]) {
				continue
			}
			hit := b.Succs[0]
			if !pos {
				hit = b.Succs[1]
			}
			for x := range core.Reach(hit) {
				if x == r.Header {
					okShape, why = false, "after a byte-order mark matched, a further condition can still skip the entry: the mark's own charset is then not what is reported"
				}
			}
		}
		// and every entry is compared: inside the loop nothing but a length test that a prefix match implies anyway
		// (len(input) >= len(mark)) may stand in front of the prefix test
		body := loopBlocks(r.Header)
		for _, b := range f.Blocks {
			for _, in := range b.Instrs {
				call, ok := in.(*ssa.Call)
				if !ok || !core.CalleeIs(&call.Call, "bytes", "HasPrefix") || call.Call.Args[0] != ssa.Value(f.Params[0]) {
					continue
				}
				for _, de := range core.DominatingConds(b) {
					if de.From == r.Header || !body[de.From] {
						continue
					}
					cond, val := core.StripNot(de.Cond, de.Val)
					implied := false
					if bo, ok := cond.(*ssa.BinOp); ok {
						lenOf := func(v ssa.Value, of func(ssa.Value) bool) bool {
							ln, ok := v.(*ssa.Call)
							return ok && core.IsBuiltin(&ln.Call, "len") && of(ln.Call.Args[0])
						}
						isIn := func(v ssa.Value) bool { return v == ssa.Value(f.Params[0]) }
						isMark := func(v ssa.Value) bool { return isFieldOfElem(v, r, 0) }
						switch {
						case lenOf(bo.X, isIn) && lenOf(bo.Y, isMark):
							implied = (bo.Op == token.GEQ && val) || (bo.Op == token.LSS && !val)
						case lenOf(bo.X, isMark) && lenOf(bo.Y, isIn):
							implied = (bo.Op == token.LEQ && val) || (bo.Op == token.GTR && !val)
						}
					}
					if !implied {
						okShape, why = false, "inside the table loop a condition other than len(input) >= len(mark) stands in front of the prefix test: an input that starts with (or is exactly) a mark can be passed over"
					}
				}
			}
		}
		s.Check(okShape, "lookup shape", c.Pos(f.Pos()), "first prefixing entry wins, else \"\"", why)
	}}

// isFieldOfElem: v is a load of field #fld of the element loaded by range r
// (directly, or through the local copy go/ssa makes of the range variable).
func isFieldOfElem(v ssa.Value, r fde.RangeElem, fld int) bool {
	base, f, ok := core.LoadOfField(v)
	if !ok || f != fld {
		return false
	}
	if r.ElemAddr != nil && base == ssa.Value(r.ElemAddr) {
		return true
	}
	if r.Load == nil {
		return false
	}
	if ia, ok := r.Load.X.(*ssa.IndexAddr); ok && base == ssa.Value(ia) {
		return true
	}
	if al, ok := base.(*ssa.Alloc); ok {
		n := 0
		good := false
		for _, ref := range *al.Referrers() {
			if st, ok := ref.(*ssa.Store); ok && st.Addr == ssa.Value(al) {
				n++
				good = st.Val == ssa.Value(r.Load)
			}
		}
		return n == 1 && good
	}
	return false
}

// ---- C11 ----

// plainParts finds, in the plain sniffer, the utf8.Valid call, the ASCII test
// call and the Latin fallback.
type plainParts struct {
	g        *ssa.Function // the function holding the byte inspection (f itself, or the helper f hands its input to)
	bodyCall *ssa.Call     // f's call of g when they differ
	f        *ssa.Function
	valid    *ssa.Call
	ascii    *ssa.Call
	latin    *ssa.Call
	bomRet   *ssa.Return
}

func getPlain(c *core.Ctx) *plainParts {
	cm := getCharset(c)
	if cm.plain == nil {
		core.Bail("no sniffer registered for text/plain")
	}
	p := &plainParts{f: cm.plain, g: cm.plain}
	// the byte inspection may sit in a helper that the sniffer hands its unmodified input to (after the BOM lookup)
	hasValid := func(h *ssa.Function) bool {
		for _, ci := range core.Calls(h) {
			if core.CalleeIs(ci.Common(), "unicode/utf8", "Valid") {
				return true
			}
		}
		return false
	}
	if !hasValid(cm.plain) {
		for _, ci := range core.Calls(cm.plain) {
			call, ok := ci.(*ssa.Call)
			if !ok {
				continue
			}
			h := call.Call.StaticCallee()
			if h != nil && core.InMod(h) && h.Blocks != nil && h != cm.bomFn && len(h.Params) == 1 && len(call.Call.Args) == 1 && call.Call.Args[0] == ssa.Value(cm.plain.Params[0]) && core.IsString(h.Signature.Results().At(0).Type()) && hasValid(h) {
				p.g, p.bodyCall = h, call
			}
		}
	}
	for _, ci := range core.Calls(p.g) {
		call, ok := ci.(*ssa.Call)
		if !ok {
			continue
		}
		switch {
		case core.CalleeIs(&call.Call, "unicode/utf8", "Valid"):
			p.valid = call
		default:
			g := call.Call.StaticCallee()
			if g == nil || !core.InMod(g) || g == cm.bomFn || len(g.Params) != 1 || !core.IsByteSlice(g.Params[0].Type()) {
				continue
			}
			rt := g.Signature.Results()
			if rt.Len() != 1 {
				continue
			}
			if b, ok := rt.At(0).Type().Underlying().(*types.Basic); ok && b.Kind() == types.Bool {
				p.ascii = call
			} else if core.IsString(rt.At(0).Type()) {
				p.latin = call
			}
		}
	}
	return p
}

func dominatedByCallEdge(blk *ssa.BasicBlock, call *ssa.Call, want bool) bool {
	for _, de := range core.DominatingConds(blk) {
		cond, val := core.StripNot(de.Cond, de.Val)
		if cond == ssa.Value(call) && val == want {
			return true
		}
	}
	return false
}

// R11.2 + R11.3
var rulePlainReturns = &core.Rule{ID: "R11.3", Min: 4,
	Doc: "plain sniffer: the BOM name is returned before anything else; every return of utf-8 is control dependent on utf8.Valid(...) or on the ASCII test being true (composed conditions are decided by finite evaluation with both tests false); every other non-empty return comes from the Latin fallback; a helper of the sniffer answers utf-8 only under one of the two tests, or is a single-pass byte-class classifier whose flag machine (flags x 256 bytes) answers utf-8 never after a byte >= 0x80 and always for ASCII text",
	Run: func(c *core.Ctx, s *core.Sink) {
		cm := getCharset(c)
		cm.needBOM()
		p := getPlain(c)
		f := p.f
		// BOM first: a call bomFn(param) whose non-empty result is returned, dominating every other call
		var bomCall *ssa.Call
		for _, ci := range core.Calls(f) {
			if call, ok := ci.(*ssa.Call); ok && call.Call.StaticCallee() == cm.bomFn && call.Call.Args[0] == ssa.Value(f.Params[0]) {
				bomCall = call
			}
		}
		if bomCall == nil {
			s.Bad("BOM lookup first", c.Pos(f.Pos()), "the plain sniffer does not consult the BOM table on its unmodified input")
		} else {
			first := true
			for _, ci := range core.Calls(f) {
				if ci == ssa.CallInstruction(bomCall) || core.IsBuiltin(ci.Common(), "len") {
					continue
				}
				if !core.Before(bomCall, ci) {
					first = false
				}
			}
			retOK := false
			for _, r := range core.Returns(f) {
				if r.Results[0] == ssa.Value(bomCall) {
					for _, de := range core.DominatingConds(r.Block()) {
						if isBomNonEmpty(cm, de, f.Params[0]) {
							retOK = true
						}
					}
				}
			}
			s.Check(first && retOK, "BOM lookup first", c.Pos(bomCall.Pos()), "dominates every other call; non-empty result returned as is", "the BOM lookup is not the first decision of the plain sniffer or its result is not returned unchanged")
		}
		rets := core.Returns(f)
		if p.g != f {
			rets = append(rets, core.Returns(p.g)...)
		}
		for _, r := range rets {
			key := returnOrdinal(r)
			if r.Parent() != f {
				key = p.g.Name() + ": " + key
			}
			v := r.Results[0]
			if p.bodyCall != nil && v == ssa.Value(p.bodyCall) {
				s.OK(key, c.Pos(r.Pos()), "result of the byte inspection helper (judged there)")
				continue
			}
			if k, ok := core.ConstString(v); ok {
				switch k {
				case "":
					s.OK(key, c.Pos(r.Pos()), "no charset")
				case "utf-8":
					under := (p.valid != nil && dominatedByCallEdge(r.Block(), p.valid, true)) || (p.ascii != nil && dominatedByCallEdge(r.Block(), p.ascii, true))
					if !under && p.valid != nil && r.Parent() == p.valid.Parent() {
						// a composed condition (isUTF8 || ascii(...)): with both tests answering false, every other
						// condition going either way, this return must be out of reach
						ev := newEval(c)
						ev.Env = fde.Env{p.valid: constant.MakeBool(false)}
						if p.ascii != nil && p.ascii.Parent() == r.Parent() {
							ev.Env[p.ascii] = constant.MakeBool(false)
						}
						// from the nearest block through which every path to the tests and to this return goes
						start := r.Block()
						for start != nil && !(start.Dominates(p.valid.Block()) && (p.ascii == nil || p.ascii.Parent() != r.Parent() || start.Dominates(p.ascii.Block()))) {
							start = start.Idom()
						}
						if start == nil {
							start = r.Parent().Blocks[0]
						}
						if exits, err := ev.Walk(start, nil, nil, 10); err == nil {
							reach := false
							for _, x := range exits {
								if x.Ret == r {
									reach = true
								}
							}
							under = !reach
						}
					}
					if !under && p.valid == nil && handWrittenUTF8(p) {
						s.Und(key+" utf-8", c.Pos(r.Pos()), "the sniffer does not call utf8.Valid but decodes runes itself: whether that amounts to validation is not decided here")
						continue
					}
					s.Check(under, key+" utf-8", c.Pos(r.Pos()), "under utf8.Valid or the ASCII test", "return \"utf-8\" that is not conditional on UTF-8 validation or on the ASCII test")
				default:
					s.Bad(key, c.Pos(r.Pos()), fmt.Sprintf("constant charset %q returned by the plain sniffer outside the BOM / UTF-8 / Latin scheme", k))
				}
				continue
			}
			switch {
			case bomCall != nil && v == ssa.Value(bomCall):
				s.OK(key, c.Pos(r.Pos()), "BOM name")
			case p.latin != nil && sameLatinCall(v, p.latin):
				s.OK(key, c.Pos(r.Pos()), "Latin fallback")
			default:
				s.Bad(key, c.Pos(r.Pos()), "return of a charset that is neither the BOM name, utf-8 under validation, nor the Latin fallback")
			}
		}
		// helpers of the sniffer that answer with a charset name never say utf-8 on their own: that answer needs the
		// validation (or the ASCII test), which sits in the sniffer
		seenH := map[*ssa.Function]bool{f: true, p.g: true}
		var rec func(h *ssa.Function, d int)
		rec = func(h *ssa.Function, d int) {
			if h == nil || h.Blocks == nil || !core.InMod(h) || seenH[h] || d > 2 || h == cm.bomFn {
				return
			}
			seenH[h] = true
			if h.Signature.Results().Len() == 1 && core.IsString(h.Signature.Results().At(0).Type()) {
				for _, r := range core.Returns(h) {
					vals := []ssa.Value{r.Results[0]}
					if ph, ok := r.Results[0].(*ssa.Phi); ok {
						vals = ph.Edges
					}
					for _, v := range vals {
						if k, ok := core.ConstString(v); ok && k == "utf-8" {
							under := false
							for _, de := range core.DominatingConds(r.Block()) {
								cond, val := core.StripNot(de.Cond, de.Val)
								if call, ok := cond.(*ssa.Call); ok && val && core.CalleeIs(&call.Call, "unicode/utf8", "Valid") {
									under = true
								}
								// or the ASCII test (R11.4 tabulates it), called from the helper
								if call, ok := cond.(*ssa.Call); ok && val && p.ascii != nil && call.Call.StaticCallee() != nil && call.Call.StaticCallee() == p.ascii.Call.StaticCallee() {
									under = true
								}
							}
							if !under {
								// a single-pass classifier over byte classes: decided on its flag machine
								if fm, err := tabulateFlagMachine(c, h); err == nil {
									okM, whyM := fm.utf8OnlyForASCII()
									s.Check(okM, h.Name()+": "+returnOrdinal(r)+" utf-8", c.Pos(r.Pos()), fmt.Sprintf("flag machine (%d flags x 256 bytes): utf-8 only for 7-bit content, always for ASCII text", fm.nflags), "the single-pass classifier answers utf-8 wrongly: "+whyM)
									continue
								}
							}
							s.Check(under, h.Name()+": "+returnOrdinal(r)+" utf-8", c.Pos(r.Pos()), "under utf8.Valid", "a helper of the plain sniffer answers utf-8 without UTF-8 validation: bytes that are not valid UTF-8 (for instance NEL 0x85 alone) would be reported as utf-8")
						}
					}
				}
			}
			for _, ci := range core.Calls(h) {
				rec(ci.Common().StaticCallee(), d+1)
			}
		}
		for _, g0 := range []*ssa.Function{f, p.g} {
			for _, ci := range core.Calls(g0) {
				rec(ci.Common().StaticCallee(), 1)
			}
		}
	}}

// flagMachine tabulates a single-pass classifier h(content) string: one range
// loop over the whole parameter, at most three loop-carried boolean flags, a
// verdict (constant string) returned inside the loop or computed from the flags
// after it. For every flag state and every byte value one iteration is
// evaluated; the result is the transition table, the in-loop verdicts, and the
// verdict after the loop per state.
type flagMachine struct {
	nflags int
	init   int                 // initial state (bit i = flag i)
	step   map[int][256]int    // state -> byte -> next state, or -1 when the iteration returns
	ret    map[int][256]string // state -> byte -> verdict returned inside the loop (when step is -1)
	final  map[int]string      // state -> verdict after the loop
}

func tabulateFlagMachine(c *core.Ctx, h *ssa.Function) (*flagMachine, error) {
	if h.Blocks == nil || len(h.Params) != 1 {
		return nil, fmt.Errorf("not a function of the content alone")
	}
	rs := fde.FindRangeOver(h, h.Params[0])
	if len(rs) != 1 {
		return nil, fmt.Errorf("%d range loops over the content", len(rs))
	}
	r := rs[0]
	var flags []*ssa.Phi
	for _, in := range r.Header.Instrs {
		ph, ok := in.(*ssa.Phi)
		if !ok {
			break
		}
		if ssa.Value(ph) == r.Index || ph == r.Phi {
			continue
		}
		if bt, ok := ph.Type().Underlying().(*types.Basic); !ok || bt.Kind() != types.Bool {
			return nil, fmt.Errorf("loop-carried value %s is not a flag", ph.Name())
		}
		flags = append(flags, ph)
	}
	if len(flags) > 3 {
		return nil, fmt.Errorf("%d flags", len(flags))
	}
	m := &flagMachine{nflags: len(flags), step: map[int][256]int{}, ret: map[int][256]string{}, final: map[int]string{}}
	// initial state: the constants on the entry edge
	for k, pr := range r.Header.Preds {
		if r.Header.Dominates(pr) {
			continue
		}
		for i, ph := range flags {
			v, ok := core.ConstBool(ph.Edges[k])
			if !ok {
				return nil, fmt.Errorf("flag %s does not start as a constant", ph.Name())
			}
			if v {
				m.init |= 1 << uint(i)
			}
		}
	}
	constStr := func(ev *fde.Eval, x fde.Exit) (string, bool) {
		v := x.Ret.Results[0]
		if k, ok := core.ConstString(v); ok {
			return k, true
		}
		if cv, ok := x.ValAt(ev, v); ok && cv.Kind() == constant.String {
			return constant.StringVal(cv), true
		}
		return "", false
	}
	for st := 0; st < 1<<uint(len(flags)); st++ {
		env := func() fde.Env {
			e := fde.Env{}
			for i, ph := range flags {
				e[ph] = constant.MakeBool(st&(1<<uint(i)) != 0)
			}
			return e
		}
		var row [256]int
		var rrow [256]string
		for b := 0; b < 256; b++ {
			ev := newEval(c)
			ev.Env = env()
			ev.Env[r.Load] = constant.MakeInt64(int64(b))
			exits, err := ev.Walk(r.Body, r.Header, func(blk *ssa.BasicBlock) bool { return blk == r.Header }, 0)
			if err != nil || len(exits) != 1 {
				return nil, fmt.Errorf("state %d byte %#02x: iteration not evaluable (%v)", st, b, err)
			}
			x := exits[0]
			if x.Ret != nil {
				k, ok := constStr(ev, x)
				if !ok {
					return nil, fmt.Errorf("state %d byte %#02x: non-constant verdict inside the loop", st, b)
				}
				row[b], rrow[b] = -1, k
				continue
			}
			next := 0
			for i, ph := range flags {
				var nv ssa.Value
				for k, pr := range r.Header.Preds {
					if pr == x.From {
						nv = ph.Edges[k]
					}
				}
				if nv == nil {
					return nil, fmt.Errorf("back edge not found")
				}
				cv, ok := x.ValAt(ev, nv)
				if !ok || cv.Kind() != constant.Bool {
					return nil, fmt.Errorf("state %d byte %#02x: flag %s not evaluable", st, b, ph.Name())
				}
				if constant.BoolVal(cv) {
					next |= 1 << uint(i)
				}
			}
			row[b] = next
		}
		m.step[st], m.ret[st] = row, rrow
		ev := newEval(c)
		ev.Env = env()
		exits, err := ev.Walk(r.Done, r.Header, nil, 0)
		if err != nil || len(exits) != 1 || exits[0].Ret == nil {
			return nil, fmt.Errorf("state %d: verdict after the loop not evaluable (%v)", st, err)
		}
		k, ok := constStr(ev, exits[0])
		if !ok {
			return nil, fmt.Errorf("state %d: non-constant verdict after the loop", st)
		}
		m.final[st] = k
	}
	return m, nil
}

// utf8OnlyForASCII decides, on the machine, the two clauses of the property a
// single-pass classifier is responsible for: (a) once a byte >= 0x80 was
// consumed no continuation ends in the verdict utf-8 (neither inside nor after
// the loop); (b) a content of printable ASCII, TAB, LF and CR only ends in utf-8.
func (m *flagMachine) utf8OnlyForASCII() (bool, string) {
	reach := map[int]bool{m.init: true}
	work := []int{m.init}
	for len(work) > 0 {
		st := work[0]
		work = work[1:]
		for b := 0; b < 256; b++ {
			if n := m.step[st][b]; n >= 0 && !reach[n] {
				reach[n] = true
				work = append(work, n)
			}
		}
	}
	// states from which utf-8 can still be reached
	canUTF8 := map[int]bool{}
	for changed := true; changed; {
		changed = false
		for st := range reach {
			if canUTF8[st] {
				continue
			}
			ok := m.final[st] == "utf-8"
			for b := 0; b < 256 && !ok; b++ {
				n := m.step[st][b]
				if (n < 0 && m.ret[st][b] == "utf-8") || (n >= 0 && canUTF8[n]) {
					ok = true
				}
			}
			if ok {
				canUTF8[st] = true
				changed = true
			}
		}
	}
	for st := range reach {
		for b := 0x80; b < 256; b++ {
			n := m.step[st][b]
			if (n < 0 && m.ret[st][b] == "utf-8") || (n >= 0 && canUTF8[n]) {
				return false, fmt.Sprintf("after the byte %#02x the classifier can still answer utf-8 although the content is not valid UTF-8", b)
			}
		}
	}
	// (b) closure of the initial state under ASCII text bytes
	isText := func(b int) bool { return b == '\t' || b == '\n' || b == '\r' || (b >= 0x20 && b <= 0x7e) }
	cl := map[int]bool{m.init: true}
	work = []int{m.init}
	for len(work) > 0 {
		st := work[0]
		work = work[1:]
		for b := 0; b < 256; b++ {
			if !isText(b) {
				continue
			}
			n := m.step[st][b]
			if n < 0 {
				return false, fmt.Sprintf("plain ASCII text is rejected inside the loop at byte %#02x", b)
			}
			if !cl[n] {
				cl[n] = true
				work = append(work, n)
			}
		}
	}
	for st := range cl {
		if st == m.init && len(cl) > 1 {
			// the empty content is judged by the caller
		}
		if st != m.init && m.final[st] != "utf-8" {
			return false, "content made of printable ASCII, TAB, LF and CR only is not answered with utf-8"
		}
	}
	return true, ""
}

// sameLatinCall: v is the Latin fallback call, or another call of the same function on the same buffer.
func sameLatinCall(v ssa.Value, latin *ssa.Call) bool {
	if v == ssa.Value(latin) {
		return true
	}
	call, ok := v.(*ssa.Call)
	if !ok || call.Call.StaticCallee() == nil || call.Call.StaticCallee() != latin.Call.StaticCallee() || len(call.Call.Args) != len(latin.Call.Args) {
		return false
	}
	for i := range call.Call.Args {
		if call.Call.Args[i] != latin.Call.Args[i] {
			return false
		}
	}
	return true
}

// handWrittenUTF8: the plain sniffer (or a helper it calls) decodes runes with
// unicode/utf8 functions other than Valid / FullRune.
func handWrittenUTF8(p *plainParts) bool {
	seen := map[*ssa.Function]bool{}
	var rec func(f *ssa.Function, d int) bool
	rec = func(f *ssa.Function, d int) bool {
		if f == nil || f.Blocks == nil || seen[f] || d > 2 {
			return false
		}
		seen[f] = true
		for _, ci := range core.Calls(f) {
			g := ci.Common().StaticCallee()
			if g == nil {
				continue
			}
			if g.Pkg != nil && g.Pkg.Pkg.Path() == "unicode/utf8" && strings.HasPrefix(g.Name(), "Decode") {
				return true
			}
			if core.InMod(g) && rec(g, d+1) {
				return true
			}
		}
		return false
	}
	return rec(p.f, 0) || rec(p.g, 0)
}

// R11.7
var ruleRuneError = &core.Rule{ID: "R11.7", Min: 1,
	Doc: "hand-written rune decoding in the plain sniffer (none on the pinned tree): a decoded rune is taken for a decoding error only when it equals utf8.RuneError and its width is 1 (a correctly encoded U+FFFD decodes to the same rune with width 3)",
	Run: func(c *core.Ctx, s *core.Sink) {
		p := getPlain(c)
		seen := map[*ssa.Function]bool{}
		n := 0
		var rec func(f *ssa.Function, d int)
		rec = func(f *ssa.Function, d int) {
			if f == nil || f.Blocks == nil || seen[f] || d > 2 {
				return
			}
			seen[f] = true
			for _, ci := range core.Calls(f) {
				g := ci.Common().StaticCallee()
				if g == nil {
					continue
				}
				if core.InMod(g) {
					rec(g, d+1)
					continue
				}
				if g.Pkg == nil || g.Pkg.Pkg.Path() != "unicode/utf8" || !strings.HasPrefix(g.Name(), "Decode") {
					continue
				}
				call, ok := ci.(*ssa.Call)
				if !ok {
					continue
				}
				var rn, size ssa.Value
				for _, ref := range *call.Referrers() {
					if ex, ok := ref.(*ssa.Extract); ok {
						if ex.Index == 0 {
							rn = ex
						} else {
							size = ex
						}
					}
				}
				if rn == nil {
					continue
				}
				isWidthTest := func(v ssa.Value) bool {
					cond, _ := core.StripNot(v, true)
					bo, ok := cond.(*ssa.BinOp)
					return ok && size != nil && (bo.X == size || bo.Y == size)
				}
				for _, ref := range *rn.Referrers() {
					bo, ok := ref.(*ssa.BinOp)
					if !ok || (bo.Op != token.EQL && bo.Op != token.NEQ) {
						continue
					}
					other := bo.Y
					if other == rn {
						other = bo.X
					}
					if k, isK := core.ConstInt(other); !isK || k != 0xFFFD {
						continue
					}
					n++
					key := fmt.Sprintf("%s: RuneError test #%d", core.FName(f), n)
					// the edge on which the rune is RuneError leads to a width test, or a width test dominates this one
					paired := false
					for _, r2 := range *bo.Referrers() {
						iff, ok := r2.(*ssa.If)
						if !ok {
							continue
						}
						errEdge := iff.Block().Succs[0]
						if bo.Op == token.NEQ {
							errEdge = iff.Block().Succs[1]
						}
						if i2 := core.IfOf(errEdge); i2 != nil && isWidthTest(i2.Cond) && len(errEdge.Instrs) <= 2 {
							paired = true
						}
					}
					for _, de := range core.DominatingConds(bo.Block()) {
						if isWidthTest(de.Cond) {
							paired = true
						}
					}
					s.Check(paired, key, c.Pos(bo.Pos()), "paired with a test of the width", "a decoded rune equal to utf8.RuneError is taken for a decoding error without looking at its width: text that contains a correctly encoded U+FFFD (EF BF BD) is no longer recognised as UTF-8")
				}
			}
		}
		rec(p.f, 0)
		rec(p.g, 0)
		if n == 0 {
			s.OK("no hand-written rune decoding in the plain sniffer", c.Pos(p.f.Pos()), "utf8.Valid decides")
		}
	}}

// R11.4
var ruleASCIIClass = &core.Rule{ID: "R11.4", Min: 256,
	Doc: "the ASCII shortcut (which answers utf-8 without validation) accepts only 7-bit bytes: its per-byte predicate, tabulated over 0..255 through the constant class table, accepts no byte >= 0x80; it accepts every printable ASCII byte and the control characters that the text detector lets through besides (TAB, LF, FF, CR, ESC)",
	Run: func(c *core.Ctx, s *core.Sink) {
		p := getPlain(c)
		if p.ascii == nil {
			core.Bail("no ASCII shortcut in the plain sniffer")
		}
		g := p.ascii.Call.StaticCallee()
		// every byte is looked at: a scan over a part of the input (content[1:], content[:n]) lets the rest pass unseen
		for _, b := range g.Blocks {
			for _, in := range b.Instrs {
				sl, ok := in.(*ssa.Slice)
				if !ok || sl.X != ssa.Value(g.Params[0]) {
					continue
				}
				if (sl.Low != nil && !core.IsConstInt(sl.Low, 0)) || sl.High != nil {
					if len(fde.FindRangeOver(g, sl)) > 0 {
						s.Bad(g.Name()+": scans the whole input", c.Pos(sl.Pos()), "the ASCII test ranges over a part of its input only: the bytes left out are never checked, so text with a byte >= 0x80 (or a control byte) there is reported as utf-8 without validation")
						return
					}
				}
			}
		}
		_, tab, _, err := tabulateRange(c, g, g.Params[0], nil)
		if err != nil {
			core.Bail("ASCII test: %v", err)
		}
		for b := 0; b < 256; b++ {
			o := tab[b]
			key := fmt.Sprintf("%s: byte %#02x", g.Name(), b)
			accepted := o.cont
			if !accepted {
				if v, ok := core.ConstBool(o.ret.Results[0]); !ok || v {
					s.Bad(key, c.Pos(o.ret.Pos()), "the ASCII test answers true before having seen every byte")
					continue
				}
			}
			switch {
			case accepted && b >= 0x80:
				s.Bad(key, c.Pos(g.Pos()), fmt.Sprintf("the ASCII shortcut accepts byte %#02x (>= 0x80): input containing it is reported as utf-8 without UTF-8 validation", b))
			case !accepted && (b == '\t' || b == '\n' || b == '\f' || b == '\r' || b == 0x1b || (b >= 0x20 && b < 0x7f)):
				s.Bad(key, c.Pos(g.Pos()), fmt.Sprintf("the ASCII test rejects plain ASCII text byte %#02x: pure ASCII text would not be reported as utf-8", b))
			default:
				s.OK(key, c.Pos(g.Pos()), map[bool]string{true: "accepted, 7-bit", false: "rejected"}[accepted])
			}
		}
		// after the loop: true
		for _, r := range core.Returns(g) {
			rs := fde.FindRangeOver(g, g.Params[0])
			if len(rs) == 1 && r.Block() == rs[0].Done {
				v, ok := core.ConstBool(r.Results[0])
				s.Check(ok && v, g.Name()+": verdict after the scan", c.Pos(r.Pos()), "true", "ASCII test does not answer true after a full scan")
			}
		}
		// the shortcut must be applied to the sniffer's unmodified input
		s.Check(p.ascii.Call.Args[0] == ssa.Value(p.g.Params[0]), "ASCII test on the unmodified input", c.Pos(p.ascii.Pos()), "argument is the parameter", "the ASCII test runs on something other than the sniffer's input")
	}}

// R11.5
var ruleTrim = &core.Rule{ID: "R11.5", Min: 2,
	Doc: "the buffer given to utf8.Valid is the input, shortened at most by a final incomplete rune: every re-slice on the way (also inside byte-slice helpers) is control dependent on utf8.FullRune(dropped tail) being false, cuts at a rune start among the last 3 bytes; the search for that rune start, evaluated on a buffer of continuation bytes, steps over three of them; the cut is not behind a constant-false condition",
	Run: func(c *core.Ctx, s *core.Sink) {
		p := getPlain(c)
		if p.valid == nil {
			if handWrittenUTF8(p) {
				s.Und("utf8.Valid call", c.Pos(p.f.Pos()), "the sniffer does not call utf8.Valid but decodes runes itself: whether that amounts to validation of the input minus a cut-off final rune is not decided here")
				return
			}
			s.Bad("utf8.Valid call", c.Pos(p.f.Pos()), "the plain sniffer never validates UTF-8")
			return
		}
		f := p.g
		n := 0
		// frames: calls of trimming helpers being looked through (innermost last)
		var frames []*ssa.Call
		var visit func(v ssa.Value, seen map[ssa.Value]bool)
		visit = func(v ssa.Value, seen map[ssa.Value]bool) {
			if seen[v] {
				return
			}
			seen[v] = true
			switch x := v.(type) {
			case *ssa.Call:
				// a module helper from bytes to bytes: what it returns is judged inside it
				h := x.Call.StaticCallee()
				if h == nil || !core.InMod(h) || h.Blocks == nil || len(h.Params) != 1 || len(frames) > 3 || !core.IsByteSlice(h.Params[0].Type()) || h.Signature.Results().Len() != 1 || !core.IsByteSlice(h.Signature.Results().At(0).Type()) {
					n++
					s.Bad("origin of validated buffer", c.Pos(p.valid.Pos()), fmt.Sprintf("validated buffer flows from %s, which is neither the input nor a re-slice of it", v))
					return
				}
				frames = append(frames, x)
				for _, r := range core.Returns(h) {
					visit(r.Results[0], seen)
				}
				frames = frames[:len(frames)-1]
			case *ssa.Parameter:
				if len(frames) > 0 {
					top := frames[len(frames)-1]
					if x == top.Call.StaticCallee().Params[0] {
						frames = frames[:len(frames)-1]
						visit(top.Call.Args[0], seen)
						frames = append(frames, top)
						return
					}
				}
				n++
				s.Check(x == f.Params[0], "validated buffer originates from the input", c.Pos(p.valid.Pos()), "parameter 0", "validated buffer is not the sniffer's input")
			case *ssa.Phi:
				for _, e := range x.Edges {
					visit(e, seen)
				}
			case *ssa.Slice:
				n++
				key := fmt.Sprintf("re-slice #%d feeding utf8.Valid", n)
				if x.Low != nil && !core.IsConstInt(x.Low, 0) {
					s.Bad(key, c.Pos(x.Pos()), "the validated buffer drops leading bytes")
				} else if x.High == nil {
					s.OK(key, c.Pos(x.Pos()), "full re-slice")
				} else {
					// need a dominating edge FullRune(x.X[x.High:]) == false
					ok := false
					for _, de := range core.DominatingConds(x.Block()) {
						cond, val := core.StripNot(de.Cond, de.Val)
						call, isCall := cond.(*ssa.Call)
						if !isCall || val || !core.CalleeIs(&call.Call, "unicode/utf8", "FullRune") {
							continue
						}
						if tail, isSl := call.Call.Args[0].(*ssa.Slice); isSl && tail.X == x.X && tail.Low == x.High && tail.High == nil {
							ok = true
						}
					}
					s.Check(ok, key, c.Pos(x.Pos()), "under !utf8.FullRune(tail)", "the buffer validated as UTF-8 is shortened without checking that the dropped tail is an incomplete rune: text ending in a complete multi-byte character loses it and is not recognised as UTF-8")
					// one cut only: after it the search is over (a second round would drop a complete rune start, or another
					// dangling lead byte, and let invalid input pass as UTF-8)
					if ph, isPhi := x.High.(*ssa.Phi); isPhi && ok {
						if hb := ph.Block(); core.Reach(x.Block())[hb] && loopBlocks(hb)[x.Block()] {
							n++
							s.Bad(fmt.Sprintf("re-slice #%d ends the search", n-1), c.Pos(x.Pos()), "after the incomplete final character has been cut the search loop goes on: up to three bytes can be removed one after the other, so input ending in several dangling lead bytes (invalid UTF-8) is reported as utf-8")
						}
					}
					// the cut is live code: no condition on the way to it is constantly false
					for _, de := range core.DominatingConds(x.Block()) {
						cond, val := core.StripNot(de.Cond, de.Val)
						if k, isK := core.ConstBool(cond); isK && k != val {
							n++
							s.Bad(fmt.Sprintf("re-slice #%d is reachable", n-1), c.Pos(x.Pos()), "the cut of an incomplete final character lies behind a condition that is constantly "+fmt.Sprint(k)+": it is never made, and text cut inside a multi-byte character fails validation and loses charset=utf-8")
						}
					}
					// and the search for that rune start looks at the last three bytes: a four-byte character can be cut
					// after its third byte
					if ok {
						n++
						wkey := fmt.Sprintf("look-back window of re-slice #%d", n-1)
						switch seenBytes, why := lookBackWindow(c, x); {
						case why != "":
							s.Und(wkey, c.Pos(x.Pos()), why)
						case seenBytes < utf8.UTFMax-1:
							s.Bad(wkey, c.Pos(x.Pos()), fmt.Sprintf("the search for the start of a cut-off final character looks at the last %d byte(s) only: a %d-byte character cut after its %s byte is not dropped, the text fails validation and loses charset=utf-8", seenBytes, seenBytes+2, map[int]string{1: "first", 2: "second", 3: "third"}[seenBytes+1]))
						default:
							s.OK(wkey, c.Pos(x.Pos()), fmt.Sprintf("%d trailing continuation bytes are stepped over", seenBytes))
						}
					}
				}
				visit(x.X, seen)
			default:
				n++
				s.Bad("origin of validated buffer", c.Pos(p.valid.Pos()), fmt.Sprintf("validated buffer flows from %s, which is neither the input nor a re-slice of it", v))
			}
		}
		nBefore := n
		visit(p.valid.Call.Args[0], map[ssa.Value]bool{})
		// tolerance of a final character cut off by the limit: some path to the validation shortens the buffer
		cuts := false
		var hasCut func(v ssa.Value, seen map[ssa.Value]bool, d int)
		hasCut = func(v ssa.Value, seen map[ssa.Value]bool, d int) {
			if seen[v] || d > 8 {
				return
			}
			seen[v] = true
			switch x := v.(type) {
			case *ssa.Slice:
				if x.High != nil {
					cuts = true
				}
				hasCut(x.X, seen, d+1)
			case *ssa.Phi:
				for _, e := range x.Edges {
					hasCut(e, seen, d+1)
				}
			case *ssa.Call:
				if h := x.Call.StaticCallee(); h != nil && core.InMod(h) && h.Blocks != nil {
					for _, r := range core.Returns(h) {
						if len(r.Results) > 0 {
							hasCut(r.Results[0], seen, d+1)
						}
					}
				}
			}
		}
		hasCut(p.valid.Call.Args[0], map[ssa.Value]bool{}, 0)
		_ = nBefore
		s.Check(cuts, "validated buffer may be shortened by a cut-off final character", c.Pos(p.valid.Pos()), "a re-slice x[:i] reaches utf8.Valid", "what is validated is the input as it is: a multi-byte character cut off by the limit at the very end makes the whole text invalid, and valid UTF-8 that merely continues beyond the header loses charset=utf-8")
	}}

// lookBackWindow evaluates the loop that searches the end of the buffer for the start of a cut-off character, on a
// buffer of 16 continuation bytes: how many of them does it step over before it gives up? (0 when the cut is not made
// in a loop over a position.)
func lookBackWindow(c *core.Ctx, cut *ssa.Slice) (int, string) {
	g := cut.Parent()
	var pos *ssa.Phi
	var find func(v ssa.Value, d int)
	find = func(v ssa.Value, d int) {
		if pos != nil || d > 4 {
			return
		}
		switch x := v.(type) {
		case *ssa.Phi:
			pos = x
		case *ssa.BinOp:
			find(x.X, d+1)
			find(x.Y, d+1)
		case *ssa.Convert:
			find(x.X, d+1)
		}
	}
	find(cut.High, 0)
	if pos == nil {
		return 0, "the cut position is not a loop variable: the look-back window is not decided"
	}
	h := pos.Block()
	body := loopBlocks(h)
	if len(body) < 2 {
		return 0, "the cut position is not a loop variable: the look-back window is not decided"
	}
	var pre *ssa.BasicBlock
	for _, p := range h.Preds {
		if !body[p] {
			pre = p
		}
	}
	if pre == nil {
		return 0, "loop without an entry edge"
	}
	const n = 16
	ev := newEval(c)
	ev.Env = fde.Env{}
	loadBlocks := map[*ssa.BasicBlock]bool{}
	for _, b := range g.Blocks {
		for _, in := range b.Instrs {
			switch x := in.(type) {
			case *ssa.Call:
				if core.IsBuiltin(&x.Call, "len") && core.IsByteSlice(x.Call.Args[0].Type()) {
					ev.Env[x] = constant.MakeInt64(n)
				}
				if core.CalleeIs(&x.Call, "unicode/utf8", "RuneStart") && body[b] {
					ev.Env[x] = constant.MakeBool(false)
				}
			case *ssa.UnOp:
				if ia, ok := x.X.(*ssa.IndexAddr); ok && x.Op == token.MUL && body[b] && core.IsByteSlice(ia.X.Type()) {
					ev.Env[x] = constant.MakeInt64(0x80)
					loadBlocks[b] = true
				}
			}
		}
	}
	if len(loadBlocks) == 0 {
		return 0, "no byte of the buffer is read in the look-back loop"
	}
	after := core.Reach(h)
	if os.Getenv("MTVERIF_DEBUG") != "" {
		for k, v := range ev.Env {
			fmt.Fprintln(os.Stderr, "R11.5 pinned", k.Name(), k, v)
		}
		for b := range body {
			fmt.Fprintln(os.Stderr, "R11.5 body block", b.Index)
		}
	}
	exits, err := ev.Walk(g.Blocks[0], nil, func(b *ssa.BasicBlock) bool { return !body[b] && after[b] }, 6)
	if err != nil || len(exits) == 0 {
		return 0, fmt.Sprintf("the look-back loop does not evaluate on a buffer of continuation bytes (%v)", err)
	}
	best := 0
	for _, x := range exits {
		if x.Stop == nil {
			continue
		}
		k := 0
		for _, b := range x.Path {
			if loadBlocks[b] {
				k++
			}
		}
		if k > best {
			best = k
		}
	}
	return best, ""
}

// R11.6
var ruleLatin = &core.Rule{ID: "R11.6", Min: 256,
	Doc: "Latin fallback: per byte (0..255, through the class table) either no charset is returned or the scan continues and the windows-1252 flag is set exactly for bytes 0x80-0x9F and never cleared; after the scan windows-1252 iff the flag, else iso-8859-1",
	Run: func(c *core.Ctx, s *core.Sink) {
		p := getPlain(c)
		if p.latin == nil {
			core.Bail("no Latin fallback in the plain sniffer")
		}
		g := p.latin.Call.StaticCallee()
		rs := fde.FindRangeOver(g, g.Params[0])
		if len(rs) != 1 {
			core.Bail("Latin fallback: %d range loops", len(rs))
		}
		r := rs[0]
		var flag *ssa.Phi
		for _, in := range r.Header.Instrs {
			if ph, ok := in.(*ssa.Phi); ok {
				if b, ok := ph.Type().Underlying().(*types.Basic); ok && b.Kind() == types.Bool {
					if flag != nil {
						core.Bail("Latin fallback: two bool loop variables")
					}
					flag = ph
				}
			}
		}
		if flag == nil {
			core.Bail("Latin fallback: no flag variable carried by the scan")
		}
		// initial value false
		for k, pr := range r.Header.Preds {
			if !r.Header.Dominates(pr) {
				v, ok := core.ConstBool(flag.Edges[k])
				s.Check(ok && !v, g.Name()+": flag starts false", c.Pos(g.Pos()), "false", "windows-1252 flag does not start as false")
			}
		}
		for _, init := range []bool{false, true} {
			_, tab, ev, err := tabulateRange(c, g, g.Params[0], fde.Env{flag: constant.MakeBool(init)})
			if err != nil {
				core.Bail("Latin fallback: %v", err)
			}
			for b := 0; b < 256; b++ {
				o := tab[b]
				key := fmt.Sprintf("%s: byte %#02x flag-in=%v", g.Name(), b, init)
				if !o.cont {
					k, ok := core.ConstString(o.ret.Results[0])
					s.Check(ok && k == "", key, c.Pos(o.ret.Pos()), "rejected: no charset", "a byte ends the Latin scan with a charset before the rest was seen")
					continue
				}
				// new flag value = phi edge from the block we came from
				var nv constant.Value
				okv := false
				for k, pr := range r.Header.Preds {
					if pr == o.exit.From {
						if flag.Edges[k] == ssa.Value(flag) {
							nv, okv = constant.MakeBool(init), true
						} else {
							nv, okv = o.exit.ValAt(ev, flag.Edges[k])
						}
					}
				}
				if !okv {
					s.Und(key, c.Pos(g.Pos()), "flag value after the iteration is not evaluable")
					continue
				}
				want := init || (b >= 0x80 && b <= 0x9F)
				s.Check(constant.BoolVal(nv) == want, key, c.Pos(g.Pos()), fmt.Sprintf("flag-out=%v", want),
					fmt.Sprintf("byte %#02x leaves the windows-1252 flag %v, but the C1 range 0x80-0x9F requires %v", b, constant.BoolVal(nv), want))
			}
		}
		// after the loop
		ev := newEval(c)
		for _, fl := range []bool{false, true} {
			ev.Env = fde.Env{flag: constant.MakeBool(fl)}
			exits, err := ev.Walk(r.Done, r.Header, nil, 0)
			key := fmt.Sprintf("%s: verdict with flag=%v", g.Name(), fl)
			if err != nil || len(exits) != 1 || exits[0].Ret == nil {
				s.Und(key, c.Pos(g.Pos()), fmt.Sprintf("verdict after the scan not evaluable: %v", err))
				continue
			}
			k, _ := core.ConstString(exits[0].Ret.Results[0])
			want := map[bool]string{true: "windows-1252", false: "iso-8859-1"}[fl]
			s.Check(k == want, key, c.Pos(exits[0].Ret.Pos()), want, fmt.Sprintf("returns %q, want %q", k, want))
		}
		s.Check(p.latin.Call.Args[0] == ssa.Value(p.g.Params[0]), "Latin fallback on the unmodified input", c.Pos(p.latin.Pos()), "argument is the parameter", "the Latin fallback runs on something other than the sniffer's input")
	}}

// bomSwitchCheck judges a hand-written BOM lookup (explicit byte tests, no
// table). (A) Path conditions: every return of a charset name is dominated by
// exactly the equalities input[i] == mark[i] for the mark of that name and by
// a length bound of exactly len(mark) — a larger bound loses a mark at the very
// end of the examined bytes, a missing equality accepts look-alikes. (B) For
// each of the five marks the function, folded with the input's leading bytes
// and length fixed, returns the mark's name both when the mark is the whole
// input and when more bytes follow (reachability, no shadowing by a shorter
// mark).
func bomSwitchCheck(c *core.Ctx, s *core.Sink, f *ssa.Function) {
	in := f.Params[0]
	// byte loads at constant positions and length reads
	idxOf := func(v ssa.Value) (int64, bool) {
		u, ok := v.(*ssa.UnOp)
		if !ok || u.Op != token.MUL {
			return 0, false
		}
		ia, ok := u.X.(*ssa.IndexAddr)
		if !ok || ia.X != ssa.Value(in) {
			return 0, false
		}
		return core.ConstInt(ia.Index)
	}
	isLen := func(v ssa.Value) bool {
		call, ok := v.(*ssa.Call)
		return ok && core.IsBuiltin(&call.Call, "len") && call.Call.Args[0] == ssa.Value(in)
	}
	seen := map[string]bool{}
	for _, r := range core.Returns(f) {
		name, _ := core.ConstString(r.Results[0])
		if name == "" {
			continue
		}
		key := fmt.Sprintf("%s: conditions of return %q (%s)", f.Name(), name, returnOrdinal(r))
		var mark []byte
		for _, w := range wantBOMs {
			if w.name == name {
				mark = w.mark
			}
		}
		if mark == nil {
			s.Bad(key, c.Pos(r.Pos()), fmt.Sprintf("the BOM lookup returns %q, which is not the name of a Unicode byte-order mark", name))
			continue
		}
		seen[name] = true
		eq := map[int64]int64{}
		minLen := int64(0)
		bad := ""
		for _, de := range core.DominatingConds(r.Block()) {
			cond, val := core.StripNot(de.Cond, de.Val)
			if hp, isCall := cond.(*ssa.Call); isCall && val && core.CalleeIs(&hp.Call, "bytes", "HasPrefix") && hp.Call.Args[0] == ssa.Value(in) {
				// a whole mark at once: its bytes and its length
				if mk, isC := tree.ConstBytes(hp.Call.Args[1]); isC {
					for i, b := range mk {
						if old, dup := eq[int64(i)]; dup && old != int64(b) {
							bad = "contradictory byte tests"
						}
						eq[int64(i)] = int64(b)
					}
					if int64(len(mk)) > minLen {
						minLen = int64(len(mk))
					}
				}
				continue
			}
			bo, ok := cond.(*ssa.BinOp)
			if !ok {
				continue
			}
			if i, ok := idxOf(bo.X); ok {
				k, isC := core.ConstInt(bo.Y)
				if isC && ((bo.Op == token.EQL && val) || (bo.Op == token.NEQ && !val)) {
					if old, dup := eq[i]; dup && old != k {
						bad = "contradictory byte tests"
					}
					eq[i] = k
				}
				continue
			}
			if isLen(bo.X) {
				k, isC := core.ConstInt(bo.Y)
				if !isC {
					continue
				}
				need := int64(-1)
				switch {
				case bo.Op == token.GTR && val, bo.Op == token.LEQ && !val:
					need = k + 1
				case bo.Op == token.GEQ && val, bo.Op == token.LSS && !val:
					need = k
				case bo.Op == token.EQL && val:
					need = k
				}
				if need > minLen {
					minLen = need
				}
			}
		}
		for i, b := range mark {
			if v, ok := eq[int64(i)]; !ok || v != int64(b) {
				bad = fmt.Sprintf("byte %d of the mark (%#02x) is not required", i, b)
			}
		}
		for i := range eq {
			if i >= int64(len(mark)) {
				bad = fmt.Sprintf("a byte beyond the mark (position %d) is required", i)
			}
		}
		if bad == "" && minLen != int64(len(mark)) {
			bad = fmt.Sprintf("the length required is %d bytes, the mark has %d: a mark that ends the examined bytes is missed (or the bytes are read without a guard)", minLen, len(mark))
		}
		s.Check(bad == "", key, c.Pos(r.Pos()), fmt.Sprintf("exactly the %d bytes of the mark, length >= %d", len(mark), len(mark)), "the byte-order mark of "+name+" is not recognised by exactly its bytes: "+bad)
	}
	for _, w := range wantBOMs {
		if !seen[w.name] {
			s.Bad(fmt.Sprintf("mark % x", w.mark), c.Pos(f.Pos()), "Unicode byte-order mark missing from the hand-written lookup")
		}
	}
	// (B) folded evaluation per mark
	for _, w := range wantBOMs {
		for _, extra := range []int{0, 3} {
			key := fmt.Sprintf("%s: mark % x followed by %d bytes", f.Name(), w.mark, extra)
			ev := newEval(c)
			ev.Env = fde.Env{}
			und := ""
			for _, b := range f.Blocks {
				for _, ins := range b.Instrs {
					v := valueOf(ins)
					if v == nil {
						continue
					}
					if isLen(v) {
						ev.Env[v] = constant.MakeInt64(int64(len(w.mark) + extra))
					}
					if hp, isCall := v.(*ssa.Call); isCall && core.CalleeIs(&hp.Call, "bytes", "HasPrefix") && hp.Call.Args[0] == ssa.Value(in) {
						// the input is the mark followed by `extra` filler bytes: whether a constant is its prefix is known
						if mk, isC := tree.ConstBytes(hp.Call.Args[1]); isC {
							input := append(append([]byte{}, w.mark...), bytes.Repeat([]byte{0x41}, extra)...)
							ev.Env[v] = constant.MakeBool(bytes.HasPrefix(input, mk))
						}
					}
					if u, ok := v.(*ssa.UnOp); ok && u.Op == token.MUL {
						if ia, ok := u.X.(*ssa.IndexAddr); ok && ia.X == ssa.Value(in) {
							i, isC := core.ConstInt(ia.Index)
							if !isC {
								und = "input indexed at a non-constant position"
								continue
							}
							bv := int64(0x41)
							if i < int64(len(w.mark)) {
								bv = int64(w.mark[i])
							}
							ev.Env[v] = constant.MakeInt64(bv)
						}
					}
				}
			}
			if und != "" {
				s.Und(key, c.Pos(f.Pos()), und)
				continue
			}
			exits, err := ev.Walk(f.Blocks[0], nil, nil, 0)
			if err != nil || len(exits) != 1 || exits[0].Ret == nil {
				s.Und(key, c.Pos(f.Pos()), fmt.Sprintf("not evaluable: %v", err))
				continue
			}
			got, _ := core.ConstString(exits[0].Ret.Results[0])
			s.Check(got == w.name, key, c.Pos(exits[0].Ret.Pos()), w.name, fmt.Sprintf("an input starting with the mark % x (%d more bytes) is reported as %q instead of %q", w.mark, extra, got, w.name))
		}
	}
}
