package rules

import (
	"fmt"
	"go/constant"
	"go/token"
	"go/types"
	"strings"

	"golang.org/x/tools/go/ssa"

	"mtverif/internal/core"
	"mtverif/internal/fde"
	"mtverif/internal/tree"
)

// quoteLookups: string (or byte slice) values of f whose byte 0 is compared with a quote character, with every read
// of that byte.
func quoteLookups(f *ssa.Function) map[ssa.Value][]ssa.Value {
	byStr := map[ssa.Value][]ssa.Value{}
	quoted := map[ssa.Value]bool{}
	for _, b := range f.Blocks {
		for _, in := range b.Instrs {
			var strV, idxV ssa.Value
			switch x := in.(type) {
			case *ssa.Lookup:
				strV, idxV = x.X, x.Index
			case *ssa.Index:
				strV, idxV = x.X, x.Index
			case *ssa.UnOp:
				if ia, ok := x.X.(*ssa.IndexAddr); ok && x.Op == token.MUL {
					strV, idxV = ia.X, ia.Index
				}
			}
			if strV == nil || !core.IsConstInt(idxV, 0) {
				continue
			}
			v := in.(ssa.Value)
			byStr[strV] = append(byStr[strV], v)
			for _, ref := range *v.Referrers() {
				if bo, ok := ref.(*ssa.BinOp); ok {
					for _, o := range []ssa.Value{bo.X, bo.Y} {
						if k, isK := core.ConstInt(o); isK && (k == '"' || k == 0x27) {
							quoted[strV] = true
						}
					}
				}
			}
		}
	}
	for k := range byStr {
		if !quoted[k] {
			delete(byStr, k)
		}
	}
	return byStr
}

func isSearchCall(in ssa.Instruction) *ssa.Call {
	call, ok := in.(*ssa.Call)
	if !ok {
		return nil
	}
	g := call.Call.StaticCallee()
	if g != nil && g.Pkg != nil && (g.Pkg.Pkg.Path() == "strings" || g.Pkg.Pkg.Path() == "bytes") && (strings.HasPrefix(g.Name(), "Index") || g.Name() == "Cut") && len(call.Call.Args) == 2 {
		return call
	}
	return nil
}

// quotedValueChecks decides, for every quote site of f, what happens to a value opened by either quote character: the
// next search is the search for that same character, it starts behind the opening quote, and what is returned is the
// text between the two.
func quotedValueChecks(c *core.Ctx, s *core.Sink, f *ssa.Function, what string) int {
	n := 0
	for strV, looks := range quoteLookups(f) {
		first := looks[0].(ssa.Instruction)
		for _, l := range looks[1:] {
			li := l.(ssa.Instruction)
			if li.Block() != first.Block() && li.Block().Dominates(first.Block()) {
				first = li
			}
		}
		for _, q := range []int64{'"', 0x27} {
			n++
			key := fmt.Sprintf("%s %s: value opened by %q", what, core.FName(f), rune(q))
			ev := newEval(c)
			ev.Env = fde.Env{}
			for _, l := range looks {
				ev.Env[l] = constant.MakeInt64(q)
			}
			var prev *ssa.BasicBlock
			if len(first.Block().Preds) > 0 {
				prev = first.Block().Preds[0]
			}
			stop := func(b *ssa.BasicBlock) bool {
				for _, in := range b.Instrs {
					if isSearchCall(in) != nil {
						return true
					}
				}
				return false
			}
			exits, err := ev.Walk(first.Block(), prev, stop, 4)
			if err != nil || len(exits) == 0 {
				s.Und(key, c.Pos(first.Pos()), fmt.Sprintf("the quote test does not evaluate (%v)", err))
				continue
			}
			bad, und, okN := "", "", 0
			for _, x := range exits {
				if x.Stop == nil {
					if emptyStringReturn(x) {
						bad = fmt.Sprintf("a value quoted with %q is answered with `nothing declared`", rune(q))
					}
					continue
				}
				var call *ssa.Call
				for _, in := range x.Stop.Instrs {
					if call = isSearchCall(in); call != nil {
						break
					}
				}
				// the character searched for is the opening quote
				nv, okV := x.ValAt(ev, call.Call.Args[1])
				switch {
				case !okV:
					und = "the character searched for after the opening quote does not evaluate"
					continue
				case nv.Kind() == constant.Int:
					if k, _ := constant.Int64Val(nv); k != q {
						bad = fmt.Sprintf("after an opening %q the scanner searches for %q, not for the matching quote", rune(q), rune(k))
						continue
					}
				case nv.Kind() == constant.String:
					if constant.StringVal(nv) != string(rune(q)) {
						bad = fmt.Sprintf("a value opened by %q is read as a bare one (the scanner goes on to search for one of %q): the quotes end up in the reported label", rune(q), constant.StringVal(nv))
						continue
					}
				default:
					und = "the character searched for after the opening quote is not a character"
					continue
				}
				// ... behind the opening quote
				hay, isSl := call.Call.Args[0].(*ssa.Slice)
				switch {
				case call.Call.Args[0] == strV, isSl && hay.X == strV && (hay.Low == nil || core.IsConstInt(hay.Low, 0)) && hay.High == nil:
					bad = "the closing quote is searched from the position of the opening quote, which it finds at once: every quoted label comes out empty"
					continue
				case isSl && hay.X == strV && core.IsConstInt(hay.Low, 1) && hay.High == nil:
				default:
					und = "the text searched for the closing quote is not the remainder behind the opening quote (s[1:])"
					continue
				}
				// ... and the text between the two is what is returned
				shape := false
				for _, r := range core.Returns(f) {
					if !x.Stop.Dominates(r.Block()) || len(r.Results) == 0 {
						continue
					}
					// Cut form: what is returned is the text before the separator
					if ex, ok := r.Results[0].(*ssa.Extract); ok && ex.Tuple == ssa.Value(call) && ex.Index == 0 {
						shape = true
						continue
					}
					sl, ok := r.Results[0].(*ssa.Slice)
					if !ok {
						continue
					}
					switch {
					case sl.X == ssa.Value(hay) && (sl.Low == nil || core.IsConstInt(sl.Low, 0)) && sl.High == ssa.Value(call):
						shape = true
					case sl.X == strV && core.IsConstInt(sl.Low, 1):
						if add, ok := sl.High.(*ssa.BinOp); ok && add.Op == token.ADD && ((add.X == ssa.Value(call) && core.IsConstInt(add.Y, 1)) || (add.Y == ssa.Value(call) && core.IsConstInt(add.X, 1))) {
							shape = true
						}
					}
				}
				if !shape {
					und = "no return of the text between the quotes (rest[:i] or s[1:i+1]) behind the search for the closing quote"
					continue
				}
				okN++
			}
			switch {
			case bad != "":
				s.Bad(key, c.Pos(first.Pos()), bad)
			case und != "" || okN == 0:
				if und == "" {
					und = "no search for a closing quote is reached"
				}
				s.Und(key, c.Pos(first.Pos()), und)
			default:
				s.OK(key, c.Pos(first.Pos()), "closing quote searched in s[1:], text between the quotes returned")
			}
		}
	}
	return n
}

// searchesFor: f calls a strings/bytes function with a constant second argument containing word.
func searchesFor(f *ssa.Function, word string) bool {
	for _, ci := range core.Calls(f) {
		cc := ci.Common()
		g := cc.StaticCallee()
		if g == nil || g.Pkg == nil || (g.Pkg.Pkg.Path() != "strings" && g.Pkg.Pkg.Path() != "bytes") || len(cc.Args) < 2 {
			continue
		}
		if k, ok := core.ConstString(cc.Args[1]); ok && strings.Contains(k, word) {
			return true
		}
		if k, ok := tree.ConstBytes(cc.Args[1]); ok && strings.Contains(string(k), word) {
			return true
		}
	}
	return false
}

var ruleQuotedLabels = &core.Rule{ID: "R12.11", Min: 4,
	Doc: "quoted labels (XML `encoding` pseudo-attribute, HTML pragma `charset=`): with the opening byte pinned to either quote character, the next search looks for that same character, in the remainder behind the opening quote, and the text between the two is returned; in the pragma scanner the text tested for `=` is the remainder after `charset` with the HTML whitespace skipped",
	Run: func(c *core.Ctx, s *core.Sink) {
		cm := getCharset(c)
		if cm.xml == nil || cm.html == nil {
			core.Bail("XML / HTML sniffer not registered")
		}
		nx, nh := 0, 0
		for _, f := range belowSniffer(cm.xml) {
			if f != cm.plain && f != cm.bomFn && searchesFor(f, "encoding") {
				nx += quotedValueChecks(c, s, f, "XML reader")
				// what is searched for is the attribute name with its equals sign: the value starts right behind it
				for _, ci := range core.Calls(f) {
					cc := ci.Common()
					g := cc.StaticCallee()
					if g == nil || g.Pkg == nil || (g.Pkg.Pkg.Path() != "strings" && g.Pkg.Pkg.Path() != "bytes") || len(cc.Args) < 2 {
						continue
					}
					k, ok := core.ConstString(cc.Args[1])
					if !ok {
						if kb, okb := tree.ConstBytes(cc.Args[1]); okb {
							k, ok = string(kb), true
						}
					}
					if !ok || !strings.Contains(strings.ToLower(k), "encoding") {
						continue
					}
					key := fmt.Sprintf("XML reader %s: text searched for (%s)", core.FName(f), callOrdinal(ci))
					switch k {
					case "encoding=":
						s.OK(key, c.Pos(ci.Pos()), "`encoding=`")
					case "encoding":
						s.Und(key, c.Pos(ci.Pos()), "the attribute name is searched without its equals sign: how the sign is consumed is not modelled")
					default:
						s.Bad(key, c.Pos(ci.Pos()), fmt.Sprintf("the declaration is searched for %q instead of `encoding=`: the value no longer starts right behind what was found (or the attribute is never found), so the declared encoding is lost", k))
					}
				}
			}
		}
		if nx == 0 {
			s.Und("XML pseudo-attribute reader", c.Pos(cm.xml.Pos()), "no function below the XML sniffer that searches for `encoding` and tests the first byte of the value for a quote")
		}
		// the declaration is looked for behind leading whitespace: the XML detector accepts documents that start with
		// blanks or line ends, and the decoder only reports a declaration as the first token
		for _, f := range belowSniffer(cm.xml) {
			for _, ci := range core.Calls(f) {
				if !core.CalleeIs(ci.Common(), "encoding/xml", "NewDecoder") {
					continue
				}
				key := core.FName(f) + ": decoder input has leading whitespace removed"
				src := ci.Common().Args[0]
				for d := 0; d < 4; d++ {
					switch x := src.(type) {
					case *ssa.MakeInterface:
						src = x.X
						continue
					case *ssa.Call:
						if core.CalleeIs(&x.Call, "bytes", "NewReader") || core.CalleeIs(&x.Call, "bytes", "NewBuffer") {
							src = x.Call.Args[0]
							continue
						}
					}
					break
				}
				// the reading sits in a helper: what its callers hand it decides
				if p, isP := src.(*ssa.Parameter); isP && f != cm.xml {
					var args []ssa.Value
					for _, cf := range belowSniffer(cm.xml) {
						for _, cc := range core.Calls(cf) {
							if cc.Common().StaticCallee() == f {
								for i, fp := range f.Params {
									if fp == p && i < len(cc.Common().Args) {
										args = append(args, cc.Common().Args[i])
									}
								}
							}
						}
					}
					if len(args) == 1 {
						src = args[0]
					}
				}
				switch x := src.(type) {
				case *ssa.Parameter:
					s.Bad(key, c.Pos(ci.Pos()), "the XML decoder is given the input as it is: a document that begins with whitespace has character data as its first token, the declaration behind it is not seen and its encoding is lost")
				case *ssa.Call:
					g := x.Call.StaticCallee()
					okTrim := false
					if g != nil && g.Pkg != nil && g.Pkg.Pkg.Path() == "bytes" && (g.Name() == "TrimLeft" || g.Name() == "TrimSpace" || g.Name() == "TrimLeftFunc") {
						okTrim = true
					}
					if g != nil && core.InMod(g) && len(g.Params) == 1 && core.IsByteSlice(g.Params[0].Type()) && g.Signature.Results().Len() == 1 && core.IsByteSlice(g.Signature.Results().At(0).Type()) {
						// a module helper from bytes to bytes all of whose results are in[i:] (or the input itself)
						okTrim = true
						for _, r := range core.Returns(g) {
							rv := r.Results[0]
							if sl, ok := rv.(*ssa.Slice); ok && sl.X == ssa.Value(g.Params[0]) && sl.High == nil {
								continue
							}
							if rv == ssa.Value(g.Params[0]) {
								continue
							}
							okTrim = false
						}
					}
					if okTrim {
						s.OK(key, c.Pos(ci.Pos()), "input passed through "+g.Name())
					} else {
						s.Und(key, c.Pos(ci.Pos()), "the decoder's input comes from a call that is not recognised as a leading-whitespace trim")
					}
				default:
					s.Und(key, c.Pos(ci.Pos()), "the origin of the decoder's input is not recognised")
				}
			}
		}
		for _, f := range belowSniffer(cm.html) {
			if f == cm.plain || f == cm.bomFn || !searchesFor(f, "charset") {
				continue
			}
			nh += quotedValueChecks(c, s, f, "pragma scanner")
			// a bare label ends at the first HTML whitespace or semicolon (WHATWG step 8, unquoted case), nowhere else
			for _, ci := range core.Calls(f) {
				call, ok := ci.(*ssa.Call)
				if !ok || !(core.CalleeIs(&call.Call, "strings", "IndexAny") || core.CalleeIs(&call.Call, "bytes", "IndexAny")) {
					continue
				}
				key := fmt.Sprintf("pragma scanner %s: end of a bare label (%s)", core.FName(f), callOrdinal(call))
				set, isK := core.ConstString(call.Call.Args[1])
				if !isK {
					s.Und(key, c.Pos(call.Pos()), "the set of terminating characters is not a constant")
					continue
				}
				want := "; \t\n\f\r"
				// a separator that an earlier Cut / Index of the same function already split on counts with the set
				for _, oc := range core.Calls(f) {
					occ := oc.Common()
					if core.CalleeIs(occ, "strings", "Cut") || core.CalleeIs(occ, "strings", "Index") || core.CalleeIs(occ, "strings", "IndexByte") {
						if k, ok := core.ConstString(occ.Args[1]); ok && len(k) == 1 && !strings.Contains(set, k) && strings.Contains(want, k) {
							set += k
						}
						if k, ok := core.ConstInt(occ.Args[1]); ok && k < 0x80 && !strings.ContainsRune(set, rune(k)) && strings.ContainsRune(want, rune(k)) {
							set += string(rune(k))
						}
					}
				}
				same := len(set) == len(want)
				for _, w := range want {
					if !strings.ContainsRune(set, w) {
						same = false
					}
				}
				s.Check(same, key, c.Pos(call.Pos()), "first of `; SP TAB LF FF CR`", fmt.Sprintf("a bare label is cut at the first of %q; the standard ends it at the first ASCII whitespace or semicolon only, so a label containing another of these characters is reported truncated, and one followed by a missing terminator runs on", set))
			}
			// whitespace between `charset` and `=`
			for _, ci := range core.Calls(f) {
				call, ok := ci.(*ssa.Call)
				if !ok || !core.CalleeIs(&call.Call, "strings", "HasPrefix") {
					continue
				}
				if k, isK := core.ConstString(call.Call.Args[1]); !isK || k != "=" {
					continue
				}
				key := fmt.Sprintf("pragma scanner %s: text tested for `=` (%s)", core.FName(f), callOrdinal(call))
				srcs := []ssa.Value{call.Call.Args[0]}
				if ph, ok := call.Call.Args[0].(*ssa.Phi); ok {
					srcs = ph.Edges
				}
				nTrim, nRaw, nOther := 0, 0, 0
				extra := ""
				for _, v := range srcs {
					switch {
					case isWSTrimValue(c, v):
						nTrim++
					case trimEatsLabel(v) != "":
						extra = trimEatsLabel(v)
					default:
						if _, isSl := v.(*ssa.Slice); isSl {
							nRaw++
						} else {
							nOther++
						}
					}
				}
				switch {
				case extra != "":
					s.Bad(key, c.Pos(call.Pos()), extra)
				case nRaw > 0 && nTrim == 0 && nOther == 0:
					s.Bad(key, c.Pos(call.Pos()), "the equals sign is expected right behind `charset`, the whitespace there is not skipped: `charset =x` (WHATWG step 4) is not recognised")
				case nRaw == 0 && nOther == 0:
					s.OK(key, c.Pos(call.Pos()), "whitespace-trimmed remainder")
				default:
					s.Und(key, c.Pos(call.Pos()), "the text tested for `=` is not (on every path) the result of a whitespace trim")
				}
			}
		}
		if nh == 0 {
			s.Und("pragma value scanner", c.Pos(cm.html.Pos()), "no function below the HTML sniffer that searches for `charset` and tests the first byte of the value for a quote")
		}
	}}

// labelKinds: where a returned string comes from, through phis and lower-casing: "attr" = string(value of the
// attribute just read), "helper" = result of a module function applied to it.
func labelKinds(v ssa.Value, attrVal ssa.Value, seen map[ssa.Value]bool, out map[string]bool) {
	if seen[v] {
		return
	}
	seen[v] = true
	fromAttr := func(x ssa.Value) bool {
		for d := 0; d < 4; d++ {
			switch y := x.(type) {
			case *ssa.Convert:
				x = y.X
				continue
			case *ssa.ChangeType:
				x = y.X
				continue
			case *ssa.Slice:
				x = y.X
				continue
			}
			break
		}
		return x == attrVal
	}
	switch x := v.(type) {
	case *ssa.Phi:
		for _, e := range x.Edges {
			labelKinds(e, attrVal, seen, out)
		}
	case *ssa.Convert:
		if fromAttr(x) {
			out["attr"] = true
		}
	case *ssa.Call:
		if g := x.Call.StaticCallee(); g != nil {
			if core.InMod(g) {
				for _, a := range x.Call.Args {
					if fromAttr(a) {
						out["helper"] = true
					}
				}
			} else if g.Pkg != nil && (g.Pkg.Pkg.Path() == "strings" || g.Pkg.Pkg.Path() == "bytes") && len(x.Call.Args) > 0 {
				labelKinds(x.Call.Args[0], attrVal, seen, out)
			}
		}
	}
}

var ruleLabelPaths = &core.Rule{ID: "R12.10", Min: 5,
	Doc: "a declared label reaches the result: a non-empty answer of a declaration reader is what the XML / HTML sniffer returns (finite evaluation with the answer pinned); in the readers a label is returned on the success side of every test on the way (decoder error nil, token is a processing instruction, search found something, no constant-false condition); in the HTML prescan both the charset attribute's value and the pragma scanner's result for the content attribute flow into the returned label",
	Run: func(c *core.Ctx, s *core.Sink) {
		cm := getCharset(c)
		if cm.xml == nil || cm.html == nil {
			core.Bail("XML / HTML sniffer not registered")
		}
		// A: the sniffer returns what its reader found
		for _, sn := range []*ssa.Function{cm.xml, cm.html} {
			for _, ci := range core.Calls(sn) {
				call, ok := ci.(*ssa.Call)
				if !ok {
					continue
				}
				g := call.Call.StaticCallee()
				if g == nil || !core.InMod(g) || g == cm.plain || g == cm.bomFn || !core.IsString(call.Type()) {
					continue
				}
				// a declaration reader: it gets to the tokenizer / decoder and not to the plain sniffer (whose body, or a
				// combinator that runs it, is the fallback itself)
				parses := reachesCallee(g, func(cc *ssa.CallCommon) bool {
					return core.CalleeIs(cc, pkgHTML, "NewTokenizer") || core.CalleeIs(cc, "encoding/xml", "NewDecoder")
				}, map[*ssa.Function]bool{})
				if !parses || g == getPlain(c).g || reachesFn(g, cm.plain, map[*ssa.Function]bool{}) || reachesFn(g, getPlain(c).g, map[*ssa.Function]bool{}) {
					continue
				}
				key := fmt.Sprintf("%s: non-empty answer of %s is returned", core.FName(sn), g.Name())
				ev := newEval(c)
				ev.Env = fde.Env{call: constant.MakeString("x-label")}
				var prev *ssa.BasicBlock
				if len(call.Block().Preds) > 0 {
					prev = call.Block().Preds[0]
				}
				exits, err := ev.Walk(call.Block(), prev, nil, 2)
				if err != nil || len(exits) == 0 {
					s.Und(key, c.Pos(call.Pos()), fmt.Sprintf("the sniffer does not evaluate with the reader's answer pinned (%v)", err))
					continue
				}
				okAll := true
				for _, x := range exits {
					if x.Ret == nil {
						okAll = false
						continue
					}
					v, ok := x.ValAt(ev, x.Ret.Results[0])
					if !ok || v.Kind() != constant.String || constant.StringVal(v) != "x-label" {
						okAll = false
					}
				}
				s.Check(okAll, key, c.Pos(call.Pos()), "returned as it is", fmt.Sprintf("a label found by %s is not what %s returns: the declaration is dropped and the plain-text guess reported instead", g.Name(), sn.Name()))
				// and an empty answer (nothing declared) leads to the plain sniffer's guess
				key2 := fmt.Sprintf("%s: empty answer of %s falls through to the plain sniffer", core.FName(sn), g.Name())
				ev2 := newEval(c)
				ev2.Env = fde.Env{call: constant.MakeString("")}
				for _, lc := range core.Calls(sn) {
					// a non-empty input (the plain sniffer's own answer for the empty one is the empty string)
					if lcall, ok := lc.(*ssa.Call); ok && core.IsBuiltin(&lcall.Call, "len") && core.IsByteSlice(lcall.Call.Args[0].Type()) {
						ev2.Env[lcall] = constant.MakeInt64(10)
					}
				}
				exits2, err := ev2.Walk(call.Block(), prev, nil, 2)
				if err != nil || len(exits2) == 0 {
					s.Und(key2, c.Pos(call.Pos()), fmt.Sprintf("the sniffer does not evaluate with an empty answer pinned (%v)", err))
					continue
				}
				okFall, undFall := true, false
				body := getPlain(c).g
				for _, x := range exits2 {
					if x.Ret == nil {
						okFall = false
						continue
					}
					rv := x.Ret.Results[0]
					if ph, ok := rv.(*ssa.Phi); ok {
						for k, p := range ph.Block().Preds {
							if p == x.From {
								rv = ph.Edges[k]
							}
						}
					}
					rc, isCall := rv.(*ssa.Call)
					switch {
					case isCall && rc == call:
						okFall = false // the reader's own (empty) answer
					case isCall && (rc.Call.StaticCallee() == cm.plain || rc.Call.StaticCallee() == body):
					case isCall && rc.Call.StaticCallee() != nil && core.InMod(rc.Call.StaticCallee()):
						undFall = true // another helper of the module: not followed
					default:
						okFall = false
					}
				}
				switch {
				case !okFall:
					s.Bad(key2, c.Pos(call.Pos()), fmt.Sprintf("with nothing declared %s does not return the plain sniffer's guess: text without a declaration loses its charset parameter (or gets the empty answer)", sn.Name()))
				case undFall:
					s.Und(key2, c.Pos(call.Pos()), "the value returned with nothing declared comes from another helper of the module")
				default:
					s.OK(key2, c.Pos(call.Pos()), "returns the plain sniffer's result")
				}
			}
		}
		// B: label returns lie on the success side
		seenFn := map[*ssa.Function]bool{}
		for _, sn := range []*ssa.Function{cm.xml, cm.html} {
			for _, f := range belowSniffer(sn) {
				if seenFn[f] || f == cm.plain || f == cm.bomFn || f == cm.xml || f == cm.html {
					continue
				}
				seenFn[f] = true
				if f.Signature.Results().Len() == 0 || !core.IsString(f.Signature.Results().At(0).Type()) {
					continue
				}
				for _, r := range core.Returns(f) {
					if _, isK := r.Results[0].(*ssa.Const); isK {
						continue
					}
					key := fmt.Sprintf("%s: %s of a label lies on the success side", core.FName(f), returnOrdinal(r))
					bad := ""
					for _, de := range core.DominatingConds(r.Block()) {
						cond, val := core.StripNot(de.Cond, de.Val)
						switch x := cond.(type) {
						case *ssa.Const:
							if k, ok := core.ConstBool(x); ok && k != val {
								bad = "the return is behind a condition that is constantly " + fmt.Sprint(k) + ": it is never reached"
							}
						case *ssa.Extract:
							if ta, ok := x.Tuple.(*ssa.TypeAssert); ok && ta.CommaOk && x.Index == 1 && !val {
								bad = fmt.Sprintf("the label is returned when the token is NOT a %s", types.TypeString(ta.AssertedType, nil))
							}
						case *ssa.BinOp:
							if x.Op != token.EQL && x.Op != token.NEQ {
								continue
							}
							other := x.X
							var k ssa.Value = x.Y
							if _, isC := x.X.(*ssa.Const); isC {
								other, k = x.Y, x.X
							}
							truth := (x.Op == token.EQL) == val // the path has other == k
							switch {
							case core.IsNilConst(k) && types.Identical(other.Type(), types.Universe.Lookup("error").Type()):
								if !truth {
									bad = "the label is returned on the path where the decoder reported an error"
								}
							case core.IsConstInt(k, -1):
								// (a label that does not use the position may well be "everything, no separator found")
								if call, ok := other.(*ssa.Call); ok && isSearchCall(call) != nil && truth && usesValue(r.Results[0], call, 0) {
									bad = fmt.Sprintf("the label is returned on the path where %s found nothing (-1)", call.Call.StaticCallee().Name())
								}
							}
						}
					}
					s.Check(bad == "", key, c.Pos(r.Pos()), "error nil / token matched / search found", bad)
				}
			}
		}
		// C: attribute values flow into the label
		nAttr := 0
		for _, f := range belowSniffer(cm.html) {
			for _, ci := range core.Calls(f) {
				ta, ok := ci.(*ssa.Call)
				if !ok || !core.MethodCalleeIs(&ta.Call, "golang.org/x/net/html", "Tokenizer", "TagAttr") {
					continue
				}
				val := extractOf(ta, 1)
				if val == nil {
					continue
				}
				nAttr++
				kinds := map[string]bool{}
				for _, r := range core.Returns(f) {
					for _, res := range r.Results {
						if core.IsString(res.Type()) {
							labelKinds(res, val, map[ssa.Value]bool{}, kinds)
						}
					}
				}
				s.Check(kinds["attr"], core.FName(f)+": value of the charset attribute reaches the result", c.Pos(ta.Pos()), "string(val) flows into the returned label",
					"no path carries the attribute value itself (string(val)) into the returned label: <meta charset=x> declares nothing any more")
				s.Check(kinds["helper"], core.FName(f)+": pragma scanner's answer reaches the result", c.Pos(ta.Pos()), "scanner(string(val)) flows into the returned label",
					"no path carries the result of the pragma scanner applied to the attribute value into the returned label: <meta http-equiv=content-type content=\"...charset=x\"> declares nothing any more")
			}
		}
		if nAttr == 0 {
			s.Und("attribute reading", c.Pos(cm.html.Pos()), "no call of (*html.Tokenizer).TagAttr below the HTML sniffer: where the attribute values go is not decided")
		}
	}}

// usesValue: v is computed from x (slice bounds and operands, arithmetic, conversions; four levels of operands).
func usesValue(v, x ssa.Value, depth int) bool {
	if v == x {
		return true
	}
	if depth > 6 {
		return false
	}
	in, ok := v.(ssa.Instruction)
	if !ok {
		return false
	}
	switch in.(type) {
	case *ssa.Slice, *ssa.BinOp, *ssa.Convert, *ssa.ChangeType, *ssa.Phi, *ssa.UnOp, *ssa.Extract:
	default:
		return false
	}
	for _, op := range in.Operands(nil) {
		if *op != nil && usesValue(*op, x, depth+1) {
			return true
		}
	}
	return false
}

// trimEatsLabel: v is a library trim whose constant cutset holds a character that is not HTML whitespace: it removes
// such characters from the beginning of what follows (an equals sign, a label).
func trimEatsLabel(v ssa.Value) string {
	call, ok := v.(*ssa.Call)
	if !ok || !(core.CalleeIs(&call.Call, "strings", "TrimLeft") || core.CalleeIs(&call.Call, "strings", "Trim")) {
		return ""
	}
	k, isK := core.ConstString(call.Call.Args[1])
	if !isK {
		return ""
	}
	for _, w := range k {
		if !strings.ContainsRune(" \t\n\f\r", w) {
			return fmt.Sprintf("the whitespace skip removes %q as well (cutset %q): a label or separator beginning with that character loses it", w, k)
		}
	}
	return ""
}
