package rules

import (
	"fmt"
	"go/token"
	"go/types"
	"sort"

	"golang.org/x/tools/go/ssa"

	"mtverif/internal/core"
)

// jsonModel identifies the roles in the JSON scanner by what the code does:
// the entry (the function that takes the scanner state out of a sync.Pool),
// the pooled state type, the scanner family (methods on the state returning one
// int: the number of consumed bytes, 0 = failure), the path stack field, the
// recursion cap field, the inspected-bytes field.
type jsonModel struct {
	pkg         *ssa.Package
	parse       *ssa.Function
	pool        *ssa.Global
	state       *types.Named
	stStruct    *types.Struct
	fam         map[*ssa.Function]bool
	famList     []*ssa.Function
	reset       *ssa.Function                  // first method called on the pooled value
	entry       *ssa.Call                      // the call from parse into the family
	stackF      int                            // path stack field
	capF        int                            // recursion cap field
	guardFn     *ssa.Function                  // family function holding the depth guard
	guardHelper *ssa.Function                  // predicate method of the state that holds the comparison, when the guard is written through one
	getter      *ssa.Function                  // optional helper that takes the state from the pool (and may reset it) for the entry
	passIdx     map[*ssa.Function]map[int]bool // wrapper -> result positions that hand a scanner's consumed count straight through
	wrap        map[*ssa.Function]bool         // non-family methods of the state that call into the family on their own receiver
}

func getJSON(c *core.Ctx) *jsonModel {
	if m, ok := c.Memo["json"].(*jsonModel); ok {
		return m
	}
	m := &jsonModel{pkg: c.SSA[core.PkgJSON], fam: map[*ssa.Function]bool{}, stackF: -1, capF: -1}
	if m.pkg == nil {
		core.Bail("JSON scanner package not found")
	}
	// entry: the package function that calls (*sync.Pool).Get on a package variable and type-asserts the result
	for _, mem := range m.pkg.Members {
		f, ok := mem.(*ssa.Function)
		if !ok || f.Blocks == nil {
			continue
		}
		for _, ci := range core.Calls(f) {
			if !core.MethodCalleeIs(ci.Common(), "sync", "Pool", "Get") {
				continue
			}
			g, ok := ci.Common().Args[0].(*ssa.Global)
			if !ok {
				continue
			}
			call, ok := ci.(*ssa.Call)
			if !ok {
				continue
			}
			for _, r := range *call.Referrers() {
				if ta, ok := r.(*ssa.TypeAssert); ok {
					if pt, ok := ta.AssertedType.(*types.Pointer); ok {
						if n, ok := pt.Elem().(*types.Named); ok {
							if m.parse != nil && m.parse != f {
								core.Bail("two scanner entries take state from a pool: %s and %s", m.parse.Name(), f.Name())
							}
							m.parse, m.pool, m.state = f, g, n
						}
					}
				}
			}
		}
	}
	if m.parse == nil {
		core.Bail("scanner entry (function taking the state from a sync.Pool) not found in %s", core.PkgJSON)
	}
	// getter helper: the function taking the state from the pool only hands it out (returns it, calls no scanner):
	// the entry is then its caller
	if rs := m.parse.Signature.Results(); rs.Len() == 1 {
		if pt, ok := rs.At(0).Type().(*types.Pointer); ok && types.Identical(pt.Elem(), m.state) {
			var callers []*ssa.Function
			for _, mem := range m.pkg.Members {
				f, ok := mem.(*ssa.Function)
				if !ok || f.Blocks == nil || f == m.parse {
					continue
				}
				for _, ci := range core.Calls(f) {
					if ci.Common().StaticCallee() == m.parse {
						callers = append(callers, f)
					}
				}
			}
			if len(callers) == 1 {
				m.getter, m.parse = m.parse, callers[0]
			} else {
				core.Bail("the pool getter %s has %d callers", m.parse.Name(), len(callers))
			}
		}
	}
	m.stStruct, _ = m.state.Underlying().(*types.Struct)
	if m.stStruct == nil {
		core.Bail("pooled scanner state is not a struct")
	}
	ms := c.Prog.MethodSets.MethodSet(types.NewPointer(m.state))
	for i := 0; i < ms.Len(); i++ {
		f := c.Prog.MethodValue(ms.At(i))
		if f == nil || f.Blocks == nil {
			continue
		}
		r := f.Signature.Results()
		if r.Len() == 1 && byteParam(f) != nil {
			// a scanner reads input: a method from an int to an int (a position helper) is not one
			if b, ok := r.At(0).Type().Underlying().(*types.Basic); ok && b.Kind() == types.Int {
				m.fam[f] = true
				m.famList = append(m.famList, f)
			}
		}
	}
	sort.Slice(m.famList, func(i, j int) bool { return m.famList[i].Name() < m.famList[j].Name() })
	if len(m.famList) < 3 {
		core.Bail("scanner family has only %d members", len(m.famList))
	}
	// first method called on the pooled value (through the spilled local) = reset; the family call = entry
	if m.getter != nil {
		for _, ci := range core.Calls(m.getter) {
			f := ci.Common().StaticCallee()
			if f == nil || f.Signature.Recv() == nil || m.reset != nil {
				continue
			}
			if pt, ok := f.Signature.Recv().Type().(*types.Pointer); ok && types.Identical(pt.Elem(), m.state) {
				m.reset = f
			}
		}
	}
	for _, b := range m.parse.Blocks {
		for _, in := range b.Instrs {
			call, ok := in.(*ssa.Call)
			if !ok {
				continue
			}
			f := call.Call.StaticCallee()
			if f == nil || f.Signature.Recv() == nil {
				continue
			}
			rt := f.Signature.Recv().Type()
			if pt, ok := rt.(*types.Pointer); !ok || !types.Identical(pt.Elem(), m.state) {
				continue
			}
			if m.fam[f] {
				if m.entry == nil {
					m.entry = call
				}
			} else if m.reset == nil && m.entry == nil {
				m.reset = f
			}
		}
	}
	if m.entry == nil {
		core.Bail("scanner entry %s does not call into the scanner family", m.parse.Name())
	}
	// path stack: slice-of-slices field with a push (append of one element) in a method of the state
	var methods []*ssa.Function
	for i := 0; i < ms.Len(); i++ {
		if f := c.Prog.MethodValue(ms.At(i)); f != nil && f.Blocks != nil {
			methods = append(methods, f)
		}
	}
	for _, f := range methods {
		for _, b := range f.Blocks {
			for _, in := range b.Instrs {
				st, ok := in.(*ssa.Store)
				if !ok {
					continue
				}
				fa, ok := st.Addr.(*ssa.FieldAddr)
				if !ok || !m.isState(fa.X.Type()) {
					continue
				}
				if _, isSl := m.stStruct.Field(fa.Field).Type().Underlying().(*types.Slice); !isSl {
					continue
				}
				if _, k := stackEffect(st, fa.Field); k == "push" {
					if m.stackF >= 0 && m.stackF != fa.Field {
						core.Bail("two stack-like fields in the scanner state")
					}
					m.stackF = fa.Field
				}
			}
		}
	}
	// cap: int field compared against an int parameter in the entry block region of a family function,
	// together with a "field != 0" test.
	for _, f := range m.famList {
		for _, b := range f.Blocks {
			for _, in := range b.Instrs {
				bo, ok := in.(*ssa.BinOp)
				if !ok {
					continue
				}
				_, fld, isLoad := core.LoadOfField(bo.Y)
				if _, isParam := bo.X.(*ssa.Parameter); isParam && isLoad && (bo.Op == token.GTR || bo.Op == token.GEQ) {
					m.capF, m.guardFn = fld, f
				}
				_, fld, isLoad = core.LoadOfField(bo.X)
				if _, isParam := bo.Y.(*ssa.Parameter); isParam && isLoad && (bo.Op == token.LSS || bo.Op == token.LEQ) {
					m.capF, m.guardFn = fld, f
				}
			}
		}
	}
	// the guard may sit in a predicate method of the state (`func (p *state) tooDeep(lvl int) bool`) that a family
	// function calls with its depth parameter: not modelled (the rules that need the guard are undecided, not violated)
	if m.guardFn == nil {
		for _, f := range m.famList {
			for _, ci := range core.Calls(f) {
				h := ci.Common().StaticCallee()
				if h == nil || h.Blocks == nil || h.Signature.Recv() == nil || !m.isState(h.Signature.Recv().Type()) || m.fam[h] {
					continue
				}
				for _, b := range h.Blocks {
					for _, in := range b.Instrs {
						bo, ok := in.(*ssa.BinOp)
						if !ok {
							continue
						}
						_, _, ly := core.LoadOfField(bo.Y)
						_, _, lx := core.LoadOfField(bo.X)
						_, px := bo.X.(*ssa.Parameter)
						_, py := bo.Y.(*ssa.Parameter)
						if (px && ly) || (py && lx) {
							_, fy, _ := core.LoadOfField(bo.Y)
							_, fx, _ := core.LoadOfField(bo.X)
							if ly {
								m.capF = fy
							} else {
								m.capF = fx
							}
							m.guardFn, m.guardHelper = f, h
						}
					}
				}
			}
		}
	}
	// wrappers: state methods outside the family that pass their own receiver to a family function (or another wrapper)
	m.wrap = map[*ssa.Function]bool{}
	for changed := true; changed; {
		changed = false
		for _, f := range methods {
			if m.fam[f] || m.wrap[f] || f == m.reset || f == m.parse {
				continue
			}
			for _, ci := range core.Calls(f) {
				h := ci.Common().StaticCallee()
				if h != nil && (m.fam[h] || m.wrap[h]) && len(ci.Common().Args) > 0 && ci.Common().Args[0] == ssa.Value(f.Params[0]) {
					m.wrap[f] = true
					changed = true
				}
			}
		}
	}
	// pass-through results of wrappers: on every return the value at that position is the result of a can-fail
	// scanner call (made in the returning block) or of another such position
	m.passIdx = map[*ssa.Function]map[int]bool{}
	for w := range m.wrap {
		res := w.Signature.Results()
		for k := 0; k < res.Len(); k++ {
			if !core.IsInteger(res.At(k).Type()) {
				continue
			}
			all, n := true, 0
			for _, r := range core.Returns(w) {
				call, ok := r.Results[k].(*ssa.Call)
				if !ok {
					all = false
					break
				}
				h := call.Call.StaticCallee()
				if h == nil || !m.fam[h] || !canFail(h) {
					all = false
					break
				}
				n++
			}
			if all && n > 0 {
				if m.passIdx[w] == nil {
					m.passIdx[w] = map[int]bool{}
				}
				m.passIdx[w][k] = true
			}
		}
	}
	jsonPass = m.passIdx
	c.Memo["json"] = m
	return m
}

func (m *jsonModel) isState(t types.Type) bool {
	pt, ok := t.Underlying().(*types.Pointer)
	return ok && types.Identical(pt.Elem(), m.state)
}

func (m *jsonModel) fieldName(i int) string {
	if i < 0 || i >= m.stStruct.NumFields() {
		return fmt.Sprintf("field#%d", i)
	}
	return m.stStruct.Field(i).Name()
}

// canFail: the function has a `return 0`.
// jsonPass is the pass-through table of the current model (see jsonModel.passIdx); resultSources consults it.
var jsonPass map[*ssa.Function]map[int]bool

func canFail(f *ssa.Function) bool {
	for _, r := range core.Returns(f) {
		if len(r.Results) == 1 && core.IsConstInt(r.Results[0], 0) {
			return true
		}
	}
	return false
}

// callOrdinal gives a stable descriptor for a call inside its function:
// "callee#k" where k counts calls to the same callee in block order.
func callOrdinal(call ssa.CallInstruction) string {
	f := call.Parent()
	callee := call.Common().StaticCallee()
	name := "dynamic"
	if callee != nil {
		name = callee.Name()
	}
	k := 0
	for _, ci := range core.Calls(f) {
		if ci.Common().StaticCallee() == callee {
			k++
		}
		if ci == call {
			break
		}
	}
	return fmt.Sprintf("%s#%d", name, k)
}

// returnOrdinal: "return#k" in block order.
func returnOrdinal(r *ssa.Return) string {
	k := 0
	for _, x := range core.Returns(r.Parent()) {
		k++
		if x == r {
			break
		}
	}
	return fmt.Sprintf("return#%d", k)
}

// stackEffect classifies a store to the path-stack field.
func stackEffect(st *ssa.Store, field int) (delta int, kind string) {
	fa, ok := st.Addr.(*ssa.FieldAddr)
	if !ok || fa.Field != field {
		return 0, ""
	}
	isLoadOfField := func(v ssa.Value) bool {
		base, f2, ok := core.LoadOfField(v)
		return ok && f2 == field && base == fa.X
	}
	switch v := st.Val.(type) {
	case *ssa.Call:
		if core.IsBuiltin(&v.Call, "append") && isLoadOfField(v.Call.Args[0]) {
			if sl, ok := v.Call.Args[1].(*ssa.Slice); ok {
				if p, ok := sl.X.Type().Underlying().(*types.Pointer); ok {
					if arr, ok := p.Elem().Underlying().(*types.Array); ok && sl.Low == nil && sl.High == nil {
						return int(arr.Len()), "push"
					}
				}
			}
		}
	case *ssa.Slice:
		if isLoadOfField(v.X) && v.Low == nil && v.High != nil {
			if bo, ok := v.High.(*ssa.BinOp); ok && bo.Op == token.SUB && core.IsConstInt(bo.Y, 1) {
				if c, ok := bo.X.(*ssa.Call); ok && core.IsBuiltin(&c.Call, "len") && isLoadOfField(c.Call.Args[0]) {
					return -1, "pop"
				}
			}
		}
		if isLoadOfField(v.X) && (v.Low == nil || core.IsConstInt(v.Low, 0)) && v.High != nil && core.IsConstInt(v.High, 0) {
			return 0, "reset"
		}
	case *ssa.Const:
		if v.Value == nil {
			return 0, "reset"
		}
	}
	// any value of length 0: nil, x[:0] of whatever slice, or a choice between such values
	if emptySliceValue(st.Val, 0) {
		return 0, "reset"
	}
	return 0, "unknown"
}

func emptySliceValue(v ssa.Value, depth int) bool {
	if depth > 4 {
		return false
	}
	switch x := v.(type) {
	case *ssa.Const:
		return x.Value == nil
	case *ssa.Slice:
		return (x.Low == nil || core.IsConstInt(x.Low, 0)) && x.High != nil && core.IsConstInt(x.High, 0)
	case *ssa.Phi:
		for _, e := range x.Edges {
			if !emptySliceValue(e, depth+1) {
				return false
			}
		}
		return len(x.Edges) > 0
	}
	return false
}
