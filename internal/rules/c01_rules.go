package rules

import (
	"fmt"
	"go/token"
	"go/types"
	"sort"
	"strings"

	"golang.org/x/tools/go/ssa"

	"mtverif/internal/core"
	"mtverif/internal/e2"
	"mtverif/internal/tree"
)

func getE2(c *core.Ctx) *e2.Result {
	if r, ok := c.Memo["e2"].(*e2.Result); ok {
		return r
	}
	r := e2.Run(c.Prog, core.InMod)
	c.Memo["e2"] = r
	return r
}

// siteKey: function + kind + ordinal of the site among same-kind sites of the
// function in source order + the indexed operand's name.
func siteKeys(c *core.Ctx, sites []e2.Site) []string {
	idx := make([]int, len(sites))
	for i := range idx {
		idx[i] = i
	}
	sort.SliceStable(idx, func(a, b int) bool {
		sa, sb := sites[idx[a]], sites[idx[b]]
		if sa.Fn != sb.Fn {
			return sa.Fn.String() < sb.Fn.String()
		}
		return sa.Pos < sb.Pos
	})
	cnt := map[string]int{}
	keys := make([]string, len(sites))
	for _, i := range idx {
		s := sites[i]
		base := core.FName(s.Fn) + ": " + s.Kind
		cnt[base]++
		keys[i] = fmt.Sprintf("%s #%d", base, cnt[base])
	}
	return keys
}

// R01.1
var ruleBounds = &core.Rule{ID: "R01.1", Min: 600,
	Doc: "bounds: every index, slice, make, integer division and fixed-width binary read in module code is proved in range against len (not cap) by the linear-fact engine (dominating conditions, assume-after-check, inferred loop invariants, callee postconditions emitted at the call, call-site preconditions for functions with known callers, tuple summaries, return-case splits, builtin min/max, contracts of the standard searching and cutting functions, Fourier-Motzkin entailment); the path-stack pops are proved by the stack typestate",
	Run: func(c *core.Ctx, s *core.Sink) {
		r := getE2(c)
		keys := siteKeys(c, r.Sites)
		// pop safety from the stack typestate
		popOK := map[*ssa.Store]bool{}
		func() {
			defer func() { recover() }()
			bad := map[*ssa.Store]bool{}
			for _, st := range stackAnalysis(c) {
				if st.store == nil || !(strings.Contains(st.key, "pop#") || strings.Contains(st.key, "stack helper")) {
					continue
				}
				if st.bad != "" || st.undec != "" {
					bad[st.store] = true
				}
				popOK[st.store] = true
			}
			for st := range bad {
				delete(popOK, st)
			}
		}()
		for i, site := range r.Sites {
			key := keys[i]
			pos := c.PosCol(site.Pos)
			if !site.Pos.IsValid() {
				pos = c.Pos(site.Fn.Pos())
			}
			switch {
			case site.OK && site.Const:
				s.OKTrivial(key, pos, "constant operands")
			case site.OK:
				s.OK(key, pos, "E2: "+short(site.What))
			default:
				// a pop `x = x[:len(x)-1]` whose only open goal is high >= 0
				if sl, ok := site.Instr.(*ssa.Slice); ok && strings.Count(site.WhyNot, "not proved") == 1 && strings.Contains(site.WhyNot, "high >= 0") {
					done := false
					for _, ref := range *sl.Referrers() {
						if st, ok := ref.(*ssa.Store); ok && popOK[st] {
							s.OK(key, pos, "stack typestate (R10.1): depth >= 1 at this pop")
							done = true
						}
					}
					if done {
						continue
					}
				}
				s.Bad(key, pos, fmt.Sprintf("%s: %s — an input or limit that violates it makes detection panic (index / slice bounds out of range)", short(site.What), strings.TrimSpace(site.WhyNot)))
			}
		}
	}}

func short(s string) string {
	if len(s) > 80 {
		return s[:80] + "..."
	}
	return s
}

// R01.2 + R01.6
var ruleNoPanics = &core.Rule{ID: "R01.2", Min: 5,
	Doc: "no other panic source: every non-comma-ok type assertion is on a sync.Pool value (typed by R04.3); no explicit panic, no recover (so no swallowed panic); no unsafe / reflect / cgo in the module; map writes only on maps the function made or package maps made at initialisation; conversions of a slice to an array (pointer) are length obligations of R01.1",
	Run: func(c *core.Ctx, s *core.Sink) {
		for _, p := range c.ModPkgs {
			for _, imp := range p.Types.Imports() {
				if imp.Path() == "unsafe" || imp.Path() == "reflect" || imp.Path() == "C" {
					s.Bad("import of "+imp.Path()+" in "+p.Types.Name(), "-", "the module imports "+imp.Path()+": memory safety arguments of this analyser do not apply")
				}
			}
			s.OK("imports of "+p.Types.Name(), "-", "no unsafe / reflect / cgo")
		}
		nAssert := 0
		for _, f := range c.SrcFuncs() {
			for _, b := range f.Blocks {
				for _, in := range b.Instrs {
					switch x := in.(type) {
					case *ssa.TypeAssert:
						if x.CommaOk {
							continue
						}
						nAssert++
						key := fmt.Sprintf("%s: type assertion #%d", core.FName(f), nAssert)
						call, ok := x.X.(*ssa.Call)
						s.Check(ok && core.MethodCalleeIs(&call.Call, "sync", "Pool", "Get"), key, c.Pos(x.Pos()), "on a pool value (type agreement: R04.3)", "a type assertion without the comma-ok form on a value that is not taken from a typed pool: it panics when the dynamic type differs")
					case *ssa.Panic:
						// a function that only the package initialisers reach cannot panic during a detection: its panic
						// would stop the program at start-up, for every user and every test
						if getConcInitOnlyAny(c, f) {
							s.OK(core.FName(f)+": explicit panic", c.Pos(x.Pos()), "reachable only from package initialisers")
							continue
						}
						s.Bad(core.FName(f)+": explicit panic", c.Pos(x.Pos()), "explicit panic in library code")
					case *ssa.MapUpdate:
						key := fmt.Sprintf("%s: map write at b%d", core.FName(f), b.Index)
						_, isMake := x.Map.(*ssa.MakeMap)
						g, isGlobal := core.LoadOfGlobal(x.Map)
						_ = g
						s.Check(isMake || (isGlobal && f.Name() == "init"), key, c.Pos(x.Pos()), "map made in this function", "write to a map that may be nil")
					case *ssa.SliceToArrayPointer:
						s.OK(core.FName(f)+": slice to array conversion", c.Pos(x.Pos()), "length obligation proved by R01.1")
					case ssa.CallInstruction:
						if core.IsBuiltin(x.Common(), "recover") {
							s.Bad(core.FName(f)+": recover", c.Pos(x.Pos()), "recover() in library code: the analyser's treatment of deferred-call recover blocks does not hold")
						}
					}
				}
			}
		}
		s.OK("no explicit panic / recover", "-", "module scanned")
	}}

// R01.3 dynamic calls
var ruleDynCalls = &core.Rule{ID: "R01.3", Min: 4,
	Doc: "every dynamic call in module code is through a non-nil function value: a detector field (non-nil for every built-in node by R03.1; user detectors are the caller's obligation), a value found in the sniffer map under the ok edge, a closure binding or parameter that the constructor received as a literal; file Close is deferred only when Open succeeded",
	Run: func(c *core.Ctx, s *core.Sink) {
		tm := tree.Get(c)
		cm := getCharset(c)
		n := 0
		for _, f := range c.SrcFuncs() {
			for _, ci := range core.Calls(f) {
				cc := ci.Common()
				if cc.StaticCallee() != nil || cc.IsInvoke() {
					continue
				}
				if _, isB := cc.Value.(*ssa.Builtin); isB {
					continue
				}
				n++
				key := fmt.Sprintf("%s: dynamic call #%d", core.FName(f), n)
				switch v := cc.Value.(type) {
				case *ssa.UnOp:
					if _, fld, ok := core.LoadOfField(v); ok && fld == tm.FDet {
						s.OK(key, c.Pos(ci.Pos()), "detector field of a registered node")
						continue
					}
					if _, ok := v.X.(*ssa.FreeVar); ok {
						s.OK(key, c.Pos(ci.Pos()), "captured function value")
						continue
					}
					if ia, ok := v.X.(*ssa.IndexAddr); ok {
						// element of the function list of the first-non-empty combinator: every call site passes a list
						// of function constants (stagesOf), so no element is nil
						if _, fsI, isComb := firstNonEmpty(f); isComb && ia.X == ssa.Value(f.Params[fsI]) {
							okAll, n := true, 0
							for _, g := range c.AllModFuncs() {
								for _, c2 := range core.Calls(g) {
									if c2.Common().StaticCallee() == f {
										n++
										if stagesOf(g) == nil {
											okAll = false
										}
									}
								}
							}
							s.Check(okAll && n > 0, key, c.Pos(ci.Pos()), "element of a list of function constants at every call site", "the combinator may be handed a nil or unknown function")
							continue
						}
					}
					if ia, ok := v.X.(*ssa.IndexAddr); ok {
						// element of a list of detectors captured by a combinator closure (anyOf(d1, d2)): every
						// construction passes a literal list of initialised package-level detectors or functions
						if why, isList := capturedFuncList(f, ia.X); isList {
							s.Check(why == "", key, c.Pos(ci.Pos()), "element of a captured list of initialised detectors at every construction", "the combinator may be handed a nil or unknown function: "+why)
							continue
						}
					}
					if g, ok := v.X.(*ssa.Global); ok {
						_, ctor, _ := tree.ClosureOfGlobal(g.Pkg, g)
						fn, _, _ := tree.ClosureOfGlobal(g.Pkg, g)
						s.Check(fn != nil || ctor != nil, key, c.Pos(ci.Pos()), "package-level detector "+g.Name()+" initialised once with a closure", "call through a package variable that is not a write-once detector")
						continue
					}
					s.Bad(key, c.Pos(ci.Pos()), "call through a function value of unknown origin (may be nil)")
				case *ssa.Extract, *ssa.Call, *ssa.Lookup:
					lk := cm.lookupOf(cc.Value)
					guarded := false
					if lk != nil {
						for _, de := range core.DominatingConds(ci.Block()) {
							if lk.found(de) {
								guarded = true
							}
						}
					}
					s.Check(lk != nil && guarded, key, c.Pos(ci.Pos()), "sniffer found in the table (ok / non-nil edge)", "call of a sniffer lookup result without the test that it was found: nil function for types without a sniffer")
				case *ssa.Parameter, *ssa.FreeVar:
					s.OK(key, c.Pos(ci.Pos()), "function parameter / capture")
				default:
					s.Bad(key, c.Pos(ci.Pos()), fmt.Sprintf("dynamic call through %T", cc.Value))
				}
			}
		}
		// interface method calls (invoke) on possibly nil interfaces: only io.Reader.Read inside std; module has none
		for _, f := range c.SrcFuncs() {
			for _, ci := range core.Calls(f) {
				if ci.Common().IsInvoke() {
					n++
					key := fmt.Sprintf("%s: interface call #%d", core.FName(f), n)
					s.Bad(key, c.Pos(ci.Pos()), "interface method call in module code on a value that may be nil")
				}
			}
		}
		// deferred Close only after a successful Open
		for _, f := range c.SrcFuncs() {
			for _, ci := range core.Calls(f) {
				d, ok := ci.(*ssa.Defer)
				if !ok || !core.MethodCalleeIs(&d.Call, "os", "File", "Close") {
					continue
				}
				ex, ok := d.Call.Args[0].(*ssa.Extract)
				okGuard := false
				if ok {
					for _, de := range core.DominatingConds(d.Block()) {
						cond, val := core.StripNot(de.Cond, de.Val)
						if bo, ok := cond.(*ssa.BinOp); ok && core.IsNilConst(bo.Y) {
							if e2x, ok := bo.X.(*ssa.Extract); ok && e2x.Tuple == ex.Tuple && e2x.Index == 1 && ((bo.Op == token.NEQ && !val) || (bo.Op == token.EQL && val)) {
								okGuard = true
							}
						}
					}
				}
				s.Check(okGuard, core.FName(f)+": Close deferred after a successful Open", c.Pos(d.Pos()), "under err == nil", "Close is deferred on a file that may be nil")
			}
		}
	}}

// R01.4 termination
var ruleTermination = &core.Rule{ID: "R01.4", Min: 55,
	Doc: "termination: every loop is a range over a slice/array/string, or has a ranking function found by the linear-fact engine (bounded below while the loop runs, strictly decreasing on every back edge), or is one of the recognised forms: external iterator left on its terminal result (csv Read, tokenizer Next, TagAttr), line loop over bytes.Cut remainders, parent-chain walk over the acyclic tree, tree-descent loop of the iterative walk forms; no goroutines or channels; recursion is bounded by R16",
	Run: func(c *core.Ctx, s *core.Sink) {
		r := getE2(c)
		wm := getWalk(c)
		cnt := map[string]int{}
		// stable ordering
		loops := append([]e2.LoopRes{}, r.Loops...)
		sort.SliceStable(loops, func(i, j int) bool {
			if loops[i].Fn != loops[j].Fn {
				return loops[i].Fn.String() < loops[j].Fn.String()
			}
			return loops[i].Header.Index < loops[j].Header.Index
		})
		for _, l := range loops {
			base := core.FName(l.Fn) + ": loop"
			cnt[base]++
			key := fmt.Sprintf("%s #%d", base, cnt[base])
			pos := c.Pos(l.Fn.Pos())
			for _, in := range l.Header.Instrs {
				if in.Pos().IsValid() {
					pos = c.Pos(in.Pos())
					break
				}
			}
			switch {
			case l.Range:
				// range over a map or channel would also be "range" in source, but go/ssa compiles those to Next: rangeindex is slices/arrays/strings/ints only
				s.OKTrivial(key, pos, "range loop")
			case l.Ranked:
				s.OK(key, pos, "ranking function "+l.By)
			default:
				if why, ok := namedLoop(c, wm, l); ok {
					s.OK(key, pos, why)
				} else {
					s.Bad(key, pos, "no ranking function found and the loop is not one of the recognised terminating forms: "+why)
				}
			}
		}
		// other iteration constructs
		for _, f := range c.SrcFuncs() {
			for _, b := range f.Blocks {
				for _, in := range b.Instrs {
					switch in.(type) {
					case *ssa.Next:
						if rg, ok := in.(*ssa.Next).Iter.(*ssa.Range); ok && mapClearLoop(rg) {
							continue
						}
						s.Bad(core.FName(f)+": iterator loop", c.Pos(in.Pos()), "range over a map / string iterator / channel in module code is not covered by the termination argument")
					case *ssa.Go, *ssa.Select, *ssa.Send:
						s.Bad(core.FName(f)+": concurrency construct", c.Pos(in.Pos()), "go / select / send in module code")
					}
				}
			}
		}
	}}

// namedLoop recognises the loop forms that terminate for a reason outside the
// linear engine.
func namedLoop(c *core.Ctx, wm *walkModel, l e2.LoopRes) (string, bool) {
	h := l.Header
	f := l.Fn
	body := loopBlocks(h)
	// clearing a map by ranging over it: the range visits each key present at most once, the body only deletes it
	for _, in := range h.Instrs {
		if nx, ok := in.(*ssa.Next); ok {
			if rg, ok := nx.Iter.(*ssa.Range); ok && mapClearLoop(rg) {
				return "map cleared by ranging over it (each key visited at most once, deleted)", true
			}
		}
	}
	// external iterators: the loop contains a call to the iterator and every back edge is
	// reachable only when the iterator did not report its terminal value
	// only calls whose innermost enclosing loop is this one (nested loops are judged on their own)
	inner := map[*ssa.BasicBlock]bool{}
	for _, hb := range f.Blocks {
		if hb == h || !body[hb] {
			continue
		}
		isHdr := false
		for _, p := range hb.Preds {
			if hb.Dominates(p) {
				isHdr = true
			}
		}
		if isHdr {
			for x := range loopBlocks(hb) {
				inner[x] = true
			}
		}
	}
	var blocks []*ssa.BasicBlock
	for b := range body {
		if !inner[b] {
			blocks = append(blocks, b)
		}
	}
	sort.Slice(blocks, func(i, j int) bool { return blocks[i].Index < blocks[j].Index })
	for _, b := range blocks {
		for _, in := range b.Instrs {
			call, ok := in.(*ssa.Call)
			if !ok {
				continue
			}
			switch {
			case core.MethodCalleeIs(&call.Call, "encoding/csv", "Reader", "Read"):
				if errPathsCSV(extractOf(call, 1).(*ssa.Extract), f) == "" {
					return "external iterator csv.Reader.Read: the loop continues only on a nil error (R13.3); a reader over a finite byte slice eventually reports io.EOF (contract)", true
				}
				return "csv Read loop continues on an error", false
			case core.MethodCalleeIs(&call.Call, pkgHTML, "Tokenizer", "Next"):
				// ErrorToken (0) must leave the loop
				for _, ref := range *call.Referrers() {
					if bo, ok := ref.(*ssa.BinOp); ok && bo.Op == token.EQL && core.IsConstInt(bo.Y, 0) {
						for _, r2 := range *bo.Referrers() {
							if iff, ok := r2.(*ssa.If); ok && retOf(iff.Block().Succs[0]) != nil {
								return "external iterator html.Tokenizer.Next: ErrorToken returns; a tokenizer over a finite byte slice eventually reports it (contract)", true
							}
						}
					}
				}
				// for tt := z.Next(); tt != ErrorToken; tt = z.Next(): the token is a phi of Next results, tested at the header
				if iff := core.IfOf(h); iff != nil {
					if bo, ok := iff.Cond.(*ssa.BinOp); ok && (bo.Op == token.NEQ || bo.Op == token.EQL) && core.IsConstInt(bo.Y, 0) {
						if ph, ok := bo.X.(*ssa.Phi); ok && ph.Block() == h {
							allNext := true
							for _, e := range ph.Edges {
								nc, ok := e.(*ssa.Call)
								if !ok || !core.MethodCalleeIs(&nc.Call, pkgHTML, "Tokenizer", "Next") {
									allNext = false
								}
							}
							exit := h.Succs[1]
							if bo.Op == token.EQL {
								exit = h.Succs[0]
							}
							if allNext && !body[exit] {
								return "external iterator html.Tokenizer.Next: the loop runs while the token is not ErrorToken; a tokenizer over a finite byte slice eventually reports it (contract)", true
							}
						}
					}
				}
				return "tokenizer loop does not leave on ErrorToken", false
			case core.MethodCalleeIs(&call.Call, pkgHTML, "Tokenizer", "TagAttr"):
				// loop condition is the phi fed by moreAttr
				if iff := core.IfOf(h); iff != nil {
					if ph, ok := iff.Cond.(*ssa.Phi); ok {
						all := true
						for k, p := range h.Preds {
							if h.Dominates(p) {
								ex, ok := ph.Edges[k].(*ssa.Extract)
								if !ok || ex.Tuple != ssa.Value(call) || ex.Index != 2 {
									all = false
								}
							}
						}
						if all {
							return "external iterator html.Tokenizer.TagAttr: the loop runs while moreAttr; a tag has finitely many attributes (contract)", true
						}
					}
				}
				return "attribute loop is not controlled by TagAttr's moreAttr", false
			}
		}
	}
	// line loop over bytes.Cut remainders
	if iff := core.IfOf(h); iff != nil {
		if bo, ok := iff.Cond.(*ssa.BinOp); ok && bo.Op == token.NEQ && core.IsConstInt(bo.Y, 0) {
			if ln, ok := bo.X.(*ssa.Call); ok && core.IsBuiltin(&ln.Call, "len") {
				if ph, ok := ln.Call.Args[0].(*ssa.Phi); ok && ph.Block() == h {
					okAll := true
					for k, p := range h.Preds {
						if !h.Dominates(p) {
							continue
						}
						if !isCutRemainderOf(ph.Edges[k], ph) {
							okAll = false
						}
					}
					if okAll {
						return "line loop: the next value is the remainder of bytes.Cut(current, non-empty separator) — strictly shorter when the separator is found, empty otherwise — and the loop runs only while the current value is non-empty", true
					}
				}
			}
		}
	}
	// tree descent: the loop forms of the walk
	if w := wm.shape; w.outer == h && w.form != "recursive" {
		return "tree descent: every back edge replaces the current node by one of its children (R03.2: the accepting child, or the non-nil result of the child scan, which only returns elements of its receiver's children); the tree is finite and acyclic (R03.1: single parent, chains end at the root; R14.1; R06.3), and the whole descent runs under one read lock (R06.6), so the depth of the current node grows strictly and is bounded by the height of the tree", true
	}
	// worklist over the tree
	if why, ok := treeWorklist(wm, h, body); ok {
		return why, true
	}
	// parent chain
	if f == wm.chain {
		for _, in := range h.Instrs {
			ph, ok := in.(*ssa.Phi)
			if !ok {
				break
			}
			for k, p := range h.Preds {
				if h.Dominates(p) && wm.isParentOf(ph.Edges[k], ph) {
					return "parent-chain walk: p = parent(p) until nil over the tree, which is acyclic (R03.1: single parent, chains end at the root; R14.1: an extension's parent is an existing node; R06.3: parent is write-once)", true
				}
			}
		}
	}
	return "unrecognised loop shape", false
}

func loopBlocks(h *ssa.BasicBlock) map[*ssa.BasicBlock]bool {
	body := map[*ssa.BasicBlock]bool{h: true}
	var st []*ssa.BasicBlock
	for _, p := range h.Preds {
		if h.Dominates(p) {
			st = append(st, p)
		}
	}
	for len(st) > 0 {
		x := st[len(st)-1]
		st = st[:len(st)-1]
		if body[x] {
			continue
		}
		body[x] = true
		st = append(st, x.Preds...)
	}
	return body
}

// isCutRemainderOf: v is (through a module wrapper) the `after` result of
// bytes.Cut(cur, sep) with a non-empty constant separator.
func isCutRemainderOf(v ssa.Value, cur ssa.Value) bool {
	ex, ok := v.(*ssa.Extract)
	if !ok {
		return false
	}
	call, ok := ex.Tuple.(*ssa.Call)
	if !ok || len(call.Call.Args) == 0 || call.Call.Args[0] != cur {
		return false
	}
	if core.CalleeIs(&call.Call, "bytes", "Cut") {
		sep, ok := tree.ConstBytes(call.Call.Args[1])
		return ok && len(sep) > 0 && ex.Index == 1
	}
	g := call.Call.StaticCallee()
	if g == nil || !core.InMod(g) || g.Blocks == nil {
		return false
	}
	for _, r := range core.Returns(g) {
		if ex.Index >= len(r.Results) || !isCutRemainderOf(r.Results[ex.Index], g.Params[0]) {
			return false
		}
	}
	return true
}

// R16.1 + R16.3: recursion inventory
var ruleSCC = &core.Rule{ID: "R16.1", Min: 2,
	Doc: "recursion inventory: every recursive strongly connected component of module functions (static calls) is either the depth-guarded scanner family (R16.2) or structural over the tree: each recursive call is on an element of the receiver's children, so the depth is bounded by the height of the registered tree, not by the input",
	Run: func(c *core.Ctx, s *core.Sink) {
		tm := tree.Get(c)
		jm := getJSON(c)
		fs := c.SrcFuncs()
		adj := map[*ssa.Function][]*ssa.Function{}
		for _, f := range fs {
			for _, ci := range core.Calls(f) {
				if g := ci.Common().StaticCallee(); g != nil && core.InMod(g) && g.Blocks != nil {
					adj[f] = append(adj[f], g)
				}
			}
		}
		// Tarjan
		index := 0
		idx := map[*ssa.Function]int{}
		low := map[*ssa.Function]int{}
		on := map[*ssa.Function]bool{}
		var stack []*ssa.Function
		var sccs [][]*ssa.Function
		var strong func(v *ssa.Function)
		strong = func(v *ssa.Function) {
			index++
			idx[v], low[v] = index, index
			stack = append(stack, v)
			on[v] = true
			for _, w := range adj[v] {
				if idx[w] == 0 {
					strong(w)
					if low[w] < low[v] {
						low[v] = low[w]
					}
				} else if on[w] && idx[w] < low[v] {
					low[v] = idx[w]
				}
			}
			if low[v] == idx[v] {
				var comp []*ssa.Function
				for {
					w := stack[len(stack)-1]
					stack = stack[:len(stack)-1]
					on[w] = false
					comp = append(comp, w)
					if w == v {
						break
					}
				}
				rec := len(comp) > 1
				for _, w := range adj[v] {
					if w == v {
						rec = true
					}
				}
				if rec {
					sccs = append(sccs, comp)
				}
			}
		}
		for _, f := range fs {
			if idx[f] == 0 {
				strong(f)
			}
		}
		for _, comp := range sccs {
			sort.Slice(comp, func(i, j int) bool { return comp[i].Name() < comp[j].Name() })
			var names []string
			allFam := true
			for _, f := range comp {
				names = append(names, f.Name())
				if !jm.fam[f] && !jm.wrap[f] {
					allFam = false // wrappers run on the caller's state and hand the depth on (R16.2 follows them)
				}
			}
			key := "recursive component {" + strings.Join(names, ",") + "}"
			if allFam {
				s.OK(key, c.Pos(comp[0].Pos()), "scanner family: depth-guarded (R16.2)")
				continue
			}
			// structural: single function, every self call's receiver is an element of recv.children loaded in a range
			ok := len(comp) == 1
			why := "mutual recursion outside the scanner"
			if ok {
				f := comp[0]
				for _, ci := range core.Calls(f) {
					if ci.Common().StaticCallee() != f {
						continue
					}
					arg := ci.Common().Args[0]
					u, isU := arg.(*ssa.UnOp)
					good := false
					if isU {
						if ia, isIA := u.X.(*ssa.IndexAddr); isIA {
							if base, fld, isLd := core.LoadOfField(ia.X); isLd && fld == tm.FChildren && len(f.Params) > 0 && base == ssa.Value(f.Params[0]) {
								good = true
							}
						}
					}
					// or upwards: the receiver's parent, under the test that there is one (the parent chain is finite and
					// acyclic: R03.1, R14.1, R06.3)
					if wmU := upwardModel(c); !good && wmU != nil && len(f.Params) > 0 && wmU.isParentOf(arg, f.Params[0]) {
						for _, de := range core.DominatingConds(ci.Block()) {
							cond, val := core.StripNot(de.Cond, de.Val)
							if bo, isBo := cond.(*ssa.BinOp); isBo && core.IsNilConst(bo.Y) && ((bo.Op == token.NEQ && val) || (bo.Op == token.EQL && !val)) {
								if wmU.isParentOf(bo.X, f.Params[0]) {
									good = true
								}
							}
						}
					}
					if !good {
						ok = false
						why = "a recursive call whose receiver is not an element of the current node's children: depth is not bounded by the tree"
					}
				}
			}
			s.Check(ok, key, c.Pos(comp[0].Pos()), "structural recursion over children: depth <= height of the registered tree", why+" — a new recursive helper needs its own depth bound")
		}
		s.Check(len(sccs) >= 2, "recursive components found", "-", fmt.Sprint(len(sccs)), "fewer recursive components than the walk and the scanner")
		_ = types.Typ
	}}

// capturedFuncList: list (inside closure f) is the content of a captured
// variable that the constructor of f filled, once, with its own variadic
// parameter. isList says whether the shape applies; why is empty when every
// call of the constructor hands over a literal list whose elements are
// function constants, closures, or package-level detectors stored (once, with a
// closure or function) earlier in the same initialiser.
func capturedFuncList(f *ssa.Function, list ssa.Value) (why string, isList bool) {
	ld, ok := list.(*ssa.UnOp)
	if !ok || ld.Op != token.MUL {
		return "", false
	}
	fv, ok := ld.X.(*ssa.FreeVar)
	ctor := f.Parent()
	if !ok || ctor == nil {
		return "", false
	}
	idx := -1
	for i, x := range f.FreeVars {
		if x == fv {
			idx = i
		}
	}
	// the cell bound at the single MakeClosure of f in ctor, stored once with a parameter of ctor
	var cell *ssa.Alloc
	n := 0
	for _, b := range ctor.Blocks {
		for _, in := range b.Instrs {
			if mc, ok := in.(*ssa.MakeClosure); ok && mc.Fn == ssa.Value(f) {
				n++
				if idx >= 0 && idx < len(mc.Bindings) {
					cell, _ = mc.Bindings[idx].(*ssa.Alloc)
				}
			}
		}
	}
	if n != 1 || cell == nil {
		return "", false
	}
	pi := -1
	stores := 0
	for _, ref := range *cell.Referrers() {
		switch x := ref.(type) {
		case *ssa.Store:
			if x.Addr != ssa.Value(cell) {
				return "", false
			}
			stores++
			for i, p := range ctor.Params {
				if x.Val == ssa.Value(p) {
					pi = i
				}
			}
		case *ssa.MakeClosure, *ssa.DebugRef, *ssa.UnOp:
		default:
			return "", false
		}
	}
	// the closure itself must not write the captured variable
	for _, ref := range *fv.Referrers() {
		if st, ok := ref.(*ssa.Store); ok && st.Addr == ssa.Value(fv) {
			return "", false
		}
	}
	if stores != 1 || pi < 0 {
		return "", false
	}
	sl, ok := ctor.Params[pi].Type().Underlying().(*types.Slice)
	if !ok {
		return "", false
	}
	if _, isFn := sl.Elem().Underlying().(*types.Signature); !isFn {
		return "", false
	}
	sites := 0
	for _, g := range ctor.Pkg.Members {
		gf, ok := g.(*ssa.Function)
		if !ok {
			continue
		}
		fns := append([]*ssa.Function{gf}, gf.AnonFuncs...)
		for _, h := range fns {
			for _, ci := range core.Calls(h) {
				if ci.Common().StaticCallee() != ctor {
					continue
				}
				sites++
				if h.Name() != "init" || h.Synthetic == "" {
					return "constructor " + ctor.Name() + " is called outside the package initialiser", true
				}
				arg, ok := ci.Common().Args[pi].(*ssa.Slice)
				if !ok {
					return "a call of " + ctor.Name() + " does not pass a literal list", true
				}
				arr, ok := arg.X.(*ssa.Alloc)
				if !ok {
					return "a call of " + ctor.Name() + " does not pass a literal list", true
				}
				for _, ref := range *arr.Referrers() {
					ia, ok := ref.(*ssa.IndexAddr)
					if !ok {
						continue
					}
					for _, r2 := range *ia.Referrers() {
						st, ok := r2.(*ssa.Store)
						if !ok {
							continue
						}
						switch e := core.Unwrap(st.Val).(type) {
						case *ssa.Function, *ssa.MakeClosure:
						case *ssa.UnOp:
							eg, isG := e.X.(*ssa.Global)
							if !isG || e.Op != token.MUL {
								return "an element of the list given to " + ctor.Name() + " is not a function or package-level detector", true
							}
							fn, ct, _ := tree.ClosureOfGlobal(eg.Pkg, eg)
							if fn == nil && ct == nil {
								return "element " + eg.Name() + " is not a write-once detector", true
							}
							// stored before it is read here
							before := false
							for _, b := range h.Blocks {
								for _, in := range b.Instrs {
									if s2, ok := in.(*ssa.Store); ok && s2.Addr == ssa.Value(eg) && core.Before(s2, e) {
										before = true
									}
								}
							}
							if !before {
								return "element " + eg.Name() + " is read before it is initialised", true
							}
						default:
							return "an element of the list given to " + ctor.Name() + " is not a function or package-level detector", true
						}
					}
				}
			}
		}
	}
	if sites == 0 {
		return "no construction found", true
	}
	return "", true
}

// mapClearLoop: `for k := range m { delete(m, k) }`: the only uses of the
// iterator are its Next, the body deletes exactly the current key from the same
// map and does nothing else.
func mapClearLoop(rg *ssa.Range) bool {
	if _, isMap := rg.X.Type().Underlying().(*types.Map); !isMap {
		return false
	}
	var next *ssa.Next
	for _, ref := range *rg.Referrers() {
		switch x := ref.(type) {
		case *ssa.Next:
			if next != nil {
				return false
			}
			next = x
		case *ssa.DebugRef:
		default:
			return false
		}
	}
	if next == nil {
		return false
	}
	hdr := next.Block()
	for blk := range loopBlocks(hdr) {
		for _, in := range blk.Instrs {
			switch x := in.(type) {
			case *ssa.Next, *ssa.Extract, *ssa.If, *ssa.Jump, *ssa.DebugRef, *ssa.Phi:
			case *ssa.Call:
				if !core.IsBuiltin(&x.Call, "delete") || x.Call.Args[0] != rg.X {
					return false
				}
				ex, ok := x.Call.Args[1].(*ssa.Extract)
				if !ok || ex.Tuple != ssa.Value(next) || ex.Index != 1 {
					return false
				}
			default:
				return false
			}
		}
	}
	return true
}

// upwardModel: the walk model, for its notion of "parent of" (field load or
// accessor call); nil when the walk cannot be modelled.
func upwardModel(c *core.Ctx) (m *walkModel) {
	defer func() {
		if recover() != nil {
			m = nil
		}
	}()
	return getWalk(c)
}

// treeWorklist recognises `for len(pending) > 0 { n := pop(pending); ...; pending = append(pending, children of n...) }`:
// the loop-carried slice of tree nodes loses its last element in every iteration and only gains children of the
// node just taken. With a finite acyclic tree (R03.1, R14.1, R06.3) every node added is strictly deeper than the
// one removed, so the multiset of depths of the pending nodes decreases in the multiset order.
func treeWorklist(wm *walkModel, h *ssa.BasicBlock, body map[*ssa.BasicBlock]bool) (string, bool) {
	iff := core.IfOf(h)
	if iff == nil {
		return "", false
	}
	bo, ok := iff.Cond.(*ssa.BinOp)
	if !ok || !core.IsConstInt(bo.Y, 0) || (bo.Op != token.GTR && bo.Op != token.NEQ) || !body[h.Succs[0]] || body[h.Succs[1]] {
		return "", false
	}
	ln, ok := bo.X.(*ssa.Call)
	if !ok || !core.IsBuiltin(&ln.Call, "len") {
		return "", false
	}
	P, ok := ln.Call.Args[0].(*ssa.Phi)
	if !ok || P.Block() != h {
		return "", false
	}
	sl, ok := P.Type().Underlying().(*types.Slice)
	if !ok {
		return "", false
	}
	if pt, ok := sl.Elem().(*types.Pointer); !ok || !types.Identical(pt.Elem(), wm.tm.Type) {
		return "", false
	}
	isLast := func(v ssa.Value) bool {
		sub, ok := v.(*ssa.BinOp)
		if !ok || sub.Op != token.SUB || !core.IsConstInt(sub.Y, 1) {
			return false
		}
		l2, ok := sub.X.(*ssa.Call)
		return ok && core.IsBuiltin(&l2.Call, "len") && l2.Call.Args[0] == ssa.Value(P)
	}
	// the pop: one re-slice P[:len(P)-1] and the node read at that position
	var rest *ssa.Slice
	var node ssa.Value
	for blk := range body {
		for _, in := range blk.Instrs {
			switch x := in.(type) {
			case *ssa.Slice:
				if x.X == ssa.Value(P) {
					if rest != nil || x.Low != nil || x.High == nil || !isLast(x.High) {
						return "", false
					}
					rest = x
				}
			case *ssa.UnOp:
				if ia, ok := x.X.(*ssa.IndexAddr); ok && x.Op == token.MUL && ia.X == ssa.Value(P) {
					if node != nil || !isLast(ia.Index) {
						return "", false
					}
					node = x
				}
			}
		}
	}
	if rest == nil || node == nil {
		return "", false
	}
	isChild := func(v ssa.Value) bool {
		u, ok := v.(*ssa.UnOp)
		if !ok || u.Op != token.MUL {
			return false
		}
		ia, ok := u.X.(*ssa.IndexAddr)
		if !ok {
			return false
		}
		base, fld, ok := core.LoadOfField(ia.X)
		return ok && fld == wm.tm.FChildren && base == node
	}
	// everything carried back into P derives from the popped rest by appending children of the popped node
	seen := map[ssa.Value]bool{}
	var derived func(v ssa.Value) bool
	derived = func(v ssa.Value) bool {
		if v == ssa.Value(rest) {
			return true
		}
		if seen[v] {
			return true
		}
		seen[v] = true
		switch x := v.(type) {
		case *ssa.Phi:
			if x.Block() == h {
				return false
			}
			for _, e := range x.Edges {
				if !derived(e) {
					return false
				}
			}
			return true
		case *ssa.Call:
			if !core.IsBuiltin(&x.Call, "append") || !derived(x.Call.Args[0]) {
				return false
			}
			one, ok := x.Call.Args[1].(*ssa.Slice)
			if !ok {
				return false
			}
			arr, ok := one.X.(*ssa.Alloc)
			if !ok {
				return false
			}
			for _, ref := range *arr.Referrers() {
				if ia, ok := ref.(*ssa.IndexAddr); ok {
					for _, r2 := range *ia.Referrers() {
						if st, ok := r2.(*ssa.Store); ok && !isChild(st.Val) {
							return false
						}
					}
				}
			}
			return true
		}
		return false
	}
	for k, p := range h.Preds {
		if h.Dominates(p) && !derived(P.Edges[k]) {
			return "", false
		}
	}
	return "worklist over the tree: every iteration removes the last pending node and adds only children of that node; the tree is finite and acyclic (R03.1: single parent, chains end at the root; R14.1; R06.3), so the pending nodes get strictly deeper and the loop ends (inner loops are judged on their own)", true
}

// getConcInitOnlyAny: every static caller chain of f (in any module package) starts in a package initialiser, and f
// is never used as a value.
func getConcInitOnlyAny(c *core.Ctx, f *ssa.Function) bool {
	callers := map[*ssa.Function][]*ssa.Function{}
	valueUse := map[*ssa.Function]bool{}
	for _, g := range c.AllModFuncs() {
		for _, b := range g.Blocks {
			for _, in := range b.Instrs {
				if ci, ok := in.(ssa.CallInstruction); ok {
					if h := ci.Common().StaticCallee(); h != nil {
						callers[h] = append(callers[h], g)
					}
				}
				for _, op := range in.Operands(nil) {
					if h, ok := (*op).(*ssa.Function); ok {
						if ci, isCall := in.(ssa.CallInstruction); !isCall || ci.Common().Value != *op {
							valueUse[h] = true
						}
					}
				}
			}
		}
	}
	seen := map[*ssa.Function]bool{}
	var rec func(g *ssa.Function) bool
	rec = func(g *ssa.Function) bool {
		if g.Name() == "init" && g.Synthetic != "" {
			return true
		}
		if seen[g] {
			return true
		}
		seen[g] = true
		if valueUse[g] || len(callers[g]) == 0 || (g.Object() != nil && g.Object().Exported()) {
			return false
		}
		for _, h := range callers[g] {
			if !rec(h) {
				return false
			}
		}
		return true
	}
	return rec(f)
}
