package rules

import (
	"fmt"
	"go/constant"
	"go/token"
	"go/types"
	"sort"

	"golang.org/x/tools/go/ssa"

	"mtverif/internal/core"
	"mtverif/internal/fde"
)

// ---- failure edges ----

type failEdge struct {
	from, to *ssa.BasicBlock
	calls    []*ssa.Call
}

// resultSources: family calls whose result may flow (through phis) into v;
// empty unless every phi edge is such a call.
func resultSources(v ssa.Value, fam map[*ssa.Function]bool, seen map[ssa.Value]bool) []*ssa.Call {
	if seen[v] {
		return nil
	}
	seen[v] = true
	switch x := v.(type) {
	case *ssa.Call:
		if f := x.Call.StaticCallee(); f != nil && fam[f] && canFail(f) {
			return []*ssa.Call{x}
		}
	case *ssa.Extract:
		// the pass-through result of a scanner wrapper fails exactly when the scanner it called failed
		if call, ok := x.Tuple.(*ssa.Call); ok {
			if w := call.Call.StaticCallee(); w != nil && jsonPass[w][x.Index] {
				return []*ssa.Call{call}
			}
		}
	case *ssa.Phi:
		var out []*ssa.Call
		for _, e := range x.Edges {
			s := resultSources(e, fam, seen)
			if len(s) == 0 {
				return nil
			}
			out = append(out, s...)
		}
		return out
	}
	return nil
}

// failEdges finds the CFG edges on which a can-fail family result is known to
// be <= 0 (the callee failed), and the set of calls whose result is tested.
func failEdges(f *ssa.Function, fam map[*ssa.Function]bool) (edges []failEdge, tested map[*ssa.Call]bool) {
	tested = map[*ssa.Call]bool{}
	for _, b := range f.Blocks {
		iff := core.IfOf(b)
		if iff == nil {
			continue
		}
		cond, pos := core.StripNot(iff.Cond, true)
		bo, ok := cond.(*ssa.BinOp)
		if !ok {
			continue
		}
		x, y, op := bo.X, bo.Y, bo.Op
		if core.IsConstInt(x, 0) { // 0 == rv etc.
			x, y = y, x
			switch op {
			case token.LSS:
				op = token.GTR
			case token.LEQ:
				op = token.GEQ
			case token.GTR:
				op = token.LSS
			case token.GEQ:
				op = token.LEQ
			}
		}
		var failOnTrue bool
		switch {
		case core.IsConstInt(y, 0) && (op == token.EQL || op == token.LEQ):
			failOnTrue = true
		case core.IsConstInt(y, 0) && (op == token.NEQ || op == token.GTR):
			failOnTrue = false
		case core.IsConstInt(y, 1) && op == token.LSS:
			failOnTrue = true
		case core.IsConstInt(y, 1) && op == token.GEQ:
			failOnTrue = false
		default:
			continue
		}
		src := resultSources(x, fam, map[ssa.Value]bool{})
		if len(src) == 0 {
			continue
		}
		if !pos {
			failOnTrue = !failOnTrue
		}
		succ := 1
		if failOnTrue {
			succ = 0
		}
		for _, c := range src {
			tested[c] = true
		}
		edges = append(edges, failEdge{b, b.Succs[succ], src})
	}
	return
}

// topLevelOnly: some dominating edge of blk implies (an int parameter) <= 0.
func topLevelOnly(blk *ssa.BasicBlock) bool {
	for _, de := range core.DominatingConds(blk) {
		cond, val := core.StripNot(de.Cond, de.Val)
		bo, ok := cond.(*ssa.BinOp)
		if !ok {
			continue
		}
		if _, isParam := bo.X.(*ssa.Parameter); !isParam || !core.IsConstInt(bo.Y, 0) {
			continue
		}
		if (bo.Op == token.GTR && !val) || (bo.Op == token.EQL && val) || (bo.Op == token.LEQ && val) || (bo.Op == token.NEQ && !val) {
			return true
		}
	}
	return false
}

// flagStoredOn: a bool field of the state is set to true in a block that
// dominates `to` and is reachable from `from`. Returns the field index.
func flagStoredOn(m *jsonModel, from, to *ssa.BasicBlock) (int, bool) {
	r := core.Reach(from)
	for b := range r {
		if !(b == to || b.Dominates(to)) {
			continue
		}
		for _, in := range b.Instrs {
			if st, ok := in.(*ssa.Store); ok {
				if fa, ok := st.Addr.(*ssa.FieldAddr); ok && m.isState(fa.X.Type()) {
					if v, ok := core.ConstBool(st.Val); ok && v {
						return fa.Field, true
					}
				}
			}
		}
	}
	return -1, false
}

// spilled resolves a defer-spilled result operand: go/ssa turns `return x` in
// a function with named results and a defer into store/rundefers/load/return.
func spilled(r *ssa.Return, i int) ssa.Value {
	v := r.Results[i]
	u, ok := v.(*ssa.UnOp)
	if !ok || u.Op != token.MUL {
		return v
	}
	al, ok := u.X.(*ssa.Alloc)
	if !ok {
		return v
	}
	var last ssa.Value
	for _, in := range r.Block().Instrs {
		if st, ok := in.(*ssa.Store); ok && st.Addr == ssa.Value(al) {
			last = st.Val
		}
		if in == ssa.Instruction(u) {
			break
		}
	}
	if last != nil {
		return last
	}
	return v
}

// selection describes a value as a choice among values per incoming edge of a
// block: a real phi, or a load of a non-escaping local cell (a named result
// kept in memory because the function defers) with one reaching store per
// predecessor.
type selection struct {
	blk   *ssa.BasicBlock
	edges []ssa.Value // per predecessor of blk
}

func asSelection(v ssa.Value) *selection {
	if ph, ok := v.(*ssa.Phi); ok {
		return &selection{ph.Block(), ph.Edges}
	}
	u, ok := v.(*ssa.UnOp)
	if !ok || u.Op != token.MUL {
		return nil
	}
	al, ok := u.X.(*ssa.Alloc)
	if !ok || al.Heap {
		return nil
	}
	for _, ref := range *al.Referrers() {
		switch x := ref.(type) {
		case *ssa.Store:
			if x.Addr != ssa.Value(al) {
				return nil
			}
		case *ssa.UnOp, *ssa.DebugRef:
		default:
			return nil // address escapes
		}
	}
	blk := u.Block()
	// a store earlier in the load's own block decides alone
	for _, in := range blk.Instrs {
		if in == ssa.Instruction(u) {
			break
		}
		if st, ok := in.(*ssa.Store); ok && st.Addr == ssa.Value(al) {
			return nil
		}
	}
	// reaching value at the end of every block: nil = not yet known, multi = several
	multi := ssa.Value(al)
	out := map[*ssa.BasicBlock]ssa.Value{}
	f := blk.Parent()
	for changed := true; changed; {
		changed = false
		for _, b := range f.Blocks {
			var val ssa.Value
			for _, p := range b.Preds {
				pv := out[p]
				switch {
				case pv == nil:
				case val == nil:
					val = pv
				case val != pv:
					val = multi
				}
			}
			for _, in := range b.Instrs {
				if st, ok := in.(*ssa.Store); ok && st.Addr == ssa.Value(al) {
					val = st.Val
				}
			}
			if val != nil && out[b] != val {
				out[b] = val
				changed = true
			}
		}
	}
	sel := &selection{blk: blk}
	for _, p := range blk.Preds {
		pv := out[p]
		if pv == nil || pv == multi {
			return nil
		}
		// a stored value that is itself a load of the cell (x = x): look through it once
		sel.edges = append(sel.edges, pv)
	}
	if len(sel.edges) < 2 {
		return nil
	}
	return sel
}

// parseMapsFlagToZero: in the scanner entry, whenever the failure flag field
// is set, the first result is the constant 0: the first result is a phi/select
// of 0 controlled by a load of that field.
func parseMapsFlagToZero(m *jsonModel, field int) (bool, string) {
	for _, r := range core.Returns(m.parse) {
		v := spilled(r, 0)
		ph := asSelection(v)
		if ph == nil {
			return false, fmt.Sprintf("first result of %s is %s, not a selection controlled by the failure flag", m.parse.Name(), v)
		}
		// one edge constant 0 coming from a block entered on flag==true
		okZero := false
		for k, e := range ph.edges {
			if !core.IsConstInt(e, 0) {
				continue
			}
			pred := ph.blk.Preds[k]
			for _, de := range append(core.DominatingConds(pred), edgeCond(pred, ph.blk)...) {
				cond, val := core.StripNot(de.Cond, de.Val)
				if _, f, isLoad := core.LoadOfField(cond); isLoad && f == field && val {
					okZero = true
				}
			}
		}
		// and the non-zero edge must be entered only on flag==false
		for k, e := range ph.edges {
			if core.IsConstInt(e, 0) {
				continue
			}
			pred := ph.blk.Preds[k]
			guarded := false
			for _, de := range append(core.DominatingConds(pred), edgeCond(pred, ph.blk)...) {
				cond, val := core.StripNot(de.Cond, de.Val)
				if _, f, isLoad := core.LoadOfField(cond); isLoad && f == field && !val {
					guarded = true
				}
			}
			if !guarded {
				okZero = false
			}
		}
		if !okZero {
			return false, fmt.Sprintf("%s does not turn the failure flag %s into a zero parsed length on every path", m.parse.Name(), m.fieldName(field))
		}
	}
	return true, ""
}

func edgeCond(from, to *ssa.BasicBlock) []core.DomEdge {
	iff := core.IfOf(from)
	if iff == nil || from.Succs[0] == from.Succs[1] {
		return nil
	}
	return []core.DomEdge{{Cond: iff.Cond, Val: from.Succs[0] == to, From: from}}
}

// R08.2 / R09.1: failure propagation.
var ruleFailProp = &core.Rule{ID: "R08.2", Min: 12,
	Doc: "failure propagation: every can-fail scanner call is tested, and on the failed edge every reachable return yields 0 (or is top-level only and sets a failure flag that the entry turns into parsed=0)",
	Run: func(c *core.Ctx, s *core.Sink) {
		m := getJSON(c)
		for _, f := range m.famList {
			edges, tested := failEdges(f, m.fam)
			for _, ci := range core.Calls(f) {
				call, ok := ci.(*ssa.Call)
				if !ok {
					continue
				}
				g := call.Call.StaticCallee()
				if g != nil && len(m.passIdx[g]) > 0 {
					key := fmt.Sprintf("%s: result of %s tested", f.Name(), callOrdinal(call))
					s.Check(tested[call], key, c.Pos(call.Pos()), "pass-through count compared with 0 on every flow", fmt.Sprintf("the consumed count handed through by %s is never tested for failure", g.Name()))
					continue
				}
				if g == nil || !m.fam[g] || !canFail(g) {
					continue
				}
				key := fmt.Sprintf("%s: result of %s tested", f.Name(), callOrdinal(call))
				s.Check(tested[call], key, c.Pos(call.Pos()), "compared with 0 on every flow", fmt.Sprintf("result of %s is never tested for failure", g.Name()))
			}
			for _, e := range edges {
				for blk := range core.Reach(e.to) {
					if !core.EdgeDominates(e.from, e.to, blk) {
						// the failed path runs back into code that the successful path also reaches: the failure is forgotten
						if r := retOf(blk); r != nil && !core.IsConstInt(r.Results[0], 0) {
							s.Bad(fmt.Sprintf("%s: %s reachable after failed %s", f.Name(), returnOrdinal(r), callOrdinal(e.calls[0])), c.Pos(r.Pos()),
								fmt.Sprintf("after %s failed (edge b%d->b%d) the scanner can continue on the path of a successful value and return %s: the failed value is taken as consumed", e.calls[0].Call.StaticCallee().Name(), e.from.Index, e.to.Index, r.Results[0]))
						}
						continue
					}
					if len(blk.Instrs) == 0 {
						continue
					}
					r, ok := blk.Instrs[len(blk.Instrs)-1].(*ssa.Return)
					if !ok {
						continue
					}
					key := fmt.Sprintf("%s: %s after failed %s", f.Name(), returnOrdinal(r), callOrdinal(e.calls[0]))
					if core.IsConstInt(r.Results[0], 0) {
						s.OK(key, c.Pos(r.Pos()), "returns 0")
						continue
					}
					if topLevelOnly(blk) {
						if fld, ok := flagStoredOn(m, e.to, blk); ok {
							if good, why := parseMapsFlagToZero(m, fld); good {
								s.OK(key, c.Pos(r.Pos()), "top-level only; sets flag "+m.fieldName(fld)+" which the entry maps to parsed=0")
							} else {
								s.Bad(key, c.Pos(r.Pos()), why)
							}
							continue
						}
					}
					s.Bad(key, c.Pos(r.Pos()), fmt.Sprintf("after %s failed (edge b%d->b%d) this return yields %s, not 0: the enclosing container treats the failed value as consumed",
						e.calls[0].Call.StaticCallee().Name(), e.from.Index, e.to.Index, r.Results[0]))
				}
			}
		}
		// wrappers: a can-fail scanner call inside a wrapper is either tested there or returned at a pass-through position
		var ws []*ssa.Function
		for w := range m.wrap {
			ws = append(ws, w)
		}
		sort.Slice(ws, func(i, j int) bool { return ws[i].Name() < ws[j].Name() })
		for _, w := range ws {
			_, tested := failEdges(w, m.fam)
			for _, ci := range core.Calls(w) {
				call, ok := ci.(*ssa.Call)
				if !ok {
					continue
				}
				g := call.Call.StaticCallee()
				if g == nil || !m.fam[g] || !canFail(g) {
					continue
				}
				passed := false
				for _, ref := range *call.Referrers() {
					if r, ok := ref.(*ssa.Return); ok {
						for k, v := range r.Results {
							if v == ssa.Value(call) && m.passIdx[w][k] {
								passed = true
							}
						}
					}
				}
				// position-passing wrappers add the count to a position; the count's failure shows in their bool result
				added := false
				for _, ref := range *call.Referrers() {
					if bo, ok := ref.(*ssa.BinOp); ok && bo.Op == token.ADD {
						added = true
					}
				}
				key := fmt.Sprintf("%s: result of %s tested", w.Name(), callOrdinal(call))
				s.Check(tested[call] || passed || (added && !canReturnZeroOnly(g)), key, c.Pos(call.Pos()), "tested, or handed through to the caller", fmt.Sprintf("result of %s is neither tested nor handed to the caller as the consumed count", g.Name()))
			}
		}
	}}

// canReturnZeroOnly: g signals failure by 0 and 0 is not also a legitimate count (a scanner that may consume nothing,
// like the white space scanner, never fails).
func canReturnZeroOnly(g *ssa.Function) bool {
	return canFail(g)
}

// ---- R10.1 path stack balance ----

type ival struct{ lo, hi int }

const bigDelta = 1 << 20

func joinIv(a, b ival) ival {
	if b.lo < a.lo {
		a.lo = b.lo
	}
	if b.hi > a.hi {
		a.hi = b.hi
	}
	return a
}

// stackHelper summarises a non-scanner method of the state that touches the
// path stack on a single straight path (e.g. an extracted popPath): its net
// delta, the depth it needs on entry, and the pop stores it contains.
type stackHelper struct {
	delta, need int
	pops        []*ssa.Store
	ok          bool
}

func stackHelperOf(m *jsonModel, g *ssa.Function) *stackHelper {
	if g == nil || g.Blocks == nil || m.fam[g] || g == m.reset || g == m.parse || g.Signature.Recv() == nil || !m.isState(g.Signature.Recv().Type()) {
		return nil
	}
	h := &stackHelper{ok: true}
	touched := false
	depth := 0
	if len(g.Blocks) != 1 {
		// only straight-line helpers are summarised
		for _, b := range g.Blocks {
			for _, in := range b.Instrs {
				if st, ok := in.(*ssa.Store); ok {
					if fa, ok := st.Addr.(*ssa.FieldAddr); ok && fa.Field == m.stackF && m.isState(fa.X.Type()) {
						return &stackHelper{ok: false}
					}
				}
			}
		}
		return nil
	}
	for _, in := range g.Blocks[0].Instrs {
		st, ok := in.(*ssa.Store)
		if !ok {
			continue
		}
		fa, ok := st.Addr.(*ssa.FieldAddr)
		if !ok || fa.Field != m.stackF || !m.isState(fa.X.Type()) {
			continue
		}
		touched = true
		d, k := stackEffect(st, m.stackF)
		switch k {
		case "push":
			depth += d
		case "pop":
			if -depth+1 > h.need {
				h.need = -depth + 1
			}
			depth += d
			h.pops = append(h.pops, st)
		default:
			h.ok = false
		}
	}
	if !touched {
		return nil
	}
	h.delta = depth
	return h
}

type stackSite struct {
	f     *ssa.Function
	key   string
	pos   token.Pos
	store *ssa.Store // for push/pop sites
	bad   string
	undec string
	by    string
}

// stackAnalysis runs the counting typestate of the path stack over every
// scanner function.
func stackAnalysis(c *core.Ctx) []stackSite {
	if r, ok := c.Memo["stackAnalysis"].([]stackSite); ok {
		return r
	}
	m := getJSON(c)
	if m.stackF < 0 {
		core.Bail("no path stack field (slice with single-element append) found in the scanner state")
	}
	// Scanner summaries: by default a scanner leaves the stack where it found it on success and not below on
	// failure. A scanner every success return of which leaves it at the same entry+d (a member helper that pushes
	// the key for its caller to pop) is summarised with that d; the assumption is re-checked until it is stable.
	sum := map[*ssa.Function]int{}
	var all []stackSite
	for round := 0; ; round++ {
		all = nil
		changed := false
		for _, f := range m.famList {
			sites, d, exact := stackAnalyse(m, f, sum)
			all = append(all, sites...)
			if exact && d != sum[f] && d >= -8 && d <= 8 {
				sum[f] = d
				changed = true
			}
		}
		if !changed {
			break
		}
		if round > 2*len(m.famList) {
			core.Bail("path-stack summaries of the scanner functions do not stabilise")
		}
	}
	// an entry scanner (called from outside the family) must be balanced
	for _, f := range m.famList {
		if sum[f] == 0 {
			continue
		}
		for _, g := range c.SrcFuncs() {
			if m.fam[g] {
				continue
			}
			for _, ci := range core.Calls(g) {
				if ci.Common().StaticCallee() == f {
					all = append(all, stackSite{f: f, key: fmt.Sprintf("%s: called from %s with a non-zero stack delta", f.Name(), g.Name()), pos: ci.Pos(),
						bad: fmt.Sprintf("the scanner leaves the path stack at entry%+d on success and is called from outside the scanner family: later keys are looked up under a stale path", sum[f])})
				}
			}
		}
	}
	c.Memo["stackAnalysis"] = all
	return all
}

// stackAnalyse: the typestate of one scanner function under the summaries sum
// of its callees (success delta). It returns the sites, and the common success
// delta of the function when every success return has the same one.
func stackAnalyse(m *jsonModel, f *ssa.Function, sum map[*ssa.Function]int) (all []stackSite, delta int, exact bool) {
	{
		edges, _ := failEdges(f, m.fam)
		failed := map[[2]*ssa.BasicBlock]bool{}
		// success edge of a test of one call's result, the call being in the block of the test
		bonus := map[[2]*ssa.BasicBlock]int{}
		for _, e := range edges {
			failed[[2]*ssa.BasicBlock{e.from, e.to}] = true
			if len(e.calls) == 1 && e.calls[0].Block() == e.from {
				if g := e.calls[0].Call.StaticCallee(); g != nil && sum[g] > 0 {
					for _, sc := range e.from.Succs {
						if sc != e.to {
							bonus[[2]*ssa.BasicBlock{e.from, sc}] = sum[g]
						}
					}
				}
			}
		}
		retIv := map[*ssa.Return]ival{}
		type st struct {
			succ ival
			all  int
			sOK  bool
		}
		in := map[*ssa.BasicBlock]*st{f.Blocks[0]: {succ: ival{0, 0}, all: 0, sOK: true}}
		work := []*ssa.BasicBlock{f.Blocks[0]}
		results := map[string]*stackSite{}
		var order []string
		set := func(key string, pos token.Pos, store *ssa.Store, bad, undec, by string) {
			r, ok := results[key]
			if !ok {
				r = &stackSite{f: f, key: key, pos: pos, store: store}
				results[key] = r
				order = append(order, key)
			}
			r.bad, r.undec, r.by = bad, undec, by
		}
		for iter := 0; len(work) > 0 && iter < 20000; iter++ {
			b := work[0]
			work = work[1:]
			cur := *in[b]
			for _, ins := range b.Instrs {
				switch x := ins.(type) {
				case *ssa.Store:
					fa, ok := x.Addr.(*ssa.FieldAddr)
					if !ok || fa.Field != m.stackF || !m.isState(fa.X.Type()) {
						continue
					}
					d, k := stackEffect(x, m.stackF)
					switch k {
					case "push":
						key := fmt.Sprintf("%s: push#%d", f.Name(), ordinalOfStore(f, x, m.stackF))
						set(key, x.Pos(), x, "", "", "push")
						cur.succ.lo += d
						cur.succ.hi += d
						cur.all += d
					case "pop":
						key := fmt.Sprintf("%s: pop#%d", f.Name(), ordinalOfStore(f, x, m.stackF))
						if cur.all < 1 {
							set(key, x.Pos(), x, fmt.Sprintf("pop may underflow: lower bound of stack depth relative to entry is %d here", cur.all), "", "")
						} else {
							set(key, x.Pos(), x, "", "", fmt.Sprintf("depth >= entry+%d", cur.all))
						}
						cur.succ.lo += d
						cur.succ.hi += d
						cur.all += d
					default:
						key := fmt.Sprintf("%s: stack store#%d", f.Name(), ordinalOfStore(f, x, m.stackF))
						set(key, x.Pos(), x, "", "unrecognised store to the path stack inside the scanner ("+k+")", "")
					}
				case *ssa.Call:
					if g := x.Call.StaticCallee(); g != nil && m.fam[g] && sum[g] != 0 {
						// success: +d; failure: not below entry (checked at the callee's failure returns). Without
						// knowing which, the lower bound over all paths moves by min(d, 0); the success edge of the
						// result test adds the rest.
						d := sum[g]
						cur.succ.lo += d
						cur.succ.hi += d
						if d < 0 {
							cur.all += d
						}
						continue
					}
					hs := stackHelperOf(m, x.Call.StaticCallee())
					if hs == nil {
						continue
					}
					key := fmt.Sprintf("%s: stack helper %s", f.Name(), callOrdinal(x))
					var st0 *ssa.Store
					if len(hs.pops) > 0 {
						st0 = hs.pops[0]
					}
					switch {
					case !hs.ok:
						set(key, x.Pos(), st0, "", "helper touches the path stack in a way that cannot be summarised", "")
					case cur.all < hs.need:
						set(key, x.Pos(), st0, fmt.Sprintf("pop (in helper %s) may underflow: lower bound of stack depth relative to entry is %d here", x.Call.StaticCallee().Name(), cur.all), "", "")
					default:
						set(key, x.Pos(), st0, "", "", fmt.Sprintf("helper delta %+d, depth >= entry+%d", hs.delta, cur.all))
					}
					cur.succ.lo += hs.delta
					cur.succ.hi += hs.delta
					cur.all += hs.delta
				case *ssa.Return:
					key := fmt.Sprintf("%s: %s", f.Name(), returnOrdinal(x))
					if core.IsConstInt(x.Results[0], 0) {
						if cur.all < 0 {
							set(key, x.Pos(), nil, "failure return may leave the stack below entry depth", "", "")
						} else {
							set(key, x.Pos(), nil, "", "", "failure return, depth >= entry")
						}
					} else if !cur.sOK {
						delete(retIv, x)
						set(key, x.Pos(), nil, "", "", "success return balanced")
					} else {
						retIv[x] = cur.succ
						d := sum[f]
						switch {
						case cur.succ.lo == d && cur.succ.hi == d && d == 0:
							set(key, x.Pos(), nil, "", "", "success return balanced")
						case cur.succ.lo == d && cur.succ.hi == d:
							set(key, x.Pos(), nil, "", "", fmt.Sprintf("success return at entry%+d, as every success return of this scanner; callers account for it", d))
						default:
							hi := fmt.Sprint(cur.succ.hi)
							if cur.succ.hi >= bigDelta {
								hi = "unbounded"
							}
							what := "a push is not matched by a pop on this path"
							if d != 0 {
								what = fmt.Sprintf("the other success returns of this scanner leave it at entry%+d and its callers rely on that", d)
							}
							set(key, x.Pos(), nil, fmt.Sprintf("success return leaves the path stack at entry%+d..%s: %s, later keys are looked up under a stale path", cur.succ.lo, hi, what), "", "")
						}
					}
				}
			}
			for _, sc := range b.Succs {
				nx := cur
				if failed[[2]*ssa.BasicBlock{b, sc}] {
					nx.sOK = false
				}
				nx.all += bonus[[2]*ssa.BasicBlock{b, sc}]
				old, ok := in[sc]
				if !ok {
					cp := nx
					in[sc] = &cp
					work = append(work, sc)
					continue
				}
				merged := *old
				if nx.sOK {
					if merged.sOK {
						merged.succ = joinIv(merged.succ, nx.succ)
					} else {
						merged.succ, merged.sOK = nx.succ, true
					}
				}
				if nx.all < merged.all {
					merged.all = nx.all
				}
				if merged.succ.hi > 64 {
					merged.succ.hi = bigDelta
				}
				if merged.succ.lo < -64 {
					merged.succ.lo = -bigDelta
				}
				if merged.all < -64 {
					merged.all = -bigDelta
				}
				if merged != *old {
					*old = merged
					work = append(work, sc)
				}
			}
		}
		for _, k := range order {
			all = append(all, *results[k])
		}
		first := true
		exact = true
		for _, iv := range retIv {
			if iv.lo != iv.hi || (!first && iv.lo != delta) {
				exact = false
			}
			delta, first = iv.lo, false
		}
		if first {
			exact = false
		}
	}
	return all, delta, exact
}

var ruleStackBalance = &core.Rule{ID: "R10.1", Min: 25,
	Doc: "path-stack typestate: on every success return of a scanner function pops equal pushes (callee delta 0 on success, >= 0 on failure); no pop can underflow",
	Run: func(c *core.Ctx, s *core.Sink) {
		m := getJSON(c)
		for _, r := range stackAnalysis(c) {
			switch {
			case r.undec != "":
				s.Und(r.key, c.Pos(r.pos), r.undec)
			case r.bad != "":
				s.Bad(r.key, c.Pos(r.pos), r.bad)
			default:
				s.OK(r.key, c.Pos(r.pos), r.by)
			}
		}
		// the reset routine must empty the stack (C04 also checks it); and nothing outside family/reset/entry stores it
		for _, f := range c.SrcFuncs() {
			if m.fam[f] {
				continue
			}
			if hs := stackHelperOf(m, f); hs != nil && hs.ok {
				// summarised at its call sites; it must only be called from the scanner
				onlyFam := true
				for _, g := range c.SrcFuncs() {
					for _, ci := range core.Calls(g) {
						if ci.Common().StaticCallee() == f && !m.fam[g] {
							onlyFam = false
						}
					}
				}
				s.Check(onlyFam, core.FName(f)+": stack helper called from the scanner only", c.Pos(f.Pos()), "summarised at call sites", "a helper that pushes / pops the path stack is called from outside the scanner")
				continue
			}
			for _, b := range f.Blocks {
				for _, in := range b.Instrs {
					st, ok := in.(*ssa.Store)
					if !ok {
						continue
					}
					fa, ok := st.Addr.(*ssa.FieldAddr)
					if !ok || fa.Field != m.stackF || !m.isState(fa.X.Type()) {
						continue
					}
					_, k := stackEffect(st, m.stackF)
					key := fmt.Sprintf("%s: stack store#%d outside scanner", core.FName(f), ordinalOfStore(f, st, m.stackF))
					s.Check(k == "reset", key, c.Pos(st.Pos()), "reset to empty", "store to the path stack outside the scanner that is not a reset to empty ("+k+")")
				}
			}
		}
	}}

func ordinalOfStore(f *ssa.Function, st *ssa.Store, field int) int {
	k := 0
	for _, b := range f.Blocks {
		for _, in := range b.Instrs {
			if x, ok := in.(*ssa.Store); ok {
				if fa, ok := x.Addr.(*ssa.FieldAddr); ok && fa.Field == field {
					k++
				}
				if x == st {
					return k
				}
			}
		}
	}
	return k
}

// ---- R13.2 criterion / guard agreement ----

// mentionsLimit: v is computed (through pure ops) from a uint32 parameter.
func mentionsLimit(v ssa.Value, seen map[ssa.Value]bool) bool {
	if seen[v] {
		return false
	}
	seen[v] = true
	if p, ok := v.(*ssa.Parameter); ok {
		if b, ok := p.Type().Underlying().(*types.Basic); ok && b.Kind() == types.Uint32 {
			return true
		}
	}
	switch v.(type) {
	case *ssa.BinOp, *ssa.Convert, *ssa.UnOp, *ssa.Phi, *ssa.ChangeType:
	default:
		return false
	}
	if in, ok := v.(ssa.Instruction); ok {
		for _, op := range in.Operands(nil) {
			if *op != nil && mentionsLimit(*op, seen) {
				return true
			}
		}
	}
	return false
}

var ruleInspectedGuard = &core.Rule{ID: "R13.2", Min: 2,
	Doc: "the inspected-bytes result of the scanner entry may be compared with a length only under a dominating truncated-input guard on the detector's own limit; complete input is judged by the parsed length, compared with a length only for equality",
	Run: func(c *core.Ctx, s *core.Sink) {
		m := getJSON(c)
		for _, f := range c.SrcFuncs() {
			for _, ci := range core.Calls(f) {
				call, ok := ci.(*ssa.Call)
				if !ok || call.Call.StaticCallee() != m.parse {
					continue
				}
				uses := 0
				for _, ref := range *call.Referrers() {
					ex, ok := ref.(*ssa.Extract)
					if !ok {
						continue
					}
					if ex.Index > 1 {
						continue
					}
					for _, r2 := range *ex.Referrers() {
						if _, isDbg := r2.(*ssa.DebugRef); isDbg {
							continue
						}
						uses++
						name := []string{"parsed", "inspected"}[ex.Index]
						key := fmt.Sprintf("%s: use of %s result of %s", core.FName(f), name, callOrdinal(call))
						if ex.Index == 0 {
							// compared with a length, it is compared for equality: "parsed to its end", not "parsed at least / at most"
							if bo, isBo := r2.(*ssa.BinOp); isBo {
								other := bo.Y
								if bo.Y == ssa.Value(ex) {
									other = bo.X
								}
								if ln, isLen := other.(*ssa.Call); isLen && core.IsBuiltin(&ln.Call, "len") {
									s.Check(bo.Op == token.EQL || bo.Op == token.NEQ, key, c.Pos(r2.Pos()), "parsed length == len", fmt.Sprintf("the parsed length is compared with the input length by %s: input that parsed only in part (or a scanner result beyond it) passes for a complete JSON value", bo.Op))
									continue
								}
							}
							s.OK(key, c.Pos(r2.Pos()), "parsed length")
							continue
						}
						bo, ok := r2.(*ssa.BinOp)
						if !ok {
							// handed to a verdict function together with the limit: its uses there are judged the same way
							if hc, isCall := r2.(*ssa.Call); isCall {
								if h := hc.Call.StaticCallee(); h != nil && core.InMod(h) && h.Blocks != nil && len(h.Params) == len(hc.Call.Args) {
									limPassed := false
									for i, a := range hc.Call.Args {
										if _, isP := a.(*ssa.Parameter); isP && mentionsLimit(a, map[ssa.Value]bool{}) && mentionsLimit(h.Params[i], map[ssa.Value]bool{}) {
											limPassed = true
										}
									}
									okUses, nUses := limPassed, 0
									for i, a := range hc.Call.Args {
										if a != ssa.Value(ex) {
											continue
										}
										for _, r3 := range *h.Params[i].Referrers() {
											if _, isDbg := r3.(*ssa.DebugRef); isDbg {
												continue
											}
											nUses++
											b3, isBo := r3.(*ssa.BinOp)
											if !isBo {
												okUses = false
												continue
											}
											g3 := false
											for _, de := range core.DominatingConds(b3.Block()) {
												if mentionsLimit(de.Cond, map[ssa.Value]bool{}) {
													g3 = true
												}
											}
											if !g3 {
												okUses = false
											}
										}
									}
									s.Check(okUses && nUses > 0, key, c.Pos(r2.Pos()), "handed to "+h.Name()+" with the limit; compared there under a guard on the limit",
										"the inspected-bytes count is handed to "+h.Name()+", where it is used without a dominating truncated-input guard on the limit")
									continue
								}
							}
							s.Bad(key, c.Pos(r2.Pos()), "inspected-bytes result used other than in a comparison")
							continue
						}
						guarded := false
						for _, de := range core.DominatingConds(bo.Block()) {
							if mentionsLimit(de.Cond, map[ssa.Value]bool{}) {
								guarded = true
							}
						}
						s.Check(guarded, key, c.Pos(bo.Pos()), "under a guard on the limit parameter",
							"the inspected-bytes count is compared without a dominating truncated-input guard: a complete line/document that fails to parse is accepted when the failure is at its last byte")
					}
				}
				key := fmt.Sprintf("%s: call %s consults a length result", core.FName(f), callOrdinal(call))
				s.Check(uses > 0, key, c.Pos(call.Pos()), "uses parsed or inspected", "neither the parsed nor the inspected length of the scanner result is consulted")
			}
		}
	}}

// ---- R16.x recursion ----

func intParamIndex(f *ssa.Function) int {
	idx := -1
	for i, p := range f.Params {
		if i == 0 && f.Signature.Recv() != nil {
			continue
		}
		if b, ok := p.Type().Underlying().(*types.Basic); ok && b.Kind() == types.Int {
			idx = i
		}
	}
	return idx
}

var ruleCap = &core.Rule{ID: "R16.2", Min: 8,
	Doc: "depth-guarded recursion: entry guard depth > cap => return 0 dominates all intra-SCC calls; depth argument never decreases and grows on every cycle; every construction of the scanner state installs a positive constant cap and nothing overwrites it (a whole-state reset must restore the cap it loaded before); wrappers outside the family run on the caller's state only; the guard rejects exactly depths above the cap; 4096 <= cap <= 100000",
	Run: func(c *core.Ctx, s *core.Sink) {
		m := getJSON(c)
		if m.capF < 0 || m.guardFn == nil {
			s.Bad("depth guard", c.Pos(m.parse.Pos()), "no comparison of a depth parameter with a cap field found in the scanner family: recursion depth is bounded only by the input")
			return
		}
		g := m.guardFn
		dp := intParamIndex(g)
		// (a) guard shape by finite evaluation: tabulate lvl x cap
		capLoads := map[ssa.Value]bool{}
		for _, b := range g.Blocks {
			for _, in := range b.Instrs {
				if _, fld, ok := core.LoadOfField(valueOf(in)); ok && fld == m.capF {
					capLoads[valueOf(in)] = true
				}
			}
		}
		// the guard must be decided before any family call: find first family call block
		famCallBlocks := map[*ssa.BasicBlock]bool{}
		for _, ci := range core.Calls(g) {
			if f := ci.Common().StaticCallee(); f != nil && m.fam[f] {
				famCallBlocks[ci.Block()] = true
			}
		}
		capVals := installedCaps(c, m, s)
		for _, cv := range capVals {
			bad := ""
			tested := 0
			for _, lvl := range []int64{0, 1, cv - 1, cv, cv + 1, cv + 2} {
				if lvl < 0 {
					continue
				}
				ev := newEval(c)
				ev.Env[g.Params[dp]] = constant.MakeInt64(lvl)
				for v := range capLoads {
					ev.Env[v] = constant.MakeInt64(cv)
				}
				// the comparison sits in a predicate method: its answer for (depth, cap) is evaluated there and pinned at the call
				if h := m.guardHelper; h != nil {
					hv := newEval(c)
					if hp := intParamIndex(h); hp >= 0 {
						hv.Env[h.Params[hp]] = constant.MakeInt64(lvl)
					}
					for _, hb := range h.Blocks {
						for _, in := range hb.Instrs {
							if ld, ok := in.(*ssa.UnOp); ok {
								if _, fld, isLoad := core.LoadOfField(ld); isLoad && fld == m.capF {
									hv.Env[ld] = constant.MakeInt64(cv)
								}
							}
						}
					}
					hx, herr := hv.Walk(h.Blocks[0], nil, nil, 0)
					if herr != nil || len(hx) != 1 || hx[0].Ret == nil {
						bad = fmt.Sprintf("guard predicate %s not evaluable for depth %d: %v", h.Name(), lvl, herr)
						break
					}
					ans, okA := hx[0].ValAt(hv, hx[0].Ret.Results[0])
					if !okA || ans.Kind() != constant.Bool {
						bad = fmt.Sprintf("guard predicate %s not evaluable for depth %d", h.Name(), lvl)
						break
					}
					for _, ci := range core.Calls(g) {
						if call, ok := ci.(*ssa.Call); ok && call.Call.StaticCallee() == h {
							ev.Env[call] = ans
						}
					}
				}
				exits, err := ev.Walk(g.Blocks[0], nil, func(b *ssa.BasicBlock) bool { return famCallBlocks[b] || hasFamilyCallOrIndex(b, m) }, 0)
				if err != nil || len(exits) != 1 {
					bad = fmt.Sprintf("guard not evaluable for depth %d: %v", lvl, err)
					break
				}
				tested++
				rejected := exits[0].Ret != nil && core.IsConstInt(exits[0].Ret.Results[0], 0)
				if rejected != (lvl > cv) {
					bad = fmt.Sprintf("with cap %d the guard %s depth %d (must reject exactly depths > cap)", cv, map[bool]string{true: "rejects", false: "admits"}[rejected], lvl)
					break
				}
			}
			s.Check(bad == "", fmt.Sprintf("%s: guard table for cap", g.Name()), c.Pos(g.Pos()), fmt.Sprintf("cap=%d: %d depths around the cap tabulated", cv, tested), bad)
			// the cap itself: deep enough for every document the library promises to recognise (nesting up to 4096), and small
			// enough to be a cap: with about 0.3 KB of stack per level 100000 levels stay below 32 MB, and inputs of millions of
			// brackets are cut off, not scanned to the end
			s.Check(cv >= 4096, "recursion cap admits nesting depth 4096", c.Pos(g.Pos()), fmt.Sprintf("cap = %d", cv), fmt.Sprintf("the recursion cap is %d: well-formed documents nested deeper than that, but within the 4096 levels the library supports, are no longer recognised as JSON", cv))
			s.Check(cv <= 100000, "recursion cap bounds the stack", c.Pos(g.Pos()), fmt.Sprintf("cap = %d", cv), fmt.Sprintf("the recursion cap is %d: it is never reached by any realistic input, recursion depth (and stack use) again grows with the input, and inputs of millions of nested brackets are scanned to the end and reported as JSON", cv))
		}
		// (b) depth arguments along intra-family calls: never decreasing, and on every cycle through the
		// guard function the total increase is at least 1
		type edge struct {
			from, to *ssa.Function
			call     *ssa.Call
			inc      int64
		}
		var es []edge
		// scanner functions and the wrappers that hand a depth on
		units := append([]*ssa.Function{}, m.famList...)
		{
			var ws []*ssa.Function
			for w := range m.wrap {
				ws = append(ws, w)
			}
			sort.Slice(ws, func(i, j int) bool { return ws[i].Name() < ws[j].Name() })
			units = append(units, ws...)
		}
		inUnits := map[*ssa.Function]bool{}
		for _, f := range units {
			inUnits[f] = true
		}
		for _, f := range units {
			fdp := intParamIndex(f)
			for _, ci := range core.Calls(f) {
				call, ok := ci.(*ssa.Call)
				if !ok {
					continue
				}
				h := call.Call.StaticCallee()
				if h == nil || !inUnits[h] {
					continue
				}
				hp := intParamIndex(h)
				if hp < 0 || !m.depthTaking(h) {
					continue // leaf scanners without a depth
				}
				key := fmt.Sprintf("%s: depth argument of %s", f.Name(), callOrdinal(call))
				if fdp < 0 {
					s.Bad(key, c.Pos(call.Pos()), "caller has no depth parameter but calls a depth-taking scanner function")
					continue
				}
				arg := call.Call.Args[hp]
				inc := int64(-1)
				if arg == ssa.Value(f.Params[fdp]) {
					inc = 0
				} else if bo, ok := arg.(*ssa.BinOp); ok && bo.Op == token.ADD && bo.X == ssa.Value(f.Params[fdp]) {
					if k, ok := core.ConstInt(bo.Y); ok {
						inc = k
					}
				}
				if inc < 0 {
					s.Bad(key, c.Pos(call.Pos()), fmt.Sprintf("depth argument %s is not the caller's depth plus a non-negative constant: the depth may decrease and the cap would never be reached", arg))
					continue
				}
				s.OK(key, c.Pos(call.Pos()), fmt.Sprintf("depth+%d", inc))
				es = append(es, edge{f, h, call, inc})
			}
		}
		// dist[X]: minimum total increase on a path X => g
		const inf = int64(1) << 40
		dist := map[*ssa.Function]int64{}
		for _, f := range units {
			dist[f] = inf
		}
		dist[g] = 0
		for i := 0; i < len(units)+1; i++ {
			for _, e := range es {
				if e.from != g && dist[e.to] < inf && e.inc+dist[e.to] < dist[e.from] {
					dist[e.from] = e.inc + dist[e.to]
				}
			}
		}
		for _, e := range es {
			if e.from != g || dist[e.to] >= inf {
				continue
			}
			total := e.inc + dist[e.to]
			key := fmt.Sprintf("cycle %s -> %s -> ... -> %s via %s", g.Name(), e.to.Name(), g.Name(), callOrdinal(e.call))
			s.Check(total >= 1, key, c.Pos(e.call.Pos()), fmt.Sprintf("depth grows by at least %d per cycle", total),
				fmt.Sprintf("on the recursion cycle through %s the depth argument grows by %d in total: nesting of that kind is never counted, the cap is not reached and the stack grows with the input", e.to.Name(), total))
		}
		// (c) every cycle passes through the guard function: removing g from the family call graph leaves it acyclic
		adj := map[*ssa.Function][]*ssa.Function{}
		for _, f := range units {
			for _, ci := range core.Calls(f) {
				if h := ci.Common().StaticCallee(); h != nil && inUnits[h] && h != g && f != g {
					adj[f] = append(adj[f], h)
				}
			}
		}
		cyc := findCycle(adj)
		s.Check(cyc == "", "scanner cycles pass the guard", c.Pos(g.Pos()), "family call graph minus "+g.Name()+" is acyclic", "recursive cycle avoiding the depth guard: "+cyc)
		// (d) the entry is the only caller from outside the family, with depth 0
		for _, f := range c.AllModFuncs() {
			if m.fam[f] {
				continue
			}
			for _, ci := range core.Calls(f) {
				h := ci.Common().StaticCallee()
				if h == nil || !m.fam[h] {
					continue
				}
				key := fmt.Sprintf("%s: outside call of %s", core.FName(f), callOrdinal(ci))
				if m.wrap[f] {
					// a wrapper runs on the state of the scanner function that called it
					onlyFam := true
					for _, g2 := range c.AllModFuncs() {
						for _, c2 := range core.Calls(g2) {
							if c2.Common().StaticCallee() == f && !(m.fam[g2] || m.wrap[g2]) {
								onlyFam = false
							}
							if c2.Common().StaticCallee() == f && (m.fam[g2] || m.wrap[g2]) && c2.Common().Args[0] != ssa.Value(g2.Params[0]) {
								onlyFam = false
							}
						}
					}
					if intParamIndex(h) >= 0 && m.depthTaking(h) {
						// modelled when the wrapper has a depth of its own and hands on depth + constant (an edge above)
						modelled := false
						for _, e := range es {
							if e.call == ci.(*ssa.Call) {
								modelled = true
							}
						}
						if !modelled {
							s.Und(key, c.Pos(ci.Pos()), "a wrapper outside the scanner family calls a depth-taking scanner function without a depth of its own: the depth accounting through it is not modelled")
							continue
						}
					}
					s.Check(onlyFam, key, c.Pos(ci.Pos()), "wrapper called by the scanner family only, on the caller's own state", "scanner entered from outside the pooled entry point (state may lack the cap)")
					continue
				}
				if f != m.parse {
					s.Bad(key, c.Pos(ci.Pos()), "scanner entered from outside the pooled entry point (state may lack the cap)")
					continue
				}
				hp := intParamIndex(h)
				s.Check(hp >= 0 && core.IsConstInt(ci.Common().Args[hp], 0), key, c.Pos(ci.Pos()), "depth 0", "entry does not start at depth 0")
			}
		}
		// (e) on the capped edge the scanner fails: covered by (a) (rejected == returns 0)
	}}

// depthTaking: h (transitively, inside the family) reaches the guard function, i.e. takes part in the recursion.
func (m *jsonModel) depthTaking(h *ssa.Function) bool {
	seen := map[*ssa.Function]bool{}
	var visit func(f *ssa.Function) bool
	visit = func(f *ssa.Function) bool {
		if f == m.guardFn {
			return true
		}
		if seen[f] {
			return false
		}
		seen[f] = true
		for _, ci := range core.Calls(f) {
			if g := ci.Common().StaticCallee(); g != nil && (m.fam[g] || m.wrap[g]) && visit(g) {
				return true
			}
		}
		return false
	}
	return visit(h)
}

// R08.7: completeness needs the nesting that the cap allows to be exactly the
// nesting of the document: one unit of depth per container level.
var ruleDepthCost = &core.Rule{ID: "R08.7", Min: 2,
	Doc: "each container level costs exactly one unit of depth: on every call path from the guarded value scanner through a container scanner (and wrappers) back to the value scanner the depth argument grows by exactly 1, so a document nested as deep as the cap allows is still scanned (R16.2 only needs at least 1)",
	Run: func(c *core.Ctx, s *core.Sink) {
		m := getJSON(c)
		g := m.guardFn
		if g == nil {
			core.Bail("guard function of the scanner not found")
		}
		units := append([]*ssa.Function{}, m.famList...)
		for w := range m.wrap {
			units = append(units, w)
		}
		sort.Slice(units, func(i, j int) bool { return units[i].String() < units[j].String() })
		inUnits := map[*ssa.Function]bool{}
		for _, f := range units {
			inUnits[f] = true
		}
		type edge struct {
			to   *ssa.Function
			inc  int64
			call *ssa.Call
		}
		adj := map[*ssa.Function][]edge{}
		for _, f := range units {
			fdp := intParamIndex(f)
			for _, ci := range core.Calls(f) {
				call, ok := ci.(*ssa.Call)
				if !ok {
					continue
				}
				h := call.Call.StaticCallee()
				if h == nil || !inUnits[h] || intParamIndex(h) < 0 || !m.depthTaking(h) || fdp < 0 {
					continue
				}
				arg := call.Call.Args[intParamIndex(h)]
				inc := int64(-1 << 40)
				if arg == ssa.Value(f.Params[fdp]) {
					inc = 0
				} else if bo, ok := arg.(*ssa.BinOp); ok && bo.Op == token.ADD && bo.X == ssa.Value(f.Params[fdp]) {
					if k, ok := core.ConstInt(bo.Y); ok {
						inc = k
					}
				}
				if inc < 0 {
					continue // reported by R16.2
				}
				adj[f] = append(adj[f], edge{h, inc, call})
			}
		}
		// all simple paths g -> ... -> g (the graph without g is acyclic by R16.2): enumerate with a depth bound
		n := 0
		var walk func(f *ssa.Function, sum int64, first *ssa.Call, depth int, path string)
		walk = func(f *ssa.Function, sum int64, first *ssa.Call, depth int, path string) {
			if depth > len(units)+1 {
				return
			}
			for _, e := range adj[f] {
				fc := first
				if fc == nil {
					fc = e.call
				}
				if e.to == g {
					n++
					key := fmt.Sprintf("depth cost of the cycle %s -> %s", path, g.Name())
					s.Check(sum+e.inc == 1, key, c.Pos(fc.Pos()), "exactly 1 per container level", fmt.Sprintf("one level of nesting through %s -> %s costs %d units of depth: documents nested less deep than the recursion limit are rejected (or the limit is reached late)", path, g.Name(), sum+e.inc))
					continue
				}
				walk(e.to, sum+e.inc, fc, depth+1, path+" -> "+e.to.Name())
			}
		}
		walk(g, 0, nil, 0, g.Name())
		if n == 0 {
			s.Bad("recursion cycles through the value scanner", c.Pos(g.Pos()), "no cycle from the guarded value scanner back to itself found")
		}
	}}

func valueOf(in ssa.Instruction) ssa.Value {
	v, _ := in.(ssa.Value)
	return v
}

func hasFamilyCallOrIndex(b *ssa.BasicBlock, m *jsonModel) bool {
	for _, in := range b.Instrs {
		if c, ok := in.(*ssa.Call); ok {
			if f := c.Call.StaticCallee(); f != nil && (m.fam[f] || m.wrap[f]) {
				return true
			}
		}
	}
	return false
}

// installedCaps checks every construction of the state and returns the set of
// cap constants installed.
func installedCaps(c *core.Ctx, m *jsonModel, s *core.Sink) []int64 {
	var caps []int64
	seen := map[int64]bool{}
	n := 0
	for _, f := range c.AllModFuncs() {
		for _, b := range f.Blocks {
			for _, in := range b.Instrs {
				switch x := in.(type) {
				case *ssa.Alloc:
					pt, ok := x.Type().Underlying().(*types.Pointer)
					if !ok || !types.Identical(pt.Elem(), m.state) {
						continue
					}
					n++
					key := fmt.Sprintf("%s: construction #%d of scanner state", core.FName(f), n)
					var val int64
					stores := 0
					for _, r := range *x.Referrers() {
						if fa, ok := r.(*ssa.FieldAddr); ok && fa.Field == m.capF {
							for _, r2 := range *fa.Referrers() {
								if st, ok := r2.(*ssa.Store); ok {
									stores++
									if k, ok := core.ConstInt(st.Val); ok {
										val = k
									} else if q := overwriteTarget(x); q != nil && carriesCap(m, st.Val, q) {
										val = 0 // temporary of *q = state{cap: q.cap, ...}: the cap is carried over
									} else {
										val = -1
									}
								}
							}
						}
					}
					if stores == 1 && val == 0 {
						s.OK(key, c.Pos(x.Pos()), "temporary for an overwrite that carries the existing cap over")
					} else if stores == 1 && val > 0 {
						s.OK(key, c.Pos(x.Pos()), fmt.Sprintf("cap %s = %d", m.fieldName(m.capF), val))
						if !seen[val] {
							seen[val] = true
							caps = append(caps, val)
						}
					} else {
						s.Bad(key, c.Pos(x.Pos()), fmt.Sprintf("scanner state constructed without a positive constant recursion cap (%s): the guard's cap==0 escape disables the depth limit", m.fieldName(m.capF)))
					}
				case *ssa.Store:
					if fa, ok := x.Addr.(*ssa.FieldAddr); ok && fa.Field == m.capF && m.isState(fa.X.Type()) {
						if _, isAlloc := fa.X.(*ssa.Alloc); !isAlloc && !restoresCap(m, x, fa.X) {
							s.Bad(fmt.Sprintf("%s: store to cap", core.FName(f)), c.Pos(x.Pos()), "the recursion cap is overwritten after construction")
						}
					}
					// whole-struct overwrite (*p = parserState{...}) of an existing state
					if m.isState(x.Addr.Type()) {
						carried := false
						if ld, ok := x.Val.(*ssa.UnOp); ok && ld.Op == token.MUL {
							if tmp, ok := ld.X.(*ssa.Alloc); ok && overwriteTarget(tmp) == x.Addr {
								for _, r := range *tmp.Referrers() {
									if fa, ok := r.(*ssa.FieldAddr); ok && fa.Field == m.capF {
										for _, r2 := range *fa.Referrers() {
											if st, ok := r2.(*ssa.Store); ok && carriesCap(m, st.Val, x.Addr) {
												carried = true
											}
										}
									}
								}
							}
						}
						if k, ok := x.Val.(*ssa.Const); ok && k.Value == nil {
							// in-place form: *q = zero; q.cap = <q.cap loaded before>
							seenX := false
							for _, in2 := range b.Instrs {
								if in2 == ssa.Instruction(x) {
									seenX = true
								} else if st2, ok := in2.(*ssa.Store); ok && seenX {
									if fa2, ok := st2.Addr.(*ssa.FieldAddr); ok && fa2.Field == m.capF && fa2.X == x.Addr && restoresCap(m, st2, x.Addr) {
										carried = true
									}
								}
							}
						}
						if _, isAlloc := x.Addr.(*ssa.Alloc); !isAlloc && !carried {
							s.Bad(fmt.Sprintf("%s: scanner state overwritten wholesale", core.FName(f)), c.Pos(x.Pos()), "an existing (pooled) scanner state is overwritten as a whole: the recursion cap installed by the pool constructor is lost and the guard's cap==0 escape disables the depth limit for later detections")
						}
					}
				}
			}
		}
	}
	if n == 0 {
		s.Bad("construction of scanner state", "-", "no construction of the pooled scanner state found")
	}
	return caps
}

// overwriteTarget: tmp is the non-escaping temporary of `*q = T{...}` (only
// field stores and one whole load that is stored to q); returns q.
func overwriteTarget(tmp *ssa.Alloc) ssa.Value {
	if tmp.Heap {
		return nil
	}
	var q ssa.Value
	for _, r := range *tmp.Referrers() {
		switch x := r.(type) {
		case *ssa.FieldAddr:
			for _, r2 := range *x.Referrers() {
				if st, ok := r2.(*ssa.Store); !ok || st.Addr != ssa.Value(x) {
					return nil
				}
			}
		case *ssa.UnOp:
			refs := *x.Referrers()
			if x.Op != token.MUL || len(refs) != 1 || q != nil {
				return nil
			}
			st, ok := refs[0].(*ssa.Store)
			if !ok || st.Val != ssa.Value(x) {
				return nil
			}
			q = st.Addr
		case *ssa.DebugRef:
		default:
			return nil
		}
	}
	return q
}

// restoresCap: st writes to q's cap field the value that field held on entry
// to st's block (loaded before any store in the block that could change it).
func restoresCap(m *jsonModel, st *ssa.Store, q ssa.Value) bool {
	if !carriesCap(m, st.Val, q) {
		return false
	}
	ld := st.Val.(*ssa.UnOp)
	if ld.Block() != st.Block() {
		return false
	}
	for _, in := range st.Block().Instrs {
		if in == ssa.Instruction(ld) {
			return true
		}
		switch in.(type) {
		case *ssa.Store, ssa.CallInstruction:
			return false
		}
	}
	return false
}

// carriesCap: v is a load of q's cap field.
func carriesCap(m *jsonModel, v ssa.Value, q ssa.Value) bool {
	base, fld, ok := core.LoadOfField(v)
	return ok && fld == m.capF && base == q
}

func findCycle(adj map[*ssa.Function][]*ssa.Function) string {
	state := map[*ssa.Function]int{}
	var cyc string
	var dfs func(f *ssa.Function, path []string)
	dfs = func(f *ssa.Function, path []string) {
		if cyc != "" {
			return
		}
		state[f] = 1
		for _, h := range adj[f] {
			if state[h] == 1 {
				cyc = fmt.Sprint(append(path, f.Name(), h.Name()))
				return
			}
			if state[h] == 0 {
				dfs(h, append(path, f.Name()))
			}
		}
		state[f] = 2
	}
	for f := range adj {
		if state[f] == 0 {
			dfs(f, nil)
		}
	}
	return cyc
}

// R08.3 (structural part): provenance of the scanner entry's results.
var ruleParseResults = &core.Rule{ID: "R08.3", Min: 4,
	Doc: "the scanner entry reports the scanner's own state: result 0 is the top-level scanner result (or 0 under the failure flag), results 1.. are loads of fields of the pooled state, unmodified; the inspected-bytes field is only ever reset to 0, incremented by 1, or advanced once by a deferred settlement whose amount R08.6 checks (a loop counter, or the position a whole function reports)",
	Run: func(c *core.Ctx, s *core.Sink) {
		m := getJSON(c)
		f := m.parse
		for _, r := range core.Returns(f) {
			for i := range r.Results {
				key := fmt.Sprintf("%s: result #%d of %s", f.Name(), i, returnOrdinal(r))
				v := spilled(r, i)
				if i == 0 {
					ok := v == ssa.Value(m.entry)
					if ph := asSelection(v); ph != nil {
						ok = true
						for _, e := range ph.edges {
							if e != ssa.Value(m.entry) && !core.IsConstInt(e, 0) {
								ok = false
							}
						}
					}
					s.Check(ok, key, c.Pos(r.Pos()), "top-level scanner result or 0", "the parsed length reported by the entry is not the scanner's own result")
					continue
				}
				base, fld, isLoad := core.LoadOfField(v)
				okBase := isLoad && m.isState(base.Type())
				s.Check(okBase, key, c.Pos(r.Pos()), "load of state field "+m.fieldName(fld), "a result of the scanner entry is computed rather than read from the scanner state: the inspected count / first token / query verdict no longer reflect what the scanner did")
			}
		}
		// inspected-bytes field: the int field returned as result 1
		ibF := -1
		for _, r := range core.Returns(f) {
			if len(r.Results) > 1 {
				if _, fld, ok := core.LoadOfField(spilled(r, 1)); ok {
					ibF = fld
				}
			}
		}
		if ibF < 0 {
			return
		}
		n := 0
		for _, g := range c.SrcFuncs() {
			for _, b := range g.Blocks {
				for _, in := range b.Instrs {
					st, ok := in.(*ssa.Store)
					if !ok {
						continue
					}
					fa, ok := st.Addr.(*ssa.FieldAddr)
					if !ok || fa.Field != ibF || !m.isState(fa.X.Type()) {
						continue
					}
					if _, isAlloc := fa.X.(*ssa.Alloc); isAlloc {
						continue
					}
					n++
					key := fmt.Sprintf("%s: store #%d to %s", core.FName(g), n, m.fieldName(ibF))
					okInc := false
					if bo, ok := st.Val.(*ssa.BinOp); ok && bo.Op == token.ADD && core.IsConstInt(bo.Y, 1) {
						if b2, f2, ok := core.LoadOfField(bo.X); ok && f2 == ibF && b2 == fa.X {
							okInc = true
						}
					}
					if core.IsConstInt(st.Val, 0) && g == m.reset {
						okInc = true
					}
					if _, bulk := bulkSettlements(m, g, ibF)[st]; bulk {
						okInc = true // the amounts are R08.6's
					}
					if m.fam[g] && wholeSettlement(m, g, ibF) == st {
						okInc = true
					}
					if symbolicSettlements(m, g, ibF)[st] {
						okInc = true
					}
					s.Check(okInc, key, c.Pos(st.Pos()), "+1 per inspected byte (or reset to 0)", "the inspected-bytes counter is changed other than by +1 per byte looked at")
				}
			}
		}
	}}

// R08.6: accounting pairing between the consumed-bytes count a scanner
// function returns and the inspected-bytes counter.
var ruleAccounting = &core.Rule{ID: "R08.6", Min: 18,
	Doc: "inspected/consumed pairing: in every scanner function, within each straight-line region, the constant increments of the value that becomes the returned consumed-bytes count equal the number of +1 increments of the inspected-bytes counter (callee results account for themselves); the literal scanner, which returns len(literal), counts one inspected byte per matched byte; recognised equivalents: a loop that only counts followed by one `ib += counter` dominating every return; a scanner-free function settling `ib += position` once and returning 0 or that position; position-passing wrappers of the family; so on every success return the inspected counter grew by exactly the returned length",
	Run: func(c *core.Ctx, s *core.Sink) {
		m := getJSON(c)
		ibF := -1
		for _, r := range core.Returns(m.parse) {
			if len(r.Results) > 1 {
				if _, fld, ok := core.LoadOfField(spilled(r, 1)); ok {
					ibF = fld
				}
			}
		}
		if ibF < 0 {
			core.Bail("inspected-bytes field not identified")
		}
		units := append([]*ssa.Function{}, m.famList...)
		// which result positions of the wrappers are part of a scanner's count: read off the scanners' chains
		used := map[*ssa.Function]map[int]bool{}
		for _, f := range m.famList {
			countChainAt(f, []int{0}, used)
		}
		var ws []*ssa.Function
		for w := range used {
			if len(used[w]) > 0 && !m.fam[w] && w.Signature.Recv() != nil && m.isState(w.Signature.Recv().Type()) {
				ws = append(ws, w)
			}
		}
		sort.Slice(ws, func(i, j int) bool { return ws[i].Name() < ws[j].Name() })
		units = append(units, ws...)
		for _, f := range units {
			if st := wholeSettlement(m, f, ibF); st != nil && m.fam[f] {
				s.OK(f.Name()+": whole-function inspected-byte settlement", c.Pos(st.Pos()), "one ib += position dominating every return; returns are 0 or that position; no scanner call")
				continue
			}
			positions := []int{0}
			if !m.fam[f] {
				positions = nil
				for k := range used[f] {
					positions = append(positions, k)
				}
				sort.Ints(positions)
			}
			chain := countChainAt(f, positions, nil)
			for _, ci := range core.Calls(f) {
				if h := ci.Common().StaticCallee(); h != nil && len(used[h]) > 0 && !m.fam[h] && chain[ci.Value()] {
					s.OK(fmt.Sprintf("%s: position advanced through %s", f.Name(), callOrdinal(ci)), c.Pos(ci.Pos()), "the helper pairs consumed and inspected bytes (judged there)")
				}
			}
			// range-over-literal idiom: return len(X) after a full range over parameter X
			exempt := map[*ssa.BasicBlock]bool{}
			lenAccounted := map[*ssa.Return]bool{}
			for _, r := range core.Returns(f) {
				ln, ok := r.Results[0].(*ssa.Call)
				if !ok || !core.IsBuiltin(&ln.Call, "len") {
					continue
				}
				for _, rg := range fde.FindRangeOver(f, ln.Call.Args[0]) {
					if rg.Done != r.Block() {
						continue
					}
					// every latch block carries exactly one increment; every other exit of the loop returns 0
					okIdiom := true
					for _, p := range rg.Header.Preds {
						if !rg.Header.Dominates(p) {
							continue
						}
						if ibIncrements(m, p, ibF) != 1 {
							okIdiom = false
						}
						exempt[p] = true
					}
					for blk := range loopBlocks(rg.Header) {
						if rr := retOf(blk); rr != nil && !core.IsConstInt(rr.Results[0], 0) {
							okIdiom = false
						}
					}
					lenAccounted[r] = true
					s.Check(okIdiom, f.Name()+": literal scanner counts one inspected byte per matched byte", c.Pos(r.Pos()), "range over the literal, one increment per iteration, returns len(literal)", "the literal scanner's inspected-byte count does not match the length it returns")
				}
			}
			// deferred form: the loop only counts, one store adds the count afterwards
			bulkInc := map[*ssa.BinOp]bool{}
			for st, body := range bulkSettlements(m, f, ibF) {
				k := st.Val.(*ssa.BinOp).Y
				for lb := range body {
					for _, li := range lb.Instrs {
						if ad, ok := li.(*ssa.BinOp); ok && ad.Op == token.ADD && ad.X == k && core.IsConstInt(ad.Y, 1) {
							bulkInc[ad] = true
						}
					}
				}
				s.OK(f.Name()+": deferred inspected-byte settlement", c.Pos(st.Pos()), "counter 0,+1 per byte; one ib += counter dominating every return")
				if !chain[k] {
					for _, r := range core.Returns(f) {
						lenAccounted[r] = true // the literal form: every success return is covered by the settlement
					}
				}
			}
			// a scanner that reports a length as consumed (return len(X)) outside the recognised literal forms
			if m.fam[f] {
				nth := 0
				for _, r := range core.Returns(f) {
					ln, ok := r.Results[0].(*ssa.Call)
					if !ok || !core.IsBuiltin(&ln.Call, "len") {
						continue
					}
					nth++
					if lenAccounted[r] {
						continue
					}
					touches := false
					for _, b := range f.Blocks {
						for _, in := range b.Instrs {
							if st, ok := in.(*ssa.Store); ok {
								if fa, ok := st.Addr.(*ssa.FieldAddr); ok && fa.Field == ibF && m.isState(fa.X.Type()) {
									touches = true
								}
							}
							if ci, ok := in.(ssa.CallInstruction); ok {
								_, builtin := ci.Common().Value.(*ssa.Builtin)
								if g := ci.Common().StaticCallee(); (g == nil && !builtin) || (g != nil && core.InMod(g) && g.Blocks != nil) {
									touches = true
								}
							}
						}
					}
					key := fmt.Sprintf("%s: length reported as consumed, return #%d", f.Name(), nth)
					if !touches {
						s.Bad(key, c.Pos(r.Pos()), "the scanner reports len(...) bytes as consumed but never advances the inspected-bytes counter: after a successful parse the two disagree, so a truncated valid document is rejected")
					} else {
						s.Und(key, c.Pos(r.Pos()), "the scanner reports len(...) bytes as consumed in a form whose inspected-byte accounting is not recognised")
					}
				}
			}
			// straight-line regions: maximal chains of blocks linked by single-successor / single-predecessor jumps
			region := map[*ssa.BasicBlock]*ssa.BasicBlock{}
			for _, b := range f.Blocks {
				region[b] = b
			}
			find := func(b *ssa.BasicBlock) *ssa.BasicBlock {
				for region[b] != b {
					b = region[b]
				}
				return b
			}
			for _, b := range f.Blocks {
				if len(b.Succs) == 1 && len(b.Succs[0].Preds) == 1 && b.Succs[0] != b {
					region[find(b.Succs[0])] = find(b)
				}
			}
			type acc struct {
				ib, n int64
				pos   token.Pos
			}
			regs := map[*ssa.BasicBlock]*acc{}
			var order []*ssa.BasicBlock
			for _, b := range f.Blocks {
				if exempt[b] {
					continue
				}
				r := find(b)
				a := regs[r]
				if a == nil {
					a = &acc{}
					regs[r] = a
					order = append(order, r)
				}
				a.ib += int64(ibIncrements(m, b, ibF))
				for _, in := range b.Instrs {
					bo, ok := in.(*ssa.BinOp)
					if !ok || bo.Op != token.ADD || !chain[bo] || bulkInc[bo] {
						continue
					}
					if kx, okx := core.ConstInt(bo.X); okx {
						if ky, oky := core.ConstInt(bo.Y); oky {
							a.n += kx + ky // constant base (e.g. 0 + 1)
							if a.pos == token.NoPos {
								a.pos = bo.Pos()
							}
							continue
						}
					}
					if k, ok := core.ConstInt(bo.Y); ok && chain[bo.X] {
						a.n += k
						if a.pos == token.NoPos {
							a.pos = bo.Pos()
						}
					} else if k, ok := core.ConstInt(bo.X); ok && chain[bo.Y] {
						a.n += k
					}
				}
				// a constant, non-failure return value is consumed bytes too (a helper returning 1 for one byte)
				if rr := retOf(b); rr != nil {
					for _, pk := range positions {
						if pk < len(rr.Results) {
							if k, ok := core.ConstInt(rr.Results[pk]); ok && k > 0 {
								a.n += k
							}
						}
					}
				}
				if a.pos == token.NoPos {
					for _, in := range b.Instrs {
						if in.Pos().IsValid() {
							a.pos = in.Pos()
							break
						}
					}
				}
			}
			for _, r := range order {
				a := regs[r]
				if a.ib == 0 && a.n == 0 {
					continue
				}
				key := fmt.Sprintf("%s: region b%d", f.Name(), r.Index)
				s.Check(a.ib == a.n, key, c.Pos(a.pos), fmt.Sprintf("%d consumed / %d inspected", a.n, a.ib),
					fmt.Sprintf("the consumed count grows by %d here but the inspected-bytes counter by %d: on a successful parse the two no longer agree, so a truncated valid document is rejected (inspected < len) or garbage after the cut is accepted", a.n, a.ib))
			}
		}
	}}

// countChain: the int values that flow (through phis and additions) into the consumed-bytes count f returns.
func countChain(f *ssa.Function) map[ssa.Value]bool {
	return countChainAt(f, []int{0}, nil)
}

// countChainAt: the chain of the results at the given positions; used records,
// per helper called, which of its result positions are part of the chain.
func countChainAt(f *ssa.Function, positions []int, used map[*ssa.Function]map[int]bool) map[ssa.Value]bool {
	chain := map[ssa.Value]bool{}
	var mark func(v ssa.Value)
	mark = func(v ssa.Value) {
		if v == nil || chain[v] || !core.IsInteger(v.Type()) {
			return
		}
		switch x := v.(type) {
		case *ssa.Phi:
			chain[v] = true
			for _, e := range x.Edges {
				mark(e)
			}
		case *ssa.BinOp:
			if x.Op == token.ADD {
				chain[v] = true
				mark(x.X)
				mark(x.Y)
			}
		case *ssa.Parameter:
			chain[v] = true
		case *ssa.Call:
			// a scanner's own count (n = scan(b)): a leaf of the chain, accounted for inside that scanner
			if h := x.Call.StaticCallee(); h != nil && core.InMod(h) && h.Blocks != nil && byteParam(h) != nil && h.Signature.Results().Len() == 1 {
				chain[v] = true
				return
			}
			// a position helper: next = helper(pos), a module function (no scanner: it takes no input) from the
			// position to the next position, accounting for what it adds
			if h := x.Call.StaticCallee(); h != nil && core.InMod(h) && h.Blocks != nil && byteParam(h) == nil && h.Signature.Results().Len() == 1 {
				hasInt := false
				for _, a := range x.Call.Args {
					if core.IsInteger(a.Type()) {
						hasInt = true
					}
				}
				if hasInt {
					chain[v] = true
					if used != nil {
						if used[h] == nil {
							used[h] = map[int]bool{}
						}
						used[h][0] = true
					}
					for _, a := range x.Call.Args {
						mark(a)
					}
				}
			}
		case *ssa.Extract:
			// a helper's result that is part of the count: a position handed through (next = helper(b, pos)) or a
			// piece of the count (opening delimiter length, consumed length); the helper accounts for what it adds
			if call, ok := x.Tuple.(*ssa.Call); ok {
				if h := call.Call.StaticCallee(); h != nil && core.InMod(h) && h.Blocks != nil {
					chain[v] = true
					if used != nil {
						if used[h] == nil {
							used[h] = map[int]bool{}
						}
						used[h][x.Index] = true
					}
					for _, a := range call.Call.Args {
						mark(a)
					}
				}
			}
		}
	}
	for _, r := range core.Returns(f) {
		for _, k := range positions {
			if k < len(r.Results) {
				mark(r.Results[k])
			}
		}
	}
	return chain
}

// bulkSettlements recognises the deferred form of inspected-byte accounting:
// a loop counts consumed bytes in a counter k = phi[0, k+1] that is part of
// the returned count, touches neither the inspected counter nor another
// scanner and has no return inside, and one store ib = ib + k outside any
// loop dominates every return the loop can reach. The result maps each such
// store to the blocks of its loop.
func bulkSettlements(m *jsonModel, f *ssa.Function, ibF int) map[*ssa.Store]map[*ssa.BasicBlock]bool {
	out := map[*ssa.Store]map[*ssa.BasicBlock]bool{}
	chain := countChain(f)
	for _, b := range f.Blocks {
		for _, in := range b.Instrs {
			st, ok := in.(*ssa.Store)
			if !ok {
				continue
			}
			fa, ok := st.Addr.(*ssa.FieldAddr)
			if !ok || fa.Field != ibF || !m.isState(fa.X.Type()) {
				continue
			}
			bo, ok := st.Val.(*ssa.BinOp)
			if !ok || bo.Op != token.ADD {
				continue
			}
			b2, f2, isLd := core.LoadOfField(bo.X)
			if !isLd || f2 != ibF || b2 != fa.X {
				continue
			}
			k, ok := bo.Y.(*ssa.Phi)
			if !ok {
				continue
			}
			if !chain[k] {
				// the literal scanner: the counter is the length of the common prefix with a literal X; every success
				// return yields len(X) (or the counter) where the counter is known to have reached len(X)
				okLit := true
				nSucc := 0
				for _, r := range core.Returns(f) {
					if core.IsConstInt(r.Results[0], 0) {
						continue
					}
					nSucc++
					var x ssa.Value
					if ln, isLen := r.Results[0].(*ssa.Call); isLen && core.IsBuiltin(&ln.Call, "len") {
						x = ln.Call.Args[0]
					}
					reached := false
					for _, de := range core.DominatingConds(r.Block()) {
						cond, val := core.StripNot(de.Cond, de.Val)
						cmp, isCmp := cond.(*ssa.BinOp)
						if !isCmp || cmp.X != ssa.Value(k) {
							continue
						}
						ln2, isLen := cmp.Y.(*ssa.Call)
						if !isLen || !core.IsBuiltin(&ln2.Call, "len") || (x != nil && ln2.Call.Args[0] != x) {
							continue
						}
						if (cmp.Op == token.LSS && !val) || (cmp.Op == token.GEQ && val) || (cmp.Op == token.EQL && val) || (cmp.Op == token.NEQ && !val) {
							reached = true
						}
					}
					if !(reached && (x != nil || r.Results[0] == ssa.Value(k))) {
						okLit = false
					}
				}
				if !okLit || nSucc == 0 {
					continue
				}
			}
			h := k.Block()
			okPhi, nBack := true, 0
			for i, p := range h.Preds {
				if h.Dominates(p) {
					nBack++
					inc, ok := k.Edges[i].(*ssa.BinOp)
					if !ok || inc.Op != token.ADD || inc.X != ssa.Value(k) || !core.IsConstInt(inc.Y, 1) {
						okPhi = false
					}
				} else if !core.IsConstInt(k.Edges[i], 0) {
					okPhi = false
				}
			}
			if !okPhi || nBack == 0 {
				continue
			}
			body := loopBlocks(h)
			okBody := !body[b] && !reachSelf(b)
			for lb := range body {
				if retOf(lb) != nil {
					okBody = false
				}
				for _, li := range lb.Instrs {
					if s2, ok := li.(*ssa.Store); ok {
						if fa2, ok := s2.Addr.(*ssa.FieldAddr); ok && fa2.Field == ibF && m.isState(fa2.X.Type()) {
							okBody = false
						}
					}
					if ci, ok := li.(ssa.CallInstruction); ok {
						if g := ci.Common().StaticCallee(); g != nil && m.fam[g] {
							okBody = false
						}
					}
					if ad, ok := li.(*ssa.BinOp); ok && ad.Op == token.ADD && chain[ad] && !(ad.X == ssa.Value(k) && core.IsConstInt(ad.Y, 1)) {
						okBody = false
					}
				}
			}
			for _, r := range core.Returns(f) {
				if core.Reach(h)[r.Block()] && !b.Dominates(r.Block()) {
					okBody = false
				}
			}
			if okBody {
				out[st] = body
			}
		}
	}
	return out
}

// wholeSettlement recognises the form in which a scanner function works on a
// local position only and settles the inspected-byte counter once: exactly one
// store ib = ib + v in f, outside any loop and dominating every return; no call
// into the scanner family (which would count by itself); no other access to
// the counter; and every return is either the failure 0 or v itself. Then the
// counter advances by exactly the position the function reports.
func wholeSettlement(m *jsonModel, f *ssa.Function, ibF int) *ssa.Store {
	var st *ssa.Store
	n := 0
	for _, b := range f.Blocks {
		for _, in := range b.Instrs {
			switch x := in.(type) {
			case *ssa.Store:
				if fa, ok := x.Addr.(*ssa.FieldAddr); ok && fa.Field == ibF && m.isState(fa.X.Type()) {
					st = x
					n++
				}
			case ssa.CallInstruction:
				if g := x.Common().StaticCallee(); g != nil && (m.fam[g] || m.wrap[g]) {
					return nil
				}
			}
		}
	}
	if n != 1 || st == nil {
		return nil
	}
	bo, ok := st.Val.(*ssa.BinOp)
	if !ok || bo.Op != token.ADD {
		return nil
	}
	fa := st.Addr.(*ssa.FieldAddr)
	if b2, f2, isLd := core.LoadOfField(bo.X); !isLd || f2 != ibF || b2 != fa.X {
		return nil
	}
	v := bo.Y
	if !core.IsInteger(v.Type()) || reachSelf(st.Block()) {
		return nil
	}
	// no other read of the counter
	for _, b := range f.Blocks {
		for _, in := range b.Instrs {
			if _, fld, isLd := core.LoadOfField(valueOf(in)); isLd && fld == ibF && valueOf(in) != bo.X {
				return nil
			}
		}
	}
	for _, r := range core.Returns(f) {
		if !st.Block().Dominates(r.Block()) {
			return nil
		}
		if !core.IsConstInt(r.Results[0], 0) && r.Results[0] != v {
			return nil
		}
	}
	return st
}

// symbolicSettlements accepts two further ways of moving the inspected-byte
// counter by a run of bytes at once (a scanner that skips to the next
// interesting byte with an index search):
//
//	n += X; p.ib += Y   in one block, where X and Y are the same sum of the same values (e.g. i + 1 for the
//	                    same search result i): consumed and inspected advance together;
//	p.ib += len(b[n:]); return 0   everything that was left has been looked at and the scanner fails.
func symbolicSettlements(m *jsonModel, f *ssa.Function, ibF int) map[*ssa.Store]bool {
	out := map[*ssa.Store]bool{}
	chain := countChain(f)
	bp := byteParam(f)
	// linear form of an int value: constants and opaque values summed
	type form struct {
		c int64
		t map[ssa.Value]int64
	}
	var lin func(v ssa.Value, d int) form
	lin = func(v ssa.Value, d int) form {
		if k, ok := core.ConstInt(v); ok {
			return form{c: k, t: map[ssa.Value]int64{}}
		}
		if bo, ok := v.(*ssa.BinOp); ok && bo.Op == token.ADD && d < 6 {
			a, b := lin(bo.X, d+1), lin(bo.Y, d+1)
			for k, n := range b.t {
				a.t[k] += n
			}
			a.c += b.c
			return a
		}
		return form{t: map[ssa.Value]int64{v: 1}}
	}
	same := func(a, b form) bool {
		if a.c != b.c || len(a.t) != len(b.t) || len(a.t) == 0 {
			return false
		}
		for k, n := range a.t {
			if b.t[k] != n {
				return false
			}
		}
		return true
	}
	for _, b := range f.Blocks {
		var stores []*ssa.Store
		var incs []ssa.Value // the amounts added to a chain base in this block
		for _, in := range b.Instrs {
			switch x := in.(type) {
			case *ssa.Store:
				fa, ok := x.Addr.(*ssa.FieldAddr)
				if !ok || fa.Field != ibF || !m.isState(fa.X.Type()) {
					continue
				}
				bo, ok := x.Val.(*ssa.BinOp)
				if !ok || bo.Op != token.ADD {
					continue
				}
				if b2, f2, isLd := core.LoadOfField(bo.X); !isLd || f2 != ibF || b2 != fa.X {
					continue
				}
				if _, isC := core.ConstInt(bo.Y); isC {
					continue
				}
				stores = append(stores, x)
			case *ssa.BinOp:
				if x.Op != token.ADD || !chain[x] {
					continue
				}
				// base + amount: the base is loop-carried or a parameter, the amount is not a constant
				for _, pr := range [][2]ssa.Value{{x.X, x.Y}, {x.Y, x.X}} {
					_, isPhi := pr[0].(*ssa.Phi)
					_, isPar := pr[0].(*ssa.Parameter)
					if !(isPhi || isPar) {
						continue
					}
					if _, isC := core.ConstInt(pr[1]); !isC {
						incs = append(incs, pr[1])
					}
				}
			}
		}
		used := map[int]bool{}
		for _, st := range stores {
			y := st.Val.(*ssa.BinOp).Y
			// failure with everything inspected
			if r := retOf(b); r != nil && core.IsConstInt(r.Results[0], 0) {
				if ln, ok := y.(*ssa.Call); ok && core.IsBuiltin(&ln.Call, "len") {
					if sl, ok := ln.Call.Args[0].(*ssa.Slice); ok && sl.X == ssa.Value(bp) && sl.High == nil && sl.Low != nil && chain[sl.Low] {
						out[st] = true
						continue
					}
				}
			}
			for i, x := range incs {
				if !used[i] && same(lin(x, 0), lin(y, 0)) {
					used[i] = true
					out[st] = true
					break
				}
			}
		}
	}
	return out
}

func ibIncrements(m *jsonModel, b *ssa.BasicBlock, ibF int) int {
	n := 0
	for _, in := range b.Instrs {
		st, ok := in.(*ssa.Store)
		if !ok {
			continue
		}
		fa, ok := st.Addr.(*ssa.FieldAddr)
		if !ok || fa.Field != ibF || !m.isState(fa.X.Type()) {
			continue
		}
		if bo, ok := st.Val.(*ssa.BinOp); ok && bo.Op == token.ADD && core.IsConstInt(bo.Y, 1) {
			n++
		}
	}
	return n
}

// reachSelf: b lies on a cycle.
func reachSelf(b *ssa.BasicBlock) bool {
	for _, s := range b.Succs {
		if core.Reach(s)[b] {
			return true
		}
	}
	return false
}
