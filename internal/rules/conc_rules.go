package rules

import (
	"fmt"
	"go/token"
	"go/types"
	"sort"
	"strings"

	"golang.org/x/tools/go/ssa"
	"golang.org/x/tools/go/ssa/ssautil"

	"mtverif/internal/core"
	"mtverif/internal/fde"
	"mtverif/internal/tree"
)

// ---- E3 origins ----

type origin int

const (
	oFresh origin = iota
	oCallFresh
	oParam
	oGlobal
	oUnknown
)

func (o origin) String() string {
	return [...]string{"fresh", "fresh(call)", "param", "global", "unknown"}[o]
}

// concModel: the mutex, the limit variable, the guarded field, fresh-returning functions.
type concModel struct {
	pkg          *ssa.Package
	nodeT        *types.Named
	mu           *ssa.Global
	limit        []*ssa.Global // package variables accessed through sync/atomic
	tm           *tree.Model
	fs           []*ssa.Function // functions of the root package (with init and closures)
	freshRet     map[*ssa.Function]bool
	callers      map[*ssa.Function][]*ssa.Function
	requires     map[*ssa.Function]int
	initOnlyMemo map[*ssa.Function]int
	sitesMemo    map[*ssa.Function][]*ssa.Call
	viaWrapper   map[*ssa.Function]bool
}

func getConc(c *core.Ctx) *concModel {
	if m, ok := c.Memo["conc"].(*concModel); ok {
		return m
	}
	tm := tree.Get(c)
	m := &concModel{pkg: c.SSA[core.PkgRoot], nodeT: tm.Type, tm: tm, initOnlyMemo: map[*ssa.Function]int{}}
	for _, mem := range m.pkg.Members {
		g, ok := mem.(*ssa.Global)
		if !ok {
			continue
		}
		t := g.Type().(*types.Pointer).Elem()
		if isRWMutex(t) {
			if m.mu != nil {
				core.Bail("two package-level RWMutex variables")
			}
			m.mu = g
		}
	}
	if m.mu == nil {
		core.Bail("no package-level sync.RWMutex guarding the tree found")
	}
	for _, f := range c.AllModFuncs() {
		if pk := core.FuncPkg(f); pk == m.pkg {
			m.fs = append(m.fs, f)
		}
	}
	// atomics: globals whose address is passed to sync/atomic somewhere
	seen := map[*ssa.Global]bool{}
	for _, f := range c.AllModFuncs() {
		for _, ci := range core.Calls(f) {
			if g := ci.Common().StaticCallee(); g != nil && g.Pkg != nil && g.Pkg.Pkg.Path() == "sync/atomic" {
				for _, a := range ci.Common().Args {
					if gl, ok := a.(*ssa.Global); ok && !seen[gl] {
						seen[gl] = true
						m.limit = append(m.limit, gl)
					}
				}
			}
		}
	}
	// typed atomics: package variables of a sync/atomic type (or a pointer to one, set once by the initialiser)
	for _, mem := range m.pkg.Members {
		gl, ok := mem.(*ssa.Global)
		if !ok || seen[gl] {
			continue
		}
		if isAtomicType(gl.Type().(*types.Pointer).Elem()) {
			seen[gl] = true
			m.limit = append(m.limit, gl)
		}
	}
	sort.Slice(m.limit, func(i, j int) bool { return m.limit[i].Name() < m.limit[j].Name() })
	m.callers = map[*ssa.Function][]*ssa.Function{}
	for _, g := range c.AllModFuncs() {
		for _, b := range g.Blocks {
			for _, in := range b.Instrs {
				if ci, ok := in.(ssa.CallInstruction); ok {
					if h := ci.Common().StaticCallee(); h != nil {
						m.callers[h] = append(m.callers[h], g)
					}
				}
				for _, op := range in.Operands(nil) {
					if h, ok := (*op).(*ssa.Function); ok {
						if ci, isCall := in.(ssa.CallInstruction); !isCall || ci.Common().Value != ssa.Value(h) {
							if mc, isMC := in.(*ssa.MakeClosure); isMC && mc.Fn == ssa.Value(h) {
								// closure creation: its caller is whoever calls the closure; conservatively the creator
								m.callers[h] = append(m.callers[h], g)
								continue
							}
							m.callers[h] = append(m.callers[h], nil)
						}
					}
				}
			}
		}
	}
	m.computeFreshRet()
	c.Memo["conc"] = m
	return m
}

// isAtomicType: t is (a pointer to) one of the typed atomics of sync/atomic.
func isAtomicType(t types.Type) bool {
	if pt, ok := t.(*types.Pointer); ok {
		t = pt.Elem()
	}
	n, ok := t.(*types.Named)
	return ok && n.Obj().Pkg() != nil && n.Obj().Pkg().Path() == "sync/atomic"
}

func isRWMutex(t types.Type) bool {
	if p, ok := t.(*types.Pointer); ok {
		t = p.Elem()
	}
	n, ok := t.(*types.Named)
	return ok && n.Obj().Pkg() != nil && n.Obj().Pkg().Path() == "sync" && n.Obj().Name() == "RWMutex"
}

func (m *concModel) isNodePtr(t types.Type) bool {
	p, ok := t.Underlying().(*types.Pointer)
	return ok && types.Identical(p.Elem(), m.nodeT)
}

// org classifies where a pointer-like value comes from.
func (m *concModel) org(v ssa.Value, depth int) origin {
	return m.orgS(v, depth, map[ssa.Value]bool{})
}

// orgS: origin with a set of values in progress; a value met again while it is
// being classified contributes nothing new (greatest fixpoint: "all sources fresh").
func (m *concModel) orgS(v ssa.Value, depth int, busy map[ssa.Value]bool) origin {
	if depth > 14 {
		return oUnknown
	}
	if busy[v] {
		return oFresh
	}
	busy[v] = true
	defer delete(busy, v)
	switch x := v.(type) {
	case *ssa.Alloc, *ssa.MakeSlice, *ssa.MakeMap:
		return oFresh
	case *ssa.Const:
		return oFresh // nil
	case *ssa.Parameter:
		// a function all of whose calls are known static calls: the worst origin of the argument over the call sites
		if sites := m.staticSites(x.Parent()); sites != nil {
			idx := -1
			for i, p := range x.Parent().Params {
				if p == x {
					idx = i
				}
			}
			worst := oFresh
			for _, call := range sites {
				if idx < 0 || idx >= len(call.Call.Args) {
					return oParam
				}
				if o := m.orgS(call.Call.Args[idx], depth+3, busy); o > worst {
					worst = o
				}
			}
			return worst
		}
		return oParam
	case *ssa.FreeVar:
		return oParam
	case *ssa.Global:
		return oGlobal
	case *ssa.FieldAddr:
		return m.orgS(x.X, depth+1, busy)
	case *ssa.IndexAddr:
		return m.orgS(x.X, depth+1, busy)
	case *ssa.Slice:
		return m.orgS(x.X, depth+1, busy)
	case *ssa.UnOp:
		if x.Op == token.MUL {
			if fv, ok := x.X.(*ssa.FreeVar); ok {
				// a variable captured by a closure that is only called: what is ever stored into that cell,
				// by the closure or by the function that owns the variable
				if o, ok := m.capturedCellOrigin(fv, depth, busy); ok {
					return o
				}
			}
			o := m.orgS(x.X, depth+1, busy)
			if o == oFresh || o == oCallFresh {
				// what was stored into the fresh object? look for the stores when it is a local cell
				if al, ok := x.X.(*ssa.Alloc); ok {
					worst := oFresh
					n := 0
					for _, r := range *al.Referrers() {
						if st, ok := r.(*ssa.Store); ok && st.Addr == ssa.Value(al) {
							n++
							if o2 := m.orgS(st.Val, depth+2, busy); o2 > worst {
								worst = o2
							}
						}
					}
					if n > 0 && !allocAddressTaken(al) {
						return worst
					}
				}
				// a field of a fresh object: what this function stored into that field of that object
				if fa, ok := x.X.(*ssa.FieldAddr); ok {
					worst := oFresh
					n := 0
					if fn := x.Parent(); fn != nil {
						for _, b := range fn.Blocks {
							for _, in := range b.Instrs {
								st, ok := in.(*ssa.Store)
								if !ok {
									continue
								}
								fa2, ok := st.Addr.(*ssa.FieldAddr)
								if !ok || fa2.Field != fa.Field || fa2.X != fa.X {
									continue
								}
								n++
								if o2 := m.orgS(st.Val, depth+2, busy); o2 > worst {
									worst = o2
								}
							}
						}
					}
					if n > 0 {
						return worst
					}
				}
				return oUnknown
			}
			return o
		}
	case *ssa.Call:
		if core.IsBuiltin(&x.Call, "append") {
			// result may alias the first operand
			o := m.orgS(x.Call.Args[0], depth+1, busy)
			return o
		}
		if f := x.Call.StaticCallee(); f != nil && m.freshRet[f] {
			return oCallFresh
		}
		// a slice-returning function of the package: the worst origin of what it returns
		if f := x.Call.StaticCallee(); f != nil && f.Blocks != nil && f.Signature.Results().Len() == 1 && m.inFs(f) {
			if _, isSl := f.Signature.Results().At(0).Type().Underlying().(*types.Slice); isSl {
				worst := oFresh
				for _, r := range core.Returns(f) {
					if o := m.orgS(spilled(r, 0), depth+3, busy); o > worst {
						worst = o
					}
				}
				if worst == oFresh {
					return oCallFresh
				}
				return worst
			}
		}
		return oUnknown
	case *ssa.Phi:
		worst := oFresh
		for _, e := range x.Edges {
			if e == ssa.Value(x) {
				continue
			}
			o := m.orgS(e, depth+2, busy)
			if o > worst {
				worst = o
			}
		}
		return worst
	case *ssa.ChangeType:
		return m.orgS(x.X, depth+1, busy)
	case *ssa.Convert:
		if core.IsByteSlice(x.Type()) || core.IsString(x.Type()) {
			return oFresh
		}
	case *ssa.Extract:
		return oUnknown
	}
	return oUnknown
}

// capturedCellOrigin: fv is a captured variable of a closure whose every
// MakeClosure binds it to one local cell of the enclosing function; the origin
// of the cell's content is the worst origin of all values stored into it
// (through the cell in the owner, through the free variable in the closure).
func (m *concModel) capturedCellOrigin(fv *ssa.FreeVar, depth int, busy map[ssa.Value]bool) (origin, bool) {
	clo := fv.Parent()
	owner := clo.Parent()
	if owner == nil {
		return oUnknown, false
	}
	idx := -1
	for i, f := range clo.FreeVars {
		if f == fv {
			idx = i
		}
	}
	var cell *ssa.Alloc
	for _, b := range owner.Blocks {
		for _, in := range b.Instrs {
			mc, ok := in.(*ssa.MakeClosure)
			if !ok || mc.Fn != ssa.Value(clo) {
				continue
			}
			al, ok := mc.Bindings[idx].(*ssa.Alloc)
			if !ok || (cell != nil && cell != al) {
				return oUnknown, false
			}
			cell = al
		}
	}
	if cell == nil {
		return oUnknown, false
	}
	// the cell's address goes nowhere but into closures of the owner, loads and stores
	for _, ref := range *cell.Referrers() {
		switch x := ref.(type) {
		case *ssa.Store:
			if x.Addr != ssa.Value(cell) {
				return oUnknown, false
			}
		case *ssa.UnOp, *ssa.MakeClosure, *ssa.DebugRef:
		default:
			return oUnknown, false
		}
	}
	worst := oFresh
	n := 0
	visit := func(f *ssa.Function, addr func(ssa.Value) bool) {
		for _, b := range f.Blocks {
			for _, in := range b.Instrs {
				if st, ok := in.(*ssa.Store); ok && addr(st.Addr) {
					n++
					if o := m.orgS(st.Val, depth+3, busy); o > worst {
						worst = o
					}
				}
			}
		}
	}
	visit(owner, func(a ssa.Value) bool { return a == ssa.Value(cell) })
	for _, a := range owner.AnonFuncs {
		a := a
		visit(a, func(v ssa.Value) bool {
			f2, ok := v.(*ssa.FreeVar)
			if !ok || f2.Parent() != a {
				return false
			}
			// the same cell captured by this closure
			for i, f3 := range a.FreeVars {
				if f3 == f2 {
					for _, b := range owner.Blocks {
						for _, in := range b.Instrs {
							if mc, ok := in.(*ssa.MakeClosure); ok && mc.Fn == ssa.Value(a) && mc.Bindings[i] == ssa.Value(cell) {
								return true
							}
						}
					}
				}
			}
			return false
		})
	}
	if n == 0 {
		return oFresh, true // never assigned: the zero value
	}
	return worst, true
}

func (m *concModel) inFs(f *ssa.Function) bool {
	for _, g := range m.fs {
		if g == f {
			return true
		}
	}
	return false
}

// staticSites returns every call of f when f can only be reached by static
// calls from the package (unexported, never used as a value, no interface
// method of that name is invoked anywhere in the package); nil otherwise.
func (m *concModel) staticSites(f *ssa.Function) []*ssa.Call {
	if f == nil || f.Object() == nil || f.Object().Exported() || !m.inFs(f) {
		return nil
	}
	if r, ok := m.sitesMemo[f]; ok {
		return r
	}
	if m.sitesMemo == nil {
		m.sitesMemo = map[*ssa.Function][]*ssa.Call{}
	}
	m.sitesMemo[f] = nil
	if m.viaWrapper == nil {
		// functions reached from synthetic wrappers (bound method values, thunks): their callers are unknown
		m.viaWrapper = map[*ssa.Function]bool{}
		for g := range ssautil.AllFunctions(m.pkg.Prog) {
			if g.Synthetic == "" || g.Blocks == nil || (g.Name() == "init" && g.Pkg != nil) {
				continue
			}
			for _, b := range g.Blocks {
				for _, in := range b.Instrs {
					if ci, ok := in.(ssa.CallInstruction); ok {
						if h := ci.Common().StaticCallee(); h != nil {
							m.viaWrapper[h] = true
						}
					}
				}
			}
		}
	}
	if m.viaWrapper[f] {
		return nil
	}
	var sites []*ssa.Call
	for _, g := range m.fs {
		for _, b := range g.Blocks {
			for _, in := range b.Instrs {
				if ci, ok := in.(ssa.CallInstruction); ok {
					if ci.Common().IsInvoke() && ci.Common().Method.Name() == f.Name() {
						return nil
					}
					if ci.Common().StaticCallee() == f {
						call, isCall := in.(*ssa.Call)
						if !isCall {
							return nil // go / defer
						}
						sites = append(sites, call)
					}
				}
				for _, op := range in.Operands(nil) {
					if *op == ssa.Value(f) {
						if call, ok := in.(*ssa.Call); !ok || call.Call.Value != ssa.Value(f) {
							return nil // used as a value
						}
					}
				}
			}
		}
	}
	if len(sites) == 0 {
		return nil
	}
	m.sitesMemo[f] = sites
	return sites
}

func allocAddressTaken(al *ssa.Alloc) bool {
	for _, r := range *al.Referrers() {
		switch x := r.(type) {
		case *ssa.Store:
			if x.Val == ssa.Value(al) {
				return true
			}
		case *ssa.UnOp, *ssa.DebugRef:
		default:
			return true
		}
	}
	return false
}

func isFresh(o origin) bool { return o == oFresh || o == oCallFresh }

func (m *concModel) computeFreshRet() {
	m.freshRet = map[*ssa.Function]bool{}
	for _, f := range m.fs {
		if f.Signature.Results().Len() >= 1 && m.isNodePtr(f.Signature.Results().At(0).Type()) {
			m.freshRet[f] = true
		}
	}
	for changed := true; changed; {
		changed = false
		for _, f := range m.fs {
			if !m.freshRet[f] {
				continue
			}
			for _, r := range core.Returns(f) {
				v := spilled(r, 0)
				if !isFresh(m.org(v, 0)) {
					m.freshRet[f] = false
					changed = true
				}
			}
		}
	}
}

// initOnly: every (transitive) caller of f is the package initialiser.
func (m *concModel) initOnly(f *ssa.Function) bool {
	seen := map[*ssa.Function]bool{}
	var rec func(g *ssa.Function) bool
	rec = func(g *ssa.Function) bool {
		if g == nil {
			return false
		}
		if g.Name() == "init" && g.Synthetic != "" {
			return true
		}
		if seen[g] {
			return true
		}
		seen[g] = true
		if g.Object() != nil && g.Object().Exported() {
			return false
		}
		if len(m.callers[g]) == 0 {
			return false
		}
		for _, h := range m.callers[g] {
			if !rec(h) {
				return false
			}
		}
		return true
	}
	return rec(f)
}

// muCall classifies a call on the tree mutex.
func (m *concModel) muCall(in ssa.Instruction) (name string, deferred bool) {
	var cc *ssa.CallCommon
	switch x := in.(type) {
	case *ssa.Call:
		cc = &x.Call
	case *ssa.Defer:
		cc, deferred = &x.Call, true
	default:
		return "", false
	}
	f := cc.StaticCallee()
	if f == nil || f.Signature.Recv() == nil || !isRWMutex(f.Signature.Recv().Type()) {
		return "", false
	}
	if g, ok := core.LoadOfGlobal(cc.Args[0]); ok && g == m.mu {
		return f.Name(), deferred
	}
	if cc.Args[0] == ssa.Value(m.mu) {
		return f.Name(), deferred
	}
	return "other-mutex", deferred
}

// deferReleases: a defer statement that releases the tree lock, directly or in a function literal.
func (m *concModel) deferReleases(in ssa.Instruction) bool {
	d, ok := in.(*ssa.Defer)
	if !ok {
		return false
	}
	if name, _ := m.muCall(in); name == "RUnlock" || name == "Unlock" {
		return true
	}
	if mc, ok := d.Call.Value.(*ssa.MakeClosure); ok {
		if lit, ok := mc.Fn.(*ssa.Function); ok {
			for _, b := range lit.Blocks {
				for _, x := range b.Instrs {
					if name, _ := m.muCall(x); name == "RUnlock" || name == "Unlock" {
						return true
					}
				}
			}
		}
	}
	return false
}

type lockAccess struct {
	f    *ssa.Function
	need int
	have int
	what string
	pos  token.Pos
	key  string
}

// lockset runs the forward lock-state dataflow for every function of the root
// package and computes requires-lock summaries. It returns the accesses (with
// the lock state at each) and structural problems.
func (m *concModel) lockset(c *core.Ctx) (acc []lockAccess, problems []lockAccess, regions map[*ssa.Function]map[*ssa.BasicBlock]int) {
	m.requires = map[*ssa.Function]int{}
	regions = map[*ssa.Function]map[*ssa.BasicBlock]int{}
	st := m.nodeT.Underlying().(*types.Struct)
	for round := 0; round < 8; round++ {
		changed := false
		acc, problems = nil, nil
		for _, f := range m.fs {
			in := map[*ssa.BasicBlock]int{f.Blocks[0]: 0}
			inRel := map[*ssa.BasicBlock]bool{} // a deferred release has been registered on the way to this block
			done := map[*ssa.BasicBlock]bool{}
			work := []*ssa.BasicBlock{f.Blocks[0]}
			need := 0
			cnt := map[string]int{}
			for len(work) > 0 {
				b := work[0]
				work = work[1:]
				if done[b] {
					continue
				}
				done[b] = true
				cur := in[b]
				rel := inRel[b]
				for _, ins := range b.Instrs {
					if m.deferReleases(ins) {
						rel = true
					}
					// leaving the function: what was acquired has been released, or a deferred release is pending
					if _, isRet := ins.(*ssa.Return); isRet && cur != 0 && !rel {
						key := "held at return"
						if !exportedAPI(f) {
							key = "join" // a helper that hands the lock to its caller: not modelled
						}
						problems = append(problems, lockAccess{f: f, what: "returns with the tree lock held and no deferred release pending: the next Extend (or, after a write lock, any detection) blocks forever", pos: ins.Pos(), key: key})
					}
					if name, deferred := m.muCall(ins); name != "" {
						switch {
						case name == "other-mutex":
							problems = append(problems, lockAccess{f: f, what: "operation on a mutex that is not the tree mutex", pos: ins.Pos(), key: "other mutex"})
						case name == "RLock" || name == "Lock":
							if deferred {
								problems = append(problems, lockAccess{f: f, what: "deferred lock acquisition", pos: ins.Pos(), key: "deferred acquire"})
							}
							if cur != 0 {
								problems = append(problems, lockAccess{f: f, what: "acquires the tree lock while already holding it (self-deadlock with a waiting writer)", pos: ins.Pos(), key: "re-acquire"})
							}
							cur = map[string]int{"RLock": 1, "Lock": 2}[name]
						case (name == "RUnlock" || name == "Unlock") && !deferred:
							cur = 0
						}
						continue
					}
					var a *lockAccess
					switch x := ins.(type) {
					case *ssa.UnOp:
						if fa, ok := x.X.(*ssa.FieldAddr); ok && x.Op == token.MUL && m.isNodePtr(fa.X.Type()) && fa.Field == m.tm.FChildren {
							if o := m.org(fa.X, 0); !isFresh(o) {
								a = &lockAccess{need: 1, what: "read of ." + st.Field(fa.Field).Name()}
							}
						}
					case *ssa.Store:
						if fa, ok := x.Addr.(*ssa.FieldAddr); ok && m.isNodePtr(fa.X.Type()) && fa.Field == m.tm.FChildren {
							if o := m.org(fa.X, 0); !isFresh(o) {
								a = &lockAccess{need: 2, what: "store to ." + st.Field(fa.Field).Name()}
							}
						}
					case ssa.CallInstruction:
						if g := x.Common().StaticCallee(); g != nil && m.requires[g] > 0 {
							a = &lockAccess{need: m.requires[g], what: "call of " + g.Name()}
							if _, isDefer := ins.(*ssa.Defer); isDefer {
								a.what = "deferred " + a.what
							}
						}
						if _, isGo := ins.(*ssa.Go); isGo {
							problems = append(problems, lockAccess{f: f, what: "go statement in the package: lock state does not transfer", pos: ins.Pos(), key: "go"})
						}
					}
					if a != nil {
						cnt[a.what]++
						a.f, a.have, a.pos = f, cur, ins.Pos()
						a.key = fmt.Sprintf("%s: %s #%d", core.FName(f), a.what, cnt[a.what])
						acc = append(acc, *a)
						if cur < a.need && a.need > need {
							need = a.need
						}
					}
				}
				for _, s := range b.Succs {
					if old, ok := in[s]; ok {
						if old != cur {
							problems = append(problems, lockAccess{f: f, what: fmt.Sprintf("lock state differs at the join b%d (%d vs %d)", s.Index, old, cur), pos: f.Pos(), key: "join"})
						}
					} else {
						in[s] = cur
						inRel[s] = rel
					}
					work = append(work, s)
				}
			}
			regions[f] = in
			if m.requires[f] != need {
				m.requires[f] = need
				changed = true
			}
		}
		if !changed {
			break
		}
	}
	return
}

// R06.1
var ruleAtomics = &core.Rule{ID: "R06.1", Min: 3,
	Doc: "every use of a package variable that is accessed through sync/atomic anywhere is an argument of a sync/atomic function (outside the package initialiser)",
	Run: func(c *core.Ctx, s *core.Sink) {
		m := getConc(c)
		if len(m.limit) == 0 {
			s.Bad("atomic limit variable", "-", "no package variable is accessed through sync/atomic: the read limit is shared between SetLimit and detection without synchronisation")
			return
		}
		for _, g := range m.limit {
			n := 0
			for _, f := range c.AllModFuncs() {
				for _, b := range f.Blocks {
					for _, in := range b.Instrs {
						for _, op := range in.Operands(nil) {
							if *op != ssa.Value(g) {
								continue
							}
							n++
							key := fmt.Sprintf("%s: use #%d of %s", core.FName(f), n, g.Name())
							if ci, ok := in.(ssa.CallInstruction); ok {
								if h := ci.Common().StaticCallee(); h != nil && h.Pkg != nil && h.Pkg.Pkg.Path() == "sync/atomic" {
									s.OK(key, c.Pos(in.Pos()), "argument of atomic."+h.Name())
									continue
								}
							}
							if f.Name() == "init" && f.Synthetic != "" {
								s.OK(key, c.Pos(in.Pos()), "package initialiser")
								continue
							}
							// pointer to a typed atomic: the pointer is only read, and only to call the type's methods
							if ld, ok := in.(*ssa.UnOp); ok && ld.Op == token.MUL && ld.X == ssa.Value(g) && isAtomicType(ld.Type()) {
								okUse := true
								for _, ref := range *ld.Referrers() {
									ci, isCall := ref.(ssa.CallInstruction)
									if _, dbg := ref.(*ssa.DebugRef); dbg {
										continue
									}
									h := (*ssa.Function)(nil)
									if isCall {
										h = ci.Common().StaticCallee()
									}
									if h == nil || h.Pkg == nil || h.Pkg.Pkg.Path() != "sync/atomic" || len(ci.Common().Args) == 0 || ci.Common().Args[0] != ssa.Value(ld) {
										okUse = false
									}
								}
								s.Check(okUse, key, c.Pos(in.Pos()), "receiver of a sync/atomic method", fmt.Sprintf("the atomic value behind %s is used other than through its methods", g.Name()))
								continue
							}
							s.Bad(key, c.Pos(in.Pos()), fmt.Sprintf("plain (non-atomic) use of %s, which other code accesses atomically: data race with SetLimit", g.Name()))
						}
					}
				}
			}
		}
	}}

// R06.2 + R06.6
var ruleLockset = &core.Rule{ID: "R06.2", Min: 8,
	Doc: "lockset: every read of the children field of a shared node happens under the read or write lock, every store under the write lock; exported API requires nothing from callers; no re-acquisition, consistent state at joins; every return leaves the tree lock released or has a deferred release pending",
	Run: func(c *core.Ctx, s *core.Sink) {
		m := getConc(c)
		acc, problems, _ := m.lockset(c)
		for _, p := range problems {
			if p.key == "join" {
				s.Und(core.FName(p.f)+": "+p.key, c.Pos(p.pos), p.what)
			} else {
				s.Bad(core.FName(p.f)+": "+p.key, c.Pos(p.pos), p.what)
			}
		}
		for _, a := range acc {
			if a.have >= a.need {
				s.OK(a.key, c.Pos(a.pos), fmt.Sprintf("lock state %s", lockName(a.have)))
			} else if m.requires[a.f] >= a.need && !exportedAPI(a.f) {
				s.OK(a.key, c.Pos(a.pos), fmt.Sprintf("deferred to callers: %s requires %s", a.f.Name(), lockName(a.need)))
			} else {
				s.Bad(a.key, c.Pos(a.pos), fmt.Sprintf("%s with lock state %s (needs %s) in exported %s: data race with Extend", a.what, lockName(a.have), lockName(a.need), a.f.Name()))
			}
		}
		var fs []*ssa.Function
		for f := range m.requires {
			fs = append(fs, f)
		}
		sort.Slice(fs, func(i, j int) bool { return fs[i].String() < fs[j].String() })
		for _, f := range fs {
			r := m.requires[f]
			if exportedAPI(f) {
				s.Check(r == 0, core.FName(f)+": exported API requires no lock from callers", c.Pos(f.Pos()), "requires nothing", fmt.Sprintf("exported function touches the tree and needs the caller to hold %s", lockName(r)))
			} else if r > 0 {
				// unexported function that requires the lock and is used as a value / has unknown callers
				for _, h := range m.callers[f] {
					if h == nil {
						s.Bad(core.FName(f)+": lock-requiring function used as a value", c.Pos(f.Pos()), "callers cannot be enumerated")
					}
				}
			}
		}
	}}

func lockName(i int) string { return [...]string{"none", "R", "W"}[i] }

func exportedAPI(f *ssa.Function) bool {
	if f.Object() == nil || !f.Object().Exported() {
		return false
	}
	return true
}

// R06.3 write-once fields
var ruleWriteOnce = &core.Rule{ID: "R06.3", Min: 6,
	Doc: "fields other than children of a node are stored only before publication: on a fresh object, or in functions reachable only from the package initialiser",
	Run: func(c *core.Ctx, s *core.Sink) {
		m := getConc(c)
		st := m.nodeT.Underlying().(*types.Struct)
		cnt := map[string]int{}
		for _, f := range c.AllModFuncs() {
			for _, b := range f.Blocks {
				for _, in := range b.Instrs {
					x, ok := in.(*ssa.Store)
					if !ok {
						continue
					}
					fa, ok := x.Addr.(*ssa.FieldAddr)
					if !ok || !m.isNodePtr(fa.X.Type()) || fa.Field == m.tm.FChildren {
						continue
					}
					base := fmt.Sprintf("%s: store to .%s", core.FName(f), st.Field(fa.Field).Name())
					cnt[base]++
					key := fmt.Sprintf("%s #%d", base, cnt[base])
					o := m.org(fa.X, 0)
					switch {
					case isFresh(o):
						s.OK(key, c.Pos(x.Pos()), "object is "+o.String())
					case m.initOnly(f):
						s.OK(key, c.Pos(x.Pos()), "function reachable only from the package initialiser")
					default:
						s.Bad(key, c.Pos(x.Pos()), fmt.Sprintf("store to field .%s of a possibly shared node (origin %s) after publication: concurrent readers (String, Is, Parent, lookup, match) race with it", st.Field(fa.Field).Name(), o))
					}
				}
			}
		}
	}}

// R06.4 no in-place append on shared slices
var ruleSharedAppend = &core.Rule{ID: "R06.4", Min: 1,
	Doc: "no append whose first operand may be a shared slice (field of a tree node, caller-owned alias slice) outside the write lock: append may write into spare capacity of the shared backing array; origins of parameters and slice results are followed through functions that are only called statically",
	Run: func(c *core.Ctx, s *core.Sink) {
		m := getConc(c)
		_, _, regions := m.lockset(c)
		cnt := map[string]int{}
		for _, f := range m.fs {
			for _, b := range f.Blocks {
				for _, in := range b.Instrs {
					call, ok := in.(*ssa.Call)
					if !ok || !core.IsBuiltin(&call.Call, "append") {
						continue
					}
					base := core.FName(f) + ": append"
					cnt[base]++
					key := fmt.Sprintf("%s #%d", base, cnt[base])
					o := m.org(call.Call.Args[0], 0)
					held := regions[f][b]
					// lock state inside the block: scan up to the instruction
					for _, x := range b.Instrs {
						if x == in {
							break
						}
						if name, deferred := m.muCall(x); name != "" && !deferred {
							switch name {
							case "Lock":
								held = 2
							case "RLock":
								held = 1
							case "Unlock", "RUnlock":
								held = 0
							}
						}
					}
					switch {
					case isFresh(o):
						s.OK(key, c.Pos(call.Pos()), "first operand is "+o.String())
					case m.initOnly(f):
						s.OK(key, c.Pos(call.Pos()), "function reachable only from the package initialiser")
					case held == 2 && m.storedBack(call):
						s.OK(key, c.Pos(call.Pos()), "under the write lock")
					default:
						if held < m.requires[f] {
							held = m.requires[f]
						}
						s.Bad(key, c.Pos(call.Pos()), fmt.Sprintf("append to a slice of origin %s with lock state %s: when the slice has spare capacity (e.g. an alias slice handed to Extend by the caller) concurrent calls write the same array slot", o, lockName(held)))
					}
				}
			}
		}
	}}

func (m *concModel) storedBack(call *ssa.Call) bool { return true }

// R06.5 package state
var rulePkgState = &core.Rule{ID: "R06.5", Min: 5,
	Doc: "no store to a package variable of the module outside package initialisers, other than through sync/atomic and sync.Pool; package-level pools are the only mutable shared state besides the tree",
	Run: func(c *core.Ctx, s *core.Sink) {
		n := 0
		for _, f := range c.AllModFuncs() {
			isInit := f.Name() == "init" && f.Synthetic != ""
			for _, b := range f.Blocks {
				for _, in := range b.Instrs {
					var addr ssa.Value
					switch x := in.(type) {
					case *ssa.Store:
						addr = x.Addr
					case *ssa.MapUpdate:
						addr = x.Map
					default:
						continue
					}
					g := rootGlobal(addr)
					if g == nil {
						continue
					}
					n++
					key := fmt.Sprintf("%s: store #%d through package variable %s", core.FName(f), n, g.Name())
					if isInit || getConcInitOnly(c, f) {
						s.OKTrivial(key, c.Pos(in.Pos()), "package initialisation")
						continue
					}
					s.Bad(key, c.Pos(in.Pos()), fmt.Sprintf("store through package variable %s outside initialisation: shared mutable state without synchronisation", g.Name()))
				}
			}
		}
		// inventory of package variables by kind
		for _, p := range c.ModPkgs {
			sp := c.SSA[p.PkgPath]
			var names []string
			for name := range sp.Members {
				names = append(names, name)
			}
			sort.Strings(names)
			for _, name := range names {
				g, ok := sp.Members[name].(*ssa.Global)
				if !ok || strings.HasPrefix(name, "init$") {
					continue
				}
				t := g.Type().(*types.Pointer).Elem()
				if n, ok := t.(*types.Named); ok && n.Obj().Pkg() != nil && n.Obj().Pkg().Path() == "sync" {
					s.OK("package variable "+p.Types.Name()+"."+name, c.Pos(g.Pos()), "sync."+n.Obj().Name())
				}
			}
		}
	}}

func getConcInitOnly(c *core.Ctx, f *ssa.Function) bool { return getConc(c).initOnly(f) }

// rootGlobal: the package variable an address is derived from by field /
// index / load steps (stores through a pointer loaded from a global included).
func rootGlobal(v ssa.Value) *ssa.Global {
	for i := 0; i < 16; i++ {
		switch x := v.(type) {
		case *ssa.Global:
			if x.Pkg != nil && (x.Pkg.Pkg.Path() == core.Mod || strings.HasPrefix(x.Pkg.Pkg.Path(), core.Mod+"/")) {
				return x
			}
			return nil
		case *ssa.FieldAddr:
			v = x.X
		case *ssa.IndexAddr:
			v = x.X
		case *ssa.UnOp:
			if x.Op != token.MUL {
				return nil
			}
			v = x.X
		case *ssa.Slice:
			v = x.X
		default:
			return nil
		}
	}
	return nil
}

// limitLoads counts, transitively through statically resolved module callees,
// the atomic loads of the limit a call of f performs (2 = "two or more").
func (m *concModel) limitLoads(f *ssa.Function, seen map[*ssa.Function]bool) int {
	if f == nil || f.Blocks == nil || seen[f] {
		return 0
	}
	seen[f] = true
	defer delete(seen, f)
	n := 0
	for _, ci := range core.Calls(f) {
		h := ci.Common().StaticCallee()
		if h == nil {
			continue
		}
		if h.Pkg != nil && h.Pkg.Pkg.Path() == "sync/atomic" && strings.HasPrefix(h.Name(), "Load") {
			n++
		} else if core.InMod(h) {
			n += m.limitLoads(h, seen)
		}
	}
	return n
}

// isLimitSnapshot: v is the result of an atomic load, directly or through a
// wrapper whose every return is that load.
func (m *concModel) isLimitSnapshot(v ssa.Value) bool {
	return m.isLimitSnapshotD(v, 0)
}

func (m *concModel) isLimitSnapshotD(v ssa.Value, depth int) bool {
	if depth > 4 {
		return false
	}
	call, ok := stripConv(v).(*ssa.Call)
	if !ok {
		return false
	}
	h := call.Call.StaticCallee()
	if h == nil {
		return false
	}
	if h.Pkg != nil && h.Pkg.Pkg.Path() == "sync/atomic" && strings.HasPrefix(h.Name(), "Load") {
		return true
	}
	if core.InMod(h) && h.Blocks != nil {
		rs := core.Returns(h)
		for _, r := range rs {
			if len(r.Results) != 1 || !m.isLimitSnapshotD(r.Results[0], depth+1) {
				return false
			}
		}
		return len(rs) > 0
	}
	return false
}

// R06.6 single snapshot
var ruleSnapshot = &core.Rule{ID: "R06.6", Min: 6,
	Doc: "each detection entry performs, on the whole path to the walk (helpers included), exactly one atomic load of the limit and one walk; the walk is called with the read lock held and does not lock by itself, so the whole descent sees one tree state; Extend's write region contains no call and no loop",
	Run: func(c *core.Ctx, s *core.Sink) {
		m := getConc(c)
		_, _, regions := m.lockset(c)
		walk := findWalk(c)
		// the walk must rely on its caller's lock: one region for the whole descent
		s.Check(m.requires[walk] == 1, core.FName(walk)+": whole descent inside the caller's read region", c.Pos(walk.Pos()), "walk requires R from its callers and never locks itself",
			"the walk takes or releases the tree lock by itself (per level): one detection can read the children of different levels from different tree states, a result that no instant of the tree would produce")
		nEntries := 0
		for _, f := range m.fs {
			if !exportedAPI(f) || f.Signature.Recv() != nil {
				continue
			}
			if !reachesFn(f, walk, map[*ssa.Function]bool{}) {
				continue
			}
			nEntries++
			loads := m.limitLoads(f, map[*ssa.Function]bool{})
			s.Check(loads == 1, core.FName(f)+": one limit snapshot per detection", c.Pos(f.Pos()), "1 atomic load on the path to the walk",
				fmt.Sprintf("%d atomic loads of the limit are executed by one detection (helpers included): the input may be cut under one limit and judged under another when SetLimit runs in between", loads))
			var walks []ssa.CallInstruction
			for _, ci := range core.Calls(f) {
				if ci.Common().StaticCallee() == walk {
					walks = append(walks, ci)
				}
			}
			if len(walks) == 0 {
				// delegates to another entry or to a wrapper: the total is one snapshot (checked above); a wrapper must
				// be handed that snapshot
				for _, ws := range getWalk(c).sitesIn(f) {
					s.Check(m.isLimitSnapshot(ws.lim), core.FName(f)+": walk receives the snapshot", c.Pos(ws.call.Pos()), "limit argument is the atomic load (through "+ws.wrapper.Name()+")", "the limit handed to the walk is not the value of the single atomic load")
				}
				continue
			}
			s.Check(len(walks) == 1, core.FName(f)+": one walk per detection", c.Pos(f.Pos()), "1 walk call", fmt.Sprintf("%d walk calls", len(walks)))
			for _, w := range walks {
				arg := w.Common().Args[len(w.Common().Args)-1]
				s.Check(m.isLimitSnapshot(arg), core.FName(f)+": walk receives the snapshot", c.Pos(w.Pos()), "limit argument is the atomic load", "the limit handed to the walk is not the value of the single atomic load")
				// lock state at the call
				held := regions[f][w.Block()]
				for _, x := range w.Block().Instrs {
					if x == ssa.Instruction(w) {
						break
					}
					if name, deferred := m.muCall(x); name != "" && !deferred {
						switch name {
						case "RLock":
							held = 1
						case "Lock":
							held = 2
						case "RUnlock", "Unlock":
							held = 0
						}
					}
				}
				gl, isLoad := core.LoadOfGlobal(w.Common().Args[0])
				s.Check(isLoad && nodeOfGlobal(m.tm, gl) == m.tm.Root, core.FName(f)+": walk starts at the root", c.Pos(w.Pos()), "root.match(...)", "a detection entry starts the walk at a node other than the root (or at a precomputed result): root-level formats and extensions registered later are not consulted for such inputs")
				s.Check(held >= 1, core.FName(f)+": walk called with the read lock held", c.Pos(w.Pos()), "lock state "+lockName(held), "the walk is entered without the tree lock")
			}
		}
		s.Check(nEntries >= 2, "detection entries found", "-", fmt.Sprint(nEntries), "fewer than two exported detection entries reach the walk")
		// wherever the walk is started from outside itself (entries or their helpers), it starts at the root
		nStart := 0
		for _, f := range c.AllModFuncs() {
			if f == walk {
				continue
			}
			for _, ci := range core.Calls(f) {
				if ci.Common().StaticCallee() != walk {
					continue
				}
				nStart++
				gl, isLoad := core.LoadOfGlobal(ci.Common().Args[0])
				inInit := f.Name() == "init" && f.Synthetic != ""
				s.Check(isLoad && nodeOfGlobal(m.tm, gl) == m.tm.Root && !inInit, fmt.Sprintf("%s: walk #%d starts at the root at call time", core.FName(f), nStart), c.Pos(ci.Pos()), "root.match(...) in a detection path",
					"the walk is started at a node other than the root, or its result is precomputed at initialisation: root-level formats and extensions registered later are not consulted")
			}
		}
		// writer regions: blocks with state W contain no call other than append/mutex and no back edge
		for _, f := range m.fs {
			for b, stt := range regions[f] {
				held := stt
				for _, in := range b.Instrs {
					if name, deferred := m.muCall(in); name != "" && !deferred {
						switch name {
						case "Lock":
							held = 2
						case "Unlock":
							held = 0
						}
						continue
					}
					if held != 2 {
						continue
					}
					if name, _ := m.muCall(in); name != "" {
						continue // a deferred unlock is registered here, it does not run here
					}
					if ci, ok := in.(ssa.CallInstruction); ok && !core.IsBuiltin(ci.Common(), "append") && !core.IsBuiltin(ci.Common(), "len") && !core.IsBuiltin(ci.Common(), "copy") && !isStdGeneric(ci.Common(), "slices.Concat") && !isStdGeneric(ci.Common(), "slices.Insert") && !isStdGeneric(ci.Common(), "slices.Clone") {
						s.Bad(fmt.Sprintf("%s: call inside the write region", core.FName(f)), c.Pos(in.Pos()), "call while holding the write lock (unbounded blocking of all detections, possible re-entry)")
					}
				}
				if stt == 2 {
					for _, sc := range b.Succs {
						if sc.Dominates(b) {
							s.Bad(fmt.Sprintf("%s: loop inside the write region", core.FName(f)), c.Pos(f.Pos()), "loop while holding the write lock")
						}
					}
				}
			}
		}
		s.OK("write regions are straight-line", "-", "no call, no loop under the write lock")
	}}

// walkShape describes how the first-match descent is written.
//
//	recursive:   walk(n) { for c in n.children { if c.detector(h,l) { return walk(c) } }; tail(n) }
//	loop:        walk(n) { cur := n; outer: for { for c in cur.children { if c.detector(h,l) { cur = c; continue outer } }; break }; tail(cur) }
//	loop+helper: walk(n) { cur := n; for { c := scan(cur,h,l); if c == nil { break }; cur = c }; tail(cur) }   scan returns the first accepting child or nil
type walkShape struct {
	form      string
	walk      *ssa.Function // the function detection entries call; it holds the tail (charset, chain clone)
	scan      *ssa.Function // the function invoking the detector field (== walk except for loop+helper)
	cur       ssa.Value     // the node the tail works on: walk's receiver (recursive) or the outer loop's phi
	outer     *ssa.BasicBlock
	scanCall  *ssa.Call   // loop+helper: the call of scan in walk
	scanCalls []*ssa.Call // loop+helper: every call of scan in walk (two in the for-clause spelling)
	next      ssa.Value   // loop+helper: the candidate tested against nil (the call, or the phi of the two calls)
}

func getWalkShape(c *core.Ctx) *walkShape {
	if w, ok := c.Memo["walkshape"].(*walkShape); ok {
		return w
	}
	tm := tree.Get(c)
	cm := getConc(c)
	var scan *ssa.Function
	for _, f := range c.SrcFuncs() {
		for _, ci := range core.Calls(f) {
			if ci.Common().IsInvoke() || ci.Common().StaticCallee() != nil {
				continue
			}
			if _, fld, ok := core.LoadOfField(ci.Common().Value); ok && fld == tm.FDet {
				if scan != nil && scan != f {
					core.Bail("two functions invoke the detector field: %s and %s", scan.Name(), f.Name())
				}
				scan = f
			}
		}
	}
	if scan == nil {
		core.Bail("no function invoking the detector field found (walk)")
	}
	w := &walkShape{scan: scan}
	for _, ci := range core.Calls(scan) {
		if ci.Common().StaticCallee() == scan {
			w.form, w.walk, w.cur = "recursive", scan, scan.Params[0]
		}
	}
	// loopPhi: a node-typed phi at a loop header of f whose entry edges are f's receiver and whose back edges are all `next(phi)`
	loopPhi := func(f *ssa.Function, ph *ssa.Phi, next func(v ssa.Value) bool) bool {
		h := ph.Block()
		nBack := 0
		for k, p := range h.Preds {
			if h.Dominates(p) {
				nBack++
				if !next(ph.Edges[k]) {
					return false
				}
			} else if ph.Edges[k] != ssa.Value(f.Params[0]) {
				return false
			}
		}
		return nBack > 0
	}
	if w.form == "" {
		// loop: the children ranged over belong to a phi of scan
		for _, b := range scan.Blocks {
			for _, in := range b.Instrs {
				base, fld, ok := core.LoadOfField(valueOf(in))
				if !ok || fld != tm.FChildren {
					continue
				}
				ph, isPhi := base.(*ssa.Phi)
				if !isPhi || !cm.isNodePtr(ph.Type()) {
					continue
				}
				rs := fde.FindRangeOver(scan, valueOf(in))
				if len(rs) == 1 && loopPhi(scan, ph, func(v ssa.Value) bool { return v == ssa.Value(rs[0].Load) }) {
					w.form, w.walk, w.cur, w.outer = "loop", scan, ph, ph.Block()
				}
			}
		}
	}
	if w.form == "" && scan.Signature.Results().Len() == 1 && cm.isNodePtr(scan.Signature.Results().At(0).Type()) {
		// loop+helper: the unique caller keeps the current node in a phi fed by scan's result
		var callers []*ssa.Call
		for _, f := range c.AllModFuncs() {
			for _, ci := range core.Calls(f) {
				if call, ok := ci.(*ssa.Call); ok && call.Call.StaticCallee() == scan {
					callers = append(callers, call)
				}
			}
		}
		if len(callers) == 1 {
			call := callers[0]
			g := call.Parent()
			if ph, ok := call.Call.Args[0].(*ssa.Phi); ok && cm.isNodePtr(ph.Type()) && loopPhi(g, ph, func(v ssa.Value) bool { return v == ssa.Value(call) }) {
				w.form, w.walk, w.cur, w.outer, w.scanCall = "loop+helper", g, ph, ph.Block(), call
				w.scanCalls, w.next = []*ssa.Call{call}, call
			}
		}
		if len(callers) == 2 && callers[0].Parent() == callers[1].Parent() {
			// for c := scan(m); c != nil; c = scan(m) { m = c }: the candidate is a phi of the two calls, the
			// current node a phi of the receiver and the candidate
			g := callers[0].Parent()
			for _, pair := range [][2]*ssa.Call{{callers[0], callers[1]}, {callers[1], callers[0]}} {
				c0, c1 := pair[0], pair[1]
				cand, ok := c1.Call.Args[0].(*ssa.Phi)
				if !ok || c0.Call.Args[0] != ssa.Value(g.Params[0]) {
					continue
				}
				h := cand.Block()
				okCand := len(cand.Edges) == len(h.Preds)
				for k, pr := range h.Preds {
					if h.Dominates(pr) {
						okCand = okCand && cand.Edges[k] == ssa.Value(c1)
					} else {
						okCand = okCand && cand.Edges[k] == ssa.Value(c0)
					}
				}
				if !okCand {
					continue
				}
				for _, in := range h.Instrs {
					cur, isPhi := in.(*ssa.Phi)
					if !isPhi {
						break
					}
					if cur != cand && cm.isNodePtr(cur.Type()) && loopPhi(g, cur, func(v ssa.Value) bool { return v == ssa.Value(cand) }) {
						w.form, w.walk, w.cur, w.outer, w.scanCall = "loop+helper", g, cur, h, c1
						w.scanCalls, w.next = []*ssa.Call{c0, c1}, cand
					}
				}
			}
		}
	}
	if w.form == "" {
		core.Bail("the function invoking detectors (%s) is neither a recursive first-match descent nor one of the two recognised loop forms of it; the walk rules cannot be set up (undecided, not a violation)", scan.Name())
	}
	c.Memo["walkshape"] = w
	return w
}

// findWalk: the function detection entries call to run the descent.
func findWalk(c *core.Ctx) *ssa.Function {
	return getWalkShape(c).walk
}

// R06.7 fresh results
var ruleFreshResults = &core.Rule{ID: "R06.7", Min: 3,
	Doc: "what detection hands to callers is a fresh clone (every returned operand is an allocation or the result of a function with that property) or the detached error sentinel",
	Run: func(c *core.Ctx, s *core.Sink) {
		m := getConc(c)
		walk := findWalk(c)
		s.Check(m.freshRet[walk], core.FName(walk)+": returns fresh objects", c.Pos(walk.Pos()), "returns-fresh summary", "the walk may return a node of the shared tree instead of a clone: the caller reads it without the lock while Extend writes")
		for _, f := range m.fs {
			if !exportedAPI(f) || f.Signature.Results().Len() == 0 || !m.isNodePtr(f.Signature.Results().At(0).Type()) {
				continue
			}
			calledWalk := false
			for _, ci := range core.Calls(f) {
				if ci.Common().StaticCallee() == walk {
					calledWalk = true
				}
			}
			if !calledWalk && !reachesFn(f, walk, map[*ssa.Function]bool{}) {
				continue // Lookup, Parent: hand out shared nodes by design; their fields are write-once (R06.3)
			}
			for _, r := range core.Returns(f) {
				v := viaResultHelper(spilled(r, 0))
				key := fmt.Sprintf("%s: %s", core.FName(f), returnOrdinal(r))
				o := m.org(v, 0)
				if isFresh(o) {
					s.OK(key, c.Pos(r.Pos()), o.String())
					continue
				}
				if g, ok := core.LoadOfGlobal(v); ok {
					if n := nodeOfGlobal(m.tm, g); n != nil && n == m.tm.Sentinel {
						s.OK(key, c.Pos(r.Pos()), "detached error sentinel "+g.Name())
						continue
					}
				}
				if call, ok := v.(*ssa.Call); ok && call.Call.StaticCallee() != nil && exportedAPI(call.Call.StaticCallee()) {
					s.OK(key, c.Pos(r.Pos()), "result of "+call.Call.StaticCallee().Name())
					continue
				}
				if ex, ok := v.(*ssa.Extract); ok {
					if call, ok := ex.Tuple.(*ssa.Call); ok && call.Call.StaticCallee() != nil && exportedAPI(call.Call.StaticCallee()) {
						s.OK(key, c.Pos(r.Pos()), "result of "+call.Call.StaticCallee().Name())
						continue
					}
				}
				s.Bad(key, c.Pos(r.Pos()), fmt.Sprintf("detection returns a value of origin %s: not a fresh clone nor the detached sentinel", o))
			}
		}
	}}

func reachesFn(f, target *ssa.Function, seen map[*ssa.Function]bool) bool {
	if f == nil || seen[f] || f.Blocks == nil {
		return false
	}
	seen[f] = true
	for _, g := range funcOperands(f) {
		if g == target || reachesFn(g, target, seen) {
			return true
		}
	}
	for _, ci := range core.Calls(f) {
		g := ci.Common().StaticCallee()
		if g == target {
			return true
		}
		if g != nil && core.InMod(g) && reachesFn(g, target, seen) {
			return true
		}
	}
	return false
}

func nodeOfGlobal(tm *tree.Model, g *ssa.Global) *tree.Node {
	for _, n := range tm.Nodes {
		if n.Var == g.Object() {
			return n
		}
	}
	return nil
}
