package rules

import (
	"go/token"

	"golang.org/x/tools/go/ssa"

	"mtverif/internal/core"
	"mtverif/internal/fde"
)

// newEval returns a finite-domain evaluator with the module's constant tables
// and the ability to fold calls to pure module predicates.
func newEval(c *core.Ctx) *fde.Eval {
	tb := fde.ConstTables(c)
	memo, _ := c.Memo["purefn"].(map[*ssa.Function]int)
	if memo == nil {
		memo = map[*ssa.Function]int{}
		c.Memo["purefn"] = memo
	}
	var pure func(f *ssa.Function) bool
	pure = func(f *ssa.Function) bool {
		switch memo[f] {
		case 1:
			return true
		case 2, 3:
			return false
		}
		memo[f] = 3
		ok := core.InMod(f) && f.Blocks != nil
		for _, b := range f.Blocks {
			if !ok {
				break
			}
			for _, in := range b.Instrs {
				switch x := in.(type) {
				case *ssa.BinOp, *ssa.Phi, *ssa.If, *ssa.Jump, *ssa.Return, *ssa.Convert, *ssa.ChangeType, *ssa.DebugRef:
				case *ssa.UnOp:
					if x.Op == token.MUL {
						ia, isIA := x.X.(*ssa.IndexAddr)
						if !isIA {
							ok = false
							break
						}
						g, isG := ia.X.(*ssa.Global)
						if !isG || tb[g] == nil {
							ok = false
						}
					}
				case *ssa.IndexAddr:
					g, isG := x.X.(*ssa.Global)
					if !isG || tb[g] == nil {
						ok = false
					}
				case *ssa.Call:
					h := x.Call.StaticCallee()
					if h == nil || !pure(h) {
						ok = false
					}
				default:
					ok = false
				}
			}
		}
		if ok {
			memo[f] = 1
		} else {
			memo[f] = 2
		}
		return ok
	}
	return &fde.Eval{Env: fde.Env{}, Tables: tb, Pure: pure}
}
