package rules

import (
	"go/token"

	"golang.org/x/tools/go/ssa"

	"mtverif/internal/core"
	"mtverif/internal/fde"
)

// newEval returns a finite-domain evaluator with the module's constant tables
// and the ability to fold calls to pure module predicates.
func newEval(c *core.Ctx) *fde.Eval {
	tb := fde.ConstTables(c)
	memo, _ := c.Memo["purefn"].(map[*ssa.Function]int)
	if memo == nil {
		memo = map[*ssa.Function]int{}
		c.Memo["purefn"] = memo
	}
	// foldable: any module function with a body of moderate size. The evaluator
	// ignores side effects and fails on anything it would need from memory, so
	// no purity analysis is needed for soundness of a successful fold.
	pure := func(f *ssa.Function) bool {
		return core.InMod(f) && f.Blocks != nil && len(f.Blocks) <= 64
	}
	_ = memo
	_ = token.MUL
	return &fde.Eval{Env: fde.Env{}, Tables: tb, Pure: pure}
}
