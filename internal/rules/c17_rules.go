package rules

import (
	"fmt"
	"os"
	"strings"

	"golang.org/x/tools/go/ssa"

	"mtverif/internal/core"
	"mtverif/internal/e8"
	"mtverif/internal/tree"
)

// R17.1 + R17.2
var ruleMonotone = &core.Rule{ID: "R17.1", Min: 90,
	Doc: "every root-level non-text detector is prefix-monotone — if it accepts a header it accepts every extension of that header, for any limit — by a lock-step (two-run) argument over its SSA: branch conditions are classified stable / may-turn-true / may-turn-false under header growth and every divergence must be harmless; a non-monotone condition is excused only when it is itself the unmodified-header verdict of another root-level non-text detector (hand-over)",
	Run: func(c *core.Ctx, s *core.Sink) {
		tm := tree.Get(c)
		text := one(c, s, tm, "text/plain")
		if text == nil {
			return
		}
		rootFns := map[*ssa.Function]bool{}
		rootGlobals := map[*ssa.Global]bool{}
		var dets []*tree.Node
		for _, ch := range tm.Root.Children {
			if ch == text {
				continue
			}
			dets = append(dets, ch)
			switch o := ch.DetObj.(type) {
			case nil:
			default:
				if ch.DetCtor != nil || ch.DetBind != nil {
					if sp := c.SSA[o.Pkg().Path()]; sp != nil {
						if g, ok := sp.Members[o.Name()].(*ssa.Global); ok {
							rootGlobals[g] = true
						}
					}
				}
			}
			if ch.DetFn != nil && ch.DetCtor == nil {
				rootFns[ch.DetFn] = true
			}
		}
		eng := e8.New(c.Prog, rootFns, rootGlobals)
		for _, n := range dets {
			key := "root detector of " + n.Name
			if n.DetFn == nil {
				s.Und(key, c.Pos(n.Pos), "detector does not resolve to a function body")
				continue
			}
			v := eng.Analyse(n.DetFn)
			if o := n.DetObj; !v.Monotone && o != nil && (n.DetCtor != nil || n.DetBind != nil) {
				// a detector variable: its closure may be a combinator over other detectors
				if sp := c.SSA[o.Pkg().Path()]; sp != nil {
					if g, ok := sp.Members[o.Name()].(*ssa.Global); ok {
						v = eng.AnalyseGlobal(g, n.DetFn)
					}
				}
			}
			switch {
			case v.Monotone && len(v.Handover) == 0:
				s.OK(key, c.Pos(n.Pos), "monotone ("+v.Kind+") "+core.FName(n.DetFn))
			case v.Monotone:
				// hand-over targets must be root-level non-text nodes: the engine only excuses calls of rootFns / rootGlobals
				s.OK(key, c.Pos(n.Pos), "monotone up to hand-over to root-level detector(s) "+strings.Join(v.Handover, ", "))
			default:
				why := strings.Join(v.Why, "; ")
				if len(why) > 400 && os.Getenv("MTVERIF_LONG") == "" {
					why = why[:400] + "..."
				}
				s.Bad(key, c.Pos(n.DetFn.Pos()), fmt.Sprintf("prefix-monotonicity of %s not proved (%s): %s — a header of L bytes may be accepted while a longer header of the same file is rejected, so raising the limit can turn a recognised binary file into application/octet-stream or text", core.FName(n.DetFn), v.Kind, why))
			}
		}
	}}
