package rules

import (
	"fmt"
	"golang.org/x/tools/go/ssa"
	"strings"

	"mtverif/internal/core"
	"mtverif/internal/tree"
)

// validMediaType: lower-case token "/" token (RFC 2045 tokens), no parameters.
func validMediaType(s string) (bool, string) {
	i := strings.IndexByte(s, '/')
	if i <= 0 || i == len(s)-1 {
		return false, "not of the form type/subtype"
	}
	if strings.Count(s, "/") != 1 {
		return false, "more than one '/'"
	}
	for _, r := range []byte(s) {
		if r == '/' {
			continue
		}
		if r <= ' ' || r >= 0x7f {
			return false, fmt.Sprintf("byte 0x%02x is not a token character", r)
		}
		if strings.IndexByte("()<>@,;:\\\"[]?=", r) >= 0 {
			return false, fmt.Sprintf("tspecial %q", r)
		}
		if 'A' <= r && r <= 'Z' {
			return false, "upper-case letter (ParseMediaType lower-cases the type, an exact comparison would then miss)"
		}
	}
	return true, ""
}

const octet = "application/octet-stream"

// ruleTreeWF: E1 well-formedness (R03.1).
var ruleTreeWF = &core.Rule{ID: "R03.1", Min: 170,
	Doc: "E1 tree well-formedness: every node variable is built by constructor(...)[.alias(...)], occurs in exactly one children list (root and error sentinel: none), chains end at the root, detectors resolve to non-nil function bodies",
	Run: func(c *core.Ctx, s *core.Sink) {
		m := tree.Get(c)
		for _, p := range m.Problems {
			s.Bad("tree-shape "+p[strings.Index(p, ": ")+2:], p[:strings.Index(p, ": ")], p)
		}
		for _, n := range m.Nodes {
			key := "node " + n.Name
			pos := c.Pos(n.Pos)
			switch {
			case n == m.Root:
				s.Check(len(n.Parents) == 0, key+" parent", pos, "root has no parent", "root listed as a child")
			case n == m.Sentinel:
				s.Check(len(n.Parents) == 0 && len(n.Children) == 0, key+" parent", pos, "sentinel detached", "error sentinel is attached to the tree")
			case len(n.Parents) != 1:
				var ps []string
				for _, p := range n.Parents {
					ps = append(ps, p.Name)
				}
				s.Bad(key+" parent", pos, fmt.Sprintf("node is listed as a child of %d nodes %v: the parent pointer cannot mirror the children relation", len(n.Parents), ps))
			default:
				ch := n.Chain()
				if ch[len(ch)-1] != m.Root {
					s.Bad(key+" parent", pos, "parent chain does not end at the root (cycle or detached subtree)")
				} else {
					s.OK(key+" parent", pos, fmt.Sprintf("single parent %s, chain of %d ends at root", n.Parents[0].Name, len(ch)))
				}
			}
			if n.DetFn == nil || n.DetFn.Blocks == nil {
				s.Bad(key+" detector", pos, "detector argument does not resolve to a function body (nil detector would panic in the walk)")
			}
		}
		// duplicates inside one children list
		for _, n := range m.Nodes {
			seen := map[*tree.Node]bool{}
			for _, ch := range n.Children {
				if seen[ch] {
					s.Bad("node "+n.Name+" children dup "+ch.Name, c.Pos(n.Pos), "child listed twice")
				}
				seen[ch] = true
			}
		}
	}}

// ruleNames: R02.1.
var ruleNames = &core.Rule{ID: "R02.1", Min: 170,
	Doc: "every registered type constant is a lower-case token/token without parameters; root and error sentinel are application/octet-stream",
	Run: func(c *core.Ctx, s *core.Sink) {
		m := tree.Get(c)
		for _, n := range m.Nodes {
			key := "name of " + n.Name
			if !n.MimeOK {
				s.Bad(key, c.Pos(n.Pos), "registered type is not a compile-time constant")
				continue
			}
			ok, why := validMediaType(n.Mime)
			s.Check(ok, key, c.Pos(n.Pos), "token grammar: "+n.Mime, fmt.Sprintf("%q: %s", n.Mime, why))
		}
		s.Check(m.Root.Mime == octet, "root constant", c.Pos(m.Root.Pos), octet, "root is "+m.Root.Mime)
		if m.Sentinel == nil {
			s.Bad("sentinel constant", "-", "no detached error sentinel node found")
		} else {
			s.Check(m.Sentinel.Mime == octet, "sentinel constant", c.Pos(m.Sentinel.Pos), octet, "sentinel is "+m.Sentinel.Mime)
		}
	}}

// ruleAliases: R15.2.
var ruleAliases = &core.Rule{ID: "R15.2", Min: 60,
	Doc: "every registered alias constant is a lower-case token/token without parameters (exact comparison against a ParseMediaType result)",
	Run: func(c *core.Ctx, s *core.Sink) {
		m := tree.Get(c)
		for _, n := range m.Nodes {
			if !n.AliasOK {
				s.Bad("aliases of "+n.Name, c.Pos(n.Pos), "alias list is not made of compile-time constants")
			}
			for i, a := range n.Aliases {
				ok, why := validMediaType(a)
				s.Check(ok, fmt.Sprintf("alias %s of %s", a, n.Name), c.Pos(n.AliasPos[i]), "token grammar", fmt.Sprintf("%q: %s", a, why))
			}
		}
		// the method that registers them keeps all of them: a store of a []string parameter into the receiver's alias
		// field stores the parameter itself, not a part of it
		for _, f := range c.SrcFuncs() {
			if f.Signature.Recv() == nil || len(f.Params) < 2 {
				continue
			}
			for _, b := range f.Blocks {
				for _, in := range b.Instrs {
					st, ok := in.(*ssa.Store)
					if !ok {
						continue
					}
					fa, ok := st.Addr.(*ssa.FieldAddr)
					if !ok || fa.Field != m.FAliases || fa.X != ssa.Value(f.Params[0]) {
						continue
					}
					v := st.Val
					part := false
					for d := 0; d < 3; d++ {
						if sl, ok := v.(*ssa.Slice); ok {
							full := sl.High == nil
							if ln, ok := sl.High.(*ssa.Call); ok && core.IsBuiltin(&ln.Call, "len") && ln.Call.Args[0] == sl.X {
								full = true // x[:len(x)] (also as a three-index slice that only clips the capacity)
							}
							if sl.Low != nil && !core.IsConstInt(sl.Low, 0) || !full {
								part = true
							}
							v = sl.X
							continue
						}
						break
					}
					isParam := false
					for _, p := range f.Params[1:] {
						if v == ssa.Value(p) {
							isParam = true
						}
					}
					if !isParam {
						continue
					}
					s.Check(!part, core.FName(f)+": registers every alias it is given", c.Pos(st.Pos()), "the parameter as a whole", "only a part of the alias list given to "+f.Name()+" is stored: the aliases left out are not found by Lookup and are not answered by Is")
				}
			}
		}
	}}

func one(c *core.Ctx, s *core.Sink, m *tree.Model, mime string) *tree.Node {
	ns := m.Find(mime)
	if len(ns) != 1 {
		s.Bad("unique node "+mime, "-", fmt.Sprintf("%d nodes carry the constant %s", len(ns), mime))
		return nil
	}
	return ns[0]
}

func childIndex(p, ch *tree.Node) int {
	for i, x := range p.Children {
		if x == ch {
			return i
		}
	}
	return -1
}

// ruleTextNode: R07.4 + R17.3.
var ruleTextNode = &core.Rule{ID: "R07.4", Min: 3,
	Doc: "exactly one node carries text/plain; it is a child of the root and the last one; no node outside its subtree carries it",
	Run: func(c *core.Ctx, s *core.Sink) {
		m := tree.Get(c)
		t := one(c, s, m, "text/plain")
		if t == nil {
			return
		}
		s.OK("unique node text/plain", c.Pos(t.Pos), "one node")
		isRootChild := len(t.Parents) == 1 && t.Parents[0] == m.Root
		s.Check(isRootChild, "text/plain under root", c.Pos(t.Pos), "parent is root", "text/plain node is not a direct child of the root")
		if isRootChild {
			i := childIndex(m.Root, t)
			s.Check(i == len(m.Root.Children)-1, "text/plain last root child", c.Pos(m.Root.Pos),
				fmt.Sprintf("index %d of %d", i, len(m.Root.Children)),
				fmt.Sprintf("text/plain is root child %d of %d: root children after it (%s...) would be shadowed for text-like binaries and binary formats tried after text", i, len(m.Root.Children), after(m.Root, i)))
		}
	}}

func after(p *tree.Node, i int) string {
	if i+1 < len(p.Children) {
		return p.Children[i+1].Name
	}
	return ""
}

// ruleJSONNodes: R08.5 / R10.3 tree part.
var ruleJSONNodes = &core.Rule{ID: "R10.3", Min: 5,
	Doc: "application/json is a child of text/plain; geo+json, .har, gltf+json are its children in that order (first match decides)",
	Run: func(c *core.Ctx, s *core.Sink) {
		m := tree.Get(c)
		t := one(c, s, m, "text/plain")
		var js *tree.Node
		for _, n := range m.Find("application/json") {
			if n.Ext == ".json" {
				js = n
			}
		}
		if t == nil || js == nil {
			s.Bad("json node", "-", "no application/json node with extension .json")
			return
		}
		s.Check(len(js.Parents) == 1 && js.Parents[0] == t, "json under text/plain", c.Pos(js.Pos), "parent is text/plain", "application/json is not a child of text/plain")
		want := []struct{ mime, ext string }{{"application/geo+json", ".geojson"}, {"application/json", ".har"}, {"model/gltf+json", ".gltf"}}
		idx := []int{}
		for _, w := range want {
			found := -1
			for i, ch := range js.Children {
				if ch.Mime == w.mime && ch.Ext == w.ext {
					found = i
				}
			}
			s.Check(found >= 0, "json child "+w.mime+w.ext, c.Pos(js.Pos), "child of application/json", w.mime+" ("+w.ext+") is not a child of application/json")
			idx = append(idx, found)
		}
		if idx[0] >= 0 && idx[1] >= 0 && idx[2] >= 0 {
			s.Check(idx[0] < idx[1] && idx[1] < idx[2], "json children order geo<har<gltf", c.Pos(js.Pos), fmt.Sprint(idx),
				fmt.Sprintf("order of geo/har/gltf among json's children is %v; the property fixes GeoJSON, then HAR, then glTF", idx))
		}
		// among the text formats the record-oriented detectors come after JSON: a JSON document written over several lines
		// with the same number of commas in each also satisfies the CSV detector (and one value per line the NDJSON one)
		for _, nd := range m.Find("application/x-ndjson") {
			ni := childIndex(t, nd)
			for _, later := range []string{"text/csv", "text/tab-separated-values"} {
				for _, n := range m.Find(later) {
					if li := childIndex(t, n); li >= 0 && ni >= 0 {
						s.Check(ni < li, "ndjson precedes "+later, c.Pos(n.Pos), fmt.Sprintf("positions %d < %d among the children of text/plain", ni, li),
							fmt.Sprintf("%s is consulted before application/x-ndjson: NDJSON whose lines have equal numbers of commas (arrays, flat objects) is reported as %s", later, later))
					}
				}
			}
		}
		ji := childIndex(t, js)
		for _, later := range []string{"text/csv", "text/tab-separated-values", "application/x-ndjson"} {
			for _, n := range m.Find(later) {
				if li := childIndex(t, n); li >= 0 && ji >= 0 {
					s.Check(ji < li, "json precedes "+later, c.Pos(n.Pos), fmt.Sprintf("positions %d < %d among the children of text/plain", ji, li),
						fmt.Sprintf("%s is consulted before application/json (positions %d, %d among the children of text/plain): well-formed JSON spread over lines that happen to look like records is reported as %s", later, li, ji, later))
				}
			}
		}
	}}
