package rules

import (
	"bytes"
	"fmt"
	"go/constant"
	"go/token"
	"go/types"
	"sort"
	"strings"

	"golang.org/x/tools/go/ssa"

	"mtverif/internal/core"
	"mtverif/internal/fde"
	"mtverif/internal/tree"
)

// zipWalker: the function with parameters (raw, marker []byte, bool) called by
// the OOXML / JAR detectors.
// zipWalk: the entry-name walker. api is what the detectors call with one
// marker; walk is the function holding the walk: api itself, or the
// several-markers form api forwards to with the one-element list of its marker.
type zipWalk struct {
	api, walk *ssa.Function
	fixed     map[*ssa.Function]bool // two-parameter entries (raw, marker) that forward to walk with this constant first-entry flag
	anyPrefix *ssa.Function          // several-markers form: the "some marker is a prefix" predicate
	anyOK     bool                   // ... has the verified shape
	flagOK    bool                   // ... and the forwarder hands its flag on unchanged
}

// markerTest: the call tests the entry name at the cursor against the walker's marker(s).
func (w *zipWalk) markerTest(cc *ssa.CallCommon) bool {
	if len(cc.Args) != 2 || cc.Args[1] != ssa.Value(w.walk.Params[1]) {
		return false
	}
	if w.anyPrefix != nil {
		return cc.StaticCallee() == w.anyPrefix
	}
	return core.CalleeIs(cc, "bytes", "HasPrefix")
}

// anyPrefixShape: p(b, sigs) ranges over all of sigs, answers true as soon as
// bytes.HasPrefix(b, sig) holds and false after the range.
func anyPrefixShape(p *ssa.Function) bool {
	if p == nil || p.Blocks == nil || len(p.Params) != 2 || !core.IsByteSlice(p.Params[0].Type()) {
		return false
	}
	rs := fde.FindRangeOver(p, p.Params[1])
	if len(rs) != 1 {
		return false
	}
	r := rs[0]
	iff := core.IfOf(r.Body)
	if iff == nil {
		return false
	}
	cond, pos := core.StripNot(iff.Cond, true)
	call, ok := cond.(*ssa.Call)
	if !ok || !core.CalleeIs(&call.Call, "bytes", "HasPrefix") || call.Call.Args[0] != ssa.Value(p.Params[0]) || call.Call.Args[1] != ssa.Value(r.Load) {
		return false
	}
	hit, miss := r.Body.Succs[0], r.Body.Succs[1]
	if !pos {
		hit, miss = miss, hit
	}
	rh, rd := retOf(hit), retOf(r.Done)
	if rh == nil || rd == nil || miss != r.Header || len(core.Returns(p)) != 2 {
		return false
	}
	vh, okh := core.ConstBool(rh.Results[0])
	vd, okd := core.ConstBool(rd.Results[0])
	return okh && okd && vh && !vd
}

func zipWalker(c *core.Ctx, tm *tree.Model) (*zipWalk, *tree.Node) {
	zs := tm.Find("application/zip")
	if len(zs) != 1 {
		core.Bail("application/zip node not found")
	}
	z := zs[0]
	var w *ssa.Function
	var fixed map[*ssa.Function]bool
	for _, ch := range z.Children {
		if ch.DetFn == nil {
			continue
		}
		for _, ci := range core.Calls(ch.DetFn) {
			g := ci.Common().StaticCallee()
			if g != nil && core.InMod(g) && len(g.Params) == 2 && core.IsByteSlice(g.Params[0].Type()) && core.IsByteSlice(g.Params[1].Type()) {
				// a named entry that fixes the flag: return walk(raw, marker, const)
				if rs := core.Returns(g); len(g.Blocks) == 1 && len(rs) == 1 {
					if fc, ok := rs[0].Results[0].(*ssa.Call); ok {
						h := fc.Call.StaticCallee()
						if h != nil && core.InMod(h) && len(h.Params) == 3 && len(fc.Call.Args) == 3 && fc.Call.Args[0] == ssa.Value(g.Params[0]) && fc.Call.Args[1] == ssa.Value(g.Params[1]) {
							if flag, isK := core.ConstBool(fc.Call.Args[2]); isK {
								nc := 0
								for range core.Calls(g) {
									nc++
								}
								if nc == 1 {
									if fixed == nil {
										fixed = map[*ssa.Function]bool{}
									}
									fixed[g] = flag
									g = h
								}
							}
						}
					}
				}
			}
			if g != nil && core.InMod(g) && len(g.Params) == 3 && core.IsByteSlice(g.Params[0].Type()) && core.IsByteSlice(g.Params[1].Type()) {
				if w != nil && w != g {
					core.Bail("two different zip entry walkers: %s, %s", w.Name(), g.Name())
				}
				w = g
			}
		}
	}
	if w == nil {
		core.Bail("zip entry-name walker not found")
	}
	zw := &zipWalk{api: w, walk: w, fixed: fixed}
	// forwarder: return walk(raw, [][]byte{marker}, flag)
	if rs := core.Returns(w); len(w.Blocks) == 1 && len(rs) == 1 {
		if call, ok := rs[0].Results[0].(*ssa.Call); ok {
			h := call.Call.StaticCallee()
			if h != nil && core.InMod(h) && h.Blocks != nil && len(h.Params) == 3 && len(call.Call.Args) == 3 &&
				call.Call.Args[0] == ssa.Value(w.Params[0]) && oneElementList(call.Call.Args[1], w.Params[1]) {
				nCalls := 0
				for range core.Calls(w) {
					nCalls++
				}
				if nCalls == 1 {
					zw.walk = h
					zw.flagOK = call.Call.Args[2] == ssa.Value(w.Params[2])
					for _, ci := range core.Calls(h) {
						if p := ci.Common().StaticCallee(); p != nil && core.InMod(p) && p.Blocks != nil && len(ci.Common().Args) == 2 && ci.Common().Args[1] == ssa.Value(h.Params[1]) {
							if zw.anyPrefix != nil && zw.anyPrefix != p {
								core.Bail("zip walker %s hands its markers to two different helpers", h.Name())
							}
							zw.anyPrefix, zw.anyOK = p, anyPrefixShape(p)
						}
					}
					if zw.anyPrefix == nil {
						core.Bail("zip walker %s takes several markers but no predicate over them was found", h.Name())
					}
				}
			}
		}
	}
	return zw, z
}

// oneElementList: v is the list literal {elem}: a full slice of a fresh one-element array whose only store is elem.
func oneElementList(v ssa.Value, elem ssa.Value) bool {
	sl, ok := v.(*ssa.Slice)
	if !ok || sl.Low != nil || sl.High != nil {
		return false
	}
	arr, ok := sl.X.(*ssa.Alloc)
	if !ok {
		return false
	}
	at, ok := arr.Type().Underlying().(*types.Pointer).Elem().Underlying().(*types.Array)
	if !ok || at.Len() != 1 {
		return false
	}
	stores := 0
	for _, ref := range *arr.Referrers() {
		switch x := ref.(type) {
		case *ssa.IndexAddr:
			if !core.IsConstInt(x.Index, 0) {
				return false
			}
			for _, r2 := range *x.Referrers() {
				st, isSt := r2.(*ssa.Store)
				if !isSt || st.Val != elem {
					return false
				}
				stores++
			}
		case *ssa.Slice, *ssa.DebugRef:
		default:
			return false
		}
	}
	return stores == 1
}

var ruleZipMarkers = &core.Rule{ID: "R19.1", Min: 8,
	Doc: "zip markers: docx/xlsx/pptx look for word/, xl/, ppt/ with the OOXML first-entry list on, jar for META-INF/MANIFEST.MF with it off, on the unmodified header (through the three-argument walker, a several-markers core it forwards to, or named two-argument entries that fix the flag); the OOXML first-entry list contains [Content_Types].xml; all these nodes are children of application/zip and apk precedes jar",
	Run: func(c *core.Ctx, s *core.Sink) {
		tm := tree.Get(c)
		zw, z := zipWalker(c, tm)
		w := zw.walk
		type spec struct {
			mime   string
			marker string
			mso    bool
		}
		specs := []spec{
			{"application/vnd.openxmlformats-officedocument.wordprocessingml.document", "word/", true},
			{"application/vnd.openxmlformats-officedocument.spreadsheetml.sheet", "xl/", true},
			{"application/vnd.openxmlformats-officedocument.presentationml.presentation", "ppt/", true},
			{"application/jar", "META-INF/MANIFEST.MF", false},
		}
		idx := map[string]int{}
		for _, sp := range specs {
			ns := tm.Find(sp.mime)
			key := "marker of " + sp.mime
			if len(ns) != 1 || ns[0].DetFn == nil {
				s.Bad(key, "-", "node not found")
				continue
			}
			n := ns[0]
			s.Check(len(n.Parents) == 1 && n.Parents[0] == z, "parent of "+sp.mime, c.Pos(n.Pos), "child of application/zip", "the node is not a child of application/zip: the verdict would not have application/zip as its parent")
			idx[sp.mime] = childIndex(z, n)
			var calls []ssa.CallInstruction
			direct := false
			for _, ci := range core.Calls(n.DetFn) {
				g := ci.Common().StaticCallee()
				if _, isFixed := zw.fixed[g]; g != nil && (g == zw.api || isFixed) {
					calls = append(calls, ci)
				} else if g == zw.walk {
					direct = true
				}
			}
			if direct {
				s.Und(key, c.Pos(n.DetFn.Pos()), "the detector calls the several-markers walker directly: its marker list is not folded")
				continue
			}
			if len(calls) != 1 {
				s.Bad(key, c.Pos(n.DetFn.Pos()), fmt.Sprintf("%d calls of the entry walker", len(calls)))
				continue
			}
			a := calls[0].Common().Args
			mk, okm := detEnv(n).foldBytes(a[1]) // a constant, or folded through the constructor that built the detector
			var mso, okb bool
			if flag, isFixed := zw.fixed[calls[0].Common().StaticCallee()]; isFixed {
				mso, okb = flag, true
			} else {
				mso, okb = core.ConstBool(a[2])
			}
			okRaw := a[0] == ssa.Value(n.DetFn.Params[0])
			okRet := false
			for _, r := range core.Returns(n.DetFn) {
				if r.Results[0] == calls[0].Value() {
					okRet = true
				}
			}
			s.Check(okm && okb && okRaw && okRet && string(mk) == sp.marker && mso == sp.mso, key, c.Pos(calls[0].Pos()), fmt.Sprintf("%q, first-entry list %v", sp.marker, sp.mso),
				fmt.Sprintf("detector looks for %q with the OOXML first-entry list %v on header-unmodified=%v; expected %q / %v", mk, mso, okRaw, sp.marker, sp.mso))
		}
		// OOXML nodes are tried before apk and jar: a package that starts with [Content_Types].xml may also carry a manifest
		for _, k := range []string{"application/vnd.android.package-archive", "application/jar"} {
			if ns := tm.Find(k); len(ns) == 1 {
				ki := childIndex(z, ns[0])
				for _, sp := range specs[:3] {
					oi, ok := idx[sp.mime]
					if ok && ki >= 0 {
						s.Check(oi < ki, fmt.Sprintf("%s precedes %s", shortMime(sp.mime), shortMime(k)), c.Pos(z.Pos), fmt.Sprintf("%d < %d", oi, ki),
							fmt.Sprintf("%s is tried before %s among the children of zip: an OOXML package that also contains a manifest / dex entry among its first names would be reported as %s", shortMime(k), shortMime(sp.mime), shortMime(k)))
					}
				}
			}
		}
		// apk before jar
		apk := tm.Find("application/vnd.android.package-archive")
		if len(apk) == 1 {
			ai := childIndex(z, apk[0])
			ji := idx["application/jar"]
			s.Check(ai >= 0 && ai < ji, "apk precedes jar", c.Pos(z.Pos), fmt.Sprintf("apk %d < jar %d", ai, ji), "apk is not tried before jar among the children of zip: every APK (which has a META-INF manifest) would be reported as JAR")
			// apk markers: every call to the walker uses msoCheck false and returns true on a hit
			n := 0
			if apk[0].DetFn != nil {
				apkBodies := append([]*ssa.Function{apk[0].DetFn}, apk[0].DetFn.AnonFuncs...)
				var apkCalls []ssa.CallInstruction
				for _, body := range apkBodies {
					apkCalls = append(apkCalls, core.Calls(body)...)
				}
				rawOf := func(v ssa.Value) bool {
					if v == ssa.Value(apk[0].DetFn.Params[0]) {
						return true
					}
					// the header captured by a callback of the detector (a parameter is not assigned: the cell holds it)
					if ld, ok := v.(*ssa.UnOp); ok && ld.Op == token.MUL {
						if fv, ok := ld.X.(*ssa.FreeVar); ok {
							return capturedParam(fv) == ssa.Value(apk[0].DetFn.Params[0])
						}
					}
					return false
				}
				for _, ci := range apkCalls {
					g := ci.Common().StaticCallee()
					if g != nil && (g == zw.api || g == zw.walk) && ci.Parent() != apk[0].DetFn {
						n++
						mso, ok := core.ConstBool(ci.Common().Args[2])
						s.Check(ok && !mso && rawOf(ci.Common().Args[0]), fmt.Sprintf("apk marker call #%d", n), c.Pos(ci.Pos()), "unmodified header, first-entry list off (inside a callback)", "the APK detector walks something other than the unmodified header or applies the OOXML first-entry list")
						continue
					}
					if ci.Parent() != apk[0].DetFn {
						continue
					}
					if flag, isFixed := zw.fixed[g]; isFixed && g != nil {
						n++
						s.Check(!flag && ci.Common().Args[0] == ssa.Value(apk[0].DetFn.Params[0]), fmt.Sprintf("apk marker call #%d", n), c.Pos(ci.Pos()), "unmodified header, first-entry list off", "the APK detector walks something other than the unmodified header or applies the OOXML first-entry list")
						continue
					}
					if g == zw.api || g == zw.walk {
						n++
						mso, ok := core.ConstBool(ci.Common().Args[2])
						s.Check(ok && !mso && ci.Common().Args[0] == ssa.Value(apk[0].DetFn.Params[0]), fmt.Sprintf("apk marker call #%d", n), c.Pos(ci.Pos()), "unmodified header, first-entry list off", "the APK detector walks something other than the unmodified header or applies the OOXML first-entry list")
					}
				}
			}
			s.Check(n >= 1, "apk uses the entry walker", c.Pos(apk[0].Pos), fmt.Sprint(n), "the APK detector does not look at entry names")
			// the names it looks for are the entries that make an archive an Android package (file(1), Magdir/archive)
			{
				want := map[string]bool{"AndroidManifest.xml": true, "META-INF/com/android/build/gradle/app-metadata.properties": true, "classes.dex": true, "resources.arsc": true, "res/drawable": true}
				got := map[string]bool{}
				fns := append([]*ssa.Function{apk[0].DetFn}, apk[0].DetFn.AnonFuncs...)
				for _, fn := range fns {
					for _, b := range fn.Blocks {
						for _, in := range b.Instrs {
							if cv, ok := in.(*ssa.Convert); ok && core.IsByteSlice(cv.Type()) {
								if k, isK := core.ConstString(cv.X); isK {
									got[k] = true
								}
							}
						}
					}
				}
				if len(got) > 0 {
					var extra, missing []string
					for k := range got {
						if !want[k] {
							extra = append(extra, k)
						}
					}
					for k := range want {
						if !got[k] {
							missing = append(missing, k)
						}
					}
					sort.Strings(extra)
					sort.Strings(missing)
					s.Check(len(extra) == 0 && len(missing) == 0, "apk marker names", c.Pos(apk[0].Pos), fmt.Sprintf("%d entry names", len(got)), fmt.Sprintf("the APK detector's entry names differ from the Android package markers (not a marker: %q; missing: %q): an archive without any of the real markers can be reported as APK, or one with them is not", extra, missing))
				}
			}
		} else {
			s.Bad("apk precedes jar", "-", "apk node not found")
		}
		// OOXML first-entry list: a constant [][]byte in the walker, or a package-level table it (or a predicate helper it calls) reads
		hasCT := false
		scan := func(f *ssa.Function) [][][]byte {
			var lists [][][]byte
			for _, b := range f.Blocks {
				for _, in := range b.Instrs {
					if sl, ok := in.(*ssa.Slice); ok {
						if l, ok := tree.ConstByteSlices(sl); ok && len(l) > 0 {
							lists = append(lists, l)
						}
					}
				}
			}
			return lists
		}
		contains := func(lists [][][]byte) bool {
			for _, l := range lists {
				for _, e := range l {
					if string(e) == "[Content_Types].xml" {
						return true
					}
				}
			}
			return false
		}
		if contains(scan(w)) {
			hasCT = true
		}
		// or in a predicate helper of the walker (the list moved along with the test)
		for _, ci := range core.Calls(w) {
			if h := ci.Common().StaticCallee(); h != nil && core.InMod(h) && h.Blocks != nil && h != w {
				if rb, ok := h.Signature.Results().At(0).Type().Underlying().(*types.Basic); ok && h.Signature.Results().Len() == 1 && rb.Kind() == types.Bool && contains(scan(h)) {
					hasCT = true
				}
			}
		}
		if !hasCT {
			// package-level table: stored in init, loaded by the walker or a helper it calls
			loaded := map[*ssa.Global]bool{}
			var visit func(f *ssa.Function, d int)
			visit = func(f *ssa.Function, d int) {
				for _, b := range f.Blocks {
					for _, in := range b.Instrs {
						if g, ok := core.LoadOfGlobal(valueOf(in)); ok {
							loaded[g] = true
						}
					}
				}
				if d < 2 {
					for _, ci := range core.Calls(f) {
						if g := ci.Common().StaticCallee(); g != nil && core.InMod(g) && g.Blocks != nil {
							visit(g, d+1)
						}
					}
				}
			}
			visit(w, 0)
			if init := w.Pkg.Func("init"); init != nil {
				for _, b := range init.Blocks {
					for _, in := range b.Instrs {
						st, ok := in.(*ssa.Store)
						if !ok {
							continue
						}
						g, ok := st.Addr.(*ssa.Global)
						if !ok || !loaded[g] {
							continue
						}
						if l, ok := tree.ConstByteSlices(st.Val); ok && contains([][][]byte{l}) {
							hasCT = true
						}
					}
				}
			}
		}
		s.Check(hasCT, "first-entry list contains [Content_Types].xml", c.Pos(w.Pos()), "present", "a package whose first entry is [Content_Types].xml would not be walked")
	}}

var ruleZipSignatures = &core.Rule{ID: "R19.2", Min: 10,
	Doc: "stored-mimetype formats: for every zip descendant whose detector tests a prefix of raw[k:] (signature and offset folded through the constructor chain into the closure): k = 30 (name offset in the local file header) and sig = \"mimetype\" + the node's registered type; when one signature is a proper prefix of another's the longer one is its child (so that the first match is the most specific)",
	Run: func(c *core.Ctx, s *core.Sink) {
		tm := tree.Get(c)
		_, z := zipWalker(c, tm)
		type sigNode struct {
			n   *tree.Node
			sig []byte
		}
		var sigs []sigNode
		var visit func(n *tree.Node)
		visit = func(n *tree.Node) {
			for _, ch := range n.Children {
				visit(ch)
				if ch.DetFn == nil || ch.DetFn.Blocks == nil || len(ch.DetFn.Params) == 0 {
					continue
				}
				// the detector's prefix test HasPrefix(raw[k:], sig), folded in the closure's binding environment
				env := detEnv(ch)
				var sig []byte
				var off int64
				ok1, ok2 := false, false
				for _, ci := range core.Calls(ch.DetFn) {
					if !core.CalleeIs(ci.Common(), "bytes", "HasPrefix") {
						continue
					}
					sl, isSl := ci.Common().Args[0].(*ssa.Slice)
					if !isSl || sl.X != ssa.Value(ch.DetFn.Params[0]) || sl.High != nil || sl.Low == nil {
						continue
					}
					sig, ok1 = env.foldBytes(ci.Common().Args[1])
					off, ok2 = env.foldInt(sl.Low)
				}
				if !ok1 || !ok2 || !bytes.HasPrefix(sig, []byte("mimetype")) {
					continue
				}
				key := "signature of " + ch.Name
				s.Check(off == 30 && string(sig) == "mimetype"+ch.Mime, key, c.Pos(ch.Pos), "offset 30, \"mimetype\"+"+ch.Mime,
					fmt.Sprintf("signature %q at offset %d does not spell \"mimetype\" followed by the node's registered type %q at the name offset 30", sig, off, ch.Mime))
				sigs = append(sigs, sigNode{ch, sig})
			}
		}
		visit(z)
		// every OpenDocument / EPUB node must be decided by the stored mimetype entry alone
		var all func(n *tree.Node)
		all = func(n *tree.Node) {
			for _, ch := range n.Children {
				all(ch)
				if strings.HasPrefix(ch.Mime, "application/vnd.oasis.opendocument.") || ch.Mime == "application/epub+zip" {
					found := false
					for _, sn := range sigs {
						if sn.n == ch {
							found = true
						}
					}
					s.Check(found, "stored-mimetype detector of "+ch.Name, c.Pos(ch.Pos), "offset(\"mimetype\"+type, 30)", "an OpenDocument / EPUB node is not decided by `mimetype`+type at offset 30 alone: archives whose first entry is the stored mimetype file (e.g. written with data descriptors, sizes 0) would fall back to application/zip")
				}
			}
		}
		all(z)
		for _, a := range sigs {
			for _, b := range sigs {
				if a.n != b.n && len(a.sig) < len(b.sig) && bytes.HasPrefix(b.sig, a.sig) {
					key := fmt.Sprintf("%s is refined by %s", a.n.Name, b.n.Name)
					s.Check(b.n.Under(a.n), key, c.Pos(b.n.Pos), b.n.Name+" is a descendant of "+a.n.Name, fmt.Sprintf("%s's signature is a prefix of %s's but %s is not its descendant: whichever comes first among siblings shadows the other", a.n.Name, b.n.Name, b.n.Name))
				}
			}
		}
		// the offset constructor really tests HasPrefix(raw[k:], sig) under len(raw) > k
		shapeDone := map[*ssa.Function]bool{}
		for _, a := range sigs {
			f := a.n.DetFn
			if shapeDone[f] {
				continue
			}
			shapeDone[f] = true
			okShape := false
			for _, ci := range core.Calls(f) {
				if core.CalleeIs(ci.Common(), "bytes", "HasPrefix") {
					if sl, ok := ci.Common().Args[0].(*ssa.Slice); ok && sl.X == ssa.Value(f.Params[0]) && sl.High == nil && sl.Low != nil {
						okShape = true
					}
				}
			}
			// and nothing else decides: the only conditions are len(raw) > k and that HasPrefix
			extra := ""
			for _, b := range f.Blocks {
				if iff := core.IfOf(b); iff != nil {
					cond, _ := core.StripNot(iff.Cond, true)
					switch x := cond.(type) {
					case *ssa.BinOp:
						if ln, ok := x.X.(*ssa.Call); ok && core.IsBuiltin(&ln.Call, "len") && ln.Call.Args[0] == ssa.Value(f.Params[0]) {
							continue
						}
						if ln, ok := x.Y.(*ssa.Call); ok && core.IsBuiltin(&ln.Call, "len") && ln.Call.Args[0] == ssa.Value(f.Params[0]) {
							continue
						}
						extra = c.Pos(iff.Pos())
					case *ssa.Call:
						if !core.CalleeIs(&x.Call, "bytes", "HasPrefix") {
							extra = c.Pos(iff.Pos())
						}
					default:
						extra = c.Pos(iff.Pos())
					}
				}
			}
			s.Check(okShape && extra == "", "offset detector shape of "+a.n.Name, c.Pos(f.Pos()), "len(raw) > k && HasPrefix(raw[k:], sig), nothing else", "the offset constructor does not test exactly a prefix of raw[k:] under a length guard (extra condition at "+extra+")")
		}
	}}

// R19.6
var ruleZipRoot = &core.Rule{ID: "R19.6", Min: 4,
	Doc: "the zip node's own detector, tabulated over the byte values it distinguishes in the first four bytes (the constants it compares with, split into bytes when a little-endian word is compared, plus one other value per position): it accepts the local-file-header, end-of-central-directory (empty archive) and data-descriptor / spanned signatures PK\\x03\\x04, PK\\x05\\x06, PK\\x07\\x08, nothing that does not start with PK followed by one of 3/5/7 and one of 4/6/8, and nothing shorter than four bytes",
	Run: func(c *core.Ctx, s *core.Sink) {
		tm := tree.Get(c)
		zs := tm.Find("application/zip")
		if len(zs) != 1 || zs[0].DetFn == nil || zs[0].DetFn.Blocks == nil || len(zs[0].DetFn.Params) == 0 {
			core.Bail("application/zip node or its detector not found")
		}
		f := zs[0].DetFn
		raw := f.Params[0]
		// what the detector reads of the header: byte loads at constant positions < 4, and 32-bit little-endian reads of its start
		loads := map[int][]ssa.Value{}
		var words []ssa.Value
		var lens []ssa.Value
		dom := [4]map[int64]bool{{}, {}, {}, {}}
		isStart := func(v ssa.Value) bool {
			if v == ssa.Value(raw) {
				return true
			}
			sl, ok := v.(*ssa.Slice)
			return ok && sl.X == ssa.Value(raw) && (sl.Low == nil || core.IsConstInt(sl.Low, 0))
		}
		for _, b := range f.Blocks {
			for _, in := range b.Instrs {
				switch x := in.(type) {
				case *ssa.UnOp:
					if x.Op != token.MUL {
						continue
					}
					if ia, ok := x.X.(*ssa.IndexAddr); ok && ia.X == ssa.Value(raw) {
						k, isK := core.ConstInt(ia.Index)
						if !isK || k < 0 || k > 3 {
							core.Bail("zip detector reads header byte %v, outside the signature", ia.Index)
						}
						loads[int(k)] = append(loads[int(k)], x)
						for _, ref := range *x.Referrers() {
							if bo, ok := ref.(*ssa.BinOp); ok {
								for _, o := range []ssa.Value{bo.X, bo.Y} {
									if cv, ok := core.ConstInt(o); ok {
										dom[k][cv&0xff] = true
									}
								}
							}
						}
					}
				case *ssa.Call:
					if core.IsBuiltin(&x.Call, "len") && x.Call.Args[0] == ssa.Value(raw) {
						lens = append(lens, x)
						continue
					}
					g := x.Call.StaticCallee()
					if g != nil && g.Pkg != nil && g.Pkg.Pkg.Path() == "encoding/binary" && g.Name() == "Uint32" && strings.Contains(g.String(), "littleEndian") && isStart(x.Call.Args[len(x.Call.Args)-1]) {
						words = append(words, x)
						for _, ref := range *x.Referrers() {
							if bo, ok := ref.(*ssa.BinOp); ok {
								for _, o := range []ssa.Value{bo.X, bo.Y} {
									if cv, ok := core.ConstInt(o); ok {
										for i := 0; i < 4; i++ {
											dom[i][(cv>>(8*uint(i)))&0xff] = true
										}
									}
								}
							}
						}
						continue
					}
					if g != nil || !x.Call.IsInvoke() {
						if _, isB := x.Call.Value.(*ssa.Builtin); !isB {
							core.Bail("zip detector calls %s: its signature test is not tabulated", x.Call.Value.Name())
						}
					}
				}
			}
		}
		if len(loads) == 0 && len(words) == 0 {
			core.Bail("zip detector reads neither header bytes nor a header word")
		}
		var vals [4][]int64
		for i := 0; i < 4; i++ {
			other := int64(0xEE)
			for dom[i][other] {
				other--
			}
			dom[i][other] = true
			for v := range dom[i] {
				vals[i] = append(vals[i], v)
			}
			sort.Slice(vals[i], func(a, b int) bool { return vals[i][a] < vals[i][b] })
		}
		eval := func(h [4]int64, n int64) (bool, error) {
			ev := newEval(c)
			ev.Env = fde.Env{}
			for _, l := range lens {
				ev.Env[l] = constant.MakeInt64(n)
			}
			for i := 0; i < 4; i++ {
				for _, ld := range loads[i] {
					ev.Env[ld] = constant.MakeInt64(h[i])
				}
			}
			for _, w := range words {
				ev.Env[w] = constant.MakeInt64(h[0] | h[1]<<8 | h[2]<<16 | h[3]<<24)
			}
			exits, err := ev.Walk(f.Blocks[0], nil, nil, 0)
			if err != nil {
				return false, err
			}
			if len(exits) != 1 || exits[0].Ret == nil {
				return false, fmt.Errorf("%d exits", len(exits))
			}
			v, ok := exits[0].ValAt(ev, exits[0].Ret.Results[0])
			if !ok || v.Kind() != constant.Bool {
				return false, fmt.Errorf("verdict not evaluable")
			}
			return constant.BoolVal(v), nil
		}
		want := map[[4]int64]string{{0x50, 0x4B, 3, 4}: "local file header PK\\x03\\x04", {0x50, 0x4B, 5, 6}: "end of central directory PK\\x05\\x06 (archive without entries)", {0x50, 0x4B, 7, 8}: "data descriptor / spanned marker PK\\x07\\x08"}
		for sig, name := range want {
			for i := 0; i < 4; i++ {
				if !dom[i][sig[i]] {
					vals[i] = append(vals[i], sig[i])
					dom[i][sig[i]] = true
				}
			}
			_ = name
		}
		seenWant := map[[4]int64]bool{}
		extra := ""
		var evalErr error
		for _, a := range vals[0] {
			for _, b := range vals[1] {
				for _, cc := range vals[2] {
					for _, d := range vals[3] {
						h := [4]int64{a, b, cc, d}
						acc, err := eval(h, 30)
						if err != nil {
							evalErr = err
							continue
						}
						if _, isWant := want[h]; isWant {
							seenWant[h] = acc
							continue
						}
						okMix := a == 0x50 && b == 0x4B && (cc == 3 || cc == 5 || cc == 7) && (d == 4 || d == 6 || d == 8)
						if acc && !okMix {
							extra = fmt.Sprintf("%02x %02x %02x %02x", a, b, cc, d)
						}
					}
				}
			}
		}
		if evalErr != nil {
			s.Und("zip signature table", c.Pos(f.Pos()), "the zip detector's verdict is not evaluable over its own constants: "+evalErr.Error())
			return
		}
		keys := make([][4]int64, 0, len(want))
		for k := range want {
			keys = append(keys, k)
		}
		sort.Slice(keys, func(i, j int) bool { return keys[i][2] < keys[j][2] })
		for _, k := range keys {
			s.Check(seenWant[k], "zip accepts "+want[k], c.Pos(f.Pos()), "accepted", "an archive that starts with the "+want[k]+" is not recognised as application/zip: none of the zip-based formats, nor plain zip, is reported for it")
		}
		s.Check(extra == "", "zip accepts nothing but PK signatures", c.Pos(f.Pos()), "every accepted header is PK + {3,5,7} + {4,6,8}", "the zip detector accepts a header starting with "+extra)
		short, err := eval([4]int64{0x50, 0x4B, 3, 4}, 3)
		if err != nil {
			s.Und("zip rejects a header shorter than the signature", c.Pos(f.Pos()), err.Error())
		} else {
			s.Check(!short, "zip rejects a header shorter than the signature", c.Pos(f.Pos()), "len 3 rejected", "a three-byte header is accepted as zip")
		}
	}}

var ruleZipWalk = &core.Rule{ID: "R19.5", Min: 5,
	Doc: "entry walker layout: the first name is read at offset 30, the compressed size at offset 18, the next header is searched after size+49 bytes, then a loop with constant trip count 4 (counted or range-over-int form) follows headers: the marker is looked for in at most six entries; every failure of the bounded cursor returns false; each marker test is reached on the success side of what precedes it (cursor moves succeeded, header search found something, no constant-false condition); the in-loop move is `header found + 30`, exists, and is made only where the search result is not -1",
	Run: func(c *core.Ctx, s *core.Sink) {
		tm := tree.Get(c)
		zw, _ := zipWalker(c, tm)
		w := zw.walk
		raw := w.Params[0]
		if zw.anyPrefix != nil {
			s.Check(zw.flagOK, zw.api.Name()+": forwards to the several-markers walker", c.Pos(zw.api.Pos()), "return "+w.Name()+"(raw, {marker}, flag)", "the single-marker entry does not hand its first-entry flag on to the walker unchanged")
			s.Check(zw.anyOK, zw.anyPrefix.Name()+": some marker is a prefix of the entry name", c.Pos(zw.anyPrefix.Pos()), "range over all markers, bytes.HasPrefix(name, marker) => true, else false", "the predicate over the marker list is not `some marker is a prefix of the entry name`")
		}
		// cursor advance calls
		var adv []*ssa.Call
		for _, ci := range core.Calls(w) {
			if call, ok := ci.(*ssa.Call); ok {
				if g := call.Call.StaticCallee(); g != nil && core.InMod(g) && g.Signature.Recv() != nil && len(g.Params) == 2 && core.IsInteger(g.Params[1].Type()) {
					adv = append(adv, call)
				}
			}
		}
		if len(adv) < 3 {
			core.Bail("zip walker: bounded cursor calls not found")
		}
		s.Check(core.IsConstInt(adv[0].Call.Args[1], 30), "first name at offset 30", c.Pos(adv[0].Pos()), "advance(30)", "the first entry name is not read at the local-header name offset 30")
		// every advance result is tested and failure returns false
		for i, a := range adv {
			ok := false
			for _, ref := range *a.Referrers() {
				if iff, isIf := ref.(*ssa.If); isIf {
					fb := iff.Block().Succs[1]
					if r := retOf(fb); r != nil {
						if v, isC := core.ConstBool(r.Results[0]); isC && !v {
							ok = true
						}
					}
				}
			}
			s.Check(ok, fmt.Sprintf("cursor move #%d failure rejects", i+1), c.Pos(a.Pos()), "!advance => false", "a failed (out of range) cursor move does not reject the input")
		}
		// the bounded cursor itself: advance(n) succeeds exactly when 0 <= n <= len(remaining)
		if g := adv[0].Call.StaticCallee(); g != nil {
			np := g.Params[len(g.Params)-1]
			var lens []ssa.Value
			for _, ci := range core.Calls(g) {
				if call, ok := ci.(*ssa.Call); ok && core.IsBuiltin(&call.Call, "len") {
					lens = append(lens, call)
				}
			}
			bad := ""
			for _, tc := range []struct {
				n, l int64
				want bool
			}{{-1, 5, false}, {-7, 5, false}, {0, 5, true}, {1, 5, true}, {5, 5, true}, {6, 5, false}, {0, 0, true}, {1, 0, false}} {
				ev := newEval(c)
				ev.Env = fde.Env{np: constant.MakeInt64(tc.n)}
				for _, l := range lens {
					ev.Env[l] = constant.MakeInt64(tc.l)
				}
				exits, err := ev.Walk(g.Blocks[0], nil, nil, 0)
				if err != nil || len(exits) != 1 || exits[0].Ret == nil {
					bad = fmt.Sprintf("cursor move not evaluable for n=%d len=%d: %v", tc.n, tc.l, err)
					break
				}
				v, ok := exits[0].ValAt(ev, exits[0].Ret.Results[0])
				if !ok || constant.BoolVal(v) != tc.want {
					bad = fmt.Sprintf("advance(%d) on %d remaining bytes reports %v: a negative or too long move must fail (the walker relies on it to stop when no further header is found), any other must succeed", tc.n, tc.l, !tc.want)
					break
				}
			}
			s.Check(bad == "", "bounded cursor: move succeeds iff 0 <= n <= len", c.Pos(g.Pos()), "8 (n, len) order types tabulated", bad)
		}
		// size field
		okSize := false
		for _, ci := range core.Calls(w) {
			cc := ci.Common()
			if f := cc.StaticCallee(); f != nil && f.Name() == "Uint32" && f.Pkg != nil && f.Pkg.Pkg.Path() == "encoding/binary" {
				if sl, ok := cc.Args[len(cc.Args)-1].(*ssa.Slice); ok && sl.X == ssa.Value(raw) && core.IsConstInt(sl.Low, 18) {
					// + 49
					for _, ref := range *ci.Value().Referrers() {
						if bo, ok := ref.(*ssa.BinOp); ok && bo.Op == token.ADD && core.IsConstInt(bo.Y, 49) {
							okSize = true
						}
					}
				}
			}
		}
		s.Check(okSize, "compressed size at offset 18, skip size+49", c.Pos(w.Pos()), "LittleEndian.Uint32(raw[18:]) + 49", "the jump to the second header is not computed from the compressed-size field at offset 18 plus 49")
		// loop trip count
		trips := int64(-1)
		for _, b := range w.Blocks {
			for _, in := range b.Instrs {
				ph, ok := in.(*ssa.Phi)
				if !ok {
					break
				}
				if !core.IsInteger(ph.Type()) {
					continue
				}
				// rotated form (for range K): the counter starts at 0, the latch computes counter+1 and continues while that is < K
				for e, p := range b.Preds {
					if !b.Dominates(p) {
						continue
					}
					add, ok := ph.Edges[e].(*ssa.BinOp)
					if !ok || add.Op != token.ADD || add.X != ssa.Value(ph) || !core.IsConstInt(add.Y, 1) {
						continue
					}
					if liff := core.IfOf(p); liff != nil && p.Succs[0] == b {
						if cmp, ok := liff.Cond.(*ssa.BinOp); ok && cmp.Op == token.LSS && cmp.X == ssa.Value(add) {
							if k, ok := core.ConstInt(cmp.Y); ok && k >= 1 {
								okInit := true
								for e2, p2 := range b.Preds {
									if !b.Dominates(p2) && !core.IsConstInt(ph.Edges[e2], 0) {
										okInit = false
									}
								}
								if okInit {
									trips = k
								}
							}
						}
					}
				}
				iff := core.IfOf(b)
				if iff == nil {
					continue
				}
				bo, ok := iff.Cond.(*ssa.BinOp)
				if !ok || bo.X != ssa.Value(ph) || bo.Op != token.LSS {
					continue
				}
				k, ok := core.ConstInt(bo.Y)
				if !ok {
					continue
				}
				init, step := int64(-1), int64(0)
				for e, p := range b.Preds {
					if b.Dominates(p) {
						if add, ok := ph.Edges[e].(*ssa.BinOp); ok && add.Op == token.ADD && add.X == ssa.Value(ph) {
							step, _ = core.ConstInt(add.Y)
						}
					} else {
						init, _ = core.ConstInt(ph.Edges[e])
					}
				}
				if init == 0 && step == 1 {
					trips = k
				}
			}
		}
		s.Check(trips == 4, "header-following loop runs 4 times", c.Pos(w.Pos()), "for i := 0; i < 4; i++", fmt.Sprintf("the header-following loop has trip count %d; with the first two looks the marker must be searched in six entries", trips))
		// marker tests: HasPrefix(cursor, sig) x3 (first, second, loop), each true => return true
		n := 0
		for _, ci := range core.Calls(w) {
			if zw.markerTest(ci.Common()) {
				n++
				ok := false
				for _, ref := range *ci.Value().Referrers() {
					if iff, isIf := ref.(*ssa.If); isIf {
						if r := retOf(iff.Block().Succs[0]); r != nil {
							if v, isC := core.ConstBool(r.Results[0]); isC && v {
								ok = true
							}
						}
					}
				}
				s.Check(ok, fmt.Sprintf("marker test #%d accepts", n), c.Pos(ci.Pos()), "HasPrefix(name, marker) => true", "a matching entry name does not accept")
			}
		}
		s.Check(n == 3, "marker looked for at the first, the second and the looped entries", c.Pos(w.Pos()), "3 test sites", fmt.Sprintf("%d marker test sites", n))
		// each of those tests is reached on the success side of what precedes it: the cursor moves succeeded, the
		// header search found something, no condition on the way is constantly false
		k := 0
		for _, ci := range core.Calls(w) {
			if !zw.markerTest(ci.Common()) {
				continue
			}
			k++
			bad := ""
			for _, de := range core.DominatingConds(ci.Block()) {
				cond, val := core.StripNot(de.Cond, de.Val)
				switch x := cond.(type) {
				case *ssa.Const:
					if kb, ok := core.ConstBool(x); ok && kb != val {
						bad = fmt.Sprintf("the test lies behind a condition that is constantly %v: it is never reached", kb)
					}
				case *ssa.Call:
					for _, a := range adv {
						if x == a && !val {
							bad = "the test is made on the path where the cursor move failed"
						}
					}
				case *ssa.BinOp:
					if x.Op != token.EQL && x.Op != token.NEQ {
						continue
					}
					other, kv := x.X, x.Y
					if _, isC := x.X.(*ssa.Const); isC {
						other, kv = x.Y, x.X
					}
					if call, ok := other.(*ssa.Call); ok && core.CalleeIs(&call.Call, "bytes", "Index") && core.IsConstInt(kv, -1) && (x.Op == token.EQL) == val {
						bad = "the test is made on the path where no further header was found (-1)"
					}
				}
			}
			s.Check(bad == "", fmt.Sprintf("marker test #%d is reached when the walk succeeded so far", k), c.Pos(ci.Pos()), "moves succeeded, header found", bad+": entries beyond the second are never looked at, a word/, xl/ or ppt/ part there goes unnoticed")
		}
		// a header found by the search: its entry name lies 30 bytes further on, and only a header that was found
		// is followed (the search answers -1 otherwise, and -1+30 is a valid move)
		nFollow := 0
		for _, a := range adv {
			bo, ok := a.Call.Args[1].(*ssa.BinOp)
			if !ok {
				continue
			}
			srch, kv := bo.X, bo.Y
			if _, isC := bo.X.(*ssa.Const); isC {
				srch, kv = bo.Y, bo.X
			}
			call, ok := srch.(*ssa.Call)
			if !ok || !core.CalleeIs(&call.Call, "bytes", "Index") {
				continue
			}
			nFollow++
			kk, _ := core.ConstInt(kv)
			s.Check(bo.Op == token.ADD && core.IsConstInt(kv, 30), "looped entries: name at header + 30", c.Pos(a.Pos()), "advance(found + 30)", fmt.Sprintf("the cursor is moved to the header found %s %d: the entry name of a local file header starts 30 bytes behind its signature, so the marker is compared with the wrong bytes", bo.Op, kk))
			found := false
			for _, de := range core.DominatingConds(a.Block()) {
				cond, val := core.StripNot(de.Cond, de.Val)
				cmp, ok := cond.(*ssa.BinOp)
				if !ok {
					continue
				}
				switch {
				case cmp.X == ssa.Value(call) && core.IsConstInt(cmp.Y, -1) && ((cmp.Op == token.EQL && !val) || (cmp.Op == token.NEQ && val)),
					cmp.X == ssa.Value(call) && core.IsConstInt(cmp.Y, 0) && ((cmp.Op == token.LSS && !val) || (cmp.Op == token.GEQ && val)):
					found = true
				}
			}
			s.Check(found, "looped entries: only a header that was found is followed", c.Pos(a.Pos()), "search != -1 on the way", "the cursor is moved by the search result plus 30 although the search may have answered -1 (no further header): the walk goes on 29 bytes further and compares the marker with file data instead of stopping")
		}
		s.Check(nFollow >= 1, "looped entries: the cursor is moved to the header found", c.Pos(w.Pos()), fmt.Sprint(nFollow), "no cursor move by `header found + 30` in the entry walker: the loop compares the marker with the same position every time, entries beyond the second are never looked at")
		// next-header search: bytes.Index of the local-header signature over an open-ended tail (no upper bound)
		nIdx := 0
		for _, ci := range core.Calls(w) {
			cc := ci.Common()
			switch {
			case core.CalleeIs(cc, "bytes", "Index"):
				nIdx++
				needle, okN := tree.ConstBytes(cc.Args[1])
				open := true
				if sl, ok := cc.Args[0].(*ssa.Slice); ok && sl.High != nil {
					open = false
				}
				s.Check(okN && string(needle) == "PK\x03\x04" && open, fmt.Sprintf("header search #%d", nIdx), c.Pos(ci.Pos()), "bytes.Index(tail, \"PK\\x03\\x04\") over the whole remaining header",
					"the search for the next local file header is bounded or looks for something other than PK\\x03\\x04: entries behind a large member would not be reached")
			case core.CalleeIs(cc, "bytes", "HasPrefix"), core.IsBuiltin(cc, "len"):
			default:
				g := cc.StaticCallee()
				okStep := false
				if g != nil && g.Name() == "Uint32" && g.Pkg != nil && g.Pkg.Pkg.Path() == "encoding/binary" {
					okStep = true
				}
				for _, a := range adv {
					if ci == ssa.CallInstruction(a) {
						okStep = true
					}
				}
				// a predicate helper (bool result, no access to the cursor) cannot move the walk
				if g != nil && core.InMod(g) && g.Signature.Results().Len() == 1 {
					if bt, ok := g.Signature.Results().At(0).Type().Underlying().(*types.Basic); ok && bt.Kind() == types.Bool {
						cursorArg := false
						for _, a := range cc.Args {
							if _, isAlloc := a.(*ssa.Alloc); isAlloc {
								cursorArg = true
							}
						}
						if !cursorArg {
							okStep = true
						}
					}
				}
				// a library search whose callback only reads (the cursor it captures is not written, nothing else is
				// called but byte comparisons) cannot move the walk either
				if isStdGeneric(cc, "slices.ContainsFunc") || isStdGeneric(cc, "slices.IndexFunc") {
					if mc, ok := cc.Args[len(cc.Args)-1].(*ssa.MakeClosure); ok {
						if cb, ok := mc.Fn.(*ssa.Function); ok && readOnlyCallback(cb) {
							okStep = true
						}
					}
				}
				if !okStep {
					name := "dynamic call"
					if g != nil {
						name = g.Name()
					}
					s.Bad("unrecognised step in the entry walk: "+name, c.Pos(ci.Pos()), "the entry walker calls "+name+", which is not one of its layout steps (cursor move, name test, header search, size field): the walk over the first six entries cannot be confirmed")
				}
			}
		}
		s.Check(nIdx == 2, "two header searches (second entry, looped entries)", c.Pos(w.Pos()), "2", fmt.Sprintf("%d header searches", nIdx))
		// all other returns are false
		for _, r := range core.Returns(w) {
			if v, ok := core.ConstBool(r.Results[0]); !ok {
				s.Bad("walker "+returnOrdinal(r), c.Pos(r.Pos()), "non-constant verdict in the entry walker")
			} else if v {
				under := false
				for _, de := range core.DominatingConds(r.Block()) {
					cond, val := core.StripNot(de.Cond, de.Val)
					if call, ok := cond.(*ssa.Call); ok && val && zw.markerTest(&call.Call) {
						under = true
					}
				}
				s.Check(under, "walker "+returnOrdinal(r), c.Pos(r.Pos()), "true only under a marker match", "the walker accepts without having matched the marker against an entry name: archives without the marker would not stay plain application/zip")
			}
		}
	}}

func shortMime(m string) string {
	if i := strings.LastIndexByte(m, '.'); i >= 0 && strings.HasPrefix(m, "application/vnd.openxml") {
		return m[i+1:]
	}
	if i := strings.LastIndexByte(m, '/'); i >= 0 {
		return m[i+1:]
	}
	return m
}

// readOnlyCallback: the function stores nothing outside its own locals and calls only builtins and bytes comparisons.
func readOnlyCallback(cb *ssa.Function) bool {
	for _, b := range cb.Blocks {
		for _, in := range b.Instrs {
			switch x := in.(type) {
			case *ssa.Store:
				if al, ok := x.Addr.(*ssa.Alloc); !ok || al.Parent() != cb {
					return false
				}
			case *ssa.MapUpdate, *ssa.Send, *ssa.Go, *ssa.Defer:
				return false
			case *ssa.Call:
				if _, isB := x.Call.Value.(*ssa.Builtin); isB {
					continue
				}
				g := x.Call.StaticCallee()
				if g == nil || g.Pkg == nil || g.Pkg.Pkg.Path() != "bytes" {
					return false
				}
			}
		}
	}
	return true
}

// capturedParam: fv is bound to a cell of the enclosing function whose only
// store is a parameter of that function; that parameter.
func capturedParam(fv *ssa.FreeVar) ssa.Value {
	g := fv.Parent()
	parent := g.Parent()
	if parent == nil {
		return nil
	}
	idx := -1
	for i, x := range g.FreeVars {
		if x == fv {
			idx = i
		}
	}
	for _, ref := range *fv.Referrers() {
		if st, ok := ref.(*ssa.Store); ok && st.Addr == ssa.Value(fv) {
			return nil
		}
	}
	for _, b := range parent.Blocks {
		for _, in := range b.Instrs {
			mc, ok := in.(*ssa.MakeClosure)
			if !ok || mc.Fn != ssa.Value(g) || idx < 0 || idx >= len(mc.Bindings) {
				continue
			}
			cell, ok := mc.Bindings[idx].(*ssa.Alloc)
			if !ok {
				return nil
			}
			var val ssa.Value
			n := 0
			for _, ref := range *cell.Referrers() {
				if st, ok := ref.(*ssa.Store); ok {
					if st.Addr != ssa.Value(cell) {
						return nil
					}
					val = st.Val
					n++
				}
			}
			if n == 1 {
				if _, isP := val.(*ssa.Parameter); isP {
					return val
				}
			}
		}
	}
	return nil
}
