package rules

import (
	"bytes"
	"fmt"
	"go/ast"
	"go/constant"
	"go/token"
	"go/types"
	"sort"
	"strings"

	"golang.org/x/tools/go/packages"
	"golang.org/x/tools/go/ssa"

	"mtverif/internal/core"
	"mtverif/internal/fde"
	"mtverif/internal/tree"
)

// jsonHelperFn: the function of package magic that the application/json
// node's detector calls and that calls the scanner entry.
func jsonHelperFn(c *core.Ctx) (*ssa.Function, *ssa.Call) {
	m := getJSON(c)
	tm := tree.Get(c)
	var js *tree.Node
	for _, n := range tm.Find("application/json") {
		if n.Ext == ".json" {
			js = n
		}
	}
	if js == nil || js.DetFn == nil {
		core.Bail("application/json node or its detector not found")
	}
	var helper *ssa.Function
	var visit func(f *ssa.Function, depth int)
	visit = func(f *ssa.Function, depth int) {
		if depth > 3 || helper != nil {
			return
		}
		for _, ci := range core.Calls(f) {
			if ci.Common().StaticCallee() == m.parse {
				helper = f
				return
			}
		}
		for _, ci := range core.Calls(f) {
			if g := ci.Common().StaticCallee(); g != nil && core.InMod(g) && g.Blocks != nil {
				visit(g, depth+1)
			}
		}
	}
	visit(js.DetFn, 0)
	if helper == nil {
		core.Bail("the JSON detector does not reach the scanner entry")
	}
	for _, ci := range core.Calls(helper) {
		if ci.Common().StaticCallee() == m.parse {
			return helper, ci.(*ssa.Call)
		}
	}
	return helper, nil
}

// helperRole is one configuration input of the JSON helper: a parameter of it,
// or a variable captured by it when the helper is the closure a constructor
// returns (jsonDetector(query, mask)).
type helperRole struct {
	f     *ssa.Function
	param int // index in f.Params, or -1
	free  int // index in f.FreeVars, or -1
	field int // >= 0: the role is this field of the (struct-typed) parameter: an options struct
}

func (r helperRole) valid() bool { return r.param >= 0 || r.free >= 0 }

// is: v is the role's value inside the helper (the parameter, or a load of the captured variable).
func (r helperRole) is(v ssa.Value) bool {
	if r.param >= 0 && r.field >= 0 {
		p := r.f.Params[r.param]
		if fv, ok := v.(*ssa.Field); ok && fv.X == ssa.Value(p) && fv.Field == r.field {
			return true
		}
		// the parameter spilled to its local: a load of &local.field, the local's only store being the parameter
		if base, fld, ok := core.LoadOfField(v); ok && fld == r.field {
			if al, ok := base.(*ssa.Alloc); ok {
				if st := onlyStore(al); st != nil && st.Val == ssa.Value(p) {
					return true
				}
			}
		}
		return false
	}
	if r.param >= 0 {
		return v == ssa.Value(r.f.Params[r.param])
	}
	if u, ok := v.(*ssa.UnOp); ok && u.Op == token.MUL && r.free >= 0 {
		return u.X == ssa.Value(r.f.FreeVars[r.free]) && writeOnceCapture(r.f, r.free)
	}
	return false
}

// writeOnceCapture: the captured cell is never stored to inside the closure.
func writeOnceCapture(f *ssa.Function, i int) bool {
	for _, ref := range *f.FreeVars[i].Referrers() {
		if st, ok := ref.(*ssa.Store); ok && st.Addr == ssa.Value(f.FreeVars[i]) {
			return false
		}
		if _, ok := ref.(*ssa.UnOp); !ok {
			if _, ok := ref.(*ssa.DebugRef); !ok {
				return false
			}
		}
	}
	return true
}

// helperRoles finds the query (string) and mask (int) inputs of the JSON helper.
func helperRoles(f *ssa.Function, pcall *ssa.Call) (q, mask helperRole) {
	q, mask = helperRole{f, -1, -1, -1}, helperRole{f, -1, -1, -1}
	// the query input is what reaches the scanner entry's first argument (a name, or a value of an enumeration)
	var qArg ssa.Value
	if pcall != nil && len(pcall.Call.Args) > 0 {
		qArg = pcall.Call.Args[0]
	}
	for i, p := range f.Params {
		if b, ok := p.Type().Underlying().(*types.Basic); ok && b.Kind() == types.Int && qArg != ssa.Value(p) {
			mask.param = i
		}
		if core.IsString(p.Type()) || (qArg != nil && qArg == ssa.Value(p)) {
			q.param = i
		}
	}
	// an options struct: the field that reaches the scanner entry is the query, an int field the mask
	for i, p := range f.Params {
		st, ok := p.Type().Underlying().(*types.Struct)
		if !ok || q.param >= 0 && mask.param >= 0 {
			continue
		}
		for fi := 0; fi < st.NumFields(); fi++ {
			cand := helperRole{f, i, -1, fi}
			if q.param < 0 && qArg != nil && cand.is(qArg) {
				q = cand
				continue
			}
			if b, ok := st.Field(fi).Type().Underlying().(*types.Basic); ok && b.Kind() == types.Int && mask.param < 0 {
				mask = cand
			}
		}
	}
	for i, fv := range f.FreeVars {
		pt, ok := fv.Type().Underlying().(*types.Pointer)
		if !ok {
			continue
		}
		if b, ok := pt.Elem().Underlying().(*types.Basic); ok && b.Kind() == types.Int && mask.param < 0 {
			mask.free = i
		}
		if core.IsString(pt.Elem()) && q.param < 0 {
			q.free = i
		}
	}
	return
}

// constOf: the constant the role has for the detector of node n: the argument
// of the detector's call of the helper, or, when the detector is the helper
// closure itself, the constructor argument the captured variable was bound to.
// fwd: (header, limit) reach the helper unchanged. pos is the binding site.
func (r helperRole) constOf(n *tree.Node) (v interface{}, fwd bool, pos token.Pos, ok bool) {
	f := r.f
	if n.DetFn == f {
		if r.free < 0 {
			return nil, false, token.NoPos, false
		}
		for _, ref := range *f.FreeVars[r.free].Referrers() {
			if u, isLd := ref.(*ssa.UnOp); isLd && r.is(u) {
				pos = n.Pos
				if n.DetCtor != nil {
					pos = n.DetCtor.Pos()
				}
				x, okF := detEnv(n).fold(u, 0)
				return x, true, pos, okF
			}
		}
		return nil, false, token.NoPos, false
	}
	if r.param < 0 {
		return nil, false, token.NoPos, false
	}
	for _, ci := range core.Calls(n.DetFn) {
		if ci.Common().StaticCallee() != f {
			continue
		}
		args := ci.Common().Args
		fwd = len(n.DetFn.Params) >= 2 && args[0] == ssa.Value(n.DetFn.Params[0]) && args[1] == ssa.Value(n.DetFn.Params[1])
		if r.field >= 0 {
			// the argument is a struct literal: the constant stored in this field (once), zero value when unset
			ld, ok := args[r.param].(*ssa.UnOp)
			if !ok || ld.Op != token.MUL {
				return nil, fwd, ci.Pos(), false
			}
			al, ok := ld.X.(*ssa.Alloc)
			if !ok {
				return nil, fwd, ci.Pos(), false
			}
			var val ssa.Value
			for _, ref := range *al.Referrers() {
				fa, ok := ref.(*ssa.FieldAddr)
				if !ok {
					if _, isLd := ref.(*ssa.UnOp); isLd {
						continue
					}
					if _, isDbg := ref.(*ssa.DebugRef); isDbg {
						continue
					}
					return nil, fwd, ci.Pos(), false
				}
				if fa.Field != r.field {
					continue
				}
				for _, r2 := range *fa.Referrers() {
					st, isSt := r2.(*ssa.Store)
					if !isSt || val != nil {
						return nil, fwd, ci.Pos(), false
					}
					val = st.Val
				}
			}
			if val == nil {
				return nil, fwd, ci.Pos(), false
			}
			if k, isK := core.ConstInt(val); isK {
				return k, fwd, ci.Pos(), true
			}
			if k, isK := core.ConstString(val); isK {
				return k, fwd, ci.Pos(), true
			}
			return nil, fwd, ci.Pos(), false
		}
		if k, isK := core.ConstInt(args[r.param]); isK {
			return k, fwd, ci.Pos(), true
		}
		if k, isK := core.ConstString(args[r.param]); isK {
			return k, fwd, ci.Pos(), true
		}
		return nil, fwd, ci.Pos(), false
	}
	return nil, false, token.NoPos, false
}

// dependsOn: v is computed from Extract #idx of call.
func dependsOn(v ssa.Value, call *ssa.Call, idx int) bool {
	seen := map[ssa.Value]bool{}
	var rec func(x ssa.Value) bool
	rec = func(x ssa.Value) bool {
		if x == nil || seen[x] {
			return false
		}
		seen[x] = true
		if ex, ok := x.(*ssa.Extract); ok && ex.Tuple == ssa.Value(call) && ex.Index == idx {
			return true
		}
		switch x.(type) {
		case *ssa.BinOp, *ssa.UnOp, *ssa.Phi, *ssa.Convert, *ssa.ChangeType:
		default:
			return false
		}
		for _, op := range x.(ssa.Instruction).Operands(nil) {
			if *op != nil && rec(*op) {
				return true
			}
		}
		return false
	}
	return rec(v)
}

// queryKeyOf: the table key a folded query argument stands for: the name itself,
// or "#n" for the n-th value of an enumeration.
func queryKeyOf(v interface{}) (string, bool) {
	switch x := v.(type) {
	case string:
		return x, true
	case int64:
		return fmt.Sprintf("#%d", x), true
	}
	return "", false
}

func constValue(k constant.Value) interface{} {
	switch k.Kind() {
	case constant.String:
		return constant.StringVal(k)
	case constant.Int:
		i, _ := constant.Int64Val(k)
		return i
	}
	return nil
}

func isExtract(v ssa.Value) bool {
	_, ok := v.(*ssa.Extract)
	return ok
}

type orderType struct {
	name      string
	limit, ln int64
	whole     bool
}

var orderTypes = []orderType{
	{"limit=0,len=0", 0, 0, true}, {"limit=0,len=7", 0, 7, true}, {"len<limit", 5, 4, true},
	{"len==limit", 5, 5, false}, {"len>limit", 5, 6, false}, {"len=limit-1 (large)", 3072, 3071, true}, {"len==limit (large)", 3072, 3072, false},
}

func limitParam(f *ssa.Function) *ssa.Parameter {
	for _, p := range f.Params {
		if b, ok := p.Type().Underlying().(*types.Basic); ok && b.Kind() == types.Uint32 {
			return p
		}
	}
	return nil
}

func lenCallsOf(f *ssa.Function, v ssa.Value) []ssa.Value {
	var out []ssa.Value
	for _, ci := range core.Calls(f) {
		if call, ok := ci.(*ssa.Call); ok && core.IsBuiltin(&call.Call, "len") && call.Call.Args[0] == v {
			out = append(out, call)
		}
	}
	return out
}

// R08.1 + R09.2
var ruleTruncTable = &core.Rule{ID: "R08.1", Min: 7,
	Doc: "truncation table of the JSON helper: over the order types of (limit = 0?, len vs limit) the whole-document criterion (parsed == len) is selected iff limit = 0 or len < limit, otherwise the truncated criterion (inspected == len and len > 0); verdicts are equalities with the input length; nine sample points (limit, len, parsed, inspected) of the verdict table are evaluated, the one-byte header included",
	Run: func(c *core.Ctx, s *core.Sink) {
		f, pcall := jsonHelperFn(c)
		lim := limitParam(f)
		if lim == nil || pcall == nil {
			core.Bail("JSON helper without a limit parameter")
		}
		raw := pcall.Call.Args[len(pcall.Call.Args)-1]
		s.Check(raw == ssa.Value(f.Params[0]), "scanner runs on the unmodified header", c.Pos(pcall.Pos()), "argument is the parameter", "the scanner is not given the helper's unmodified header")
		lens := lenCallsOf(f, f.Params[0])
		// where the verdict is computed: in the helper after the scanner call, or in a verdict function the helper
		// returns, which receives the header length, the limit and the two scanner lengths
		vf, start := f, pcall.Block()
		var limV ssa.Value = lim
		isParsed := func(v ssa.Value) bool { return dependsOn(v, pcall, 0) }
		isInsp := func(v ssa.Value) bool { return dependsOn(v, pcall, 1) }
		for _, r := range core.Returns(f) {
			vc, ok := r.Results[0].(*ssa.Call)
			if !ok {
				continue
			}
			h := vc.Call.StaticCallee()
			if h == nil || !core.InMod(h) || h.Blocks == nil || len(h.Params) != len(vc.Call.Args) {
				continue
			}
			var hLen, hLim, hParsed, hInsp ssa.Value
			for i, a := range vc.Call.Args {
				switch {
				case a == ssa.Value(lim):
					hLim = h.Params[i]
				case dependsOn(a, pcall, 0) && isExtract(a):
					hParsed = h.Params[i]
				case dependsOn(a, pcall, 1) && isExtract(a):
					hInsp = h.Params[i]
				default:
					for _, l := range lens {
						if a == l {
							hLen = h.Params[i]
						}
					}
				}
			}
			if hLen != nil && hLim != nil && hParsed != nil && hInsp != nil {
				vf, start, limV, lens = h, h.Blocks[0], hLim, []ssa.Value{hLen}
				isParsed = func(v ssa.Value) bool { return mentionsValue(v, hParsed) }
				isInsp = func(v ssa.Value) bool { return mentionsValue(v, hInsp) }
				s.OK("verdict function receives (len(header), limit, parsed, inspected)", c.Pos(vc.Pos()), h.Name())
			}
		}
		for _, ot := range orderTypes {
			key := "order type " + ot.name
			ev := newEval(c)
			ev.Env = fde.Env{limV: constant.MakeInt64(ot.limit)}
			for _, l := range lens {
				ev.Env[l] = constant.MakeInt64(ot.ln)
			}
			exits, err := ev.Walk(start, nil, nil, 8)
			if err != nil {
				s.Und(key, c.Pos(f.Pos()), err.Error())
				continue
			}
			bad := ""
			nCrit := 0
			for _, x := range exits {
				if x.Ret == nil {
					continue
				}
				v := x.Ret.Results[0]
				if ph, ok := v.(*ssa.Phi); ok {
					for k, p := range ph.Block().Preds {
						if p == x.From {
							v = ph.Edges[k]
						}
					}
				}
				if k, ok := core.ConstBool(v); ok {
					if k {
						bad = "a constant true verdict: acceptance does not depend on how much of the input parsed"
					}
					continue
				}
				nCrit++
				usesParsed, usesInsp := isParsed(v), isInsp(v)
				// also conditions on the path (e.g. inspected == len controlling a later len > 0)
				for _, blk := range x.Path {
					if iff := core.IfOf(blk); iff != nil {
						if isParsed(iff.Cond) {
							usesParsed = true
						}
						if isInsp(iff.Cond) {
							usesInsp = true
						}
					}
				}
				switch {
				case ot.whole && (!usesParsed || usesInsp):
					bad = "the whole input was examined but the verdict is not `parsed == len`: a document that fails to parse to its end would be accepted (or inspected bytes are consulted)"
				case !ot.whole && (!usesInsp || usesParsed):
					bad = "the input is a truncated header but the verdict is not `inspected == len`: a document cut by the limit would be rejected (or the parsed length is consulted)"
				}
			}
			if nCrit == 0 && bad == "" {
				bad = "no verdict depends on the scanner's lengths"
			}
			s.Check(bad == "", key, c.Pos(f.Pos()), map[bool]string{true: "criterion parsed == len", false: "criterion inspected == len"}[ot.whole], bad)
		}
		// sample points of the table, the shortest header included: (limit, len, parsed, inspected) -> verdict, with
		// the query and first-token gates left open (some path must accept / no path may accept)
		if vf == f {
			pe, ie := extractOf(pcall, 0), extractOf(pcall, 1)
			for _, tc := range []struct {
				lim, ln, parsed, insp int64
				want                  bool
			}{{0, 5, 5, 5, true}, {0, 5, 4, 5, false}, {10, 5, 5, 5, true}, {10, 5, 3, 5, false}, {5, 5, 2, 5, true}, {5, 5, 5, 4, false}, {1, 1, 0, 1, true}, {1, 1, 1, 1, true}, {0, 1, 1, 1, true}} {
				key := fmt.Sprintf("sample limit=%d len=%d parsed=%d inspected=%d", tc.lim, tc.ln, tc.parsed, tc.insp)
				if pe == nil || ie == nil {
					break
				}
				ev := newEval(c)
				ev.Env = fde.Env{limV: constant.MakeInt64(tc.lim), pe: constant.MakeInt64(tc.parsed), ie: constant.MakeInt64(tc.insp)}
				for _, l := range lens {
					ev.Env[l] = constant.MakeInt64(tc.ln)
				}
				exits, err := ev.Walk(start, nil, nil, 8)
				if err != nil {
					s.Und(key, c.Pos(f.Pos()), err.Error())
					continue
				}
				accepts, open := false, false
				for _, x := range exits {
					if x.Ret == nil {
						continue
					}
					v, ok := x.ValAt(ev, x.Ret.Results[0])
					switch {
					case !ok || v.Kind() != constant.Bool:
						open = true
					case constant.BoolVal(v):
						accepts = true
					}
				}
				switch {
				case open:
					s.Und(key, c.Pos(f.Pos()), "a verdict on this path does not evaluate")
				case tc.want:
					s.Check(accepts, key, c.Pos(f.Pos()), "accepted when the gates pass", fmt.Sprintf("a header of %d byte(s) under limit %d of which the scanner parsed %d and inspected %d is rejected on every path; it is a well-formed document or a prefix of one", tc.ln, tc.lim, tc.parsed, tc.insp))
				default:
					s.Check(!accepts, key, c.Pos(f.Pos()), "rejected", fmt.Sprintf("a header of %d byte(s) under limit %d of which the scanner parsed %d and inspected %d is accepted", tc.ln, tc.lim, tc.parsed, tc.insp))
				}
			}
		}
		// R09.2: equality, not >=, with len(raw)
		isLen := func(v ssa.Value) bool {
			for _, l := range lens {
				if v == l {
					return true
				}
			}
			return false
		}
		n := 0
		for _, b := range vf.Blocks {
			for _, in := range b.Instrs {
				bo, ok := in.(*ssa.BinOp)
				if !ok {
					continue
				}
				switch bo.Op {
				case token.EQL, token.NEQ, token.LSS, token.LEQ, token.GTR, token.GEQ:
				default:
					continue
				}
				for idx, is := range []func(ssa.Value) bool{isParsed, isInsp} {
					direct := func(v ssa.Value) bool {
						if vf == f {
							return isExtract(v) && is(v)
						}
						_, isP := v.(*ssa.Parameter)
						return isP && is(v)
					}
					if direct(bo.X) || direct(bo.Y) {
						n++
						name := []string{"parsed", "inspected"}[idx]
						other := bo.Y
						if direct(bo.Y) {
							other = bo.X
						}
						s.Check(bo.Op == token.EQL && isLen(other), fmt.Sprintf("verdict on %s is an equality with len(header)", name), c.Pos(bo.Pos()), name+" == len(raw)",
							fmt.Sprintf("the %s length is compared by %s against %s: only equality with the full input length means `everything was consumed`", name, bo.Op, other))
					}
				}
			}
		}
		s.Check(n >= 2, "both criteria present", c.Pos(f.Pos()), fmt.Sprint(n), "the helper does not compare both scanner lengths")
	}}

// R09.4
var ruleTokenGate = &core.Rule{ID: "R09.4", Min: 5,
	Doc: "first-token gate: every JSON-family detector passes a constant token mask within {object, array} (sub-types: object only) and its own query; the helper rejects when firstToken & mask == 0 and when the query is not satisfied; the scanner assigns the object/array token codes on '{' / '['",
	Run: func(c *core.Ctx, s *core.Sink) {
		f, pcall := jsonHelperFn(c)
		m := getJSON(c)
		tm := tree.Get(c)
		jp := c.ByPath[core.PkgJSON].Types.Scope()
		constOf := func(name string) (int64, bool) {
			k, ok := jp.Lookup(name).(*types.Const)
			if !ok {
				return 0, false
			}
			v, ok := constant.Int64Val(k.Val())
			return v, ok
		}
		tObj, ok1 := constOf("TokObject")
		tArr, ok2 := constOf("TokArray")
		if !ok1 || !ok2 {
			core.Bail("token constants TokObject / TokArray not found in the scanner package")
		}
		// scanner assigns them on '{' and '[': tabulate the dispatch of the guard function
		disp := tabulateDispatch(c, m, m.guardFn)
		s.Check(disp['['].token == tArr && disp['{'].token == tObj, "token codes of '[' and '{'", c.Pos(m.guardFn.Pos()), fmt.Sprintf("'['->%d '{'->%d", tArr, tObj), fmt.Sprintf("the scanner records token %d for '[' and %d for '{' (expected %d, %d)", disp['['].token, disp['{'].token, tArr, tObj))
		// mask and query inputs of the helper (parameters, or variables captured from its constructor)
		qR, maskR := helperRoles(f, pcall)
		if !qR.valid() {
			core.Bail("JSON helper has no query input")
		}
		if !maskR.valid() {
			// no mask input at all: either the first token is masked with something else (not modelled) or not masked
			masked := false
			for _, b := range f.Blocks {
				for _, in := range b.Instrs {
					if and, ok := in.(*ssa.BinOp); ok && and.Op == token.AND {
						for _, o := range []ssa.Value{and.X, and.Y} {
							if ex, ok := o.(*ssa.Extract); ok && ex.Tuple == ssa.Value(pcall) && ex.Index == 2 {
								masked = true
							}
						}
					}
				}
			}
			if masked {
				core.Bail("JSON helper has no mask input; its first-token test is not modelled")
			}
			s.Bad("helper rejects when the first token misses the mask", c.Pos(f.Pos()), "the helper has no token mask and never masks the scanner's first token: a bare string or number would be reported as JSON")
			return
		}
		s.Check(qR.is(pcall.Call.Args[0]), "helper forwards its query to the scanner", c.Pos(pcall.Pos()), "Parse(q, raw)", "the query given to the scanner is not the helper's parameter")
		// gate: a rejecting return dominated by (firstToken & mask) == 0 and by !querySatisfied
		gateTok, gateQ := false, false
		for _, r := range core.Returns(f) {
			if v, ok := core.ConstBool(r.Results[0]); !ok || v {
				continue
			}
			for _, p := range r.Block().Preds {
				for _, de := range append(core.DominatingConds(p), edgeCond(p, r.Block())...) {
					cond, val := core.StripNot(de.Cond, de.Val)
					if bo, ok := cond.(*ssa.BinOp); ok && core.IsConstInt(bo.Y, 0) && ((bo.Op == token.EQL && val) || (bo.Op == token.NEQ && !val)) {
						if and, ok := bo.X.(*ssa.BinOp); ok && and.Op == token.AND {
							a, b := and.X, and.Y
							if maskR.is(b) {
								a, b = b, a
							}
							if ex, ok := b.(*ssa.Extract); ok && maskR.is(a) && ex.Tuple == ssa.Value(pcall) && ex.Index == 2 {
								gateTok = true
							}
						}
					}
					if ex, ok := cond.(*ssa.Extract); ok && ex.Tuple == ssa.Value(pcall) && ex.Index == 3 && !val {
						gateQ = true
					}
				}
			}
		}
		s.Check(gateTok, "helper rejects when the first token misses the mask", c.Pos(f.Pos()), "firstToken & mask == 0 => false", "no rejecting return guarded by firstToken & mask == 0: a bare string or number would be reported as JSON")
		s.Check(gateQ, "helper rejects when the query is not satisfied", c.Pos(f.Pos()), "!querySatisfied => false", "no rejecting return guarded by the query result: every JSON object would be reported as the sub-type")
		// the verdict blocks must be dominated by both gates: every non-constant return is reached only through the passing edges
		for _, r := range core.Returns(f) {
			if _, ok := core.ConstBool(r.Results[0]); ok {
				continue
			}
			passTok, passQ := false, false
			for _, de := range core.DominatingConds(r.Block()) {
				cond, val := core.StripNot(de.Cond, de.Val)
				if bo, ok := cond.(*ssa.BinOp); ok && core.IsConstInt(bo.Y, 0) {
					if and, ok := bo.X.(*ssa.BinOp); ok && and.Op == token.AND && ((bo.Op == token.EQL && !val) || (bo.Op == token.NEQ && val)) {
						passTok = true
					}
				}
				if ex, ok := cond.(*ssa.Extract); ok && ex.Tuple == ssa.Value(pcall) && ex.Index == 3 && val {
					passQ = true
				}
			}
			s.Check(passTok && passQ, "verdict "+returnOrdinal(r)+" lies behind both gates", c.Pos(r.Pos()), "dominated by token and query gates", "an accepting verdict can be reached without passing the first-token gate and the query gate")
		}
		// callers
		var js *tree.Node
		for _, n := range tm.Find("application/json") {
			if n.Ext == ".json" {
				js = n
			}
		}
		queries := jsonQueries(c)
		fam := append([]*tree.Node{js}, js.Children...)
		for _, n := range fam {
			if n.DetFn == nil {
				continue
			}
			key := "detector of " + n.Name
			mv, fwd1, pos, okm0 := maskR.constOf(n)
			qv, fwd2, _, okq0 := qR.constOf(n)
			if !pos.IsValid() {
				s.Bad(key, c.Pos(n.DetFn.Pos()), "a node of the JSON family does not use the JSON helper")
				continue
			}
			mask, okm := mv.(int64)
			q, okq := queryKeyOf(qv)
			if !okm0 || !okq0 || !okm || !okq || !fwd1 || !fwd2 {
				s.Bad(key, c.Pos(pos), "mask / query are not constants or (header, limit) are not forwarded unchanged")
				continue
			}
			wantMask := tObj
			if n == js {
				wantMask = tObj | tArr
			}
			qs, known := queries[q]
			if _, total := c.Memo["jsonQuerySel"]; total && !known {
				known = true // the selection function yields no query for every other name
			}
			s.Check(mask == wantMask, key+": token mask", c.Pos(pos), fmt.Sprintf("mask %d", mask), fmt.Sprintf("token mask %d, expected %d (%s)", mask, wantMask, map[bool]string{true: "object or array", false: "object only"}[n == js]))
			if n == js {
				s.Check(known && len(qs) == 0, key+": no query", c.Pos(pos), "empty query "+q, "plain application/json is decided with a non-empty query")
			} else {
				s.Check(known && len(qs) > 0, key+": own query", c.Pos(pos), "query "+q, "a JSON sub-type is decided with an empty or unknown query: every object would match")
			}
		}
		// the return of each detector is the helper's verdict
		for _, n := range fam {
			if n.DetFn == nil {
				continue
			}
			if n.DetFn == f {
				s.OK("detector of "+n.Name+" returns the helper's verdict", c.Pos(n.Pos), "the detector is the helper closure itself")
				continue
			}
			for _, r := range core.Returns(n.DetFn) {
				call, ok := r.Results[0].(*ssa.Call)
				s.Check(ok && call.Call.StaticCallee() == f, "detector of "+n.Name+" returns the helper's verdict", c.Pos(r.Pos()), "return helper(...)", "the detector alters the helper's verdict")
			}
		}
	}}

type dispatchOutcome struct {
	kind   string // "fail", "success", "loop", "call", "mixed", "other"
	callee *ssa.Function
	token  int64
}

// tabulateDispatch tabulates the guard function's switch on the first byte of a
// value: which family function is called and which token code is recorded.
func tabulateDispatch(c *core.Ctx, m *jsonModel, f *ssa.Function) [256]dispatchOutcome {
	var out [256]dispatchOutcome
	// the dispatch load: first load of b[idx] in f whose referrers are comparisons with constants
	findLoad := func(h *ssa.Function) *ssa.UnOp {
		for _, b := range h.Blocks {
			for _, in := range b.Instrs {
				u, ok := in.(*ssa.UnOp)
				if !ok || u.Op != token.MUL {
					continue
				}
				if ia, ok := u.X.(*ssa.IndexAddr); ok && core.IsByteSlice(ia.X.Type()) {
					return u
				}
			}
		}
		return nil
	}
	load := findLoad(f)
	tokIdx := -1
	if load == nil {
		// the dispatch may sit in a wrapper of the family that f calls; the token is then the wrapper result that f
		// records in the scanner state
		for _, ci := range core.Calls(f) {
			call, ok := ci.(*ssa.Call)
			if !ok || load != nil {
				continue
			}
			w := call.Call.StaticCallee()
			if w == nil || !m.wrap[w] || findLoad(w) == nil {
				continue
			}
			for _, ref := range *call.Referrers() {
				ex, ok := ref.(*ssa.Extract)
				if !ok {
					continue
				}
				for _, r2 := range *ex.Referrers() {
					if st, ok := r2.(*ssa.Store); ok && st.Val == ssa.Value(ex) {
						if fa, ok := st.Addr.(*ssa.FieldAddr); ok && m.isState(fa.X.Type()) {
							tokIdx = ex.Index
						}
					}
				}
			}
			load = findLoad(w)
		}
	}
	if load == nil {
		core.Bail("no byte dispatch in %s", f.Name())
	}
	// token phi: int phi whose edges are constants, in a block reached by all dispatch arms
	for b := 0; b < 256; b++ {
		ev := newEval(c)
		ev.Env = fde.Env{load: constant.MakeInt64(int64(b))}
		var callee *ssa.Function
		exits, err := ev.Walk(load.Block(), nil, func(blk *ssa.BasicBlock) bool {
			for _, in := range blk.Instrs {
				if call, ok := in.(*ssa.Call); ok {
					if g := call.Call.StaticCallee(); g != nil && m.fam[g] && intParamIndex(g) >= 0 || (ok && call.Call.StaticCallee() != nil && m.fam[call.Call.StaticCallee()] && blk != load.Block()) {
						return true
					}
				}
			}
			return false
		}, 0)
		if err != nil || len(exits) != 1 {
			out[b] = dispatchOutcome{kind: "other"}
			continue
		}
		x := exits[0]
		if x.Stop != nil {
			for _, in := range x.Stop.Instrs {
				if call, ok := in.(*ssa.Call); ok {
					if g := call.Call.StaticCallee(); g != nil && m.fam[g] {
						callee = g
						break
					}
				}
			}
			out[b] = dispatchOutcome{kind: "call", callee: callee}
			if tokIdx >= 0 {
				// wrapper form: the token is a constant result of the return that hands the scanner's count on
				for blk := range core.Reach(x.Stop) {
					if r := retOf(blk); r != nil && tokIdx < len(r.Results) && (blk == x.Stop || x.Stop.Dominates(blk)) {
						if v, ok := core.ConstInt(r.Results[tokIdx]); ok && v > 0 {
							out[b].token = v
						}
					}
				}
			}
			// token: constant stored/phi'd after the call: look for an int phi downstream whose edge from the call's block is a constant
			for _, sc := range x.Stop.Succs {
				for _, in := range sc.Instrs {
					ph, ok := in.(*ssa.Phi)
					if !ok {
						break
					}
					for k, p := range sc.Preds {
						if p == x.Stop {
							if v, ok := core.ConstInt(ph.Edges[k]); ok && core.IsInteger(ph.Type()) && v > 0 {
								out[b].token = v
							}
						}
					}
				}
			}
		} else if x.Ret != nil {
			if core.IsConstInt(x.Ret.Results[0], 0) {
				out[b] = dispatchOutcome{kind: "fail"}
			} else {
				out[b] = dispatchOutcome{kind: "success"}
			}
		}
	}
	return out
}

// R09.3
var ruleSeparators = &core.Rule{ID: "R09.3", Min: 6,
	Doc: "separators and closers, tabulated over 0..255 from the container loops: the value dispatch sends '[' to the array scanner, '{' to the object scanner, '\"' to the string scanner; after a value in an array only ',' continues and only ']' closes; in an object only ',' continues and only '}' closes; a key must start with '\"' and be followed by ':'; every other byte fails the container; loads of the same input byte are one test; each grammar point has its test (key quote, colon, comma, closers): a removed test is a violation, not a shorter table list",
	Run: func(c *core.Ctx, s *core.Sink) {
		m := getJSON(c)
		g := m.guardFn
		if g == nil {
			core.Bail("guard function of the scanner not found")
		}
		disp := tabulateDispatch(c, m, g)
		callees := map[byte]*ssa.Function{}
		for _, b := range []byte{'[', '{', '"'} {
			o := disp[b]
			s.Check(o.kind == "call" && o.callee != nil, fmt.Sprintf("%s: byte %q dispatches to a scanner", g.Name(), b), c.Pos(g.Pos()), calleeName(o.callee), fmt.Sprintf("byte %q does not dispatch to a scanner function", b))
			callees[b] = o.callee
		}
		arr, obj := callees['['], callees['{']
		if arr == nil || obj == nil || arr == obj {
			s.Bad("distinct array and object scanners", c.Pos(g.Pos()), "'[' and '{' do not dispatch to two distinct container scanners")
			return
		}
		// distinct callees for distinct openers; every other non-space byte reaches a scalar scanner or fails
		for b := 0; b < 256; b++ {
			o := disp[b]
			if b == '[' || b == '{' {
				continue
			}
			if o.kind == "call" && (o.callee == arr || o.callee == obj) {
				s.Bad(fmt.Sprintf("%s: byte %#02x opens a container", g.Name(), b), c.Pos(g.Pos()), "a byte other than '[' / '{' enters a container scanner")
			}
		}
		s.OK("only '[' and '{' open containers", c.Pos(g.Pos()), "256 byte values tabulated")
		type contUnit struct {
			f      *ssa.Function
			closer byte
			isObj  bool
			helper bool // a member helper of the object scanner: one key : value, no loop
		}
		conts := []contUnit{{arr, ']', false, false}, {obj, '}', true, false}}
		// member helpers: scanners called by the object scanner that test input bytes themselves and end with a value
		member := map[*ssa.Function]bool{}
		for _, ci := range core.Calls(obj) {
			h := ci.Common().StaticCallee()
			if h == nil || !m.fam[h] || h == g || h == arr || h == obj || member[h] || h.Signature.Params().Len() < 1 || len(h.Params) < 2 {
				continue
			}
			callsGuard, loads := false, false
			for _, hc := range core.Calls(h) {
				if hc.Common().StaticCallee() == g {
					callsGuard = true
				}
			}
			for _, b := range h.Blocks {
				for _, in := range b.Instrs {
					if u, ok := in.(*ssa.UnOp); ok && u.Op == token.MUL {
						if ia, ok := u.X.(*ssa.IndexAddr); ok && ia.X == ssa.Value(h.Params[1]) {
							loads = true
						}
					}
				}
			}
			if !callsGuard || !loads {
				continue
			}
			member[h] = true
			conts = append(conts, contUnit{h, '}', true, true})
		}
		seenDesc := map[bool][]string{} // isObj -> tables of the tests that are what the grammar requires
		for _, cont := range conts {
			f := cont.f
			// byte loads of the input parameter, by dominance relative to family calls
			type site struct {
				load    *ssa.UnOp
				afterOK []*ssa.Function // family calls whose success edge dominates the load
			}
			edges, _ := failEdges(f, m.fam)
			okEdgeDom := func(b *ssa.BasicBlock) []*ssa.Function {
				var out []*ssa.Function
				for _, e := range edges {
					// success edge = the other successor of e.from
					succ := e.from.Succs[0]
					if succ == e.to {
						succ = e.from.Succs[1]
					}
					if core.EdgeDominates(e.from, succ, b) {
						out = append(out, e.calls[0].Call.StaticCallee())
					}
				}
				return out
			}
			hdr := loopHeaderOf(f)
			if hdr == nil && !cont.helper {
				s.Bad(f.Name()+": element loop", c.Pos(f.Pos()), "container scanner without a loop")
				continue
			}
			if cont.helper {
				// the helper stands for one member: every success return comes after a value, and it does not loop
				okEnd := true
				for _, b := range f.Blocks {
					if !reachSelf(b) {
						continue
					}
					for _, in := range b.Instrs {
						if ci, ok := in.(ssa.CallInstruction); ok {
							if h := ci.Common().StaticCallee(); h != nil && (m.fam[h] || m.wrap[h]) {
								okEnd = false
							}
						}
						if u, ok := in.(*ssa.UnOp); ok && u.Op == token.MUL {
							if ia, ok := u.X.(*ssa.IndexAddr); ok && ia.X == ssa.Value(f.Params[1]) {
								okEnd = false
							}
						}
					}
				}
				hdr = nil
				for _, r := range core.Returns(f) {
					if core.IsConstInt(r.Results[0], 0) {
						continue
					}
					afterValue := false
					for _, h := range okEdgeDom(r.Block()) {
						if h == g {
							afterValue = true
						}
					}
					if !afterValue {
						okEnd = false
					}
				}
				if !okEnd {
					s.Und(f.Name()+": member helper ends after the value", c.Pos(f.Pos()), "a scanner called by the object scanner tests input bytes but is not of the form key : value; the grammar state it returns in is not modelled")
					continue
				}
				s.OK(f.Name()+": member helper ends after the value", c.Pos(f.Pos()), "every success return is dominated by the success of the value scanner; no scanning inside a loop")
			}
			n := 0
			// loads of the same input byte (same slice, same index value) are one test: the group's leader dominates the others
			type gkey struct{ x, idx ssa.Value }
			groups := map[gkey][]*ssa.UnOp{}
			for _, b := range f.Blocks {
				for _, in := range b.Instrs {
					if u, ok := in.(*ssa.UnOp); ok && u.Op == token.MUL {
						if ia, ok := u.X.(*ssa.IndexAddr); ok && ia.X == ssa.Value(f.Params[1]) {
							k := gkey{ia.X, ia.Index}
							groups[k] = append(groups[k], u)
						}
					}
				}
			}
			sameByte := map[*ssa.UnOp][]*ssa.UnOp{} // leader -> followers
			follower := map[*ssa.UnOp]bool{}
			for _, us := range groups {
				lead := us[0]
				okLead := true
				for _, o := range us[1:] {
					if !(lead.Block() == o.Block() || lead.Block().Dominates(o.Block())) {
						okLead = false
					}
				}
				if okLead {
					sameByte[lead] = us[1:]
					for _, o := range us[1:] {
						follower[o] = true
					}
				}
			}
			prevDesc, prevAfterGuard := "", false
			pendingSplit := ""
			for _, b := range f.Blocks {
				for _, in := range b.Instrs {
					u, ok := in.(*ssa.UnOp)
					if !ok || u.Op != token.MUL || follower[u] {
						continue
					}
					ia, ok := u.X.(*ssa.IndexAddr)
					if !ok || ia.X != ssa.Value(f.Params[1]) {
						continue
					}
					n++
					after := okEdgeDom(b)
					tab := map[string][]int{}
					var undec error
					mine := map[*ssa.UnOp]bool{u: true}
					for _, o := range sameByte[u] {
						mine[o] = true
					}
					for v := 0; v < 256; v++ {
						ev := newEval(c)
						ev.Env = fde.Env{}
						for o := range mine {
							ev.Env[o] = constant.MakeInt64(int64(v))
						}
						exits, err := ev.Walk(b, nil, func(blk *ssa.BasicBlock) bool {
							if blk == hdr {
								return true
							}
							if blk != b {
								for _, x := range blk.Instrs {
									if call, ok := x.(*ssa.Call); ok {
										if h := call.Call.StaticCallee(); h != nil && (m.fam[h] || m.wrap[h]) {
											return true
										}
									}
									if u2, ok := x.(*ssa.UnOp); ok && !mine[u2] && u2.Op == token.MUL {
										if ia2, ok := u2.X.(*ssa.IndexAddr); ok && ia2.X == ssa.Value(f.Params[1]) {
											return true // next byte test
										}
									}
								}
							}
							return false
						}, 3)
						if err != nil {
							undec = err
							break
						}
						kind := ""
						for _, x := range exits {
							k := "other"
							switch {
							case x.Ret != nil && core.IsConstInt(x.Ret.Results[0], 0):
								k = "fail"
							case x.Ret != nil:
								k = "close"
							case x.Stop == hdr:
								k = "loop"
							case x.Stop != nil:
								k = "on"
							}
							if kind == "" {
								kind = k
							} else if kind != k {
								kind = "mixed"
							}
						}
						tab[kind] = append(tab[kind], v)
					}
					key := fmt.Sprintf("%s: byte test #%d", f.Name(), n)
					if undec != nil {
						s.Und(key, c.Pos(u.Pos()), undec.Error())
						continue
					}
					desc := descTab(tab)
					afterGuard := false
					afterKey := false
					for _, h := range after {
						if h == m.guardFn || member[h] {
							afterGuard = true
						} else {
							afterKey = true
						}
					}
					want := ""
					switch {
					case afterGuard:
						// after a value: ',' loops, closer closes, rest fails (one test, or closer first and separator second)
						want = fmt.Sprintf("close:%q fail:* loop:','", cont.closer)
						if desc == fmt.Sprintf("close:%q on:*", cont.closer) {
							want = desc
						} else if prevDesc == fmt.Sprintf("close:%q on:*", cont.closer) && prevAfterGuard {
							want = "fail:* loop:','"
						}
					case afterKey && cont.isObj:
						want = "fail:* on:':'"
					case cont.isObj && !afterKey:
						// start of member: '}' closes (trailing comma / empty), '"' goes on, rest fails — two consecutive tests
						if len(tab["close"]) > 0 && len(tab["fail"]) > 0 {
							want = fmt.Sprintf("close:%q fail:* on:'\"'", cont.closer)
						} else if len(tab["close"]) > 0 {
							want = fmt.Sprintf("close:%q on:*", cont.closer)
						} else {
							want = "fail:* on:'\"'"
						}
					default:
						// array element start: ']' closes, rest goes on to the value
						want = fmt.Sprintf("close:%q on:*", cont.closer)
					}
					s.Check(desc == want, key, c.Pos(u.Pos()), desc, fmt.Sprintf("byte table is {%s}, the JSON grammar requires {%s} at this point of the %s scanner", desc, want, map[bool]string{true: "object", false: "array"}[cont.isObj]))
					if desc == want {
						seenDesc[cont.isObj] = append(seenDesc[cont.isObj], desc)
					}
					if pendingSplit != "" && !(afterGuard && desc == "fail:* loop:','") {
						s.Bad(pendingSplit+": separator test after the closer test", c.Pos(u.Pos()), "after a value the closer is tested but the test that only ',' continues does not follow")
					}
					pendingSplit = ""
					if afterGuard && desc == fmt.Sprintf("close:%q on:*", cont.closer) {
						pendingSplit = key
					}
					prevDesc, prevAfterGuard = desc, afterGuard
				}
			}
			if pendingSplit != "" {
				s.Bad(pendingSplit+": separator test after the closer test", c.Pos(f.Pos()), "after a value the closer is tested but the test that only ',' continues does not follow")
			}
			if cont.isObj && !cont.helper && len(member) > 0 {
				continue // the tests are shared with the member helper; each is judged where it stands
			}
			s.Check(n >= 2, f.Name()+": byte tests found", c.Pos(f.Pos()), fmt.Sprint(n), "fewer than two structural byte tests in a container scanner")
		}
		// every point of the grammar has its test (a test that was removed is not in the tables above)
		for _, need := range []struct {
			isObj      bool
			part, what string
		}{
			{true, "on:'\"'", "a member starts with a '\"' (key)"},
			{true, "on:':'", "a key is followed by ':'"},
			{true, "loop:','", "after a member only ',' continues"},
			{true, "close:'}'", "'}' closes the object"},
			{false, "loop:','", "after an element only ',' continues"},
			{false, "close:']'", "']' closes the array"},
		} {
			found := false
			for _, d := range seenDesc[need.isObj] {
				if strings.Contains(d, need.part) {
					found = true
				}
			}
			name := map[bool]string{true: obj.Name(), false: arr.Name()}[need.isObj]
			s.Check(found, fmt.Sprintf("%s: has the test `%s`", name, need.what), c.Pos(map[bool]*ssa.Function{true: obj, false: arr}[need.isObj].Pos()), need.part, fmt.Sprintf("no byte test of the %s scanner (and its member helpers) establishes that %s: input that lacks it is scanned as if it were there", map[bool]string{true: "object", false: "array"}[need.isObj], need.what))
		}
	}}

func calleeName(f *ssa.Function) string {
	if f == nil {
		return "none"
	}
	return f.Name()
}

func loopHeaderOf(f *ssa.Function) *ssa.BasicBlock {
	for _, b := range f.Blocks {
		for _, p := range b.Preds {
			if b.Dominates(p) {
				return b
			}
		}
	}
	return nil
}

// descTab renders a byte table compactly: the largest class is "*".
func descTab(tab map[string][]int) string {
	var kinds []string
	big := ""
	for k, v := range tab {
		kinds = append(kinds, k)
		if big == "" || len(v) > len(tab[big]) {
			big = k
		}
	}
	sort.Strings(kinds)
	var parts []string
	for _, k := range kinds {
		if k == big {
			parts = append(parts, k+":*")
			continue
		}
		var bs []string
		for _, v := range tab[k] {
			bs = append(bs, fmt.Sprintf("%q", byte(v)))
		}
		parts = append(parts, k+":"+strings.Join(bs, ""))
	}
	return strings.Join(parts, " ")
}

// ---- R10.2 query tables ----

type jsonQuery struct {
	path [][]byte
	vals [][]byte
}

// jsonQueries folds the package-level query table map[string][]query.
func jsonQueries(c *core.Ctx) map[string][]jsonQuery {
	if q, ok := c.Memo["jsonqueries"].(map[string][]jsonQuery); ok {
		return q
	}
	p := c.ByPath[core.PkgJSON]
	out := map[string][]jsonQuery{}
	found := false
	for _, f := range p.Syntax {
		ast.Inspect(f, func(n ast.Node) bool {
			vs, ok := n.(*ast.ValueSpec)
			if !ok {
				return true
			}
			for i := range vs.Names {
				if i >= len(vs.Values) {
					continue
				}
				cl, ok := ast.Unparen(vs.Values[i]).(*ast.CompositeLit)
				if !ok {
					continue
				}
				// a map from the query name, or an array / slice literal indexed by the values of an enumeration
				var elemT types.Type
				switch tt := p.TypesInfo.TypeOf(cl).Underlying().(type) {
				case *types.Map:
					if b, isB := tt.Key().Underlying().(*types.Basic); !isB || b.Info()&(types.IsString|types.IsInteger) == 0 {
						continue
					}
					elemT = tt.Elem()
				case *types.Array:
					elemT = tt.Elem()
				case *types.Slice:
					elemT = tt.Elem()
				default:
					continue
				}
				sl, ok := elemT.Underlying().(*types.Slice)
				if !ok {
					continue
				}
				if _, ok := sl.Elem().Underlying().(*types.Struct); !ok {
					continue
				}
				found = true
				next := int64(0)
				for _, el := range cl.Elts {
					kv, isKV := el.(*ast.KeyValueExpr)
					var kval constant.Value
					val := el
					if isKV {
						kval = p.TypesInfo.Types[kv.Key].Value
						val = kv.Value
						if kval == nil {
							core.Bail("query table key is not a constant")
						}
						if kval.Kind() == constant.Int {
							next, _ = constant.Int64Val(kval)
						}
					} else {
						kval = constant.MakeInt64(next)
					}
					next++
					k, okK := queryKeyOf(constValue(kval))
					if !okK {
						core.Bail("query table key is neither a string nor an integer constant")
					}
					out[k] = parseQueryList(c, p, val)
				}
			}
			return true
		})
	}
	if !found {
		found = queriesBySelection(c, p, out)
	}
	if !found {
		core.Bail("query table (map from query name to []query) not found in the scanner package")
	}
	c.Memo["jsonqueries"] = out
	return out
}

// queriesBySelection reads the function form of the query table: a function of
// the scanner package from the query name to []query whose returns are package
// variables assigned once (their literals are folded) or nil, each under the
// test of the name against a constant on every path. The name that selects
// nothing (QueryNone, unknown names) maps to no query.
func queriesBySelection(c *core.Ctx, p *packages.Package, out map[string][]jsonQuery) bool {
	sp := c.SSA[core.PkgJSON]
	var sel *ssa.Function
	for _, mem := range sp.Members {
		f, ok := mem.(*ssa.Function)
		if !ok || f.Blocks == nil || len(f.Params) != 1 || !core.IsString(f.Params[0].Type()) || f.Signature.Results().Len() != 1 {
			continue
		}
		sl, ok := f.Signature.Results().At(0).Type().Underlying().(*types.Slice)
		if !ok {
			continue
		}
		if _, ok := sl.Elem().Underlying().(*types.Struct); !ok {
			continue
		}
		if sel != nil {
			core.Bail("two query selection functions: %s, %s", sel.Name(), f.Name())
		}
		sel = f
	}
	if sel == nil {
		return false
	}
	var keys []string
	for _, b := range sel.Blocks {
		for _, in := range b.Instrs {
			if bo, ok := in.(*ssa.BinOp); ok && bo.Op == token.EQL {
				for _, pr := range [][2]ssa.Value{{bo.X, bo.Y}, {bo.Y, bo.X}} {
					if pr[0] == ssa.Value(sel.Params[0]) {
						if k, ok := core.ConstString(pr[1]); ok {
							keys = append(keys, k)
						}
					}
				}
			}
		}
	}
	eval := func(key string) (*ssa.Global, bool) {
		ev := newEval(c)
		ev.Env = fde.Env{sel.Params[0]: constant.MakeString(key)}
		exits, err := ev.Walk(sel.Blocks[0], nil, nil, 0)
		if err != nil || len(exits) != 1 || exits[0].Ret == nil {
			return nil, false
		}
		r := exits[0].Ret.Results[0]
		if core.IsNilConst(r) {
			return nil, true
		}
		g, ok := core.LoadOfGlobal(r)
		return g, ok
	}
	for _, k := range keys {
		g, ok := eval(k)
		if !ok {
			core.Bail("query selection %s does not fold for %q", sel.Name(), k)
		}
		if g == nil {
			out[k] = nil
			continue
		}
		if tree.GlobalInit(g) == nil {
			core.Bail("query list %s is assigned more than once", g.Name())
		}
		var init ast.Expr
		for _, f := range p.Syntax {
			for _, d := range f.Decls {
				gd, ok := d.(*ast.GenDecl)
				if !ok {
					continue
				}
				for _, spc := range gd.Specs {
					vs, ok := spc.(*ast.ValueSpec)
					if !ok || len(vs.Values) != len(vs.Names) {
						continue
					}
					for i, nm := range vs.Names {
						if p.TypesInfo.Defs[nm] == g.Object() {
							init = vs.Values[i]
						}
					}
				}
			}
		}
		if init == nil {
			core.Bail("initialiser of query list %s not found", g.Name())
		}
		out[k] = parseQueryList(c, p, init)
	}
	if g, ok := eval("\x00no such query"); !ok || g != nil {
		core.Bail("query selection %s yields queries for an unknown name", sel.Name())
	}
	// the empty query name used by plain JSON
	if _, has := out[""]; !has {
		if g, ok := eval(""); ok && g == nil {
			out[""] = nil
		}
	}
	c.Memo["jsonQuerySel"] = sel
	return len(keys) > 0
}

// parseQueryList folds a []query composite literal.
func parseQueryList(c *core.Ctx, p *packages.Package, e ast.Expr) []jsonQuery {
	var qs []jsonQuery
	qcl, ok := ast.Unparen(e).(*ast.CompositeLit)
	if !ok {
		return nil // nil: no query
	}
	for _, qe := range qcl.Elts {
		qlit, ok := qe.(*ast.CompositeLit)
		if !ok {
			core.Bail("query table entry is not a literal")
		}
		var q jsonQuery
		st := p.TypesInfo.TypeOf(qlit).Underlying().(*types.Struct)
		for fi, fe := range qlit.Elts {
			fname := st.Field(fi).Name()
			val := fe
			if kv2, ok := fe.(*ast.KeyValueExpr); ok {
				fname = kv2.Key.(*ast.Ident).Name
				val = kv2.Value
			}
			var items [][]byte
			if ce, isCall := ast.Unparen(val).(*ast.CallExpr); isCall {
				// strings-to-byte-slices conversion helper applied to constant strings
				id, isId := ce.Fun.(*ast.Ident)
				var h *ssa.Function
				if isId {
					if fo, ok := p.TypesInfo.Uses[id].(*types.Func); ok {
						h = c.Prog.FuncValue(fo)
					}
				}
				if h == nil || !isStringsToBytes(h) || ce.Ellipsis.IsValid() {
					core.Bail("query field is not a literal")
				}
				for _, a := range ce.Args {
					tv := p.TypesInfo.Types[a]
					if tv.Value == nil || tv.Value.Kind() != constant.String {
						core.Bail("query item is not a constant byte string")
					}
					items = append(items, []byte(constant.StringVal(tv.Value)))
				}
			} else {
				lst, ok := ast.Unparen(val).(*ast.CompositeLit)
				if !ok {
					core.Bail("query field is not a literal")
				}
				for _, it := range lst.Elts {
					bs, ok := constBytesExpr(p.TypesInfo, it)
					if !ok {
						core.Bail("query item is not a constant byte string")
					}
					items = append(items, bs)
				}
			}
			// first [][]byte field = path, second = values
			idx := 0
			for k := 0; k < st.NumFields(); k++ {
				if st.Field(k).Name() == fname {
					idx = k
				}
			}
			if idx == 0 {
				q.path = items
			} else {
				q.vals = items
			}
		}
		qs = append(qs, q)
	}
	return qs
}

var ruleQueryTables = &core.Rule{ID: "R10.2", Min: 3,
	Doc: "the constant query tables equal the specification: GeoJSON = path [type] with the nine RFC 7946 type names (quoted); HAR = [log, version|creator|entries] without values; glTF = [asset, version] with \"1.0\" / \"2.0\"; each sub-type detector uses the query that belongs to its node",
	Run: func(c *core.Ctx, s *core.Sink) {
		qs := jsonQueries(c)
		f, pcall := jsonHelperFn(c)
		tm := tree.Get(c)
		qR, _ := helperRoles(f, pcall)
		queryOf := func(mime, ext string) (string, *tree.Node) {
			for _, n := range tm.Find(mime) {
				if n.Ext != ext || n.DetFn == nil || !qR.valid() {
					continue
				}
				if v, _, _, ok := qR.constOf(n); ok {
					if q, isS := queryKeyOf(v); isS {
						return q, n
					}
				}
			}
			return "", nil
		}
		quote := func(xs ...string) [][]byte {
			var o [][]byte
			for _, x := range xs {
				o = append(o, []byte(`"`+x+`"`))
			}
			return o
		}
		b := func(xs ...string) [][]byte {
			var o [][]byte
			for _, x := range xs {
				o = append(o, []byte(x))
			}
			return o
		}
		specs := []struct {
			mime, ext string
			want      []jsonQuery
		}{
			{"application/geo+json", ".geojson", []jsonQuery{{b("type"), quote("Feature", "FeatureCollection", "Point", "LineString", "Polygon", "MultiPoint", "MultiLineString", "MultiPolygon", "GeometryCollection")}}},
			{"application/json", ".har", []jsonQuery{{b("log", "version"), nil}, {b("log", "creator"), nil}, {b("log", "entries"), nil}}},
			{"model/gltf+json", ".gltf", []jsonQuery{{b("asset", "version"), quote("1.0", "2.0")}}},
		}
		for _, sp := range specs {
			q, n := queryOf(sp.mime, sp.ext)
			key := "query table of " + sp.mime + sp.ext
			if n == nil {
				s.Bad(key, "-", "node or its query not found")
				continue
			}
			got := qs[q]
			s.Check(sameQueries(got, sp.want), key, c.Pos(n.Pos), fmt.Sprintf("query %q: %s", q, renderQueries(got)), fmt.Sprintf("query %q is %s, the specification requires %s", q, renderQueries(got), renderQueries(sp.want)))
		}
	}}

func sameQueries(a, b []jsonQuery) bool {
	if len(a) != len(b) {
		return false
	}
	used := make([]bool, len(b))
	for _, x := range a {
		found := false
		for j, y := range b {
			if !used[j] && sameSeq(x.path, y.path) && sameSet(x.vals, y.vals) {
				used[j], found = true, true
				break
			}
		}
		if !found {
			return false
		}
	}
	return true
}

func sameSeq(a, b [][]byte) bool {
	if len(a) != len(b) {
		return false
	}
	for i := range a {
		if !bytes.Equal(a[i], b[i]) {
			return false
		}
	}
	return true
}

func sameSet(a, b [][]byte) bool {
	if len(a) != len(b) {
		return false
	}
	m := map[string]int{}
	for _, x := range a {
		m[string(x)]++
	}
	for _, x := range b {
		m[string(x)]--
	}
	for _, v := range m {
		if v != 0 {
			return false
		}
	}
	return true
}

func renderQueries(qs []jsonQuery) string {
	var parts []string
	for _, q := range qs {
		var p, v []string
		for _, x := range q.path {
			p = append(p, string(x))
		}
		for _, x := range q.vals {
			v = append(v, string(x))
		}
		parts = append(parts, "["+strings.Join(p, ".")+"]="+"{"+strings.Join(v, ",")+"}")
	}
	return strings.Join(parts, " ")
}

// predicateSet tabulates a byte -> bool module function over 0..255.
func predicateSet(c *core.Ctx, g *ssa.Function) (set [256]bool, err error) {
	if g == nil || len(g.Params) != 1 || g.Blocks == nil {
		return set, fmt.Errorf("not a one-argument predicate")
	}
	for b := 0; b < 256; b++ {
		ev := newEval(c)
		ev.Env = fde.Env{g.Params[0]: constant.MakeInt64(int64(b))}
		exits, e := ev.Walk(g.Blocks[0], nil, nil, 0)
		if e != nil || len(exits) != 1 || exits[0].Ret == nil {
			return set, fmt.Errorf("predicate %s not evaluable for byte %#02x: %v", g.Name(), b, e)
		}
		v, ok := exits[0].ValAt(ev, exits[0].Ret.Results[0])
		if !ok || v.Kind() != constant.Bool {
			return set, fmt.Errorf("predicate %s does not fold for byte %#02x", g.Name(), b)
		}
		set[b] = constant.BoolVal(v)
	}
	return set, nil
}

func setDesc(set [256]bool) string {
	var bs []string
	for b := 0; b < 256; b++ {
		if set[b] {
			bs = append(bs, fmt.Sprintf("%q", byte(b)))
		}
	}
	return strings.Join(bs, "")
}

// boolPredicatesCalledBy: one-byte bool predicates of the module called from f.
// The search goes through module helpers f delegates to, but not into the functions in stopAt.
func boolPredicatesCalledBy(f *ssa.Function, stopAt ...*ssa.Function) []*ssa.Function {
	var out []*ssa.Function
	seen := map[*ssa.Function]bool{f: true}
	for _, x := range stopAt {
		if x != f {
			seen[x] = true
		}
	}
	work := []*ssa.Function{f}
	for len(work) > 0 {
		cur := work[0]
		work = work[1:]
		for _, ci := range core.Calls(cur) {
			g := ci.Common().StaticCallee()
			if g == nil || !core.InMod(g) || seen[g] || g.Blocks == nil {
				continue
			}
			seen[g] = true
			if len(g.Params) == 1 && g.Signature.Results().Len() == 1 {
				pb, ok1 := g.Params[0].Type().Underlying().(*types.Basic)
				rb, ok2 := g.Signature.Results().At(0).Type().Underlying().(*types.Basic)
				if ok1 && ok2 && pb.Kind() == types.Uint8 && rb.Kind() == types.Bool {
					out = append(out, g)
					continue
				}
			}
			work = append(work, g)
		}
	}
	return out
}

// R09.5
var ruleLexTables = &core.Rule{ID: "R09.5", Min: 6,
	Doc: "lexical tables of the scalar scanners, tabulated over 0..255: white space is exactly SP HT LF CR; digits are 0-9; hex digits are 0-9a-fA-F; in the string scanner only '\"' ends the string and only '\\\\' starts an escape, the one-character escapes are exactly \" \\\\ / b f n r t, 'u' goes on to the hex digits, every other escape fails; a non-hex digit in \\\\uXXXX fails; the hex-digit loop has the constant trip bound 4 (counter form or range over min(4, rest)); the tables are taken over the scanner and the family helpers it delegates to",
	Run: func(c *core.Ctx, s *core.Sink) {
		m := getJSON(c)
		g := m.guardFn
		if g == nil {
			core.Bail("guard function of the scanner not found")
		}
		disp := tabulateDispatch(c, m, g)
		strFn, numFn := disp['"'].callee, disp['0'].callee
		// the space scanner: the family function the value scanner calls first
		var spaceFn *ssa.Function
		for _, ci := range core.Calls(g) {
			h := ci.Common().StaticCallee()
			if h != nil && m.wrap[h] {
				// through a wrapper: the family function it calls
				for _, c2 := range core.Calls(h) {
					if h2 := c2.Common().StaticCallee(); h2 != nil && m.fam[h2] {
						h = h2
						break
					}
				}
			}
			if h != nil && m.fam[h] && intParamIndex(h) < 0 && h != strFn && h != numFn {
				spaceFn = h
				break
			}
		}
		check := func(name string, f *ssa.Function, want func(b int) bool, what string) {
			if f == nil {
				s.Bad(name, c.Pos(g.Pos()), "scanner for "+what+" not found from the value dispatch")
				return
			}
			ps := boolPredicatesCalledBy(f, g, strFn, numFn, spaceFn)
			if len(ps) == 0 {
				s.Und(name, c.Pos(f.Pos()), "no byte predicate called by "+f.Name()+" (inline tests are not tabulated by this rule)")
				return
			}
			for _, p := range ps {
				set, err := predicateSet(c, p)
				if err != nil {
					s.Und(name+" ("+p.Name()+")", c.Pos(p.Pos()), err.Error())
					continue
				}
				bad := ""
				for b := 0; b < 256 && bad == ""; b++ {
					if set[b] != want(b) {
						bad = fmt.Sprintf("%s treats byte %q as %s=%v; RFC 8259 says %v (accepted set: %s)", p.Name(), byte(b), what, set[b], want(b), setDesc(set))
					}
				}
				s.Check(bad == "", name+" ("+p.Name()+")", c.Pos(p.Pos()), "256 byte values: "+setDesc(set), bad)
			}
		}
		check("white space set", spaceFn, func(b int) bool { return b == ' ' || b == '\t' || b == '\n' || b == '\r' }, "white space")
		check("digit set", numFn, func(b int) bool { return b >= '0' && b <= '9' }, "digit")
		check("hex digit set", strFn, func(b int) bool {
			return (b >= '0' && b <= '9') || (b >= 'a' && b <= 'f') || (b >= 'A' && b <= 'F')
		}, "hex digit")
		// string scanner byte tests
		if strFn == nil {
			return
		}
		// the string scanner unit: the scanner and the family helpers it delegates to (escape scanner, ...)
		unit := []*ssa.Function{strFn}
		inUnit := map[*ssa.Function]bool{strFn: true}
		callSite := map[*ssa.Function]*ssa.Call{}
		for i := 0; i < len(unit); i++ {
			for _, ci := range core.Calls(unit[i]) {
				call, ok := ci.(*ssa.Call)
				if !ok {
					continue
				}
				if h := call.Call.StaticCallee(); h != nil && m.fam[h] && !inUnit[h] && h != g && intParamIndex(h) < 0 && byteParam(h) != nil {
					inUnit[h] = true
					unit = append(unit, h)
					callSite[h] = call
				}
			}
		}
		hdrs := map[*ssa.BasicBlock]bool{}
		for _, f := range unit {
			for _, b := range f.Blocks {
				for _, p := range b.Preds {
					if b.Dominates(p) {
						hdrs[b] = true
					}
				}
			}
		}
		callsUnit := func(blk *ssa.BasicBlock) bool {
			for _, x := range blk.Instrs {
				if call, ok := x.(*ssa.Call); ok {
					if h := call.Call.StaticCallee(); h != nil && inUnit[h] {
						return true
					}
				}
			}
			return false
		}
		// what a helper's success return means in its caller: evaluated on the caller's continuation
		var retKind func(h *ssa.Function, depth int) (string, error)
		classify := func(f *ssa.Function, b *ssa.BasicBlock, exits []fde.Exit, depth int) (string, error) {
			kind := ""
			loopForked := false
			for _, x := range exits {
				k := "other"
				switch {
				case x.Ret != nil && core.IsConstInt(x.Ret.Results[0], 0):
					k = "fail"
				case x.Ret != nil && f != strFn:
					rk, err := retKind(f, depth+1)
					if err != nil {
						return "", err
					}
					k = rk
				case x.Ret != nil:
					k = "close"
				case x.Stop != nil && hdrs[x.Stop] && (x.Stop == b || x.Stop.Dominates(b)):
					k = "loop" // back to a loop this test sits in
				case x.Stop != nil:
					k = "on" // next byte test, a delegated scanner, or entry of an inner loop
				}
				// an end-of-input test right after the byte may lead to a failure as well as on: keep the non-failure kind
				// likewise an end-of-input pre-test of a counted loop over the following bytes (`for range min(k,
				// len(b)-n)`) may skip that loop and go round the enclosing one: the byte's own outcome is "on"
				switch {
				case kind == "" || kind == "fail":
					kind = k
				case k == "fail" || kind == k:
				case kind == "on" && k == "loop" && x.Forked > 0:
				case kind == "loop" && k == "on" && loopForked:
					kind = "on"
				default:
					kind = "mixed"
				}
				if k == "loop" {
					loopForked = x.Forked > 0
				}
			}
			return kind, nil
		}
		retKind = func(h *ssa.Function, depth int) (string, error) {
			call := callSite[h]
			if call == nil || depth > 3 {
				return "", fmt.Errorf("no call site for %s", h.Name())
			}
			caller := call.Parent()
			ev := newEval(c)
			ev.Env = fde.Env{call: constant.MakeInt64(1)}
			exits, err := ev.Walk(call.Block(), nil, func(blk *ssa.BasicBlock) bool { return hdrs[blk] }, 2)
			if err != nil {
				return "", err
			}
			// a zero result must fail in the caller
			ev0 := newEval(c)
			ev0.Env = fde.Env{call: constant.MakeInt64(0)}
			ex0, err := ev0.Walk(call.Block(), nil, func(blk *ssa.BasicBlock) bool { return hdrs[blk] }, 0)
			if err != nil {
				return "", err
			}
			for _, x := range ex0 {
				if x.Ret == nil || !core.IsConstInt(x.Ret.Results[0], 0) {
					return "", fmt.Errorf("a failure of %s is not a failure of %s", h.Name(), caller.Name())
				}
			}
			return classify(caller, call.Block(), exits, depth)
		}
		var descs []string
		var descBlocks []*ssa.BasicBlock
		n := 0
		for _, f := range unit {
			bp := byteParam(f)
			for _, b := range f.Blocks {
				for _, in := range b.Instrs {
					u, ok := in.(*ssa.UnOp)
					if !ok || u.Op != token.MUL {
						continue
					}
					ia, ok := u.X.(*ssa.IndexAddr)
					if !ok || ia.X != ssa.Value(bp) {
						continue
					}
					n++
					tab := map[string][]int{}
					var undec error
					domain := searchDomain(u, bp)
					for v := 0; v < 256; v++ {
						if domain != nil && !domain[byte(v)] {
							// the index search skipped over this byte: it stays part of the string body
							tab["loop"] = append(tab["loop"], v)
							continue
						}
						ev := newEval(c)
						ev.Env = fde.Env{u: constant.MakeInt64(int64(v))}
						exits, err := ev.Walk(b, nil, func(blk *ssa.BasicBlock) bool {
							if hdrs[blk] {
								return true
							}
							if blk != b {
								if callsUnit(blk) {
									return true
								}
								for _, x := range blk.Instrs {
									if u2, ok := x.(*ssa.UnOp); ok && u2 != u && u2.Op == token.MUL {
										if ia2, ok := u2.X.(*ssa.IndexAddr); ok && ia2.X == ssa.Value(bp) {
											return true
										}
									}
								}
							}
							return false
						}, 2)
						if err != nil {
							undec = err
							break
						}
						kind, err := classify(f, b, exits, 0)
						if err != nil {
							undec = err
							break
						}
						tab[kind] = append(tab[kind], v)
					}
					key := fmt.Sprintf("%s: byte test #%d", f.Name(), n)
					if undec != nil {
						s.Und(key, c.Pos(u.Pos()), undec.Error())
						continue
					}
					descs = append(descs, descTab(tab))
					descBlocks = append(descBlocks, b)
				}
			}
		}
		f := strFn
		want := []string{
			`close:'"' loop:* on:'\\'`,
			`fail:* loop:'"''/''\\''b''f''n''r''t' on:'u'`,
			`fail:* loop:'0''1''2''3''4''5''6''7''8''9''A''B''C''D''E''F''a''b''c''d''e''f'`,
		}
		names := []string{"string body byte", "escape character", "\\u hex digit"}
		used := map[int]bool{}
		for i, w := range want {
			got := "(missing)"
			for j, d := range descs {
				if d == w && !used[j] {
					used[j] = true
					got = d
					break
				}
			}
			if got == "(missing)" {
				// report the closest unused table
				for j, d := range descs {
					if !used[j] && (i >= len(descs) || j == i) {
						got = d
					}
				}
			}
			s.Check(got == w, fmt.Sprintf("%s: %s table", f.Name(), names[i]), c.Pos(f.Pos()), got, fmt.Sprintf("byte table is {%s}, RFC 8259 string syntax requires {%s}", got, w))
		}
		s.Check(len(descs) == 3, f.Name()+": three byte tests (body, escape, hex)", c.Pos(f.Pos()), fmt.Sprint(len(descs)), fmt.Sprintf("%d byte tests in the string scanner", len(descs)))
		// the \u escape takes exactly four hexadecimal digits: trip bound of the loop around the hex-digit test
		for j, d := range descs {
			if d != want[2] || j >= len(descBlocks) {
				continue
			}
			hb := descBlocks[j]
			k, how := hexLoopBound(hb)
			key := f.Name() + ": \\u is followed by four hex digits"
			switch {
			case how == "":
				s.Und(key, c.Pos(hb.Instrs[0].Pos()), "the loop around the hex-digit test has no recognised constant trip bound")
			default:
				s.Check(k == 4, key, c.Pos(hb.Instrs[0].Pos()), how, fmt.Sprintf("the hex-digit loop of the \\u escape runs at most %d times (%s): RFC 8259 requires exactly four digits", k, how))
			}
		}
	}}

// foldConstSum: v is a constant or a sum of constants (a named result bumped once: 0 + 1).
func foldConstSum(v ssa.Value, depth int) (int64, bool) {
	if k, ok := core.ConstInt(v); ok {
		return k, true
	}
	if bo, ok := v.(*ssa.BinOp); ok && bo.Op == token.ADD && depth < 4 {
		a, ok1 := foldConstSum(bo.X, depth+1)
		b, ok2 := foldConstSum(bo.Y, depth+1)
		return a + b, ok1 && ok2
	}
	return 0, false
}

// hexLoopBound: the constant trip bound of the innermost loop around block hb:
// a counter from 0 in steps of 1 tested `< K` at the loop header (possibly with
// further conjuncts), or a `for range L` loop with L = K or min(K, ...).
func hexLoopBound(hb *ssa.BasicBlock) (int64, string) {
	f := hb.Parent()
	var hdr *ssa.BasicBlock
	for _, h := range f.Blocks {
		if !(h == hb || h.Dominates(hb)) || !core.Reach(hb)[h] {
			continue
		}
		back := false
		for _, p := range h.Preds {
			if h.Dominates(p) {
				back = true
			}
		}
		if back && (hdr == nil || hdr.Dominates(h)) {
			hdr = h
		}
	}
	if hdr == nil {
		return 0, ""
	}
	constOrMin := func(v ssa.Value) (int64, bool) {
		if k, ok := core.ConstInt(v); ok {
			return k, true
		}
		if call, ok := v.(*ssa.Call); ok {
			if b, isB := call.Call.Value.(*ssa.Builtin); isB && b.Name() == "min" {
				for _, a := range call.Call.Args {
					if k, ok := core.ConstInt(a); ok {
						return k, true
					}
				}
			}
		}
		return 0, false
	}
	for _, in := range hdr.Instrs {
		ph, ok := in.(*ssa.Phi)
		if !ok {
			break
		}
		if !core.IsInteger(ph.Type()) {
			continue
		}
		okInit, okStep := true, false
		var next ssa.Value
		i0 := int64(0)
		for i, p := range hdr.Preds {
			if hdr.Dominates(p) {
				if add, ok := ph.Edges[i].(*ssa.BinOp); ok && add.Op == token.ADD && add.X == ssa.Value(ph) && core.IsConstInt(add.Y, 1) {
					okStep, next = true, add
				} else {
					okInit = false
				}
			} else if k, isK := foldConstSum(ph.Edges[i], 0); isK {
				i0 = k
			} else {
				okInit = false
			}
		}
		// position form: for end := min(n+K, len(b)); n < end; n++ — the position itself counts, up to K past its start
		if okStep {
			if iff := core.IfOf(hdr); iff != nil {
				if bo, ok := iff.Cond.(*ssa.BinOp); ok && bo.Op == token.LSS && bo.X == ssa.Value(ph) {
					if call, ok := bo.Y.(*ssa.Call); ok {
						if bi, isB := call.Call.Value.(*ssa.Builtin); isB && bi.Name() == "min" {
							for _, a := range call.Call.Args {
								add, ok := a.(*ssa.BinOp)
								if !ok || add.Op != token.ADD {
									continue
								}
								k, isK := core.ConstInt(add.Y)
								if !isK {
									continue
								}
								for i, p := range hdr.Preds {
									if !hdr.Dominates(p) && ph.Edges[i] == add.X {
										return k, fmt.Sprintf("position < min(start+%d, ...) at the loop header", k)
									}
								}
							}
						}
					}
				}
			}
		}
		if !okInit || !okStep {
			continue
		}
		// counted form: j < K (or j <= K) tested at the header, j starting at a constant
		if iff := core.IfOf(hdr); iff != nil {
			if bo, ok := iff.Cond.(*ssa.BinOp); ok && (bo.Op == token.LSS || bo.Op == token.LEQ) && bo.X == ssa.Value(ph) {
				if k, ok := constOrMin(bo.Y); ok {
					trips := k - i0
					if bo.Op == token.LEQ {
						trips++
					}
					return trips, fmt.Sprintf("counter from %d while %s %d at the loop header", i0, bo.Op, k)
				}
			}
		}
		if i0 != 0 {
			continue
		}
		// range-over-int form: next < L tested at the latch
		for _, ref := range *next.Referrers() {
			if bo, ok := ref.(*ssa.BinOp); ok && bo.Op == token.LSS && bo.X == next {
				if k, ok := constOrMin(bo.Y); ok {
					return k, fmt.Sprintf("range over min(%d, remaining input)", k)
				}
			}
		}
	}
	return 0, ""
}

// byteParam: the []byte parameter a scanner function reads its input from.
func byteParam(f *ssa.Function) *ssa.Parameter {
	for _, p := range f.Params {
		if core.IsByteSlice(p.Type()) {
			return p
		}
	}
	return nil
}

// isStringsToBytes recognises the element-wise conversion helper
//
//	func(ss ...string) [][]byte { out := make([][]byte, 0, ..); for _, s := range ss { out = append(out, []byte(s)) }; return out }
//
// by its shape: one range loop over the whole parameter, the result starts
// empty, every iteration appends exactly the converted element, and the
// accumulated slice is what is returned.
func isStringsToBytes(h *ssa.Function) bool {
	if h.Blocks == nil || len(h.Params) != 1 || h.Signature.Results().Len() != 1 {
		return false
	}
	rs := fde.FindRangeOver(h, h.Params[0])
	if len(rs) != 1 {
		return false
	}
	r := rs[0]
	ret := retOf(r.Done)
	if ret == nil || len(core.Returns(h)) != 1 {
		return false
	}
	if mk, isMake := ret.Results[0].(*ssa.MakeSlice); isMake {
		// indexed form: out := make([][]byte, len(ss)); out[i] = []byte(ss[i])
		ln, ok := mk.Len.(*ssa.Call)
		if !ok || !core.IsBuiltin(&ln.Call, "len") || ln.Call.Args[0] != ssa.Value(h.Params[0]) {
			return false
		}
		n := 0
		for _, ref := range *mk.Referrers() {
			switch x := ref.(type) {
			case *ssa.IndexAddr:
				if x.Index != r.Index || x.Block() != r.Body {
					return false
				}
				for _, r2 := range *x.Referrers() {
					st, ok := r2.(*ssa.Store)
					if !ok {
						return false
					}
					cv, ok := st.Val.(*ssa.Convert)
					if !ok || cv.X != ssa.Value(r.Load) {
						return false
					}
					n++
				}
			case *ssa.Return, *ssa.DebugRef:
			default:
				return false
			}
		}
		return n == 1 && len(r.Body.Succs) == 1 && r.Body.Succs[0] == r.Header
	}
	acc, ok := ret.Results[0].(*ssa.Phi)
	if !ok || acc.Block() != r.Header {
		return false
	}
	for k, pr := range r.Header.Preds {
		e := acc.Edges[k]
		if !r.Header.Dominates(pr) {
			// initial value: empty
			switch x := e.(type) {
			case *ssa.MakeSlice:
				if !core.IsConstInt(x.Len, 0) {
					return false
				}
			case *ssa.Const:
				if x.Value != nil {
					return false
				}
			default:
				return false
			}
			continue
		}
		ap, ok := e.(*ssa.Call)
		if !ok || !core.IsBuiltin(&ap.Call, "append") || ap.Call.Args[0] != ssa.Value(acc) || ap.Block() != r.Body {
			return false
		}
		one, ok := ap.Call.Args[1].(*ssa.Slice)
		if !ok {
			return false
		}
		arr, ok := one.X.(*ssa.Alloc)
		if !ok {
			return false
		}
		if at, ok := arr.Type().Underlying().(*types.Pointer).Elem().Underlying().(*types.Array); !ok || at.Len() != 1 {
			return false
		}
		okElem := false
		for _, ref := range *arr.Referrers() {
			if ia, ok := ref.(*ssa.IndexAddr); ok {
				for _, r2 := range *ia.Referrers() {
					if st, ok := r2.(*ssa.Store); ok {
						cv, ok := st.Val.(*ssa.Convert)
						okElem = ok && cv.X == ssa.Value(r.Load)
					}
				}
			}
		}
		if !okElem {
			return false
		}
	}
	// the loop body is straight-line back to the header
	return len(r.Body.Succs) == 1 && r.Body.Succs[0] == r.Header
}

// searchDomain: the byte loaded by u sits at position n + i of the input where
// i is the result of bytes.IndexAny / bytes.IndexByte on input[n:] for a
// constant set of bytes, and the load is reached only when the search found
// something: the byte can only be a member of that set. nil: no restriction.
func searchDomain(u *ssa.UnOp, bp *ssa.Parameter) map[byte]bool {
	ia, ok := u.X.(*ssa.IndexAddr)
	if !ok || ia.X != ssa.Value(bp) {
		return nil
	}
	add, ok := ia.Index.(*ssa.BinOp)
	if !ok || add.Op != token.ADD {
		return nil
	}
	for _, pr := range [][2]ssa.Value{{add.X, add.Y}, {add.Y, add.X}} {
		call, ok := pr[1].(*ssa.Call)
		if !ok {
			continue
		}
		isAny := core.CalleeIs(&call.Call, "bytes", "IndexAny")
		isByte := core.CalleeIs(&call.Call, "bytes", "IndexByte")
		if !isAny && !isByte {
			continue
		}
		sl, ok := call.Call.Args[0].(*ssa.Slice)
		if !ok || sl.X != ssa.Value(bp) || sl.High != nil || sl.Low != pr[0] {
			continue
		}
		set := map[byte]bool{}
		if isAny {
			k, ok := core.ConstString(call.Call.Args[1])
			if !ok {
				return nil
			}
			for i := 0; i < len(k); i++ {
				if k[i] >= 0x80 {
					return nil // IndexAny works on runes: only ASCII sets are byte sets
				}
				set[k[i]] = true
			}
		} else {
			k, ok := core.ConstInt(call.Call.Args[1])
			if !ok {
				return nil
			}
			set[byte(k)] = true
		}
		// found: a dominating test excludes -1
		for _, de := range core.DominatingConds(u.Block()) {
			cond, val := core.StripNot(de.Cond, de.Val)
			bo, ok := cond.(*ssa.BinOp)
			if !ok || bo.X != ssa.Value(call) {
				continue
			}
			k, isC := core.ConstInt(bo.Y)
			if !isC {
				continue
			}
			switch {
			case k == -1 && ((bo.Op == token.NEQ && val) || (bo.Op == token.EQL && !val)),
				k == 0 && ((bo.Op == token.GEQ && val) || (bo.Op == token.LSS && !val)),
				k == -1 && ((bo.Op == token.GTR && val) || (bo.Op == token.LEQ && !val)):
				return set
			}
		}
	}
	return nil
}

// R08.8
var ruleJSONGate = &core.Rule{ID: "R08.8", Min: 1,
	Doc: "cheap gate in front of the scanner (a module function from the header to bool whose refusal rejects the input, none required): its byte loop, tabulated over 0..255, steps over the four JSON whitespace bytes and answers true for '{' and '[' — a document may be preceded by whitespace (RFC 8259 §2)",
	Run: func(c *core.Ctx, s *core.Sink) {
		f, pcall := jsonHelperFn(c)
		if pcall == nil {
			core.Bail("JSON helper without a scanner call")
		}
		n := 0
		for _, ci := range core.Calls(f) {
			call, ok := ci.(*ssa.Call)
			if !ok {
				continue
			}
			g := call.Call.StaticCallee()
			if g == nil || g == getJSON(c).parse || !core.InMod(g) || g.Blocks == nil || len(g.Params) != 1 || len(call.Call.Args) != 1 || call.Call.Args[0] != ssa.Value(f.Params[0]) {
				continue
			}
			if !core.IsByteSlice(g.Params[0].Type()) || g.Signature.Results().Len() != 1 {
				continue
			}
			if bt, ok := g.Signature.Results().At(0).Type().Underlying().(*types.Basic); !ok || bt.Kind() != types.Bool {
				continue
			}
			// only a call whose answer decides a rejection
			gates := false
			for _, r := range *call.Referrers() {
				switch x := r.(type) {
				case *ssa.If:
					gates = true
				case *ssa.UnOp:
					for _, r2 := range *x.Referrers() {
						if _, ok := r2.(*ssa.If); ok {
							gates = true
						}
					}
				}
			}
			if !gates {
				continue
			}
			n++
			rs := fde.FindRangeOver2(g, g.Params[0])
			if len(rs) == 0 {
				// neither a loop nor a call that could do the stepping: the gate looks at a fixed position
				loops, calls := false, false
				for _, b := range g.Blocks {
					if loopBlock(b) {
						loops = true
					}
				}
				for _, ci := range core.Calls(g) {
					if _, isB := ci.Common().Value.(*ssa.Builtin); !isB {
						for _, a := range ci.Common().Args {
							if core.IsByteSlice(a.Type()) {
								calls = true
							}
						}
					}
				}
				if !loops && !calls {
					s.Bad("gate "+g.Name()+": byte loop", c.Pos(g.Pos()), "the gate has no loop over the header and hands it to no function: it judges one fixed position, so a JSON document preceded by whitespace is refused before the scanner sees it")
					continue
				}
			}
			if len(rs) != 1 {
				s.Und("gate "+g.Name()+": byte loop", c.Pos(g.Pos()), fmt.Sprintf("%d loops over the header found in the gate (need exactly 1): its treatment of leading whitespace is not decided", len(rs)))
				continue
			}
			r := rs[0]
			body := loopBlocks(r.Header)
			var loads []ssa.Value
			for b := range body {
				for _, in := range b.Instrs {
					if u, ok := in.(*ssa.UnOp); ok && u.Op == token.MUL {
						if ia, ok := u.X.(*ssa.IndexAddr); ok && ia.X == ssa.Value(g.Params[0]) {
							loads = append(loads, u)
						}
					}
				}
			}
			// loads of the same element after the loop body left the loop (return raw[i] == '{' in an exit block)
			for _, b := range g.Blocks {
				if body[b] {
					continue
				}
				for _, in := range b.Instrs {
					if u, ok := in.(*ssa.UnOp); ok && u.Op == token.MUL {
						if ia, ok := u.X.(*ssa.IndexAddr); ok && ia.X == ssa.Value(g.Params[0]) && r.ElemAddr != nil && ia.Index == r.ElemAddr.Index {
							loads = append(loads, u)
						}
					}
				}
			}
			for _, bv := range []byte{' ', '\t', '\r', '\n', '{', '['} {
				key := fmt.Sprintf("gate %s: leading byte %q", g.Name(), bv)
				ev := newEval(c)
				ev.Env = fde.Env{}
				for _, l := range loads {
					ev.Env[l] = constant.MakeInt64(int64(bv))
				}
				exits, err := ev.Walk(r.Body, r.Header, func(blk *ssa.BasicBlock) bool { return blk == r.Header }, 0)
				if err != nil || len(exits) != 1 {
					s.Und(key, c.Pos(g.Pos()), fmt.Sprintf("the iteration does not evaluate (%v, %d outcomes)", err, len(exits)))
					continue
				}
				x := exits[0]
				if bv == '{' || bv == '[' {
					okT := false
					if x.Ret != nil {
						if v, ok := x.ValAt(ev, x.Ret.Results[0]); ok && v.Kind() == constant.Bool && constant.BoolVal(v) {
							okT = true
						}
					}
					s.Check(okT, key, c.Pos(g.Pos()), "answers true", fmt.Sprintf("the gate does not let a header that starts with %q through to the scanner", bv))
				} else {
					s.Check(x.Stop == r.Header, key, c.Pos(g.Pos()), "stepped over",
						fmt.Sprintf("the gate does not step over a leading %q: a JSON document preceded by whitespace is refused before the scanner sees it", bv))
				}
			}
		}
		if n == 0 {
			s.OK("gate in front of the scanner", c.Pos(f.Pos()), "none: every header reaches the scanner")
		}
	}}
