// Package rules holds the static rules and their binding to properties.
package rules

import "mtverif/internal/core"

// Assumptions is the trusted base repeated in every evidence file (DESIGN §7).
var Assumptions = []string{
	"Go type checker and go/ssa construction (golang.org/x/tools v0.29.0) are correct",
	"soundness of the analyser's engines as implemented (linear facts + Fourier-Motzkin, lockset, origin classes, finite-domain evaluator, lock-step monotonicity)",
	"contract table for std and x/net callees (read-only arguments, numeric postconditions, sync.Pool / sync.RWMutex / sync/atomic semantics, io.ReadFull reads at most len(buf))",
	"64-bit int; lengths stay far from MaxInt",
	"readers and detectors passed by the user are non-nil; user detectors are pure and race-free",
	"no unsafe, reflect, cgo or assembly in the module (asserted from imports on every run)",
}

var trusted = []string{"go/types", "go/ssa (x/tools v0.29.0)", "mtverif engines", "std/x-net contract table"}

// Properties returns the table of properties and their rules.
func Properties() []*core.Property {
	return props
}

func prop(id, level, expl string, notCovered []string, rs ...*core.Rule) *core.Property {
	return &core.Property{ID: id, Level: level, Explanation: expl, NotCovered: notCovered, Rules: rs, Trusted: trusted}
}

var props = []*core.Property{
	prop("C03", "other", "structural necessary conditions of the first-match deepest-path walk", nil, ruleTreeWF),
	prop("C02", "other", "x", nil, ruleNames, ruleTreeWF),
	prop("C15", "other", "x", nil, ruleAliases),
	prop("C07", "other", "x", nil, ruleTextNode, ruleTextPredicate, ruleTextShape, ruleBOMTable),
	prop("C11", "other", "x", nil, ruleBOMTable, rulePlainReturns, ruleASCIIClass, ruleTrim, ruleLatin),
	prop("C10", "other", "x", nil, ruleJSONNodes, ruleStackBalance),
	prop("C08", "other", "x", nil, ruleFailProp),
	prop("C13", "other", "x", nil, ruleInspectedGuard),
	prop("C12", "other", "x", nil, ruleSnifferMap, ruleDecoderTypestate, ruleLowerCase, ruleHTMLOrder),
	prop("C06", "other", "x", nil, ruleAtomics, ruleLockset, ruleWriteOnce, ruleSharedAppend, rulePkgState, ruleSnapshot, ruleFreshResults),
	prop("C16", "other", "x", nil, ruleCap),
}
