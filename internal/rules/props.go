// Package rules holds the static rules and their binding to properties.
package rules

import "mtverif/internal/core"

// Assumptions is the trusted base repeated in every evidence file (DESIGN §7).
var Assumptions = []string{
	"Go type checker and go/ssa construction (golang.org/x/tools v0.29.0) are correct",
	"soundness of the analyser's engines as implemented (linear facts + Fourier-Motzkin, lockset, origin classes, finite-domain evaluator, lock-step monotonicity)",
	"contract table for std and x/net callees (read-only arguments, numeric postconditions, sync.Pool / sync.RWMutex / sync/atomic semantics, io.ReadFull reads at most len(buf))",
	"64-bit int; lengths stay far from MaxInt",
	"readers and detectors passed by the user are non-nil; user detectors are pure and race-free",
	"no unsafe, reflect, cgo or assembly in the module (asserted from imports on every run)",
}

// NotApplicable lists, for every property id, the reason given in MANIFEST
// when the property is not (yet) claimed.
var NotApplicable = [][2]string{
	{"C01", "designed (DESIGN.md section 4, C01), analyser rules not built yet"},
	{"C04", "designed (DESIGN.md section 4, C04), analyser rules not built yet"},
	{"C05", "designed (DESIGN.md section 4, C05), analyser rules not built yet"},
	{"C09", "designed (DESIGN.md section 4, C09), analyser rules not built yet"},
	{"C14", "designed (DESIGN.md section 4, C14), analyser rules not built yet"},
	{"C17", "designed (DESIGN.md section 4, C17), analyser rules not built yet"},
	{"C18", "designed (DESIGN.md section 4, C18), analyser rules not built yet"},
	{"C19", "designed (DESIGN.md section 4, C19), analyser rules not built yet"},
}

var trusted = []string{"go/types", "go/ssa (x/tools v0.29.0)", "mtverif engines", "std/x-net contract table"}

// Properties returns the table of properties and their rules.
func Properties() []*core.Property {
	return props
}

func prop(id, level, expl string, notCovered []string, rs ...*core.Rule) *core.Property {
	return &core.Property{ID: id, Level: level, Explanation: expl, NotCovered: notCovered, Rules: rs, Trusted: trusted, LevelText: expl, Technique: "custom static analysis over go/ssa", DesignRef: "DESIGN.md section 4 " + id}
}

var props = []*core.Property{
	prop("C01", "proof", "x", nil, ruleBounds, ruleNoPanics, ruleDynCalls, ruleTermination, ruleSCC, ruleCap, rulePools, ruleTreeWF, ruleFreshResults, ruleErrorReturns),
	prop("C03", "other", "structural necessary conditions of the first-match deepest-path walk", nil, ruleTreeWF, ruleWalkDiscipline, ruleCloneChain, ruleSnapshot),
	prop("C02", "other", "x", nil, ruleNames, ruleTreeWF, ruleParams, ruleCloneChain, ruleErrorReturns),
	prop("C04", "other", "x", nil, ruleLimitSlice, ruleInputImmutable, rulePools, rulePkgState, ruleSnapshot, ruleReader),
	prop("C05", "other", "x", nil, ruleReader, ruleErrorReturns, ruleLimitSlice, ruleSnapshot),
	prop("C14", "other", "x", nil, ruleExtend, ruleLookup, ruleWalkDiscipline, ruleFreshResults),
	prop("C15", "other", "x", nil, ruleAliases, ruleNames, ruleEquality, ruleLookup),
	prop("C07", "other", "x", nil, ruleTextNode, ruleTextPredicate, ruleTextShape, ruleBOMTable, ruleWalkDiscipline, ruleLimitSlice, ruleReader),
	prop("C11", "other", "x", nil, ruleBOMTable, rulePlainReturns, ruleASCIIClass, ruleTrim, ruleLatin),
	prop("C10", "other", "x", nil, ruleJSONNodes, ruleStackBalance, ruleQueryTables, ruleQueryDiscipline, ruleTokenGate, ruleParseResults),
	prop("C08", "other", "x", nil, ruleTruncTable, ruleFailProp, ruleParseResults, ruleCap, ruleJSONNodes, ruleTokenGate, ruleSnapshot),
	prop("C09", "other", "x", nil, ruleFailProp, ruleTruncTable, ruleParseResults, ruleSeparators, ruleTokenGate),
	prop("C13", "other", "x", nil, ruleDropLastLine, ruleInspectedGuard, ruleLineThresholds, ruleTruncTable, ruleSnapshot),
	prop("C12", "other", "x", nil, ruleSnifferMap, ruleDecoderTypestate, ruleLowerCase, ruleHTMLOrder),
	prop("C06", "other", "x", nil, ruleAtomics, ruleLockset, ruleWriteOnce, ruleSharedAppend, rulePkgState, ruleSnapshot, ruleFreshResults),
	prop("C17", "other", "x", nil, ruleMonotone, ruleTextNode, ruleTreeWF),
	prop("C18", "other", "x", nil, ruleTar),
	prop("C19", "other", "x", nil, ruleZipMarkers, ruleZipSignatures, ruleZipWalk),
	prop("C16", "proof", "x", nil, ruleSCC, ruleCap, ruleFailProp),
}
