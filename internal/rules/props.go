// Package rules holds the static rules and their binding to properties.
package rules

import "mtverif/internal/core"

// Assumptions is the trusted base repeated in every evidence file (DESIGN §7).
var Assumptions = []string{
	"Go type checker and go/ssa construction (golang.org/x/tools v0.29.0) are correct",
	"soundness of the analyser's engines as implemented (linear facts + Fourier-Motzkin, lockset, origin classes, finite-domain evaluator, lock-step monotonicity)",
	"contract table for std and x/net callees (read-only arguments, numeric postconditions, sync.Pool / sync.RWMutex / sync/atomic semantics, io.ReadFull reads at most len(buf), iterators over a finite reader eventually fail)",
	"64-bit int; lengths stay far from MaxInt",
	"readers and detectors passed by the user are non-nil; user detectors are pure and race-free",
	"no unsafe, reflect, cgo or assembly in the module (asserted from imports on every run)",
}

var trusted = []string{"go/types", "go/ssa (x/tools v0.29.0)", "mtverif engines (e2, e8, fde, lockset/origin, typestate)", "std / x-net contract table"}

// NotApplicable lists reasons for properties that are not claimed. Every
// property currently has at least one structural clause that is decided, so
// the list is empty; the clauses NOT decided are listed per property in
// coverage.not_covered of its evidence file and in DESIGN.md.
var NotApplicable = [][2]string{}

// Properties returns the table of properties and their rules.
func Properties() []*core.Property {
	return props
}

type pd struct {
	id, level, levelText, technique, expl string
	notCovered                            []string
	rules                                 []*core.Rule
}

func mk(p pd) *core.Property {
	return &core.Property{ID: p.id, Level: p.level, Explanation: p.expl, NotCovered: p.notCovered, Rules: p.rules, Trusted: trusted,
		LevelText: p.levelText, Technique: p.technique, DesignRef: "DESIGN.md §4 " + p.id}
}

var props = []*core.Property{
	mk(pd{id: "C01", level: "proof",
		levelText:  "Static proof obligations over all inputs and limits at once: every index/slice/make/division/fixed-width read site in module code is proved in range against len by a linear-fact engine; every loop is ranked or of a recognised terminating form; recursion is depth-guarded or structural; no other panic source; results are non-nil. A site the engine cannot prove is reported as a violation, so on this tree obligations == discharged.",
		technique:  "abstract interpretation over go/ssa with linear facts, Houdini invariants, inferred callee summaries and Fourier-Motzkin entailment; ranking functions; counting typestate; SCC inventory",
		expl:       "decides that no module code reachable from detection can panic, read outside its header, loop forever or recurse without bound, for every (header, limit)",
		notCovered: []string{"out-of-memory when the limit is huge", "panics inside std / x/net callees beyond the stated preconditions", "nil reader argument", "32-bit int overflow", "frame size x 4096 fits the stack (arithmetic, stated)"},
		rules:      []*core.Rule{ruleBounds, ruleNoPanics, ruleDynCalls, ruleTermination, ruleSCC, ruleCap, rulePools, ruleTreeWF, ruleFreshResults, ruleErrorReturns}}),
	mk(pd{id: "C02", level: "other",
		levelText:  "Structural necessary conditions, each decided for all inputs: registered names are valid lower-case media types; only `charset` can be attached, only through the sniffer selected by the node's own type and only through mime.FormatMediaType; ancestors are cloned parameter-free up to the root; every error return carries the detached octet-stream sentinel and the callee's error.",
		technique:  "constant folding of the tree initialisers + token grammar; provenance (taint-with-sanitiser) rule on the clone; path-sensitive error discipline on the entry points' CFGs",
		expl:       "decides the shape of what detection can return: which strings can become a result's type, which parameters can be attached and how, what the parent chain is made of, what accompanies an error",
		notCovered: []string{"that mime.FormatMediaType -> mime.ParseMediaType round-trips every label (stdlib behaviour)"},
		rules:      []*core.Rule{ruleNames, ruleTreeWF, ruleParams, ruleCloneChain, ruleElemPointers, ruleErrorReturns, ruleSnifferMap}}),
	mk(pd{id: "C03", level: "other",
		levelText:  "The tree is well formed (single parent, rooted) and the only function that invokes detectors is a first-match descent (recursive, or one of the two loop forms) over the current node's children with unmodified arguments, returning the clone of exactly the static parent chain, inside one read-lock region; pooled helper state that detectors use is reset before use, so a detector's verdict is a function of the header. These are necessary and, with the trusted base, sufficient for the reported hierarchy to be the first-match deepest path.",
		technique:  "tree reconstruction from type-checked initialisers; shape rules on the walk's SSA (forward full-range loop, call arguments, edges); lockset",
		expl:       "decides the walk discipline and the clone chain for every input and every tree reachable by Extend",
		notCovered: []string{"an independent re-walk per input (runtime)"},
		rules:      []*core.Rule{ruleTreeWF, ruleWalkDiscipline, ruleCloneChain, ruleElemPointers, ruleSnapshot, ruleExtend, rulePools}}),
	mk(pd{id: "C04", level: "other",
		levelText:  "No hidden inputs or outputs: the walk receives exactly in[:limit] for the snapshot limit (order types tabulated); no detector, sniffer or entry writes through its input slice; no store to package state outside initialisers; pooled objects are typed, reset before use, and every scanner field written during scanning is reset; no nondeterministic source. Sufficient for purity modulo the trusted base.",
		technique:  "finite-domain tabulation of the slicing decision; write-through-parameter summaries over the call graph with an external contract table; pool typestate by dominance; store inventory",
		expl:       "decides purity of detection as a function of (first `limit` bytes, limit, registered formats) and immutability of the caller's buffer",
		notCovered: []string{"read-only behaviour of std callees is taken from the contract table"},
		rules:      []*core.Rule{ruleLimitSlice, ruleInputImmutable, ruleContracts, rulePools, rulePkgState, ruleSnapshot, ruleReader, ruleBounds}}),
	mk(pd{id: "C05", level: "other",
		levelText:  "Sibling agreement and reader confinement: both entries take one limit snapshot and hand (buffer, that limit) to the same walk under the read lock; the reader is used only by io.ReadFull into make([]byte, limit) / io.ReadAll iff limit == 0; the walk sees buf[:n]; every path from a read to a success return tests the error, only ReadFull's may be excused and only by io.EOF / io.ErrUnexpectedEOF; the file entry forwards to the reader entry.",
		technique:  "use-site confinement of the reader parameter; path-sensitive typestate of the error value over the CFG; transitive snapshot counting",
		expl:       "decides how many bytes can be consumed, what the walk sees, and that read failures surface, for every reader behaviour",
		notCovered: []string{"semantics of io.ReadFull / io.ReadAll / os.Open themselves"},
		rules:      []*core.Rule{ruleReader, ruleErrorReturns, ruleLimitSlice, ruleSnapshot}}),
	mk(pd{id: "C06", level: "other",
		levelText:  "Data-race freedom of the module's own code by lockset + origin analysis (children field under R/W lock, atomic-only limit, write-once node fields, no in-place append on shared slices, no package state besides pools/atomics/the tree) and the single-snapshot clause (one limit load, one walk, whole descent in one read region, fresh results).",
		technique:  "lockset dataflow with requires-lock summaries; origin classes (fresh/param/global); store and append inventory; transitive atomic-load counting",
		expl:       "decides the locking and publication discipline for all interleavings",
		notCovered: []string{"races inside user-supplied detectors", "linearizability as a property of histories (only the structural single-snapshot condition is decided)"},
		rules:      []*core.Rule{ruleAtomics, ruleLockset, ruleWriteOnce, ruleSharedAppend, rulePkgState, ruleSnapshot, ruleFreshResults, rulePools, ruleExtend}}),
	mk(pd{id: "C07", level: "proof",
		levelText:  "Exhaustive: the text detector's per-byte predicate is tabulated over all 256 byte values from its SSA and equals the WHATWG binary-data-byte table; the BOM table is exactly the five marks with no shadowed entry; the scan covers the whole unmodified header; text/plain exists once, under the root, last; children are consulted only after the parent; only the first `limit` bytes reach the walk and no detector tried before text writes into them.",
		technique:  "finite-domain evaluation of SSA expression trees over the byte domain; shape rules; tree model",
		expl:       "decides text-versus-binary for every header and limit",
		notCovered: []string{},
		rules:      []*core.Rule{ruleTextPredicate, ruleTextShape, ruleBOMTable, ruleTextNode, ruleWalkDiscipline, ruleLimitSlice, ruleReader, ruleInputImmutable}}),
	mk(pd{id: "C08", level: "other",
		levelText:  "Necessary conditions of JSON completeness: the whole/truncated criterion table over all order types of (limit, len); failure of an inner value fails the enclosing container; the entry reports the scanner's own counters, the inspected counter moves by +1 only; the recursion cap admits depth 4096; first-token gate and node placement; one limit snapshot.",
		technique:  "finite-domain tabulation with forking walk; failed-edge propagation rule on the scanner's CFGs; provenance of the entry's results",
		expl:       "decides the decision logic around the scanner, not the scanner's grammar",
		notCovered: []string{"completeness of the scanner for every RFC 8259 document and every cut point (grammar-level; not decided)"},
		rules:      []*core.Rule{ruleTruncTable, ruleFailProp, ruleParseResults, ruleAccounting, ruleLexTables, ruleCap, ruleDepthCost, ruleJSONNodes, ruleTokenGate, ruleJSONGate, ruleSnapshot, rulePools, ruleReader, ruleLimitSlice, ruleWalkDiscipline}}),
	mk(pd{id: "C09", level: "other",
		levelText:  "Necessary conditions of JSON soundness: failure propagation; whole-mode acceptance is parsed == len; per-byte tables of every structural byte test in the container loops (only ',' continues, only the matching closer closes, '\"' starts a key, ':' follows it, everything else fails), value dispatch table; first-token gate.",
		technique:  "finite-domain tabulation of byte dispatches (256 values each) with helper-call folding; failed-edge propagation",
		expl:       "decides the structural byte discipline of the container scanners and the acceptance decision",
		notCovered: []string{"soundness of the scalar scanners (strings, numbers, literals) for every non-JSON string"},
		rules:      []*core.Rule{ruleFailProp, ruleCap, ruleTruncTable, ruleParseResults, ruleAccounting, ruleSeparators, ruleLexTables, ruleTokenGate, rulePools, ruleSnapshot}}),
	mk(pd{id: "C10", level: "other",
		levelText:  "Path-stack push/pop balance on every success path and no underflow; query tables equal the RFC 7946 / HAR / glTF specification tables; query discipline: every key is matched against every query by full path equality, the member is judged right after its value and before any other exit, the verdict flag is only set under match and value equality and never cleared; detector/query/node agreement and sibling order.",
		technique:  "counting typestate over the scanner CFGs; constant folding of the query table; shape and dominance rules on the object scanner",
		expl:       "decides the mechanisms that make the sub-type verdict depend only on top-level members",
		notCovered: []string{"order/content independence as a behavioural fact for every document"},
		rules:      []*core.Rule{ruleStackBalance, ruleQueryTables, ruleQueryDiscipline, ruleJSONNodes, ruleTokenGate, ruleParseResults, rulePools}}),
	mk(pd{id: "C11", level: "other",
		levelText:  "BOM table and order; BOM first, also when the HTML / XML sniffers fall back for a document without a declaration; every return of utf-8 is control dependent on utf8.Valid or the ASCII test; the ASCII class, tabulated over 256 bytes through the class table, is 7-bit and contains printable ASCII; the validated buffer is the input minus at most an incomplete final rune (FullRune-guarded); Latin fallback: C1 predicate table, flag monotone, verdict names; helpers never answer utf-8 without validation; a hand-decoded rune is an error only as (RuneError, width 1).",
		technique:  "finite-domain tabulation through constant tables; control-dependence rules",
		expl:       "decides the decision structure of the plain sniffer for every byte string",
		notCovered: []string{"truthfulness for every byte string as a whole (utf8.Valid semantics are trusted)"},
		rules:      []*core.Rule{ruleBOMTable, rulePlainReturns, ruleASCIIClass, ruleTrim, ruleLatin, ruleSnifferMap, ruleRuneError, ruleLabelPaths}}),
	mk(pd{id: "C12", level: "other",
		levelText:  "Sniffer map roles; the XML decoder has a usable CharsetReader before the first token; every returned label is lower-cased (XML: strings.ToLower; HTML: in-place ASCII lower-casing tabulated over 256 bytes, before any use); BOM dominates the meta prescan; utf-16* -> utf-8; pragma decision table over the prescan state equals WHATWG, per-tag state is reset; the pragma value scanner tests for an opening quote after skipping the blanks behind the equals sign; both quote characters open a value in the XML and the pragma reader, the closing quote is searched behind the opening one and the text between them returned; whitespace cutsets and the terminator set of a bare label are exactly the HTML ones; start tags and self-closing tags both reach the attribute reading; a label found is returned (reader answer pinned) and lies on the success side of decoder error / token type / search tests; charset attribute value and pragma scanner result flow into the label.",
		technique:  "typestate (field store before first token call); finite-domain tabulation and evaluation with pinned values (quote byte, token kind, reader answer); dominance / polarity rules; value-flow through phis",
		expl:       "decides the label plumbing around the x/net tokenizer and encoding/xml",
		notCovered: []string{"the WHATWG prescan as implemented by x/net/html", "whitespace variants inside the XML declaration (only the choice of quote character is decided)", "labels reached only through shapes the quote / terminator rules do not model (hand-written scanning loops) are undecided"},
		rules:      []*core.Rule{ruleSnifferMap, ruleDecoderTypestate, ruleLowerCase, ruleHTMLOrder, rulePragmaValue, ruleXMLQuote, ruleHTMLTokens, ruleLabelPaths, ruleQuotedLabels, ruleParams, ruleReader, ruleLimitSlice}}),
	mk(pd{id: "C13", level: "other",
		levelText:  "Line cutting agrees with the JSON truncation table (same order types); both detectors pass their own (header, limit) through it first; NDJSON lines are judged by the parsed length; thresholds tabulated (lines >= 2 and containers >= 1; fields >= 2 and records >= 2); csv reader: FieldsPerRecord untouched, detector's delimiter, EOF ends, any other error rejects.",
		technique:  "finite-domain tabulation; path-sensitive error typestate; field-store inventory on the csv reader",
		expl:       "decides the truncation and acceptance logic around encoding/csv and the JSON scanner",
		notCovered: []string{"behaviour of encoding/csv at every cut position"},
		rules:      []*core.Rule{ruleDropLastLine, ruleInspectedGuard, ruleLineThresholds, ruleTruncTable, ruleSnapshot, rulePools, ruleFailProp, ruleReader, ruleLimitSlice, ruleWalkDiscipline, ruleJSONNodes}}),
	mk(pd{id: "C14", level: "other",
		levelText:  "Extend builds a fresh node from its parameters with parent = receiver and publishes [new] ++ old by one store under the write lock, old children read under the same lock; package-level Extend delegates to the root; lookup visits type, every alias and every child; the walk is first-match over whatever children holds; results are clones.",
		technique:  "shape rules on Extend's SSA; lockset regions; origin analysis",
		expl:       "with C03's rules, structurally complete for the priority and isolation clauses",
		notCovered: []string{},
		rules:      []*core.Rule{ruleExtend, ruleLookup, ruleWalkDiscipline, ruleFreshResults, ruleWriteOnce, ruleSnapshot, ruleParams, rulePkgState, ruleElemPointers, ruleLockset, ruleCloneChain}}),
	mk(pd{id: "C15", level: "other",
		levelText:  "Both operands of every comparison in Is / EqualsAny are ParseMediaType results, except alias operands, which are registered normalised; every registered name and alias is a lower-case token/token; every alias / candidate is visited; lookup compares exactly; results' type strings come only from FormatMediaType over a registered name; every result copy carries the aliases of the node it was made from.",
		technique:  "value-provenance rule on string comparisons; token grammar on folded constants; field-copy rule on result clones",
		expl:       "decides normalisation discipline of the equality helpers",
		notCovered: []string{"ParseMediaType invariances (stdlib)"},
		rules:      []*core.Rule{ruleAliases, ruleNames, ruleEquality, ruleLookup, ruleParams, rulePkgState, ruleCloneChain, ruleElemPointers}}),
	mk(pd{id: "C16", level: "proof",
		levelText:  "Every recursive SCC of module functions is either the scanner family — guard tabulated around the cap, depth grows on every cycle through the guard, every construction installs a positive constant cap, nothing overwrites it, entry at depth 0 — or structural over the tree's children. On the capped edge the scanner fails and failure propagates.",
		technique:  "Tarjan SCC inventory over static calls; finite-domain tabulation of the guard; shortest-cycle increment; constructor/store inventory",
		expl:       "bounds recursion depth by a constant independent of input size and limit",
		notCovered: []string{"frame size x 4096 fits the goroutine stack (arithmetic, stated)"},
		rules:      []*core.Rule{ruleSCC, ruleCap, ruleFailProp}}),
	mk(pd{id: "C17", level: "other",
		levelText:  "Every root-level non-text detector is proved prefix-monotone for arbitrary limits by a lock-step two-run argument over its SSA (or hands over to another root-level non-text detector); text is the last root child; the bytes entry hands the walk exactly in[:L] and L from one snapshot of the limit. Sufficient: if root child D accepts x[:L], D or an earlier non-text sibling accepts x[:L'].",
		technique:  "relational (2-safety) abstract interpretation: stable / growing / may-turn-true / may-turn-false classification of values and branches",
		expl:       "decides monotonicity in the limit of all 96 root-level binary detectors",
		notCovered: []string{},
		rules:      []*core.Rule{ruleMonotone, ruleTextNode, ruleTreeWF, ruleLimitSlice, ruleSnapshot}}),
	mk(pd{id: "C18", level: "other",
		levelText:  "Tar: 512-byte guard and block; recorded checksum parsed from [148:156) and exactly that window blanked (index table 0..511); per-byte contribution to the (unsigned, signed) sums tabulated over all byte values and checked additive; acceptance is the disjunction of the two equalities; octal parser rejects every non-octal byte.",
		technique:  "finite-domain tabulation of one loop iteration and of the result expressions; shape rules",
		expl:       "decides the checksum mechanics; the single-byte-corruption clause follows by arithmetic that is stated, not mechanised",
		notCovered: []string{"agreement with real tar writers", "the arithmetic corruption argument itself"},
		rules:      []*core.Rule{ruleTar}}),
	mk(pd{id: "C19", level: "other",
		levelText:  "Marker constants and first-entry list at the walker's call sites; ODF/EPUB nodes are decided by `mimetype`+registered type at offset 30 only; refinement (odt/ott ...) is parent/child; zip children, apk before jar; walker layout: name at 30, size at 18, +49, unbounded PK\\x03\\x04 searches, loop of 4, only recognised steps, accepts only under a marker match; the zip node itself accepts the three PK signatures (tabulated).",
		technique:  "constant folding at call sites; step whitelist and shape rules on the walker's SSA; tree model",
		expl:       "decides the constants and the layout of the entry walk",
		notCovered: []string{"agreement of the header walk with the archive's real entry list"},
		rules:      []*core.Rule{ruleZipMarkers, ruleZipSignatures, ruleZipWalk, ruleZipRoot, rulePkgState}}),
}
