package rules

import (
	"fmt"
	"go/token"
	"go/types"

	"golang.org/x/tools/go/ssa"

	"mtverif/internal/core"
	"mtverif/internal/fde"
)

// R10.4 query discipline
var ruleQueryDiscipline = &core.Rule{ID: "R10.4", Min: 8,
	Doc: "query discipline of the object scanner: for every key (unless the query is already satisfied) the path is matched against every query (range loop, or slices.IndexFunc with an equality callback; the answer an index / -1 or a query pointer / nil), by full path equality; the member is judged immediately after its value was consumed, before any other exit; the verdict flag is set only under path match and (no accepted values, or equality of an accepted value with the trimmed value bytes), over all accepted values; the flag is never cleared outside the reset routine; the judgement may sit in a verified helper or bool predicate that receives the matched query and exactly this member's value bytes; path equality may be slices.EqualFunc with bytes.Equal",
	Run: func(c *core.Ctx, s *core.Sink) {
		m := getJSON(c)
		// verdict flag: field returned as last result by the entry
		satF := -1
		for _, r := range core.Returns(m.parse) {
			if n := len(r.Results); n >= 1 {
				if _, fld, ok := core.LoadOfField(spilled(r, n-1)); ok {
					satF = fld
				}
			}
		}
		if satF < 0 {
			core.Bail("query verdict field not identified from the scanner entry's results")
		}
		// matcher: the call whose integer result is compared with -1 in a container scanner (the judgement)
		var matcher *ssa.Function
		var matchCall *ssa.Call
		var obj *ssa.Function
		for _, f := range m.famList {
			for _, b := range f.Blocks {
				iff := core.IfOf(b)
				if iff == nil {
					continue
				}
				bo, ok := iff.Cond.(*ssa.BinOp)
				if !ok || !isNoMatch(bo.Y) || (bo.Op != token.NEQ && bo.Op != token.EQL) {
					continue
				}
				cands := []ssa.Value{bo.X}
				if ph, ok := bo.X.(*ssa.Phi); ok {
					cands = ph.Edges
				}
				for _, v := range cands {
					if call, ok := v.(*ssa.Call); ok {
						if g := call.Call.StaticCallee(); g != nil && core.InMod(g) && g.Blocks != nil {
							matcher, matchCall, obj = g, call, f
						}
					}
				}
			}
		}
		if matcher == nil {
			s.Bad("path matcher", c.Pos(m.parse.Pos()), "no call matching the current path against the queries found in the scanner: sub-types cannot be decided by member paths")
			return
		}
		// its query-list argument is the caller's parameter
		var qsArg ssa.Value
		var qsIdx = -1
		for i, a := range matchCall.Call.Args {
			if _, isSl := a.Type().Underlying().(*types.Slice); isSl && !core.IsByteSlice(a.Type()) {
				if _, isLoad := a.(*ssa.UnOp); !isLoad {
					qsArg, qsIdx = a, i
				}
			}
		}
		isParam := false
		for _, p := range obj.Params {
			if qsArg == ssa.Value(p) {
				isParam = true
			}
		}
		s.Check(isParam, obj.Name()+": matcher receives the caller's queries", c.Pos(matchCall.Pos()), "query list parameter", "the path is matched against something other than the query list handed down by the entry")
		if qsIdx < 0 {
			return
		}
		// the path it compares with: a parameter fed with the path stack, or the path stack field of its receiver
		isPath := func(v ssa.Value) bool {
			for i, p := range matcher.Params {
				if v == ssa.Value(p) {
					if _, fld, ok := core.LoadOfField(matchCall.Call.Args[i]); ok && fld == m.stackF {
						return true
					}
				}
			}
			if base, fld, ok := core.LoadOfField(v); ok && fld == m.stackF && len(matcher.Params) > 0 && base == ssa.Value(matcher.Params[0]) && m.isState(base.Type()) && matchCall.Call.Args[0] == ssa.Value(obj.Params[0]) {
				return true
			}
			return false
		}
		// A: matcher shape
		rs := fde.FindRangeOver2(matcher, matcher.Params[qsIdx])
		okA, whyA := false, "the matcher does not range over every query from the first"
		// library form: return slices.IndexFunc(queries, func(q) bool { return equal(q.path, path) }): the index of
		// the first query the callback accepts, or -1 (contract of the library function)
		if len(rs) == 0 && len(matcher.Blocks) == 1 {
			if rets := core.Returns(matcher); len(rets) == 1 {
				if ic, ok := rets[0].Results[0].(*ssa.Call); ok && isStdGeneric(&ic.Call, "slices.IndexFunc") && ic.Call.Args[0] == ssa.Value(matcher.Params[qsIdx]) {
					if mc, ok := ic.Call.Args[1].(*ssa.MakeClosure); ok {
						cb, _ := mc.Fn.(*ssa.Function)
						whyA = "the callback of the library search is not the equality of the query's path with the current path"
						if cb != nil && len(cb.Blocks) == 1 && len(cb.Params) == 1 {
							if cr := core.Returns(cb); len(cr) == 1 {
								if call, ok := cr[0].Results[0].(*ssa.Call); ok && (len(call.Call.Args) == 2 || isSlicesEqualFuncBytes(call)) {
									// arg0: the path field of the callback's parameter (spilled to a local); arg1: the captured current path
									pf := -1
									if base, fld, ok := core.LoadOfField(call.Call.Args[0]); ok {
										if al, isAl := base.(*ssa.Alloc); isAl {
											if st := onlyStore(al); st != nil && st.Val == ssa.Value(cb.Params[0]) {
												pf = fld
											}
										}
									}
									if fv, isF := call.Call.Args[0].(*ssa.Field); isF && fv.X == ssa.Value(cb.Params[0]) {
										pf = fv.Field
									}
									capturedPath := false
									if ld, isLd := call.Call.Args[1].(*ssa.UnOp); isLd && ld.Op == token.MUL {
										if fv, isFV := ld.X.(*ssa.FreeVar); isFV {
											for i, x := range cb.FreeVars {
												if x == fv && i < len(mc.Bindings) {
													if cell, isAl := mc.Bindings[i].(*ssa.Alloc); isAl {
														if st := onlyStore(cell); st != nil && isPath(st.Val) {
															capturedPath = true
														}
													}
												}
											}
										}
									}
									wantF := -1
									if st, ok := matcher.Params[qsIdx].Type().Underlying().(*types.Slice); ok {
										if str, ok := st.Elem().Underlying().(*types.Struct); ok {
											for i := 0; i < str.NumFields(); i++ {
												if sl, ok := str.Field(i).Type().Underlying().(*types.Slice); ok {
													if _, ok := sl.Elem().Underlying().(*types.Slice); ok && wantF < 0 {
														wantF = i // the first [][]byte field: the path (the accepted values come second)
													}
												}
											}
										}
									}
									if pf >= 0 && pf == wantF && capturedPath {
										okA = true
										if eq := call.Call.StaticCallee(); eq != nil && core.InMod(eq) {
											okB, whyB := pathEqShape(eq)
											s.Check(okB, eq.Name()+": full path equality", c.Pos(eq.Pos()), "same length and every segment bytes.Equal", whyB)
										} else if isSlicesEqualFuncBytes(call) {
											s.OK("path equality: slices.EqualFunc with bytes.Equal", c.Pos(call.Pos()), "same length and every segment bytes.Equal (library contract)")
										} else {
											s.Bad("path equality helper", c.Pos(call.Pos()), "path comparison is not a module function that can be inspected")
										}
									}
								}
							}
						}
					}
				}
			}
		}
		if len(rs) == 1 {
			r := rs[0]
			iff := core.IfOf(r.Body)
			if iff != nil {
				if call, ok := iff.Cond.(*ssa.Call); ok && call.Block() == r.Body && (len(call.Call.Args) == 2 || isSlicesEqualFuncBytes(call)) && isPath(call.Call.Args[1]) {
					// arg0: field #0 of the element
					elemPath := false
					if fld, ok := elemFieldLoad(r, call.Call.Args[0]); ok && fld == pathFieldOf(r.ElemAddr) {
						elemPath = true
					}
					hit := retOf(r.Body.Succs[0])
					miss := r.Body.Succs[1]
					done := retOf(r.Done)
					if elemPath && hit != nil && isHitOf(hit.Results[0], r) && miss == r.Header && done != nil && isNoMatch(done.Results[0]) && noMatchAgrees(hit.Results[0], done.Results[0]) {
						okA = true
						// B: the equality helper
						if eq := call.Call.StaticCallee(); eq != nil && core.InMod(eq) {
							okB, whyB := pathEqShape(eq)
							s.Check(okB, eq.Name()+": full path equality", c.Pos(eq.Pos()), "same length and every segment bytes.Equal", whyB)
						} else if isSlicesEqualFuncBytes(call) {
							s.OK("path equality: slices.EqualFunc with bytes.Equal", c.Pos(call.Pos()), "same length and every segment bytes.Equal (library contract)")
						} else {
							s.Bad("path equality helper", c.Pos(call.Pos()), "path comparison is not a module function that can be inspected")
						}
					} else {
						whyA = "a query is skipped or selected for a reason other than equality of its path with the current path (extra condition in the matching loop, or wrong result on hit / miss)"
					}
				} else if okI, whyI := inlinePathEq(matcher, r, isPath); okI {
					okA = true
					s.OK(matcher.Name()+": full path equality (inline)", c.Pos(iff.Pos()), "same length, then every segment bytes.Equal; any difference moves on to the next query")
				} else if whyI != "" {
					whyA = whyI
				} else {
					whyA = "the matching loop tests something other than path equality with the current path"
				}
			}
		}
		s.Check(okA, matcher.Name()+": first query whose path equals the current path, else -1", c.Pos(matcher.Pos()), "range over all queries", whyA)
		// C: the matched index feeding the judgement
		var judge *ssa.If
		var matched ssa.Value
		for _, b := range obj.Blocks {
			iff := core.IfOf(b)
			if iff == nil {
				continue
			}
			if bo, ok := iff.Cond.(*ssa.BinOp); ok && isNoMatch(bo.Y) && (bo.Op == token.NEQ || bo.Op == token.EQL) {
				if v := bo.X; flowsFrom(v, matchCall) {
					judge, matched = iff, v
				}
			}
		}
		if judge == nil {
			s.Bad(obj.Name()+": member judgement", c.Pos(obj.Pos()), "no test of the matched query index found in the object scanner")
			return
		}
		okC := matched == ssa.Value(matchCall)
		if ph, ok := matched.(*ssa.Phi); ok {
			okC = true
			for k, e := range ph.Edges {
				if e == ssa.Value(matchCall) {
					continue
				}
				// constant -1 under "already satisfied"
				pred := ph.Block().Preds[k]
				sat := false
				for _, de := range append(core.DominatingConds(pred), edgeCond(pred, ph.Block())...) {
					cond, val := core.StripNot(de.Cond, de.Val)
					if _, fld, ok := core.LoadOfField(cond); ok && fld == satF && val {
						sat = true
					}
				}
				if !isNoMatch(e) || !sat {
					okC = false
				}
			}
		}
		s.Check(okC, obj.Name()+": every key is matched unless the query is already satisfied", c.Pos(matchCall.Pos()), "matched = satisfied ? -1 : matcher(queries, path)", "the path of a key is not matched against the queries on some path on which the query is still unsatisfied")
		// the matcher call happens after the key was pushed
		pushed := false
		for _, b := range obj.Blocks {
			for _, in := range b.Instrs {
				if st, ok := in.(*ssa.Store); ok {
					if _, k := stackEffect(st, m.stackF); k == "push" && core.Before(st, matchCall) {
						pushed = true
					}
				}
				// or through a summarised push helper
				if call, ok := in.(*ssa.Call); ok && call != matchCall {
					if hs := stackHelperOf(m, call.Call.StaticCallee()); hs != nil && hs.ok && hs.delta == 1 && len(hs.pops) == 0 && core.Before(call, matchCall) {
						pushed = true
					}
				}
			}
		}
		s.Check(pushed, obj.Name()+": key is pushed before matching", c.Pos(matchCall.Pos()), "push dominates the matcher call", "the path is matched before the current key was pushed onto it")
		// D: judgement directly after the value
		var valCall *ssa.Call
		for _, ci := range core.Calls(obj) {
			if call, ok := ci.(*ssa.Call); ok && call.Call.StaticCallee() == m.guardFn {
				valCall = call
			}
		}
		if valCall == nil {
			s.Bad(obj.Name()+": value call", c.Pos(obj.Pos()), "object scanner does not scan member values through the guarded value scanner")
			return
		}
		edges, _ := failEdges(obj, m.fam)
		var succ *ssa.BasicBlock
		for _, e := range edges {
			for _, cl := range e.calls {
				if cl == valCall {
					succ = e.from.Succs[0]
					if succ == e.to {
						succ = e.from.Succs[1]
					}
				}
			}
		}
		if succ == nil {
			s.Bad(obj.Name()+": value success edge", c.Pos(valCall.Pos()), "the value scanner's result is not tested")
			return
		}
		early := ""
		for b := range core.ReachAvoiding(succ, map[*ssa.BasicBlock]bool{judge.Block(): true}) {
			if r := retOf(b); r != nil {
				early = c.Pos(r.Pos())
			}
			if b == loopHeaderOf(obj) {
				early = "the next member"
			}
		}
		s.Check(early == "", obj.Name()+": member is judged right after its value", c.Pos(judge.Pos()), "no exit between the consumed value and the judgement",
			fmt.Sprintf("after a member's value was consumed the scanner can leave (%s) before the member is judged: a deciding member that ends exactly at the end of the examined header is ignored", early))
		// judgement helpers: module functions called from the object scanner only under the matched-index test,
		// receiving the matched query (qs[matched]) and exactly this member's value bytes
		type jhelper struct {
			valParam *ssa.Parameter
		}
		helpers := map[*ssa.Function]*jhelper{}
		for _, ci := range core.Calls(obj) {
			call, ok := ci.(*ssa.Call)
			if !ok {
				continue
			}
			h := call.Call.StaticCallee()
			if h == nil || !core.InMod(h) || h.Blocks == nil || m.fam[h] || h == matcher {
				continue
			}
			under := false
			for _, de := range core.DominatingConds(call.Block()) {
				if de.From == judge.Block() {
					under = true
				}
			}
			if !under {
				continue
			}
			jh := &jhelper{}
			okQ := false
			for i, a := range call.Call.Args {
				if sl, ok := a.(*ssa.Slice); ok && sl.X == ssa.Value(obj.Params[1]) && valueSpan(sl, valCall) {
					jh.valParam = h.Params[i]
				}
				if isMatchedQuery(a, qsArg, matched) {
					okQ = true
				}
			}
			if jh.valParam != nil && okQ {
				helpers[h] = jh
			}
		}
		for h := range helpers {
			// called from nowhere else
			for _, g := range c.SrcFuncs() {
				for _, ci := range core.Calls(g) {
					if ci.Common().StaticCallee() == h && g != obj {
						delete(helpers, h)
					}
				}
			}
		}
		// E + F + G: stores to the verdict flag
		predVals := false
		nStores := 0
		for _, f := range c.SrcFuncs() {
			for _, b := range f.Blocks {
				for _, in := range b.Instrs {
					st, ok := in.(*ssa.Store)
					if !ok {
						continue
					}
					fa, ok := st.Addr.(*ssa.FieldAddr)
					if !ok || fa.Field != satF || !m.isState(fa.X.Type()) {
						continue
					}
					if _, isAlloc := fa.X.(*ssa.Alloc); isAlloc {
						continue
					}
					nStores++
					key := fmt.Sprintf("%s: store #%d to %s", core.FName(f), nStores, m.fieldName(satF))
					v, isC := core.ConstBool(st.Val)
					if !isC {
						s.Bad(key, c.Pos(st.Pos()), "non-constant store to the query verdict")
						continue
					}
					if !v {
						s.Check(f == m.reset, key, c.Pos(st.Pos()), "cleared by the reset routine only", "the query verdict is cleared during scanning: a later member can undo an earlier deciding one")
						continue
					}
					// true: classify the guard
					how := ""
					noQuery := false
					for _, de := range core.DominatingConds(b) {
						cond, val := core.StripNot(de.Cond, de.Val)
						switch x := cond.(type) {
						case *ssa.Call:
							if h := x.Call.StaticCallee(); val && f == obj && h != nil && core.InMod(h) && h.Blocks != nil && !m.fam[h] && h != matcher {
								// judgement predicate: helper(qs[matched], value bytes)
								qi, ri := -1, -1
								for i, a := range x.Call.Args {
									if sl, ok := a.(*ssa.Slice); ok && sl.X == ssa.Value(obj.Params[1]) && valueSpan(sl, valCall) {
										ri = i
									}
									if isMatchedQuery(a, qsArg, matched) {
										qi = i
									}
								}
								if qi >= 0 && ri >= 0 {
									if okP, whyP := judgePredicate(h, qi, ri); okP {
										how = "judgement predicate " + h.Name() + ": no accepted values, or one equals the trimmed value bytes"
										predVals = true
									} else {
										s.Bad(h.Name()+": judgement predicate", c.Pos(h.Pos()), whyP)
									}
								}
							}
							if val && core.CalleeIs(&x.Call, "bytes", "Equal") {
								// one side an accepted value (element of a [][]byte), the other TrimSpace(b[start:start+len])
								for _, pr := range [][2]ssa.Value{{x.Call.Args[0], x.Call.Args[1]}, {x.Call.Args[1], x.Call.Args[0]}} {
									if tr, ok := pr[1].(*ssa.Call); ok && core.CalleeIs(&tr.Call, "bytes", "TrimSpace") {
										if sl, ok := tr.Call.Args[0].(*ssa.Slice); ok && f == obj && sl.X == ssa.Value(obj.Params[1]) && valueSpan(sl, valCall) {
											how = "accepted value equals the trimmed value bytes"
										}
										if jh := helpers[f]; jh != nil && tr.Call.Args[0] == ssa.Value(jh.valParam) {
											how = "accepted value equals the trimmed value bytes (judgement helper)"
										}
									}
								}
							}
						case *ssa.BinOp:
							if ln, ok := x.X.(*ssa.Call); ok && core.IsBuiltin(&ln.Call, "len") && core.IsConstInt(x.Y, 0) && ((x.Op == token.EQL && val) || (x.Op == token.NEQ && !val)) {
								if how == "" {
									how = "empty list (no accepted values / no query)"
								}
								if _, isParam := ln.Call.Args[0].(*ssa.Parameter); isParam && f != obj && types.Identical(ln.Call.Args[0].Type(), qsArg.Type()) {
									noQuery = true // no query at all: nothing to match
								}
							}
						}
					}
					underMatch := helpers[f] != nil || noQuery
					for _, de := range core.DominatingConds(b) {
						if de.From == judge.Block() {
							underMatch = true
						}
					}
					s.Check(how != "" && underMatch, key, c.Pos(st.Pos()), how, "the query verdict is set without a path match followed by (no accepted values, or equality of an accepted value with the trimmed bytes of exactly this member's value)")
				}
			}
		}
		// all accepted values visited: a range loop over a slice loaded inside the judgement
		okVals := false
		for _, b := range obj.Blocks {
			for _, in := range b.Instrs {
				u, ok := in.(*ssa.UnOp)
				if !ok || u.Op != token.MUL {
					continue
				}
				if len(fde.FindRangeOver(obj, u)) == 1 && judge.Block().Dominates(b) {
					okVals = true
				}
			}
		}
		for h := range helpers {
			for _, b := range h.Blocks {
				for _, in := range b.Instrs {
					if u, ok := in.(*ssa.UnOp); ok && u.Op == token.MUL && len(fde.FindRangeOver(h, u)) == 1 {
						okVals = true
					}
				}
			}
		}
		if predVals {
			okVals = true // the predicate helper was verified to range over all accepted values
		}
		s.Check(okVals, obj.Name()+": every accepted value is compared", c.Pos(judge.Pos()), "range over all accepted values of the matched query", "the judgement does not range over all accepted values of the matched query")
	}}

// isNoMatch: the matcher's "no query matches" answer: index -1, or a nil query pointer.
func isNoMatch(v ssa.Value) bool {
	return core.IsConstInt(v, -1) || core.IsNilConst(v)
}

// isHitOf: the matcher's answer for the query the range r is at: its index, or its address.
func isHitOf(v ssa.Value, r fde.RangeElem) bool {
	if v == r.Index {
		return true
	}
	if ia, ok := v.(*ssa.IndexAddr); ok && r.ElemAddr != nil {
		return ia == r.ElemAddr || (ia.X == r.ElemAddr.X && ia.Index == r.Index)
	}
	return false
}

// noMatchAgrees: an index goes with -1, an address with nil.
func noMatchAgrees(hit, none ssa.Value) bool {
	if _, isAddr := hit.(*ssa.IndexAddr); isAddr {
		return core.IsNilConst(none)
	}
	return core.IsConstInt(none, -1)
}

// isMatchedQuery: a is the matched query handed on: qs[matched], the matched pointer, or what it points to.
func isMatchedQuery(a, qsArg, matched ssa.Value) bool {
	if a == matched && !core.IsInteger(matched.Type()) {
		return true
	}
	if ld, ok := a.(*ssa.UnOp); ok && ld.Op == token.MUL {
		if ld.X == matched {
			return true
		}
		if ia, ok := ld.X.(*ssa.IndexAddr); ok && ia.X == qsArg && ia.Index == matched {
			return true
		}
	}
	return false
}

// flowsFrom: v is call or a phi one of whose edges is call.
func flowsFrom(v ssa.Value, call *ssa.Call) bool {
	if v == ssa.Value(call) {
		return true
	}
	if ph, ok := v.(*ssa.Phi); ok {
		for _, e := range ph.Edges {
			if e == ssa.Value(call) {
				return true
			}
		}
	}
	return false
}

// valueSpan: sl is b[start : start+len] where b[start:] was the argument of the
// value call and len its result.
func valueSpan(sl *ssa.Slice, valCall *ssa.Call) bool {
	arg, ok := valCall.Call.Args[1].(*ssa.Slice)
	if !ok || arg.X != sl.X || arg.High != nil {
		return false
	}
	if sl.Low != arg.Low || sl.High == nil {
		return false
	}
	bo, ok := sl.High.(*ssa.BinOp)
	return ok && bo.Op == token.ADD && ((bo.X == arg.Low && bo.Y == ssa.Value(valCall)) || (bo.Y == arg.Low && bo.X == ssa.Value(valCall)))
}

// pathEqShape checks the path equality helper.
// inlinePathEq recognises the path equality written out in the body of the
// matching loop r: a length test of the query's path against the current path
// that moves on to the next query when they differ, then a full range over one
// of the two comparing each segment of both with bytes.Equal, a difference
// moving on to the next query and the end of the range returning the query's
// index; the outer loop's end returns -1. why is empty when the body is not of
// this kind at all.
func inlinePathEq(matcher *ssa.Function, r fde.RangeElem, isPath func(ssa.Value) bool) (ok bool, why string) {
	iff := core.IfOf(r.Body)
	if iff == nil {
		return false, ""
	}
	cond, pos := core.StripNot(iff.Cond, true)
	bo, isBo := cond.(*ssa.BinOp)
	if !isBo || (bo.Op != token.NEQ && bo.Op != token.EQL) {
		return false, ""
	}
	lx, okx := bo.X.(*ssa.Call)
	ly, oky := bo.Y.(*ssa.Call)
	if !okx || !oky || !core.IsBuiltin(&lx.Call, "len") || !core.IsBuiltin(&ly.Call, "len") {
		return false, ""
	}
	want, cur := lx.Call.Args[0], ly.Call.Args[0]
	if isPath(want) {
		want, cur = cur, want
	}
	if fld, okF := elemFieldLoad(r, want); !okF || fld != pathFieldOf(r.ElemAddr) || !isPath(cur) {
		return false, "the length test in the matching loop does not compare the query's path with the current path"
	}
	eqSucc, neSucc := r.Body.Succs[1], r.Body.Succs[0]
	if (bo.Op == token.EQL) == pos {
		eqSucc, neSucc = neSucc, eqSucc
	}
	if neSucc != r.Header {
		return false, "paths of different length are not skipped: a query path would match as a prefix of a deeper path (look-alike keys at other depths)"
	}
	done := retOf(r.Done)
	if done == nil || !isNoMatch(done.Results[0]) {
		return false, "the matcher does not answer -1 when no query matches"
	}
	for _, ranged := range []ssa.Value{want, cur} {
		other := cur
		if ranged == cur {
			other = want
		}
		for _, r2 := range fde.FindRangeOver2(matcher, ranged) {
			if r2.Header == r.Header {
				continue
			}
			// the inner loop is entered straight from the equal-length edge
			entered := eqSucc == r2.Header
			if !entered && len(eqSucc.Succs) == 1 && eqSucc.Succs[0] == r2.Header {
				entered = true
				for _, in := range eqSucc.Instrs {
					switch in.(type) {
					case *ssa.Call, *ssa.Jump, *ssa.DebugRef:
					default:
						entered = false
					}
				}
			}
			if !entered {
				continue
			}
			iff2 := core.IfOf(r2.Body)
			if iff2 == nil {
				continue
			}
			c2, pos2 := core.StripNot(iff2.Cond, true)
			call, isCall := c2.(*ssa.Call)
			if !isCall || !core.CalleeIs(&call.Call, "bytes", "Equal") {
				continue
			}
			seg := func(v ssa.Value, of ssa.Value) bool {
				u, isU := v.(*ssa.UnOp)
				if !isU || u.Op != token.MUL {
					return false
				}
				ia, isIA := u.X.(*ssa.IndexAddr)
				return isIA && ia.X == of && ia.Index == r2.Index
			}
			a0, a1 := call.Call.Args[0], call.Call.Args[1]
			if !((seg(a0, ranged) && seg(a1, other)) || (seg(a0, other) && seg(a1, ranged))) {
				continue
			}
			same, differ := r2.Body.Succs[0], r2.Body.Succs[1]
			if !pos2 {
				same, differ = differ, same
			}
			hit := retOf(r2.Done)
			if same == r2.Header && differ == r.Header && hit != nil && isHitOf(hit.Results[0], r) && noMatchAgrees(hit.Results[0], done.Results[0]) {
				return true, ""
			}
			return false, "a query is skipped or selected for a reason other than equality of its path with the current path (wrong result on hit / miss of the segment comparison)"
		}
	}
	return false, "the matching loop does not compare every segment of both paths with bytes.Equal"
}

func pathEqShape(eq *ssa.Function) (bool, string) {
	if len(eq.Params) != 2 {
		return false, "path equality helper does not take two paths"
	}
	a, b := eq.Params[0], eq.Params[1]
	// length test
	lenOK := false
	for _, r := range core.Returns(eq) {
		if v, ok := core.ConstBool(r.Results[0]); ok && !v {
			for _, de := range core.DominatingConds(r.Block()) {
				cond, val := core.StripNot(de.Cond, de.Val)
				if bo, ok := cond.(*ssa.BinOp); ok && ((bo.Op == token.NEQ && val) || (bo.Op == token.EQL && !val)) {
					lx, okx := bo.X.(*ssa.Call)
					ly, oky := bo.Y.(*ssa.Call)
					if okx && oky && core.IsBuiltin(&lx.Call, "len") && core.IsBuiltin(&ly.Call, "len") {
						if (lx.Call.Args[0] == ssa.Value(a) && ly.Call.Args[0] == ssa.Value(b)) || (lx.Call.Args[0] == ssa.Value(b) && ly.Call.Args[0] == ssa.Value(a)) {
							lenOK = true
						}
					}
				}
			}
		}
	}
	if !lenOK {
		return false, "paths of different length are not rejected: a query path would match as a prefix of a deeper path (look-alike keys at other depths)"
	}
	for _, ranged := range []*ssa.Parameter{a, b} {
		for _, r := range fde.FindRangeOver(eq, ranged) {
			iff := core.IfOf(r.Body)
			if iff == nil {
				continue
			}
			cond, pos := core.StripNot(iff.Cond, true)
			call, ok := cond.(*ssa.Call)
			if !ok || !core.CalleeIs(&call.Call, "bytes", "Equal") {
				continue
			}
			other := b
			if ranged == b {
				other = a
			}
			okArgs := false
			for _, pr := range [][2]ssa.Value{{call.Call.Args[0], call.Call.Args[1]}, {call.Call.Args[1], call.Call.Args[0]}} {
				if pr[0] == ssa.Value(r.Load) {
					if u, ok := pr[1].(*ssa.UnOp); ok {
						if ia, ok := u.X.(*ssa.IndexAddr); ok && ia.X == ssa.Value(other) && ia.Index == r.Index {
							okArgs = true
						}
					}
				}
			}
			if !okArgs {
				continue
			}
			eqSucc, neSucc := r.Body.Succs[0], r.Body.Succs[1]
			if !pos {
				eqSucc, neSucc = neSucc, eqSucc
			}
			rn := retOf(neSucc)
			rd := retOf(r.Done)
			if eqSucc == r.Header && rn != nil && rd != nil {
				vn, okn := core.ConstBool(rn.Results[0])
				vd, okd := core.ConstBool(rd.Results[0])
				if okn && okd && !vn && vd {
					return true, ""
				}
			}
		}
	}
	return false, "the helper does not compare every segment of both paths with bytes.Equal"
}

// elemFieldLoad: v is a field of the element the range r is at: a load through
// the element's address, a field of the loaded element, or a load through a
// local copy of the element made in the loop body (for _, q := range qs).
func elemFieldLoad(r fde.RangeElem, v ssa.Value) (int, bool) {
	if fv, ok := v.(*ssa.Field); ok {
		if ld, ok := fv.X.(*ssa.UnOp); ok && ld.Op == token.MUL && ld.X == ssa.Value(r.ElemAddr) {
			return fv.Field, true
		}
		return 0, false
	}
	base, fld, ok := core.LoadOfField(v)
	if !ok {
		return 0, false
	}
	if base == ssa.Value(r.ElemAddr) {
		return fld, true
	}
	loc, ok := base.(*ssa.Alloc)
	if !ok || loc.Heap {
		return 0, false
	}
	// the copy: exactly one store into the local, of the element, in the loop body before the use; only field reads otherwise
	nSt := 0
	for _, ref := range *loc.Referrers() {
		switch x := ref.(type) {
		case *ssa.Store:
			ld, isLd := x.Val.(*ssa.UnOp)
			if x.Addr != ssa.Value(loc) || !isLd || ld.Op != token.MUL || ld.X != ssa.Value(r.ElemAddr) || x.Block() != r.Body {
				return 0, false
			}
			nSt++
		case *ssa.FieldAddr:
			for _, r2 := range *x.Referrers() {
				if u, ok := r2.(*ssa.UnOp); !ok || u.Op != token.MUL {
					return 0, false
				}
			}
		case *ssa.DebugRef:
		default:
			return 0, false
		}
	}
	return fld, nSt == 1
}

// pathFieldOf: the first slice-of-byte-slices field of the query struct the
// element address points to (the member path; the accepted values come second).
func pathFieldOf(ea *ssa.IndexAddr) int {
	pt, ok := ea.Type().Underlying().(*types.Pointer)
	if !ok {
		return -1
	}
	st, ok := pt.Elem().Underlying().(*types.Struct)
	if !ok {
		return -1
	}
	for i := 0; i < st.NumFields(); i++ {
		if sl, ok := st.Field(i).Type().Underlying().(*types.Slice); ok && core.IsByteSlice(sl.Elem()) {
			return i
		}
	}
	return -1
}

// isSlicesEqualFuncBytes: call is slices.EqualFunc(a, b, bytes.Equal) (an
// instantiation of the generic): equal lengths and element-wise bytes.Equal.
func isSlicesEqualFuncBytes(call *ssa.Call) bool {
	g := call.Call.StaticCallee()
	if g == nil || len(call.Call.Args) != 3 {
		return false
	}
	o := g.Origin()
	if o == nil {
		o = g
	}
	if o.Pkg == nil || o.Pkg.Pkg.Path() != "slices" || o.Name() != "EqualFunc" {
		return false
	}
	fn, ok := core.Unwrap(call.Call.Args[2]).(*ssa.Function)
	return ok && fn.Pkg != nil && fn.Pkg.Pkg.Path() == "bytes" && fn.Name() == "Equal"
}

// judgePredicate verifies a bool helper h(q, raw) used as the member judgement:
// it returns true only when q has no accepted values or one of them equals
// bytes.TrimSpace(raw), and it ranges over all accepted values. qIdx/rawIdx are
// the parameter positions of the matched query and of the value bytes.
func judgePredicate(h *ssa.Function, qIdx, rawIdx int) (bool, string) {
	if h.Blocks == nil || h.Signature.Results().Len() != 1 {
		return false, "not a bool function with a body"
	}
	raw := h.Params[rawIdx]
	// the accepted-values list: a [][]byte field of the query parameter (through its local copy)
	isVals := func(v ssa.Value) bool {
		u, ok := v.(*ssa.UnOp)
		if !ok || u.Op != token.MUL {
			return false
		}
		fa, ok := u.X.(*ssa.FieldAddr)
		if !ok {
			return false
		}
		sl, ok := fa.Type().Underlying().(*types.Pointer).Elem().Underlying().(*types.Slice)
		if !ok || !core.IsByteSlice(sl.Elem()) {
			return false
		}
		return true
	}
	ranged := false
	var rng fde.RangeElem
	for _, b := range h.Blocks {
		for _, in := range b.Instrs {
			if v := valueOf(in); v != nil && isVals(v) {
				if rs := fde.FindRangeOver(h, v); len(rs) == 1 {
					ranged, rng = true, rs[0]
				}
			}
		}
	}
	if !ranged {
		return false, "the helper does not range over all accepted values of the query"
	}
	for _, r := range core.Returns(h) {
		v, isC := core.ConstBool(r.Results[0])
		if !isC {
			return false, "a verdict that is not a constant at the return"
		}
		if !v {
			continue
		}
		why := ""
		for _, de := range core.DominatingConds(r.Block()) {
			cond, val := core.StripNot(de.Cond, de.Val)
			switch x := cond.(type) {
			case *ssa.Call:
				if val && core.CalleeIs(&x.Call, "bytes", "Equal") {
					for _, pr := range [][2]ssa.Value{{x.Call.Args[0], x.Call.Args[1]}, {x.Call.Args[1], x.Call.Args[0]}} {
						tr, ok := pr[1].(*ssa.Call)
						if ok && core.CalleeIs(&tr.Call, "bytes", "TrimSpace") && tr.Call.Args[0] == ssa.Value(raw) && pr[0] == ssa.Value(rng.Load) {
							why = "equal"
						}
					}
				}
			case *ssa.BinOp:
				if ln, ok := x.X.(*ssa.Call); ok && core.IsBuiltin(&ln.Call, "len") && isVals(ln.Call.Args[0]) && core.IsConstInt(x.Y, 0) && ((x.Op == token.EQL && val) || (x.Op == token.NEQ && !val)) {
					if why == "" {
						why = "empty"
					}
				}
			}
		}
		if why == "" {
			return false, "the helper says yes without (no accepted values, or an accepted value equal to the trimmed value bytes)"
		}
	}
	_ = qIdx
	return true, ""
}

// onlyStore: the single store into the local a (nil when there are none or several, or a's address escapes).
func onlyStore(a *ssa.Alloc) *ssa.Store {
	var st *ssa.Store
	for _, ref := range *a.Referrers() {
		switch x := ref.(type) {
		case *ssa.Store:
			if x.Addr != ssa.Value(a) || st != nil {
				return nil
			}
			st = x
		case *ssa.UnOp, *ssa.FieldAddr, *ssa.IndexAddr, *ssa.MakeClosure, *ssa.DebugRef:
		default:
			return nil
		}
	}
	return st
}
