package rules

import (
	"go/ast"
	"go/constant"
	"go/token"
	"go/types"

	"golang.org/x/tools/go/ssa"

	"mtverif/internal/core"
	"mtverif/internal/tree"
)

// charsetModel identifies the roles of the charset code from the walk: the
// sniffer map literal in the walk function, the BOM lookup (the function
// ranging over a package-level table of (mark, name) pairs), the plain sniffer
// and its ASCII / Latin helpers.
type charsetModel struct {
	walk      *ssa.Function            // the function holding the sniffer map
	sniffers  map[string]*ssa.Function // key constant -> function
	snifKeys  []string
	mapAlloc  ssa.Value
	mapGlobal *ssa.Global // set when the map lives in a package variable
	bomFn     *ssa.Function
	bomTable  *ssa.Global
	boms      []bomEntry
	bomsOK    bool
	plain     *ssa.Function
	html      *ssa.Function
	xml       *ssa.Function
}

// isSnifferMap: v denotes the sniffer map (the MakeMap itself or a load of the
// package variable holding it).
func (m *charsetModel) isSnifferMap(v ssa.Value) bool {
	if v == m.mapAlloc {
		return true
	}
	if g, ok := core.LoadOfGlobal(v); ok && m.mapGlobal != nil && g == m.mapGlobal {
		return true
	}
	return false
}

type bomEntry struct {
	mark []byte
	name string
	pos  token.Pos
}

func getCharset(c *core.Ctx) *charsetModel {
	if m, ok := c.Memo["charset"].(*charsetModel); ok {
		return m
	}
	m := &charsetModel{sniffers: map[string]*ssa.Function{}}
	// sniffer map: a map[string]func([]byte) string built by MapUpdates of constant keys with function
	// values, either inside the walk or in the package initialiser (package-level map literal).
	var builder *ssa.Function
	for _, f := range c.AllModFuncs() {
		if core.FuncPkg(f) == nil || core.FuncPkg(f).Pkg.Path() != core.PkgRoot {
			continue
		}
		for _, b := range f.Blocks {
			for _, in := range b.Instrs {
				mu, ok := in.(*ssa.MapUpdate)
				if !ok {
					continue
				}
				fn, ok := core.Unwrap(mu.Value).(*ssa.Function)
				if !ok {
					continue
				}
				k, ok := core.ConstString(mu.Key)
				if !ok {
					continue
				}
				if builder != nil && builder != f {
					core.Bail("two functions build a sniffer map: %s and %s", builder.Name(), f.Name())
				}
				if m.mapAlloc != nil && m.mapAlloc != mu.Map {
					core.Bail("two sniffer maps in %s", f.Name())
				}
				builder, m.mapAlloc = f, mu.Map
				m.sniffers[k] = fn
				m.snifKeys = append(m.snifKeys, k)
			}
		}
	}
	if builder == nil {
		core.Bail("no sniffer map (map from type constant to charset function) found in package mimetype")
	}
	// where is it consulted? directly, or through the package variable it is stored in
	if mk, ok := m.mapAlloc.(*ssa.MakeMap); ok {
		for _, ref := range *mk.Referrers() {
			if st, ok := ref.(*ssa.Store); ok && st.Val == ssa.Value(mk) {
				if g, ok := st.Addr.(*ssa.Global); ok {
					m.mapGlobal = g
				}
			}
		}
	}
	for _, f := range c.SrcFuncs() {
		for _, b := range f.Blocks {
			for _, in := range b.Instrs {
				if lk, ok := in.(*ssa.Lookup); ok && m.isSnifferMap(lk.X) {
					if m.walk != nil && m.walk != f {
						core.Bail("the sniffer map is consulted in two functions: %s and %s", m.walk.Name(), f.Name())
					}
					m.walk = f
				}
			}
		}
	}
	if m.walk == nil {
		core.Bail("the sniffer map is never consulted")
	}
	m.plain, m.html, m.xml = m.sniffers["text/plain"], m.sniffers["text/html"], m.sniffers["text/xml"]
	// BOM lookup: module function(param []byte) string that ranges over a package-level table and calls bytes.HasPrefix(param, elem.field)
	for _, f := range c.SrcFuncs() {
		if len(f.Params) != 1 || !core.IsByteSlice(f.Params[0].Type()) || f.Signature.Results().Len() != 1 || !core.IsString(f.Signature.Results().At(0).Type()) {
			continue
		}
		var tbl *ssa.Global
		hasPrefix := false
		for _, b := range f.Blocks {
			for _, in := range b.Instrs {
				if g, ok := core.LoadOfGlobal(valueOf(in)); ok {
					if sl, ok := g.Type().(*types.Pointer).Elem().Underlying().(*types.Slice); ok {
						if _, ok := sl.Elem().Underlying().(*types.Struct); ok {
							tbl = g
						}
					}
				}
				if call, ok := in.(*ssa.Call); ok && core.CalleeIs(&call.Call, "bytes", "HasPrefix") && call.Call.Args[0] == ssa.Value(f.Params[0]) {
					hasPrefix = true
				}
			}
		}
		if tbl != nil && hasPrefix {
			if m.bomFn != nil {
				core.Bail("two candidate BOM lookup functions: %s, %s", m.bomFn.Name(), f.Name())
			}
			m.bomFn, m.bomTable = f, tbl
		}
	}
	if m.bomFn != nil {
		m.boms, m.bomsOK = constBomTable(c, m.bomTable)
	}
	c.Memo["charset"] = m
	return m
}

// constBomTable folds the composite literal initialising the BOM table.
func constBomTable(c *core.Ctx, g *ssa.Global) ([]bomEntry, bool) {
	p := c.ByPath[g.Pkg.Pkg.Path()]
	var out []bomEntry
	found, ok := false, true
	for _, f := range p.Syntax {
		ast.Inspect(f, func(n ast.Node) bool {
			vs, isVS := n.(*ast.ValueSpec)
			if !isVS {
				return true
			}
			for i, nm := range vs.Names {
				if p.TypesInfo.Defs[nm] != g.Object() || i >= len(vs.Values) {
					continue
				}
				found = true
				cl, isCL := ast.Unparen(vs.Values[i]).(*ast.CompositeLit)
				if !isCL {
					ok = false
					return false
				}
				for _, el := range cl.Elts {
					ec, isEC := el.(*ast.CompositeLit)
					if !isEC || len(ec.Elts) != 2 {
						ok = false
						return false
					}
					var e bomEntry
					e.pos = ec.Pos()
					for _, fe := range ec.Elts {
						val := fe
						if kv, isKV := fe.(*ast.KeyValueExpr); isKV {
							val = kv.Value
						}
						tv := p.TypesInfo.Types[val]
						switch {
						case tv.Value != nil && tv.Value.Kind() == constant.String && core.IsString(tv.Type):
							e.name = constant.StringVal(tv.Value)
						default:
							bs, good := constBytesExpr(p.TypesInfo, val)
							if !good {
								ok = false
								return false
							}
							e.mark = bs
						}
					}
					out = append(out, e)
				}
			}
			return true
		})
	}
	return out, found && ok
}

// constBytesExpr folds []byte{...} and []byte("...") expressions.
func constBytesExpr(info *types.Info, e ast.Expr) ([]byte, bool) {
	switch x := ast.Unparen(e).(type) {
	case *ast.CompositeLit:
		var out []byte
		for _, el := range x.Elts {
			if _, isKV := el.(*ast.KeyValueExpr); isKV {
				return nil, false
			}
			v := info.Types[el].Value
			if v == nil {
				return nil, false
			}
			i, _ := constant.Int64Val(constant.ToInt(v))
			out = append(out, byte(i))
		}
		return out, true
	case *ast.CallExpr:
		if len(x.Args) == 1 {
			if tv := info.Types[x.Args[0]]; tv.Value != nil && tv.Value.Kind() == constant.String {
				if core.IsByteSlice(info.TypeOf(x)) {
					return []byte(constant.StringVal(tv.Value)), true
				}
			}
		}
	}
	return nil, false
}

// textDetector returns the detector body of the text/plain node.
func textDetector(c *core.Ctx) (*tree.Node, *ssa.Function) {
	m := tree.Get(c)
	ns := m.Find("text/plain")
	if len(ns) != 1 || ns[0].DetFn == nil {
		core.Bail("text/plain node or its detector not found (%d candidates)", len(ns))
	}
	return ns[0], ns[0].DetFn
}

// reachesCallee reports whether f reaches (through module functions) a call
// whose callee satisfies pred.
func reachesCallee(f *ssa.Function, pred func(*ssa.CallCommon) bool, seen map[*ssa.Function]bool) bool {
	if f == nil || seen[f] || f.Blocks == nil {
		return false
	}
	seen[f] = true
	for _, ci := range core.Calls(f) {
		if pred(ci.Common()) {
			return true
		}
		if g := ci.Common().StaticCallee(); g != nil && core.InMod(g) && reachesCallee(g, pred, seen) {
			return true
		}
	}
	return false
}
