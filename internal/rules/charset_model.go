package rules

import (
	"go/ast"
	"go/constant"
	"go/token"
	"go/types"
	"sort"

	"golang.org/x/tools/go/packages"
	"golang.org/x/tools/go/ssa"

	"mtverif/internal/core"
	"mtverif/internal/fde"
	"mtverif/internal/tree"
)

// charsetModel identifies the roles of the charset code from the walk: the
// sniffer map literal in the walk function, the BOM lookup (the function
// ranging over a package-level table of (mark, name) pairs), the plain sniffer
// and its ASCII / Latin helpers.
type charsetModel struct {
	walk      *ssa.Function            // the function holding the sniffer map
	sniffers  map[string]*ssa.Function // key constant -> function
	snifKeys  []string
	mapAlloc  ssa.Value
	mapGlobal *ssa.Global          // set when the map lives in a package variable
	dispFn    *ssa.Function        // set when the sniffers are selected by a function (switch on the type) instead of a map
	direct    map[*ssa.Call]string // set when the sniffers are called directly under tests of the node's type: call -> type constant
	bomFn     *ssa.Function
	bomTable  *ssa.Global
	boms      []bomEntry
	bomsOK    bool
	bomSwitch bool      // the BOM lookup is written as explicit byte tests (no table): judged by path conditions
	bomWrong  *ssa.Call // a table lookup of the charset package that matches the marks with something other than bytes.HasPrefix
	plain     *ssa.Function
	html      *ssa.Function
	xml       *ssa.Function
}

// needBOM: rules that reason about "the BOM lookup" cannot say anything when
// that function was not identified (a re-laid-out table, a hand-written prefix
// test): undecided, never a violation.
func (m *charsetModel) needBOM() {
	if m.bomFn == nil {
		core.Bail("the BOM lookup (a function ranging over a package-level table of (mark, name) entries with bytes.HasPrefix on its input) was not identified; the rules that depend on it cannot be set up")
	}
}

// isSnifferMap: v denotes the sniffer map (the MakeMap itself or a load of the
// package variable holding it).
func (m *charsetModel) isSnifferMap(v ssa.Value) bool {
	if v == m.mapAlloc {
		return true
	}
	if g, ok := core.LoadOfGlobal(v); ok && m.mapGlobal != nil && g == m.mapGlobal {
		return true
	}
	return false
}

// findDispatch looks for the function form of the sniffer table: a function of
// the root package from a string to func([]byte) string whose result, folded
// for every string constant it compares its parameter with, is a charset
// function, and nil for any other string.
func (m *charsetModel) findDispatch(c *core.Ctx) {
	for _, f := range c.SrcFuncs() {
		if core.FuncPkg(f) == nil || !core.InMod(f) || len(f.Params) != 1 || !core.IsString(f.Params[0].Type()) || f.Signature.Results().Len() != 1 {
			continue
		}
		sig, ok := f.Signature.Results().At(0).Type().Underlying().(*types.Signature)
		if !ok || sig.Params().Len() != 1 || !core.IsByteSlice(sig.Params().At(0).Type()) || sig.Results().Len() != 1 || !core.IsString(sig.Results().At(0).Type()) {
			continue
		}
		// accessor of a package-level table: return table[name], the table a map literal of the package initialiser
		// that nothing else writes; a name without an entry yields nil
		if sn := tableAccessor(c, f); sn != nil {
			if m.dispFn != nil {
				core.Bail("two sniffer selection functions: %s and %s", m.dispFn.Name(), f.Name())
			}
			m.dispFn = f
			m.sniffers = sn
			m.snifKeys = nil
			for k := range sn {
				m.snifKeys = append(m.snifKeys, k)
			}
			sort.Strings(m.snifKeys)
			continue
		}
		if core.FuncPkg(f).Pkg.Path() != core.PkgRoot {
			continue
		}
		keys := []string{}
		for _, b := range f.Blocks {
			for _, in := range b.Instrs {
				if bo, ok := in.(*ssa.BinOp); ok && bo.Op == token.EQL {
					for _, pr := range [][2]ssa.Value{{bo.X, bo.Y}, {bo.Y, bo.X}} {
						if pr[0] == ssa.Value(f.Params[0]) {
							if k, ok := core.ConstString(pr[1]); ok {
								keys = append(keys, k)
							}
						}
					}
				}
			}
		}
		eval := func(key string) (*ssa.Function, bool) {
			ev := newEval(c)
			ev.Env = fde.Env{f.Params[0]: constant.MakeString(key)}
			exits, err := ev.Walk(f.Blocks[0], nil, nil, 0)
			if err != nil || len(exits) != 1 || exits[0].Ret == nil {
				return nil, false
			}
			r := core.Unwrap(exits[0].Ret.Results[0])
			if fn, ok := r.(*ssa.Function); ok {
				return fn, true
			}
			return nil, core.IsNilConst(r)
		}
		sn := map[string]*ssa.Function{}
		okAll := len(keys) > 0
		for _, k := range keys {
			fn, ok := eval(k)
			if !ok {
				okAll = false
			}
			if fn != nil {
				sn[k] = fn
			}
		}
		if other, ok := eval("\x00no such type"); !ok || other != nil {
			okAll = false
		}
		if !okAll || len(sn) == 0 {
			continue
		}
		if m.dispFn != nil {
			core.Bail("two sniffer selection functions: %s and %s", m.dispFn.Name(), f.Name())
		}
		m.dispFn = f
		m.sniffers = sn
		m.snifKeys = nil
		for k := range sn {
			m.snifKeys = append(m.snifKeys, k)
		}
		sort.Strings(m.snifKeys)
	}
}

// tableAccessor: f is `return table[name]` over a package-level map from type
// names to sniffer functions, built once by the package initialiser from
// constant keys and function constants and written nowhere else.
func tableAccessor(c *core.Ctx, f *ssa.Function) map[string]*ssa.Function {
	if len(f.Blocks) != 1 {
		return nil
	}
	rs := core.Returns(f)
	if len(rs) != 1 {
		return nil
	}
	lk, ok := rs[0].Results[0].(*ssa.Lookup)
	if !ok || lk.CommaOk || lk.Index != ssa.Value(f.Params[0]) {
		return nil
	}
	g, ok := core.LoadOfGlobal(lk.X)
	if !ok {
		return nil
	}
	// the only store to the global: in init, a MakeMap filled by constant updates
	var mk *ssa.MakeMap
	for _, h := range c.AllModFuncs() {
		for _, b := range h.Blocks {
			for _, in := range b.Instrs {
				if st, ok := in.(*ssa.Store); ok && st.Addr == ssa.Value(g) {
					if !(h.Name() == "init" && h.Synthetic != "") || mk != nil {
						return nil
					}
					mk, _ = st.Val.(*ssa.MakeMap)
					if mk == nil {
						return nil
					}
				}
				if mu, ok := in.(*ssa.MapUpdate); ok {
					if g2, isG := core.LoadOfGlobal(mu.Map); isG && g2 == g {
						return nil // written through the variable
					}
				}
			}
		}
	}
	if mk == nil {
		return nil
	}
	sn := map[string]*ssa.Function{}
	for _, ref := range *mk.Referrers() {
		switch x := ref.(type) {
		case *ssa.MapUpdate:
			k, okK := core.ConstString(x.Key)
			fn, okF := core.Unwrap(x.Value).(*ssa.Function)
			if !okK || !okF {
				return nil
			}
			sn[k] = fn
		case *ssa.Store, *ssa.DebugRef:
		default:
			return nil
		}
	}
	if len(sn) == 0 {
		return nil
	}
	return sn
}

// findDirect looks for the inline form: one function of the root package calls
// charset functions func([]byte) string directly, each call under the true edge
// of `<node>.mime == "<type constant>"`.
func (m *charsetModel) findDirect(c *core.Ctx) {
	tm := tree.Get(c)
	var host *ssa.Function
	var extraKeys [][2]interface{}
	direct := map[*ssa.Call]string{}
	for _, f := range c.SrcFuncs() {
		if core.FuncPkg(f) == nil || core.FuncPkg(f).Pkg.Path() != core.PkgRoot {
			continue
		}
		for _, ci := range core.Calls(f) {
			call, ok := ci.(*ssa.Call)
			if !ok {
				continue
			}
			g := call.Call.StaticCallee()
			if g == nil || core.FuncPkg(g) == nil || core.FuncPkg(g).Pkg.Path() != core.PkgCharset || len(g.Params) != 1 || !core.IsByteSlice(g.Params[0].Type()) || g.Signature.Results().Len() != 1 || !core.IsString(g.Signature.Results().At(0).Type()) {
				continue
			}
			keys, found := typeKeysOf(tm, call.Block())
			if !found {
				core.Bail("charset function %s is called by %s outside a test of the node's type", g.Name(), f.Name())
			}
			if host != nil && host != f {
				core.Bail("charset functions are called from two functions: %s and %s", host.Name(), f.Name())
			}
			host = f
			direct[call] = keys[0]
			for _, k := range keys[1:] {
				extraKeys = append(extraKeys, [2]interface{}{k, call})
			}
		}
	}
	if host == nil {
		return
	}
	m.direct = direct
	m.sniffers = map[string]*ssa.Function{}
	m.snifKeys = nil
	for call, k := range direct {
		if prev, dup := m.sniffers[k]; dup && prev != call.Call.StaticCallee() {
			core.Bail("two different charset functions for %s", k)
		}
		m.sniffers[k] = call.Call.StaticCallee()
	}
	for _, ek := range extraKeys {
		m.sniffers[ek[0].(string)] = ek[1].(*ssa.Call).Call.StaticCallee()
	}
	for k := range m.sniffers {
		m.snifKeys = append(m.snifKeys, k)
	}
	sort.Strings(m.snifKeys)
}

// typeKeysOf: every path into block b passes, as its last type test, the true
// edge of `<node>.mime == "<constant>"`; returns the constants (a case with
// several values has several). found is false when some path reaches b
// without such a test.
func typeKeysOf(tm *tree.Model, b *ssa.BasicBlock) ([]string, bool) {
	var keys []string
	seen := map[*ssa.BasicBlock]bool{}
	ok := true
	var back func(x *ssa.BasicBlock, depth int)
	back = func(x *ssa.BasicBlock, depth int) {
		if !ok || seen[x] {
			return
		}
		seen[x] = true
		if len(x.Preds) == 0 || depth > 12 {
			ok = false
			return
		}
		for _, p := range x.Preds {
			iff := core.IfOf(p)
			if iff != nil && p.Succs[0] == x && p.Succs[1] != x {
				if bo, isBo := iff.Cond.(*ssa.BinOp); isBo && bo.Op == token.EQL {
					hit := false
					for _, pr := range [][2]ssa.Value{{bo.X, bo.Y}, {bo.Y, bo.X}} {
						if _, fld, isLd := core.LoadOfField(pr[0]); isLd && fld == tm.FMime {
							if k, isC := core.ConstString(pr[1]); isC {
								keys = append(keys, k)
								hit = true
							}
						}
					}
					if hit {
						continue
					}
				}
			}
			back(p, depth+1)
		}
	}
	back(b, 0)
	sort.Strings(keys)
	return keys, ok && len(keys) > 0
}

// directKeyBase: for the inline form, the node whose type selects the call.
func (m *charsetModel) directKeyBase(c *core.Ctx, call *ssa.Call) ssa.Value {
	tm := tree.Get(c)
	for _, de := range core.DominatingConds(call.Block()) {
		cond, val := core.StripNot(de.Cond, de.Val)
		bo, ok := cond.(*ssa.BinOp)
		if !ok || bo.Op != token.EQL || !val {
			continue
		}
		for _, pr := range [][2]ssa.Value{{bo.X, bo.Y}, {bo.Y, bo.X}} {
			if base, fld, isLd := core.LoadOfField(pr[0]); isLd && fld == tm.FMime {
				if k, isC := core.ConstString(pr[1]); isC && k == m.direct[call] {
					return base
				}
			}
		}
	}
	return nil
}

// snifLookup describes one consultation of the sniffer table: the function
// value obtained, the key it was looked up by, and the test that it exists.
type snifLookup struct {
	key   ssa.Value
	found func(de core.DomEdge) bool
}

// lookupOf: fv is a function value taken from the sniffer table (map lookup
// with ok, or the selection function).
func (m *charsetModel) lookupOf(fv ssa.Value) *snifLookup {
	if ex, ok := fv.(*ssa.Extract); ok && ex.Index == 0 {
		if lk, ok := ex.Tuple.(*ssa.Lookup); ok && m.isSnifferMap(lk.X) && lk.CommaOk {
			return &snifLookup{key: lk.Index, found: func(de core.DomEdge) bool {
				cond, val := core.StripNot(de.Cond, de.Val)
				e2, ok := cond.(*ssa.Extract)
				return ok && e2.Tuple == ssa.Value(lk) && e2.Index == 1 && val
			}}
		}
	}
	nonNil := func(de core.DomEdge) bool {
		cond, val := core.StripNot(de.Cond, de.Val)
		bo, ok := cond.(*ssa.BinOp)
		if !ok {
			return false
		}
		for _, pr := range [][2]ssa.Value{{bo.X, bo.Y}, {bo.Y, bo.X}} {
			if pr[0] == fv && core.IsNilConst(pr[1]) {
				return (bo.Op == token.NEQ && val) || (bo.Op == token.EQL && !val)
			}
		}
		return false
	}
	if lk, ok := fv.(*ssa.Lookup); ok && m.isSnifferMap(lk.X) && !lk.CommaOk {
		// plain lookup: a missing key yields the nil function, so the test is `!= nil`
		return &snifLookup{key: lk.Index, found: nonNil}
	}
	if call, ok := fv.(*ssa.Call); ok && m.dispFn != nil && call.Call.StaticCallee() == m.dispFn {
		return &snifLookup{key: call.Call.Args[0], found: func(de core.DomEdge) bool {
			cond, val := core.StripNot(de.Cond, de.Val)
			bo, ok := cond.(*ssa.BinOp)
			if !ok {
				return false
			}
			for _, pr := range [][2]ssa.Value{{bo.X, bo.Y}, {bo.Y, bo.X}} {
				if pr[0] == fv && core.IsNilConst(pr[1]) {
					return (bo.Op == token.NEQ && val) || (bo.Op == token.EQL && !val)
				}
			}
			return false
		}}
	}
	return nil
}

type bomEntry struct {
	mark []byte
	name string
	pos  token.Pos
}

func getCharset(c *core.Ctx) *charsetModel {
	if m, ok := c.Memo["charset"].(*charsetModel); ok {
		return m
	}
	m := &charsetModel{sniffers: map[string]*ssa.Function{}}
	// sniffer map: a map[string]func([]byte) string built by MapUpdates of constant keys with function
	// values, either inside the walk or in the package initialiser (package-level map literal).
	var builder *ssa.Function
	for _, f := range c.AllModFuncs() {
		if core.FuncPkg(f) == nil || core.FuncPkg(f).Pkg.Path() != core.PkgRoot {
			continue
		}
		for _, b := range f.Blocks {
			for _, in := range b.Instrs {
				mu, ok := in.(*ssa.MapUpdate)
				if !ok {
					continue
				}
				fn, ok := core.Unwrap(mu.Value).(*ssa.Function)
				if !ok {
					continue
				}
				k, ok := core.ConstString(mu.Key)
				if !ok {
					continue
				}
				if builder != nil && builder != f {
					core.Bail("two functions build a sniffer map: %s and %s", builder.Name(), f.Name())
				}
				if m.mapAlloc != nil && m.mapAlloc != mu.Map {
					core.Bail("two sniffer maps in %s", f.Name())
				}
				builder, m.mapAlloc = f, mu.Map
				m.sniffers[k] = fn
				m.snifKeys = append(m.snifKeys, k)
			}
		}
	}
	if builder == nil {
		m.findDispatch(c)
	}
	if builder == nil && m.dispFn == nil {
		m.findDirect(c)
	}
	if builder == nil && m.dispFn == nil && m.direct == nil {
		core.Bail("no sniffer map (map from type constant to charset function) found in package mimetype")
	}
	// where is it consulted? directly, or through the package variable it is stored in
	if mk, ok := m.mapAlloc.(*ssa.MakeMap); ok {
		for _, ref := range *mk.Referrers() {
			if st, ok := ref.(*ssa.Store); ok && st.Val == ssa.Value(mk) {
				if g, ok := st.Addr.(*ssa.Global); ok {
					m.mapGlobal = g
				}
			}
		}
	}
	for _, f := range c.SrcFuncs() {
		for _, b := range f.Blocks {
			for _, in := range b.Instrs {
				if lk, ok := in.(*ssa.Lookup); ok && m.isSnifferMap(lk.X) {
					if m.walk != nil && m.walk != f {
						core.Bail("the sniffer map is consulted in two functions: %s and %s", m.walk.Name(), f.Name())
					}
					m.walk = f
				}
			}
		}
	}
	if m.dispFn != nil {
		for _, f := range c.SrcFuncs() {
			for _, ci := range core.Calls(f) {
				if ci.Common().StaticCallee() == m.dispFn {
					if m.walk != nil && m.walk != f {
						core.Bail("the sniffer selection is consulted in two functions: %s and %s", m.walk.Name(), f.Name())
					}
					m.walk = f
				}
			}
		}
	}
	for call := range m.direct {
		m.walk = call.Parent()
	}
	if m.walk == nil {
		core.Bail("the sniffer map is never consulted")
	}
	m.plain, m.html, m.xml = m.sniffers["text/plain"], m.sniffers["text/html"], m.sniffers["text/xml"]
	// BOM lookup: module function(param []byte) string that ranges over a package-level table and calls bytes.HasPrefix(param, elem.field)
	for _, f := range c.SrcFuncs() {
		if len(f.Params) != 1 || !core.IsByteSlice(f.Params[0].Type()) || f.Signature.Results().Len() != 1 || !core.IsString(f.Signature.Results().At(0).Type()) {
			continue
		}
		var tbl *ssa.Global
		var otherMatch *ssa.Call
		hasPrefix := false
		for _, b := range f.Blocks {
			for _, in := range b.Instrs {
				if g, ok := core.LoadOfGlobal(valueOf(in)); ok {
					if sl, ok := g.Type().(*types.Pointer).Elem().Underlying().(*types.Slice); ok {
						if _, ok := sl.Elem().Underlying().(*types.Struct); ok {
							tbl = g
						}
					}
				}
				if call, ok := in.(*ssa.Call); ok && core.CalleeIs(&call.Call, "bytes", "HasPrefix") && call.Call.Args[0] == ssa.Value(f.Params[0]) {
					hasPrefix = true
				}
				// the same lookup with another matcher: the mark is not looked for at the start of the input
				if call, ok := in.(*ssa.Call); ok && len(call.Call.Args) == 2 && call.Call.Args[0] == ssa.Value(f.Params[0]) {
					for _, other := range []string{"Contains", "HasSuffix", "Equal"} {
						if core.CalleeIs(&call.Call, "bytes", other) {
							otherMatch = call
						}
					}
				}
			}
		}
		if tbl != nil && !hasPrefix && otherMatch != nil && core.FuncPkg(f) != nil && core.FuncPkg(f).Pkg.Path() == core.PkgCharset {
			m.bomWrong = otherMatch
		}
		if tbl != nil && hasPrefix {
			if m.bomFn != nil {
				core.Bail("two candidate BOM lookup functions: %s, %s", m.bomFn.Name(), f.Name())
			}
			m.bomFn, m.bomTable = f, tbl
		}
	}
	if m.bomFn != nil {
		m.boms, m.bomsOK = constBomTable(c, m.bomTable)
	} else {
		// hand-written form: a loop-free function of the charset package from the input to constant strings, at
		// least three of which are names of Unicode byte-order marks
		for _, f := range c.SrcFuncs() {
			if core.FuncPkg(f) == nil || core.FuncPkg(f).Pkg.Path() != core.PkgCharset || len(f.Params) != 1 || !core.IsByteSlice(f.Params[0].Type()) || f.Signature.Results().Len() != 1 || !core.IsString(f.Signature.Results().At(0).Type()) {
				continue
			}
			names := map[string]bool{}
			okConst := true
			for _, r := range core.Returns(f) {
				k, isC := core.ConstString(r.Results[0])
				if !isC {
					okConst = false
					break
				}
				names[k] = true
			}
			loop := false
			for _, b := range f.Blocks {
				for _, p := range b.Preds {
					if b.Dominates(p) {
						loop = true
					}
				}
			}
			nMarks := 0
			for _, w := range wantBOMs {
				if names[w.name] {
					nMarks++
				}
			}
			// the only calls: len(input) and bytes.HasPrefix(input, constant mark)
			okCalls := true
			for _, ci := range core.Calls(f) {
				cc := ci.Common()
				if core.IsBuiltin(cc, "len") && cc.Args[0] == ssa.Value(f.Params[0]) {
					continue
				}
				if core.CalleeIs(cc, "bytes", "HasPrefix") && cc.Args[0] == ssa.Value(f.Params[0]) {
					if _, isC := tree.ConstBytes(cc.Args[1]); isC {
						continue
					}
				}
				okCalls = false
			}
			if okConst && !loop && nMarks >= 3 && okCalls {
				if m.bomFn != nil {
					core.Bail("two candidate hand-written BOM lookups: %s, %s", m.bomFn.Name(), f.Name())
				}
				m.bomFn, m.bomSwitch = f, true
			}
		}
	}
	c.Memo["charset"] = m
	return m
}

// constBomTable folds the composite literal initialising the BOM table.
func constBomTable(c *core.Ctx, g *ssa.Global) ([]bomEntry, bool) {
	p := c.ByPath[g.Pkg.Pkg.Path()]
	var out []bomEntry
	found, ok := false, true
	for _, f := range p.Syntax {
		ast.Inspect(f, func(n ast.Node) bool {
			vs, isVS := n.(*ast.ValueSpec)
			if !isVS {
				return true
			}
			for i, nm := range vs.Names {
				if p.TypesInfo.Defs[nm] != g.Object() || i >= len(vs.Values) {
					continue
				}
				found = true
				cl, isCL := ast.Unparen(vs.Values[i]).(*ast.CompositeLit)
				if !isCL {
					ok = false
					return false
				}
				for _, el := range cl.Elts {
					ec, isEC := el.(*ast.CompositeLit)
					if !isEC || len(ec.Elts) != 2 {
						ok = false
						return false
					}
					var e bomEntry
					e.pos = ec.Pos()
					for _, fe := range ec.Elts {
						val := fe
						if kv, isKV := fe.(*ast.KeyValueExpr); isKV {
							val = kv.Value
						}
						tv := p.TypesInfo.Types[val]
						switch {
						case tv.Value != nil && tv.Value.Kind() == constant.String && core.IsString(tv.Type):
							e.name = constant.StringVal(tv.Value)
						default:
							// a named package-level slice assigned once by the initialiser stands for its initialiser
							if id, isId := ast.Unparen(val).(*ast.Ident); isId {
								if init := namedSliceInit(c, p, id); init != nil {
									val = init
								}
							}
							bs, good := constBytesExpr(p.TypesInfo, val)
							if !good {
								ok = false
								return false
							}
							e.mark = bs
						}
					}
					out = append(out, e)
				}
			}
			return true
		})
	}
	return out, found && ok
}

// namedSliceInit: id names a package-level variable of its own package whose
// only assignment is its declaration's initialiser; returns that expression.
func namedSliceInit(c *core.Ctx, p *packages.Package, id *ast.Ident) ast.Expr {
	obj, ok := p.TypesInfo.Uses[id].(*types.Var)
	if !ok || obj.Pkg() != p.Types || obj.Parent() != p.Types.Scope() {
		return nil
	}
	sp := c.SSA[p.PkgPath]
	if sp == nil {
		return nil
	}
	g, ok := sp.Members[obj.Name()].(*ssa.Global)
	if !ok || tree.GlobalInit(g) == nil {
		return nil
	}
	var out ast.Expr
	for _, f := range p.Syntax {
		for _, d := range f.Decls {
			gd, ok := d.(*ast.GenDecl)
			if !ok {
				continue
			}
			for _, sp := range gd.Specs {
				vs, ok := sp.(*ast.ValueSpec)
				if !ok || len(vs.Values) != len(vs.Names) {
					continue
				}
				for i, nm := range vs.Names {
					if p.TypesInfo.Defs[nm] == obj {
						out = vs.Values[i]
					}
				}
			}
		}
	}
	return out
}

// constBytesExpr folds []byte{...} and []byte("...") expressions.
func constBytesExpr(info *types.Info, e ast.Expr) ([]byte, bool) {
	switch x := ast.Unparen(e).(type) {
	case *ast.CompositeLit:
		var out []byte
		for _, el := range x.Elts {
			if _, isKV := el.(*ast.KeyValueExpr); isKV {
				return nil, false
			}
			v := info.Types[el].Value
			if v == nil {
				return nil, false
			}
			i, _ := constant.Int64Val(constant.ToInt(v))
			out = append(out, byte(i))
		}
		return out, true
	case *ast.CallExpr:
		if len(x.Args) == 1 {
			if tv := info.Types[x.Args[0]]; tv.Value != nil && tv.Value.Kind() == constant.String {
				if core.IsByteSlice(info.TypeOf(x)) {
					return []byte(constant.StringVal(tv.Value)), true
				}
			}
		}
	}
	return nil, false
}

// textDetector returns the detector body of the text/plain node.
func textDetector(c *core.Ctx) (*tree.Node, *ssa.Function) {
	m := tree.Get(c)
	ns := m.Find("text/plain")
	if len(ns) != 1 || ns[0].DetFn == nil {
		core.Bail("text/plain node or its detector not found (%d candidates)", len(ns))
	}
	return ns[0], ns[0].DetFn
}

// reachesCallee reports whether f reaches (through module functions) a call
// whose callee satisfies pred.
// funcOperands: module functions that f mentions as values (passed to a
// combinator, stored in a table): they may run on f's behalf.
func funcOperands(f *ssa.Function) []*ssa.Function {
	var out []*ssa.Function
	for _, b := range f.Blocks {
		for _, in := range b.Instrs {
			for _, op := range in.Operands(nil) {
				g, ok := core.Unwrap(*op).(*ssa.Function)
				if !ok || !core.InMod(g) {
					continue
				}
				if call, isCall := in.(ssa.CallInstruction); isCall && call.Common().Value == *op {
					continue // the callee of a static call
				}
				out = append(out, g)
			}
		}
	}
	return out
}

// firstNonEmpty recognises the combinator
//
//	func(content []byte, fs ...func([]byte) string) string { for _, f := range fs { if r := f(content); r != "" { return r } }; return "" }
//
// and returns the positions of the input and of the function list.
func firstNonEmpty(h *ssa.Function) (in, fs int, ok bool) {
	if h == nil || h.Blocks == nil || len(h.Params) != 2 || h.Signature.Results().Len() != 1 || !core.IsString(h.Signature.Results().At(0).Type()) {
		return 0, 0, false
	}
	in, fs = -1, -1
	for i, p := range h.Params {
		if core.IsByteSlice(p.Type()) {
			in = i
		} else if sl, isSl := p.Type().Underlying().(*types.Slice); isSl {
			if _, isFn := sl.Elem().Underlying().(*types.Signature); isFn {
				fs = i
			}
		}
	}
	if in < 0 || fs < 0 {
		return 0, 0, false
	}
	rs := fde.FindRangeOver(h, h.Params[fs])
	if len(rs) != 1 {
		return 0, 0, false
	}
	r := rs[0]
	var call *ssa.Call
	for _, ins := range r.Body.Instrs {
		if c, isCall := ins.(*ssa.Call); isCall {
			if call != nil {
				return 0, 0, false
			}
			call = c
		}
	}
	if call == nil || call.Call.Value != ssa.Value(r.Load) || len(call.Call.Args) != 1 || call.Call.Args[0] != ssa.Value(h.Params[in]) {
		return 0, 0, false
	}
	iff := core.IfOf(r.Body)
	if iff == nil {
		return 0, 0, false
	}
	cond, pos := core.StripNot(iff.Cond, true)
	bo, isBo := cond.(*ssa.BinOp)
	if !isBo || bo.X != ssa.Value(call) {
		return 0, 0, false
	}
	if k, isC := core.ConstString(bo.Y); !isC || k != "" {
		return 0, 0, false
	}
	hit, miss := r.Body.Succs[0], r.Body.Succs[1]
	if (bo.Op == token.EQL) == pos {
		hit, miss = miss, hit
	} else if bo.Op != token.NEQ && bo.Op != token.EQL {
		return 0, 0, false
	}
	rh, rd := retOf(hit), retOf(r.Done)
	if rh == nil || rh.Results[0] != ssa.Value(call) || miss != r.Header || rd == nil {
		return 0, 0, false
	}
	if k, isC := core.ConstString(rd.Results[0]); !isC || k != "" {
		return 0, 0, false
	}
	if len(core.Returns(h)) != 2 {
		return 0, 0, false
	}
	return in, fs, true
}

// stagesOf: when f's body is `return comb(input, g1, ..., gn)` with a verified
// first-non-empty combinator, the functions tried in order.
func stagesOf(f *ssa.Function) []*ssa.Function {
	rs := core.Returns(f)
	if len(rs) != 1 || len(f.Params) != 1 {
		return nil
	}
	call, ok := rs[0].Results[0].(*ssa.Call)
	if !ok {
		return nil
	}
	h := call.Call.StaticCallee()
	in, fs, ok := firstNonEmpty(h)
	if !ok || call.Call.Args[in] != ssa.Value(f.Params[0]) {
		return nil
	}
	// the variadic list: a slice of a local array whose elements are function constants, stored once each
	sl, ok := call.Call.Args[fs].(*ssa.Slice)
	if !ok || sl.Low != nil || sl.High != nil {
		return nil
	}
	arr, ok := sl.X.(*ssa.Alloc)
	if !ok {
		return nil
	}
	at, ok := arr.Type().Underlying().(*types.Pointer).Elem().Underlying().(*types.Array)
	if !ok {
		return nil
	}
	out := make([]*ssa.Function, at.Len())
	for _, ref := range *arr.Referrers() {
		ia, ok := ref.(*ssa.IndexAddr)
		if !ok {
			continue
		}
		i, isC := core.ConstInt(ia.Index)
		if !isC || i < 0 || i >= at.Len() {
			return nil
		}
		for _, r2 := range *ia.Referrers() {
			st, ok := r2.(*ssa.Store)
			if !ok {
				return nil
			}
			g, ok := core.Unwrap(st.Val).(*ssa.Function)
			if !ok || out[i] != nil {
				return nil
			}
			out[i] = g
		}
	}
	for _, g := range out {
		if g == nil {
			return nil
		}
	}
	// nothing else happens in f
	for _, ci := range core.Calls(f) {
		if ci != ssa.CallInstruction(call) {
			return nil
		}
	}
	return out
}

func reachesCallee(f *ssa.Function, pred func(*ssa.CallCommon) bool, seen map[*ssa.Function]bool) bool {
	if f == nil || seen[f] || f.Blocks == nil {
		return false
	}
	seen[f] = true
	for _, g := range funcOperands(f) {
		if reachesCallee(g, pred, seen) {
			return true
		}
	}
	for _, ci := range core.Calls(f) {
		if pred(ci.Common()) {
			return true
		}
		if g := ci.Common().StaticCallee(); g != nil && core.InMod(g) && reachesCallee(g, pred, seen) {
			return true
		}
	}
	return false
}
