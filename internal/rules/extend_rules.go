package rules

import (
	"fmt"
	"go/token"
	"go/types"

	"golang.org/x/tools/go/ssa"

	"mtverif/internal/core"
	"mtverif/internal/fde"
)

// R14.1 + R14.2
var ruleExtend = &core.Rule{ID: "R14.1", Min: 6,
	Doc: "Extend builds a fresh node from its own parameters (detector, type, extension, aliases, parent = receiver) and publishes it as [new] ++ old children (append of a one-element literal, slices.Concat of it with the old children, or make(len+1), store at 0, copy to [1:]) by one store under the write lock; the node may come from a constructor whose stores are mapped back to Extend's arguments, writing nothing else; the package-level Extend calls it on the root with its own parameters in order; no field of the new node is written after the store that publishes it",
	Run: func(c *core.Ctx, s *core.Sink) {
		m := getWalk(c)
		cm := getConc(c)
		f := m.extendM
		if f == nil && m.extendWrong != nil {
			s.Bad("children replaced on the receiver", c.Pos(m.extendWrong.Pos()), m.extendWrong.Parent().Name()+" stores into the children of a node other than its receiver: the new format is consulted under another parent than the one it was registered for and its results report ancestors that did not match")
			return
		}
		if f == nil {
			core.Bail("no method publishing a child outside initialisation found")
		}
		tm := m.tm
		var fresh *ssa.Alloc
		for _, b := range f.Blocks {
			for _, in := range b.Instrs {
				if a, ok := in.(*ssa.Alloc); ok && cm.isNodePtr(a.Type()) && a.Heap {
					if fresh != nil {
						s.Bad("one new node", c.Pos(a.Pos()), "Extend allocates more than one node")
					}
					fresh = a
				}
			}
		}
		recv := f.Params[0]
		// the new node may be built by a constructor helper that receives the same values
		var ctorCall *ssa.Call
		var ctor *ssa.Function
		var ctorAlloc *ssa.Alloc
		if fresh == nil {
			for _, ci := range core.Calls(f) {
				call, ok := ci.(*ssa.Call)
				if !ok {
					continue
				}
				g := call.Call.StaticCallee()
				if g == nil || !core.InMod(g) || g.Blocks == nil || g.Signature.Results().Len() != 1 || !cm.isNodePtr(g.Signature.Results().At(0).Type()) {
					continue
				}
				var al *ssa.Alloc
				okRet := true
				for _, r := range core.Returns(g) {
					a, isA := r.Results[0].(*ssa.Alloc)
					if !isA || (al != nil && al != a) {
						okRet = false
					}
					al = a
				}
				if okRet && al != nil && al.Heap {
					ctorCall, ctor, ctorAlloc = call, g, al
				}
			}
		}
		if fresh == nil && ctorCall == nil {
			s.Bad("one new node", c.Pos(f.Pos()), "Extend does not allocate a new node")
			return
		}
		// field stores of the fresh node
		want := map[int]string{tm.FMime: "string", tm.FExt: "string", tm.FDet: "func", tm.FAliases: "aliases", tm.FParent: "recv"}
		got := map[int]ssa.Value{}
		_, _, regions := cm.lockset(c)
		nChildStores := 0
		var freshStores []*ssa.Store
		var pubStore *ssa.Store
		for _, b := range f.Blocks {
			held := regions[f][b]
			for _, in := range b.Instrs {
				if name, deferred := cm.muCall(in); name != "" && !deferred {
					switch name {
					case "Lock":
						held = 2
					case "RLock":
						held = 1
					case "Unlock", "RUnlock":
						held = 0
					}
					continue
				}
				st, ok := in.(*ssa.Store)
				if !ok {
					continue
				}
				fa, ok := st.Addr.(*ssa.FieldAddr)
				if !ok {
					if ia, ok := st.Addr.(*ssa.IndexAddr); ok {
						if _, isAlloc := ia.X.(*ssa.Alloc); isAlloc {
							continue // filling the fresh one-element array
						}
						if _, isMake := ia.X.(*ssa.MakeSlice); isMake {
							continue // filling the fresh children slice (its shape is checked at the publication)
						}
					}
					s.Bad("Extend writes only the new node and the children field", c.Pos(st.Pos()), "unexpected store in Extend")
					continue
				}
				switch {
				case fresh != nil && fa.X == ssa.Value(fresh):
					got[fa.Field] = st.Val
					freshStores = append(freshStores, st)
				case fa.X == ssa.Value(recv) && fa.Field == tm.FChildren:
					nChildStores++
					pubStore = st
					s.Check(held == 2, "children replaced under the write lock", c.Pos(st.Pos()), "lock state W", "the new children slice is published without holding the write lock")
					app, ok := st.Val.(*ssa.Call)
					okShape := false
					why := "the new children slice is not [new node] followed by the old children: the extension must sit in front of the siblings that existed when it was registered"
					// append(first, rest...) or slices.Concat(first, rest): the same two operands
					var a0, a1 ssa.Value
					if ok && core.IsBuiltin(&app.Call, "append") && len(app.Call.Args) == 2 {
						a0, a1 = app.Call.Args[0], app.Call.Args[1]
					} else if ok && isStdGeneric(&app.Call, "slices.Concat") && len(app.Call.Args) == 1 {
						if parts := literalElems(app.Call.Args[0]); len(parts) == 2 {
							a0, a1 = parts[0], parts[1]
						}
					}
					if a0 != nil {
						first, ok1 := a0.(*ssa.Slice)
						base, fld, ok2 := core.LoadOfField(a1)
						if ok1 && ok2 && fld == tm.FChildren && base == ssa.Value(recv) {
							if arr, ok := first.X.(*ssa.Alloc); ok {
								n, good := 0, false
								for _, r := range *arr.Referrers() {
									if ia, ok := r.(*ssa.IndexAddr); ok {
										for _, r2 := range *ia.Referrers() {
											if s2, ok := r2.(*ssa.Store); ok {
												n++
												good = ((fresh != nil && s2.Val == ssa.Value(fresh)) || (ctorCall != nil && s2.Val == ssa.Value(ctorCall))) && core.IsConstInt(ia.Index, 0)
											}
										}
									}
								}
								okShape = n == 1 && good
							}
							// the old children must be read under the same lock region (no lost update)
							if ld, ok := a1.(*ssa.UnOp); ok {
								if !(ld.Block() == st.Block()) {
									okShape, why = false, "old children are read in a different region than the store"
								} else {
									// between the load and the store the lock must be held: load must come after the Lock call
									lockIdx, loadIdx := -1, core.InstrIndex(ld)
									for i, x := range st.Block().Instrs {
										if name, _ := cm.muCall(x); name == "Lock" {
											lockIdx = i
										}
									}
									if lockIdx < 0 || loadIdx < lockIdx {
										if regions[f][st.Block()] != 2 {
											okShape, why = false, "the old children are read before the write lock is taken: a concurrent Extend can be lost"
										}
									}
								}
							}
						}
					}
					if mk, isMake := st.Val.(*ssa.MakeSlice); isMake {
						// make(len(old)+1); new[0] = node; copy(new[1:], old)
						isOld := func(v ssa.Value) bool {
							base, fld, ok := core.LoadOfField(v)
							if !ok || fld != tm.FChildren || base != ssa.Value(recv) {
								return false
							}
							// read with the write lock held
							ld := v.(*ssa.UnOp)
							if regions[f][ld.Block()] == 2 {
								return true
							}
							lockIdx := -1
							for i, x := range ld.Block().Instrs {
								if name, deferred := cm.muCall(x); name == "Lock" && !deferred {
									lockIdx = i
								}
							}
							return lockIdx >= 0 && core.InstrIndex(ld) > lockIdx
						}
						okLen := false
						if add, ok := mk.Len.(*ssa.BinOp); ok && add.Op == token.ADD && core.IsConstInt(add.Y, 1) {
							if ln, ok := add.X.(*ssa.Call); ok && core.IsBuiltin(&ln.Call, "len") && isOld(ln.Call.Args[0]) {
								okLen = true
							}
						}
						nFirst, okFirst, nCopy, okCopy, other := 0, false, 0, false, false
						for _, ref := range *mk.Referrers() {
							switch x := ref.(type) {
							case *ssa.IndexAddr:
								for _, r2 := range *x.Referrers() {
									if s2, ok := r2.(*ssa.Store); ok {
										nFirst++
										okFirst = core.IsConstInt(x.Index, 0) && ((fresh != nil && s2.Val == ssa.Value(fresh)) || (ctorCall != nil && s2.Val == ssa.Value(ctorCall)))
									}
								}
							case *ssa.Slice:
								for _, r2 := range *x.Referrers() {
									if cp, ok := r2.(*ssa.Call); ok && core.IsBuiltin(&cp.Call, "copy") && cp.Call.Args[0] == ssa.Value(x) {
										nCopy++
										okCopy = core.IsConstInt(x.Low, 1) && x.High == nil && isOld(cp.Call.Args[1])
									} else {
										other = true
									}
								}
							case *ssa.Store, *ssa.DebugRef:
							default:
								other = true
							}
						}
						okShape = okLen && nFirst == 1 && okFirst && nCopy == 1 && okCopy && !other
					}
					s.Check(okShape, "new children = [new] ++ old", c.Pos(st.Pos()), "append([]*T{new}, old...)", why)
				default:
					s.Bad("Extend writes only the new node and the children field", c.Pos(st.Pos()), "Extend stores into a field of an existing node other than its receiver's children")
				}
			}
		}
		if ctor != nil {
			// translate the constructor's field stores (from its parameters) to Extend's arguments
			for _, b := range ctor.Blocks {
				for _, in := range b.Instrs {
					st, ok := in.(*ssa.Store)
					if !ok {
						continue
					}
					fa, ok := st.Addr.(*ssa.FieldAddr)
					if !ok || fa.X != ssa.Value(ctorAlloc) {
						continue
					}
					v := core.Unwrap(st.Val)
					mapped := false
					for i, p := range ctor.Params {
						if v == ssa.Value(p) {
							got[fa.Field] = ctorCall.Call.Args[i]
							mapped = true
						}
					}
					if !mapped {
						got[fa.Field] = st.Val // not a parameter: judged below as "not from Extend's parameters"
					}
				}
			}
		}
		s.Check(nChildStores == 1, "one publication", c.Pos(f.Pos()), "1 store to children", fmt.Sprintf("%d stores to the receiver's children", nChildStores))
		// the node is complete when it is published: no field of it is written after the store that makes it reachable
		if pubStore != nil {
			late := ""
			reach := core.Reach(pubStore.Block())
			for _, fs := range freshStores {
				after := false
				if fs.Block() == pubStore.Block() {
					after = core.InstrIndex(fs) > core.InstrIndex(pubStore)
				} else if reach[fs.Block()] {
					after = true
				}
				if after {
					late = c.Pos(fs.Pos())
				}
			}
			s.Check(late == "", "new node is complete when published", c.Pos(pubStore.Pos()), "every field store precedes the publication", "a field of the new node is written (at "+late+") after the node was made reachable from the tree: a concurrent detection or Lookup sees it half-built (wrong ancestor chain, missing aliases), and the write races with their reads")
		}
		// fields from parameters
		paramOf := func(v ssa.Value) int {
			v = core.Unwrap(v)
			for i, p := range f.Params {
				if v == ssa.Value(p) {
					return i
				}
			}
			return -1
		}
		for fld, kind := range want {
			key := fmt.Sprintf("new node field #%d (%s)", fld, kind)
			v, ok := got[fld]
			if !ok {
				s.Bad(key, c.Pos(f.Pos()), "field of the new node is not set")
				continue
			}
			pi := paramOf(v)
			switch kind {
			case "recv":
				s.Check(pi == 0, key, c.Pos(f.Pos()), "parent = receiver", "the new node's parent is not the node it is registered under: its results would report a wrong ancestor chain")
			default:
				s.Check(pi > 0, key, c.Pos(f.Pos()), fmt.Sprintf("parameter %d", pi), "a field of the new node is not taken from Extend's parameters")
			}
		}
		if _, set := got[tm.FChildren]; set {
			s.Bad("new node has no children", c.Pos(f.Pos()), "Extend pre-populates the children of the new node")
		}
		// package-level Extend
		found := false
		for _, g := range cm.fs {
			if !exportedAPI(g) || g.Signature.Recv() != nil {
				continue
			}
			for _, ci := range core.Calls(g) {
				if ci.Common().StaticCallee() != f {
					continue
				}
				found = true
				args := ci.Common().Args
				gl, isLoad := core.LoadOfGlobal(args[0])
				okRoot := isLoad && nodeOfGlobal(tm, gl) == tm.Root
				okArgs := len(args) == len(g.Params)+1
				for i := 1; okArgs && i < len(args); i++ {
					if core.Unwrap(args[i]) != ssa.Value(g.Params[i-1]) {
						okArgs = false
					}
				}
				s.Check(okRoot, core.FName(g)+": delegates to the root", c.Pos(ci.Pos()), "root.Extend", "package-level Extend registers under a node other than the root")
				s.Check(okArgs, core.FName(g)+": forwards its parameters in order", c.Pos(ci.Pos()), "same parameters", "package-level Extend reorders or alters its parameters")
			}
		}
		s.Check(found, "package-level Extend exists", c.Pos(f.Pos()), "delegating wrapper", "no package-level function delegates to the Extend method")
	}}

// R14.4 / R15.3
var ruleLookup = &core.Rule{ID: "R14.4", Min: 4,
	Doc: "lookup compares the requested name with the node's type and with every alias (exact equality; inline, through a verified helper, or slices.Contains), descends into every child in order, returns the first hit and nil otherwise",
	Run: func(c *core.Ctx, s *core.Sink) {
		m := getWalk(c)
		f := m.lookup
		if f == nil {
			core.Bail("recursive lookup method not found")
		}
		tm := m.tm
		recv, name := f.Params[0], f.Params[1]
		retRecv := func(hit *ssa.BasicBlock) bool {
			rs := retOf(hit)
			return rs != nil && rs.Results[0] == ssa.Value(recv)
		}
		cmpMime := mimeCompare(m, f, recv, name, retRecv)
		okAl := aliasScanReturns(m, f, recv, name, retRecv)
		if !cmpMime || !okAl {
			// both tests behind one verified helper: if named(recv, name) { return recv }
			for _, ci := range core.Calls(f) {
				call, ok := ci.(*ssa.Call)
				if !ok {
					continue
				}
				h := call.Call.StaticCallee()
				if h == nil || !core.InMod(h) || h.Blocks == nil || len(call.Call.Args) != 2 || call.Call.Args[0] != ssa.Value(recv) || call.Call.Args[1] != ssa.Value(name) || len(h.Params) != 2 {
					continue
				}
				retTrue := func(hit *ssa.BasicBlock) bool {
					r := retOf(hit)
					if r == nil {
						return false
					}
					v, isC := core.ConstBool(r.Results[0])
					return isC && v
				}
				okH := mimeCompare(m, h, h.Params[0], h.Params[1], retTrue) && aliasScanReturns(m, h, h.Params[0], h.Params[1], retTrue)
				for _, r := range core.Returns(h) {
					if _, isC := core.ConstBool(r.Results[0]); !isC {
						okH = false
					}
				}
				if !okH {
					continue
				}
				for _, ref := range *call.Referrers() {
					if iff, ok := ref.(*ssa.If); ok && retRecv(iff.Block().Succs[0]) {
						cmpMime, okAl = true, true
					}
				}
			}
		}
		s.Check(cmpMime, "name compared with the node's type", c.Pos(f.Pos()), "type == name => node", "lookup does not return the node whose registered type equals the name")
		var alLoad, chLoad ssa.Value
		for _, b := range f.Blocks {
			for _, in := range b.Instrs {
				if base, fld, ok := core.LoadOfField(valueOf(in)); ok && base == ssa.Value(recv) {
					if fld == tm.FAliases {
						alLoad = valueOf(in)
					}
					if fld == tm.FChildren {
						chLoad = valueOf(in)
					}
				}
			}
		}
		_ = alLoad
		s.Check(okAl, "name compared with every alias", c.Pos(f.Pos()), "range over all aliases, equality => node", "lookup does not compare the name with every registered alias of the node")
		okCh := false
		if chLoad != nil {
			for _, r := range fde.FindRangeOver(f, chLoad) {
				// body: t = lookup(child, name); if t != nil return t else continue
				for _, in := range r.Body.Instrs {
					call, ok := in.(*ssa.Call)
					if !ok || call.Call.StaticCallee() != f || call.Call.Args[0] != ssa.Value(r.Load) || call.Call.Args[1] != ssa.Value(name) {
						continue
					}
					iff := core.IfOf(r.Body)
					if iff == nil {
						continue
					}
					bo, ok := iff.Cond.(*ssa.BinOp)
					if !ok || bo.X != ssa.Value(call) || !core.IsNilConst(bo.Y) {
						continue
					}
					hit, miss := r.Body.Succs[0], r.Body.Succs[1]
					if bo.Op == token.EQL {
						hit, miss = miss, hit
					}
					if rs := retOf(hit); rs != nil && rs.Results[0] == ssa.Value(call) && latchTo(miss, r.Header) {
						if rd := retOf(r.Done); rd != nil && core.IsNilConst(rd.Results[0]) {
							okCh = true
						}
					}
				}
			}
		}
		s.Check(okCh, "descends into every child, first hit wins, else nil", c.Pos(f.Pos()), "range over all children", "lookup does not visit every child in order or does not return the first hit / nil")
		// callers: exported Lookup passes its parameter and the root
		for _, g := range getConc(c).fs {
			if !exportedAPI(g) {
				continue
			}
			for _, ci := range core.Calls(g) {
				if ci.Common().StaticCallee() != f {
					continue
				}
				gl, isLoad := core.LoadOfGlobal(ci.Common().Args[0])
				s.Check(isLoad && nodeOfGlobal(tm, gl) == tm.Root && len(g.Params) == 1 && ci.Common().Args[1] == ssa.Value(g.Params[0]), core.FName(g)+": searches the whole tree for its argument", c.Pos(ci.Pos()), "root.lookup(name)", "the exported lookup does not start at the root with its own argument")
			}
		}
	}}

// latchTo: b is the loop header or a latch that only advances the counter and jumps to it.
func latchTo(b, header *ssa.BasicBlock) bool {
	if b == header {
		return true
	}
	if len(b.Succs) != 1 || b.Succs[0] != header {
		return false
	}
	for _, in := range b.Instrs {
		switch x := in.(type) {
		case *ssa.Jump:
		case *ssa.BinOp:
			if x.Op != token.ADD || !core.IsConstInt(x.Y, 1) {
				return false
			}
		default:
			return false
		}
	}
	return true
}

// mimeCompare: f tests recv.mime == name and the true edge reaches a block accepted by hitOK.
func mimeCompare(m *walkModel, f *ssa.Function, recv, name ssa.Value, hitOK func(*ssa.BasicBlock) bool) bool {
	for _, b := range f.Blocks {
		for _, in := range b.Instrs {
			bo, ok := in.(*ssa.BinOp)
			if !ok || bo.Op != token.EQL {
				continue
			}
			for _, pr := range [][2]ssa.Value{{bo.X, bo.Y}, {bo.Y, bo.X}} {
				if base, fld, ok := core.LoadOfField(pr[0]); ok && fld == m.tm.FMime && base == recv && pr[1] == name {
					iff := core.IfOf(bo.Block())
					if iff != nil && iff.Cond == ssa.Value(bo) && hitOK(bo.Block().Succs[0]) {
						return true
					}
				}
			}
		}
	}
	return false
}

// aliasLoopInline: f ranges over every alias of recv and tests each for
// equality with name; hitOK judges the block reached on a hit; on a miss the
// loop continues. Returns the loop when found.
func aliasLoopInline(m *walkModel, f *ssa.Function, recv, name ssa.Value, hitOK func(*ssa.BasicBlock) bool) bool {
	for _, b := range f.Blocks {
		for _, in := range b.Instrs {
			base, fld, ok := core.LoadOfField(valueOf(in))
			if !ok || fld != m.tm.FAliases || base != recv {
				continue
			}
			for _, r := range fde.FindRangeOver(f, valueOf(in)) {
				iff := core.IfOf(r.Body)
				if iff == nil {
					continue
				}
				cond, pos := core.StripNot(iff.Cond, true)
				bo, ok := cond.(*ssa.BinOp)
				if !ok || (bo.Op != token.EQL && bo.Op != token.NEQ) {
					continue
				}
				if !((bo.X == ssa.Value(r.Load) && bo.Y == name) || (bo.Y == ssa.Value(r.Load) && bo.X == name)) {
					continue
				}
				hit, miss := r.Body.Succs[0], r.Body.Succs[1]
				if (bo.Op == token.NEQ) == pos {
					hit, miss = miss, hit
				}
				if miss == r.Header && hitOK(hit) {
					return true
				}
			}
		}
	}
	return false
}

// aliasHelper: g(recv, name) bool is a module helper that returns true exactly
// when name equals one of recv's aliases (inline loop, true on hit, false after the loop).
func aliasHelper(m *walkModel, g *ssa.Function) (recvIdx, nameIdx int, ok bool) {
	if g == nil || g.Blocks == nil || !core.InMod(g) || g.Signature.Results().Len() != 1 {
		return 0, 0, false
	}
	for ri, rp := range g.Params {
		for ni, np := range g.Params {
			if ri == ni || !core.IsString(np.Type()) {
				continue
			}
			found := aliasLoopInline(m, g, rp, np, func(hit *ssa.BasicBlock) bool {
				r := retOf(hit)
				if r == nil {
					return false
				}
				v, isC := core.ConstBool(r.Results[0])
				return isC && v
			})
			if !found {
				continue
			}
			// every other return is false
			okRets := true
			for _, r := range core.Returns(g) {
				if v, isC := core.ConstBool(r.Results[0]); !isC {
					okRets = false
				} else if v {
					continue
				}
			}
			if okRets {
				return ri, ni, true
			}
		}
	}
	return 0, 0, false
}

// aliasScanReturns: f compares name with every alias of recv — inline, or
// through a verified helper whose true result leads to a block accepted by hitOK.
func aliasScanReturns(m *walkModel, f *ssa.Function, recv, name ssa.Value, hitOK func(*ssa.BasicBlock) bool) bool {
	if aliasLoopInline(m, f, recv, name, hitOK) {
		return true
	}
	for _, ci := range core.Calls(f) {
		call, ok := ci.(*ssa.Call)
		if !ok {
			continue
		}
		if isAliasContains(m, call, recv, name) {
			for _, ref := range *call.Referrers() {
				if iff, ok := ref.(*ssa.If); ok && hitOK(iff.Block().Succs[0]) {
					return true
				}
			}
			continue
		}
		ri, ni, ok := aliasHelper(m, call.Call.StaticCallee())
		if !ok || call.Call.Args[ri] != recv || call.Call.Args[ni] != name {
			continue
		}
		for _, ref := range *call.Referrers() {
			if iff, ok := ref.(*ssa.If); ok && hitOK(iff.Block().Succs[0]) {
				return true
			}
		}
	}
	return false
}

// isAliasContains: call is slices.Contains(recv.aliases, name): true exactly
// when some registered alias equals name (library contract).
func isAliasContains(m *walkModel, call *ssa.Call, recv, name ssa.Value) bool {
	g := call.Call.StaticCallee()
	if g == nil || len(call.Call.Args) != 2 {
		return false
	}
	o := g.Origin()
	if o == nil {
		o = g
	}
	if o.Pkg == nil || o.Pkg.Pkg.Path() != "slices" || o.Name() != "Contains" {
		return false
	}
	base, fld, ok := core.LoadOfField(call.Call.Args[0])
	return ok && fld == m.tm.FAliases && base == recv && call.Call.Args[1] == name
}

func retOf(b *ssa.BasicBlock) *ssa.Return {
	if len(b.Instrs) == 0 {
		return nil
	}
	r, _ := b.Instrs[len(b.Instrs)-1].(*ssa.Return)
	return r
}

// R15.1
var ruleEquality = &core.Rule{ID: "R15.1", Min: 4,
	Doc: "in Is and EqualsAny both operands of every string equality are first results of mime.ParseMediaType (directly or through a helper returning exactly that) (of the argument / of the node's type / of each candidate), except alias operands, which are compared with the normalised argument; every alias and every candidate is visited (by a loop, or by slices.ContainsFunc whose callback is judged the same way); a match returns true, exhaustion false; a comparison of two raw strings is allowed only as a fast path whose sole effect is an early true; no false depends on the raw strings",
	Run: func(c *core.Ctx, s *core.Sink) {
		m := getWalk(c)
		cm := getConc(c)
		tm := m.tm
		parsedOf := func(v ssa.Value) (ssa.Value, bool) {
			// through a normalising helper: h(s) returning the first result of mime.ParseMediaType(s)
			if call, ok := v.(*ssa.Call); ok {
				if h := call.Call.StaticCallee(); h != nil && core.InMod(h) && h.Blocks != nil && len(h.Params) == 1 && len(call.Call.Args) == 1 {
					rs := core.Returns(h)
					if len(rs) == 1 && len(rs[0].Results) == 1 {
						if ex, ok := rs[0].Results[0].(*ssa.Extract); ok && ex.Index == 0 {
							if pc, ok := ex.Tuple.(*ssa.Call); ok && core.CalleeIs(&pc.Call, "mime", "ParseMediaType") && pc.Call.Args[0] == ssa.Value(h.Params[0]) {
								return call.Call.Args[0], true
							}
						}
					}
				}
				return nil, false
			}
			// inside a callback: a captured variable of the enclosing function that holds a normalised value when the
			// callback is created (every store other than the parameter's initial one is a ParseMediaType result)
			if ld, isLd := v.(*ssa.UnOp); isLd && ld.Op == token.MUL {
				if fv, isFV := ld.X.(*ssa.FreeVar); isFV {
					if arg, ok := parsedCapture(fv); ok {
						return arg, true
					}
				}
			}
			ex, ok := v.(*ssa.Extract)
			if !ok || ex.Index != 0 {
				return nil, false
			}
			call, ok := ex.Tuple.(*ssa.Call)
			if !ok || !core.CalleeIs(&call.Call, "mime", "ParseMediaType") {
				return nil, false
			}
			return call.Call.Args[0], true
		}
		// the string equalities judged: those of the function and of the callbacks it hands to library searches
		bodiesOf := func(f *ssa.Function) []*ssa.Function {
			out := []*ssa.Function{f}
			for _, ci := range core.Calls(f) {
				if !isStdGeneric(ci.Common(), "slices.ContainsFunc") && !isStdGeneric(ci.Common(), "slices.IndexFunc") {
					continue
				}
				for _, a := range ci.Common().Args {
					if mc, ok := a.(*ssa.MakeClosure); ok {
						if g, ok := mc.Fn.(*ssa.Function); ok {
							out = append(out, g)
						}
					}
				}
			}
			return out
		}
		// a comparison of two raw strings whose only effect is an early `return true`: equal strings have equal
		// normal forms, so the answer agrees with the normalised comparison that follows
		fastPath := func(bo *ssa.BinOp) bool {
			if bo.Op != token.EQL {
				return false
			}
			for _, ref := range *bo.Referrers() {
				iff, ok := ref.(*ssa.If)
				if !ok {
					return false
				}
				r := retOf(iff.Block().Succs[0])
				if r == nil {
					return false
				}
				if v, isC := core.ConstBool(r.Results[0]); !isC || !v {
					return false
				}
			}
			return len(*bo.Referrers()) > 0
		}
		n := 0
		for _, f := range cm.fs {
			if !exportedAPI(f) || f.Signature.Results().Len() != 1 {
				continue
			}
			if !reachesCallee(f, func(cc *ssa.CallCommon) bool { return core.CalleeIs(cc, "mime", "ParseMediaType") }, map[*ssa.Function]bool{}) {
				continue
			}
			n++
			for _, body := range bodiesOf(f) {
				for _, b := range body.Blocks {
					for _, in := range b.Instrs {
						bo, ok := in.(*ssa.BinOp)
						if !ok || (bo.Op != token.EQL && bo.Op != token.NEQ) || !core.IsString(bo.X.Type()) {
							continue
						}
						key := fmt.Sprintf("%s: string comparison #%d", core.FName(body), ordinalOfBinOp(body, bo))
						_, okX := parsedOf(bo.X)
						_, okY := parsedOf(bo.Y)
						switch {
						case !okX && !okY && fastPath(bo):
							s.OK(key, c.Pos(bo.Pos()), "fast path: identical raw strings return true at once (equal strings have equal normal forms)")
						case okX && okY:
							s.OK(key, c.Pos(bo.Pos()), "both sides normalised by ParseMediaType")
						case okX || okY:
							other := bo.X
							if okX {
								other = bo.Y
							}
							// alias element of the receiver
							isAlias := false
							if u, ok := other.(*ssa.UnOp); ok && u.Op == token.MUL {
								if ia, ok := u.X.(*ssa.IndexAddr); ok {
									if base, fld, ok := core.LoadOfField(ia.X); ok && fld == tm.FAliases && f.Signature.Recv() != nil && base == ssa.Value(f.Params[0]) {
										isAlias = true
									}
								}
							}
							s.Check(isAlias, key, c.Pos(bo.Pos()), "registered alias (normalised by R15.2) vs normalised argument", "a raw, un-normalised string is compared with a normalised media type: case, whitespace or parameters would change the answer")
						default:
							s.Bad(key, c.Pos(bo.Pos()), "neither side of the comparison went through mime.ParseMediaType")
						}
					}
				}
			}
			// loops visit every alias / candidate
			if f.Signature.Recv() != nil {
				var alLoad ssa.Value
				for _, b := range f.Blocks {
					for _, in := range b.Instrs {
						if base, fld, ok := core.LoadOfField(valueOf(in)); ok && fld == tm.FAliases && base == ssa.Value(f.Params[0]) {
							alLoad = valueOf(in)
						}
					}
				}
				okVisit := false
				_ = alLoad
				for _, b := range f.Blocks {
					for _, in := range b.Instrs {
						if arg, ok := parsedOf(valueOf(in)); ok && valueOf(in) != nil {
							if _, isRecvMime := arg.(*ssa.UnOp); isRecvMime {
								continue
							}
							name := valueOf(in)
							if aliasLoopInline(m, f, f.Params[0], name, func(hit *ssa.BasicBlock) bool {
								r := retOf(hit)
								if r == nil {
									return false
								}
								v, isC := core.ConstBool(r.Results[0])
								return isC && v
							}) {
								okVisit = true
							}
							for _, ci := range core.Calls(f) {
								if call, ok := ci.(*ssa.Call); ok {
									if ri, ni, ok := aliasHelper(m, call.Call.StaticCallee()); ok && call.Call.Args[ri] == ssa.Value(f.Params[0]) && call.Call.Args[ni] == name {
										okVisit = true
									}
									if isAliasContains(m, call, f.Params[0], name) {
										okVisit = true
									}
								}
							}
						}
					}
				}
				s.Check(okVisit, core.FName(f)+": every alias is visited", c.Pos(f.Pos()), "range over all aliases (inline or through a verified helper), compared with the normalised argument", "Is does not compare the normalised argument with every alias of the node")
				// receiver's type is parsed too
				okRecv := false
				for _, ci := range core.Calls(f) {
					if core.CalleeIs(ci.Common(), "mime", "ParseMediaType") {
						if base, fld, ok := core.LoadOfField(ci.Common().Args[0]); ok && fld == tm.FMime && base == ssa.Value(f.Params[0]) {
							okRecv = true
						}
					}
					if call, ok := ci.(*ssa.Call); ok {
						if arg, ok := parsedOf(call); ok {
							if base, fld, ok := core.LoadOfField(arg); ok && fld == tm.FMime && base == ssa.Value(f.Params[0]) {
								okRecv = true
							}
						}
					}
				}
				s.Check(okRecv, core.FName(f)+": the node's own type is normalised", c.Pos(f.Pos()), "ParseMediaType(m.mime)", "the node's own type string (which may carry a charset parameter) is compared without being parsed")
			} else if len(f.Params) == 2 {
				visited := false
				for _, rg := range fde.FindRangeOver(f, f.Params[1]) {
					// the loop that compares normalised values (a raw fast-path loop in front of it does not count)
					if iff := core.IfOf(rg.Body); iff != nil {
						if bo, ok := iff.Cond.(*ssa.BinOp); ok && fastPath(bo) {
							if _, okX := parsedOf(bo.X); !okX {
								if _, okY := parsedOf(bo.Y); !okY {
									continue
								}
							}
						}
					}
					visited = true
				}
				for _, ci := range core.Calls(f) {
					if isStdGeneric(ci.Common(), "slices.ContainsFunc") && ci.Common().Args[0] == ssa.Value(f.Params[1]) {
						visited = true // the library search visits every candidate until the callback accepts one
					}
				}
				s.Check(visited, core.FName(f)+": every candidate is visited", c.Pos(f.Pos()), "range over all candidates", "EqualsAny does not range over all candidates")
			}
			for _, r := range core.Returns(f) {
				v, ok := core.ConstBool(r.Results[0])
				key := fmt.Sprintf("%s: %s", core.FName(f), returnOrdinal(r))
				if !ok {
					// a composed verdict: every component is a constant, a normalised equality, or a verified alias helper
					var okV func(x ssa.Value, depth int) bool
					okV = func(x ssa.Value, depth int) bool {
						if depth > 6 {
							return false
						}
						if _, isC := core.ConstBool(x); isC {
							return true
						}
						switch y := x.(type) {
						case *ssa.BinOp:
							_, okX := parsedOf(y.X)
							_, okY := parsedOf(y.Y)
							return y.Op == token.EQL && okX && okY
						case *ssa.Call:
							if isStdGeneric(&y.Call, "slices.ContainsFunc") && len(y.Call.Args) == 2 {
								// some candidate satisfies the callback, whose verdict is itself such a composition
								if mc, ok := y.Call.Args[1].(*ssa.MakeClosure); ok {
									if g, ok := mc.Fn.(*ssa.Function); ok {
										for _, r2 := range core.Returns(g) {
											if !okV(r2.Results[0], depth+1) {
												return false
											}
										}
										return true
									}
								}
								return false
							}
							if f.Signature.Recv() != nil && len(y.Call.Args) == 2 {
								if _, isParsed := parsedOf(y.Call.Args[1]); isParsed && isAliasContains(m, y, f.Params[0], y.Call.Args[1]) {
									return true
								}
							}
							_, _, okH := aliasHelper(m, y.Call.StaticCallee())
							return okH
						case *ssa.Phi:
							for _, e := range y.Edges {
								if !okV(e, depth+1) {
									return false
								}
							}
							return true
						}
						return false
					}
					s.Check(okV(r.Results[0], 0), key, c.Pos(r.Pos()), "verdict composed of normalised equalities / verified alias helper", "the verdict is computed from something other than normalised equalities")
					continue
				}
				// true only under an equality edge; false only after the loops
				if v {
					under := false
					for _, de := range core.DominatingConds(r.Block()) {
						cond, val := core.StripNot(de.Cond, de.Val)
						if bo, ok := cond.(*ssa.BinOp); ok && core.IsString(bo.X.Type()) && ((bo.Op == token.EQL && val) || (bo.Op == token.NEQ && !val)) {
							under = true
						}
					}
					s.Check(under, key, c.Pos(r.Pos()), "true under an equality", "true is returned without a successful comparison")
				} else {
					// a rejection may depend on the normalised comparisons having failed, never on the raw strings
					rawDep := ""
					for _, de := range core.DominatingConds(r.Block()) {
						if bo, ok := de.Cond.(*ssa.BinOp); ok && core.IsString(bo.X.Type()) {
							continue // a string equality: judged above
						}
						if leaf := rawStringLeaf(f, tm.FMime, de.Cond, 0); leaf != nil {
							rawDep = leaf.Name()
						}
					}
					s.Check(rawDep == "", key, c.Pos(r.Pos()), "false after the comparisons", "false is returned under a condition on the raw, un-normalised string "+rawDep+" (its length or bytes): case, whitespace or parameters would change the answer")
				}
			}
		}
		s.Check(n >= 2, "equality helpers found", "-", fmt.Sprint(n), "fewer than two exported helpers normalise with ParseMediaType")
	}}

func ordinalOfBinOp(f *ssa.Function, bo *ssa.BinOp) int {
	k := 0
	for _, b := range f.Blocks {
		for _, in := range b.Instrs {
			if x, ok := in.(*ssa.BinOp); ok && core.IsString(x.X.Type()) {
				k++
				if x == bo {
					return k
				}
			}
		}
	}
	return k
}

// isStdGeneric: the call is to (an instance of) the generic library function name, e.g. "slices.Concat".
func isStdGeneric(cc *ssa.CallCommon, name string) bool {
	f := cc.StaticCallee()
	if f == nil {
		return false
	}
	if o := f.Origin(); o != nil {
		f = o
	}
	return f.String() == name
}

// literalElems: v is the full slice of a fresh local array each element of
// which is stored exactly once (a variadic argument list or a slice literal);
// the stored values in index order, nil otherwise.
func literalElems(v ssa.Value) []ssa.Value {
	sl, ok := v.(*ssa.Slice)
	if !ok || sl.Low != nil || sl.High != nil {
		return nil
	}
	arr, ok := sl.X.(*ssa.Alloc)
	if !ok {
		return nil
	}
	at, ok := arr.Type().Underlying().(*types.Pointer).Elem().Underlying().(*types.Array)
	if !ok {
		return nil
	}
	out := make([]ssa.Value, at.Len())
	for _, ref := range *arr.Referrers() {
		switch x := ref.(type) {
		case *ssa.IndexAddr:
			i, isK := core.ConstInt(x.Index)
			if !isK || i < 0 || i >= at.Len() {
				return nil
			}
			for _, r2 := range *x.Referrers() {
				st, isSt := r2.(*ssa.Store)
				if !isSt || out[i] != nil {
					return nil
				}
				out[i] = st.Val
			}
		case *ssa.Slice, *ssa.DebugRef:
		default:
			return nil
		}
	}
	for _, e := range out {
		if e == nil {
			return nil
		}
	}
	return out
}

// parsedCapture: fv is a variable captured from the enclosing function whose
// every store there, other than the initial store of a parameter, is the first
// result of mime.ParseMediaType, and every such store dominates the creation
// of the closure: inside the closure the variable holds a normalised type.
func parsedCapture(fv *ssa.FreeVar) (ssa.Value, bool) {
	g := fv.Parent()
	parent := g.Parent()
	if parent == nil {
		return nil, false
	}
	idx := -1
	for i, x := range g.FreeVars {
		if x == fv {
			idx = i
		}
	}
	for _, ref := range *fv.Referrers() {
		if st, ok := ref.(*ssa.Store); ok && st.Addr == ssa.Value(fv) {
			return nil, false // the callback itself writes the variable
		}
	}
	var arg ssa.Value
	for _, b := range parent.Blocks {
		for _, in := range b.Instrs {
			mc, ok := in.(*ssa.MakeClosure)
			if !ok || mc.Fn != ssa.Value(g) || idx < 0 || idx >= len(mc.Bindings) {
				continue
			}
			cell, ok := mc.Bindings[idx].(*ssa.Alloc)
			if !ok {
				return nil, false
			}
			parsed := 0
			for _, ref := range *cell.Referrers() {
				st, ok := ref.(*ssa.Store)
				if !ok {
					continue
				}
				if st.Addr != ssa.Value(cell) {
					return nil, false
				}
				if _, isParam := st.Val.(*ssa.Parameter); isParam {
					continue
				}
				ex, ok := st.Val.(*ssa.Extract)
				if !ok || ex.Index != 0 {
					return nil, false
				}
				pc, ok := ex.Tuple.(*ssa.Call)
				if !ok || !core.CalleeIs(&pc.Call, "mime", "ParseMediaType") || !core.Before(st, mc) {
					return nil, false
				}
				parsed++
				arg = pc.Call.Args[0]
			}
			if parsed == 0 {
				return nil, false
			}
		}
	}
	return arg, arg != nil
}

// rawStringLeaf: v is computed (through comparisons, arithmetic, len, indexing)
// from a raw string input of f: a string parameter or the receiver's type string.
func rawStringLeaf(f *ssa.Function, fMime int, v ssa.Value, depth int) ssa.Value {
	if depth > 6 || v == nil {
		return nil
	}
	switch x := v.(type) {
	case *ssa.Parameter:
		if core.IsString(x.Type()) {
			return x
		}
	case *ssa.BinOp:
		if l := rawStringLeaf(f, fMime, x.X, depth+1); l != nil {
			return l
		}
		return rawStringLeaf(f, fMime, x.Y, depth+1)
	case *ssa.UnOp:
		if _, fld, ok := core.LoadOfField(x); ok && fld == fMime && core.IsString(x.Type()) {
			return x
		}
		return rawStringLeaf(f, fMime, x.X, depth+1)
	case *ssa.Call:
		if core.IsBuiltin(&x.Call, "len") {
			return rawStringLeaf(f, fMime, x.Call.Args[0], depth+1)
		}
	case *ssa.Index:
		return rawStringLeaf(f, fMime, x.X, depth+1)
	case *ssa.Lookup:
		return rawStringLeaf(f, fMime, x.X, depth+1)
	case *ssa.Slice:
		return rawStringLeaf(f, fMime, x.X, depth+1)
	case *ssa.Convert:
		return rawStringLeaf(f, fMime, x.X, depth+1)
	}
	return nil
}
