package rules

import (
	"fmt"
	"go/constant"
	"go/token"
	"go/types"
	"os"
	"strings"

	"golang.org/x/tools/go/ssa"

	"mtverif/internal/core"
	"mtverif/internal/fde"
	"mtverif/internal/tree"
)

const pkgHTML = "golang.org/x/net/html"

func isXMLDecoderCall(cc *ssa.CallCommon, name string) bool {
	return core.MethodCalleeIs(cc, "encoding/xml", "Decoder", name)
}

// R12.1
var ruleSnifferMap = &core.Rule{ID: "R12.1", Min: 4,
	Doc: "the sniffer table (map literal, selection function or inline type tests) has exactly the keys text/plain, text/html, text/xml; the html entry reaches the HTML tokenizer, the xml entry reaches the XML decoder, the plain entry validates UTF-8 and reaches neither; html and xml fall back to the plain sniffer",
	Run: func(c *core.Ctx, s *core.Sink) {
		cm := getCharset(c)
		want := map[string]bool{"text/plain": true, "text/html": true, "text/xml": true}
		for _, k := range cm.snifKeys {
			s.Check(want[k], "sniffer key "+k, c.Pos(cm.walk.Pos()), "one of the three text types", fmt.Sprintf("charset sniffing is attached to %q: the property allows a charset parameter only on text/plain, text/html and text/xml", k))
			delete(want, k)
		}
		for k := range want {
			s.Bad("sniffer key "+k, c.Pos(cm.walk.Pos()), "no charset sniffer registered for "+k)
		}
		usesTok := func(cc *ssa.CallCommon) bool { return core.CalleeIs(cc, pkgHTML, "NewTokenizer") }
		usesXML := func(cc *ssa.CallCommon) bool { return core.CalleeIs(cc, "encoding/xml", "NewDecoder") }
		usesValid := func(cc *ssa.CallCommon) bool {
			// utf8.Valid, or rune decoding by hand (whether that validates is R11.3's question)
			g := cc.StaticCallee()
			return g != nil && g.Pkg != nil && g.Pkg.Pkg.Path() == "unicode/utf8" && g.Name() != "FullRune"
		}
		reach := func(f *ssa.Function, p func(*ssa.CallCommon) bool) bool {
			return reachesCallee(f, p, map[*ssa.Function]bool{})
		}
		if cm.html != nil {
			s.Check(reach(cm.html, usesTok) && !reach(cm.html, usesXML), "text/html -> HTML sniffer", c.Pos(cm.html.Pos()), core.FName(cm.html)+" reaches html.NewTokenizer", "the function registered for text/html does not run the HTML meta prescan (or runs the XML decoder)")
			fallsBack(c, s, cm, cm.html, "text/html falls back to plain sniffing", "HTML")
		}
		if cm.xml != nil {
			s.Check(reach(cm.xml, usesXML) && !reach(cm.xml, usesTok), "text/xml -> XML sniffer", c.Pos(cm.xml.Pos()), core.FName(cm.xml)+" reaches xml.NewDecoder", "the function registered for text/xml does not read the XML declaration (or runs the HTML tokenizer)")
			fallsBack(c, s, cm, cm.xml, "text/xml falls back to plain sniffing", "XML")
		}
		if cm.plain != nil {
			s.Check(reach(cm.plain, usesValid) && !reach(cm.plain, usesTok) && !reach(cm.plain, usesXML), "text/plain -> plain sniffer", c.Pos(cm.plain.Pos()), core.FName(cm.plain)+" validates UTF-8, no markup parsing", "the function registered for text/plain is not the byte sniffer")
		}
	}}

// fallsBack: the markup sniffer f ends in the plain sniffer (which looks for a
// byte-order mark first, R11.3), or calls the byte-scanning body of the plain
// sniffer directly on its own input after its own BOM lookup came back empty.
func fallsBack(c *core.Ctx, s *core.Sink, cm *charsetModel, f *ssa.Function, key, what string) {
	if reachesFn(f, cm.plain, map[*ssa.Function]bool{}) {
		s.OK(key, c.Pos(f.Pos()), "reaches the plain sniffer")
		return
	}
	body := getPlain(c).g
	if body == cm.plain || !reachesFn(f, body, map[*ssa.Function]bool{}) {
		s.Bad(key, c.Pos(f.Pos()), what+" sniffer never falls back to byte sniffing")
		return
	}
	var direct []*ssa.Call
	for _, ci := range core.Calls(f) {
		if call, ok := ci.(*ssa.Call); ok && call.Call.StaticCallee() == body {
			direct = append(direct, call)
		}
	}
	if len(direct) == 0 {
		s.Und(key, c.Pos(f.Pos()), "the "+what+" sniffer reaches the byte-scanning body of the plain sniffer only through helpers: whether a byte-order mark was looked for first is not modelled")
		return
	}
	cm.needBOM()
	for _, call := range direct {
		guarded := false
		for _, de := range core.DominatingConds(call.Block()) {
			cond, val := core.StripNot(de.Cond, de.Val)
			bo, ok := cond.(*ssa.BinOp)
			if !ok {
				continue
			}
			bc, isCall := bo.X.(*ssa.Call)
			if !isCall || bc.Call.StaticCallee() != cm.bomFn || bc.Call.Args[0] != ssa.Value(f.Params[0]) {
				continue
			}
			if k, isK := core.ConstString(bo.Y); isK && k == "" && ((bo.Op == token.NEQ && !val) || (bo.Op == token.EQL && val)) {
				guarded = true
			}
		}
		if !guarded || call.Call.Args[0] != ssa.Value(f.Params[0]) {
			s.Bad(key, c.Pos(call.Pos()), "the "+what+" sniffer falls back to the byte-scanning body of the plain sniffer without having looked for a byte-order mark on its input: a BOM no longer decides the charset of a document without a declaration")
			return
		}
	}
	s.OK(key, c.Pos(f.Pos()), "calls the byte-scanning body on its own input after its own BOM lookup came back empty")
}

// R12.2
var ruleDecoderTypestate = &core.Rule{ID: "R12.2", Min: 1,
	Doc: "every xml.Decoder whose RawToken/Token is called in the module has its CharsetReader field stored with a non-nil function before the first token call (otherwise any declared encoding other than UTF-8 makes the decoder fail and the declaration is lost)",
	Run: func(c *core.Ctx, s *core.Sink) {
		for _, f := range c.SrcFuncs() {
			for _, ci := range core.Calls(f) {
				cc := ci.Common()
				if !isXMLDecoderCall(cc, "RawToken") && !isXMLDecoderCall(cc, "Token") {
					continue
				}
				key := fmt.Sprintf("%s: decoder of %s", core.FName(f), callOrdinal(ci))
				dec := cc.Args[0]
				stored := false
				why := "the decoder has no CharsetReader: a prolog declaring any encoding other than UTF-8 makes the token call fail, the declared label is dropped and byte sniffing answers instead"
				for _, ref := range *dec.Referrers() {
					fa, ok := ref.(*ssa.FieldAddr)
					if !ok {
						continue
					}
					fld := fa.X.Type().Underlying().(*types.Pointer).Elem().Underlying().(*types.Struct).Field(fa.Field)
					if fld.Name() != "CharsetReader" {
						continue
					}
					for _, r2 := range *fa.Referrers() {
						st, ok := r2.(*ssa.Store)
						if !ok || !core.Before(st, ci) {
							continue
						}
						if core.IsNilConst(st.Val) {
							continue
						}
						// the stored function must return a non-nil reader with a nil error on some path
						fn := closureFn(st.Val)
						if fn == nil {
							stored = true // a named function value: accepted
							continue
						}
						good := false
						for _, r := range core.Returns(fn) {
							if len(r.Results) == 2 && !core.IsNilConst(r.Results[0]) && core.IsNilConst(r.Results[1]) {
								good = true
							}
						}
						if good {
							stored = true
						} else {
							why = "the CharsetReader installed on the decoder never returns a reader with a nil error: the decoder still fails on every non-UTF-8 declaration"
						}
					}
				}
				s.Check(stored, key, c.Pos(ci.Pos()), "CharsetReader stored before the first token", why)
			}
		}
	}}

func closureFn(v ssa.Value) *ssa.Function {
	switch x := core.Unwrap(v).(type) {
	case *ssa.Function:
		return x
	case *ssa.MakeClosure:
		f, _ := x.Fn.(*ssa.Function)
		return f
	}
	return nil
}

// R12.3
var ruleLowerCase = &core.Rule{ID: "R12.3", Min: 4,
	Doc: "every non-empty label returned by the XML declaration reader passes through strings.ToLower; in the HTML prescan the attribute value is ASCII-lower-cased in place (tabulated over 0..255) before any use of it",
	Run: func(c *core.Ctx, s *core.Sink) {
		// XML: function(s) calling RawToken/Token
		for _, f := range c.SrcFuncs() {
			isReader := false
			for _, ci := range core.Calls(f) {
				if isXMLDecoderCall(ci.Common(), "RawToken") || isXMLDecoderCall(ci.Common(), "Token") {
					isReader = true
				}
			}
			if !isReader {
				continue
			}
			// split form: the token reader only hands the raw declaration to its caller (text, found); the caller
			// extracts and lower-cases the label
			if f.Signature.Results().Len() == 2 && f.Object() != nil && !f.Object().Exported() {
				var tok ssa.Value
				for _, ci := range core.Calls(f) {
					if isXMLDecoderCall(ci.Common(), "RawToken") || isXMLDecoderCall(ci.Common(), "Token") {
						tok = ci.Value()
					}
				}
				for _, r := range core.Returns(f) {
					key := fmt.Sprintf("%s: %s", core.FName(f), returnOrdinal(r))
					if k, ok := core.ConstString(r.Results[0]); ok && k == "" {
						s.OK(key, c.Pos(r.Pos()), "no declaration")
						continue
					}
					s.Check(tok != nil && derivesFrom(r.Results[0], tok, 0, map[ssa.Value]bool{}), key+": declaration text comes from the token", c.Pos(r.Pos()), "data-dependent on the token returned by the decoder", "the declaration handed to the caller is not the <?xml ... ?> token the decoder returned")
				}
				nSites := 0
				for _, g := range c.SrcFuncs() {
					for _, ci := range core.Calls(g) {
						cs, ok := ci.(*ssa.Call)
						if !ok || cs.Call.StaticCallee() != f {
							continue
						}
						nSites++
						var text ssa.Value
						for _, ref := range *cs.Referrers() {
							if ex, ok := ref.(*ssa.Extract); ok && ex.Index == 0 {
								text = ex
							}
						}
						for _, r := range core.Returns(g) {
							key := fmt.Sprintf("%s: %s", core.FName(g), returnOrdinal(r))
							v := r.Results[0]
							if k, ok := core.ConstString(v); ok && k == "" {
								s.OK(key, c.Pos(r.Pos()), "no label")
								continue
							}
							lc, isLower := v.(*ssa.Call)
							if isLower && core.CalleeIs(&lc.Call, "strings", "ToLower") {
								s.Check(text != nil && derivesFrom(lc.Call.Args[0], text, 0, map[ssa.Value]bool{}), key+": label comes from the declaration token", c.Pos(r.Pos()), "strings.ToLower(label extracted from the declaration)", "the returned label is not computed from the <?xml ... ?> token the decoder returned")
								continue
							}
							s.Check(text == nil || !derivesFrom(v, text, 0, map[ssa.Value]bool{}), key, c.Pos(r.Pos()), "not a label of the declaration", "a declared XML encoding label is returned without lower-casing")
						}
					}
				}
				if nSites == 0 {
					s.Bad(core.FName(f)+": declaration reader is used", c.Pos(f.Pos()), "the XML declaration reader has no caller")
				}
				continue
			}
			for _, r := range core.Returns(f) {
				key := fmt.Sprintf("%s: %s", core.FName(f), returnOrdinal(r))
				v := r.Results[0]
				if k, ok := core.ConstString(v); ok && k == "" {
					s.OK(key, c.Pos(r.Pos()), "no label")
					continue
				}
				call, ok := v.(*ssa.Call)
				s.Check(ok && core.CalleeIs(&call.Call, "strings", "ToLower"), key, c.Pos(r.Pos()), "strings.ToLower(...)", "a declared XML encoding label is returned without lower-casing")
				if ok && core.CalleeIs(&call.Call, "strings", "ToLower") {
					// provenance: the label must be extracted from the declaration token itself
					var tok ssa.Value
					for _, ci := range core.Calls(f) {
						if isXMLDecoderCall(ci.Common(), "RawToken") || isXMLDecoderCall(ci.Common(), "Token") {
							tok = ci.Value()
						}
					}
					s.Check(tok != nil && derivesFrom(call.Call.Args[0], tok, 0, map[ssa.Value]bool{}), key+": label comes from the declaration token", c.Pos(r.Pos()), "data-dependent on the token returned by the decoder",
						"the returned label is not computed from the <?xml ... ?> token the decoder returned (e.g. it is taken from the CharsetReader callback, which the decoder does not call for UTF-8): some declared encodings would be ignored")
				}
			}
		}
		// HTML: function calling TagAttr
		for _, f := range c.SrcFuncs() {
			for _, ci := range core.Calls(f) {
				if !core.MethodCalleeIs(ci.Common(), pkgHTML, "Tokenizer", "TagAttr") {
					continue
				}
				call := ci.(*ssa.Call)
				var val ssa.Value
				for _, ref := range *call.Referrers() {
					if ex, ok := ref.(*ssa.Extract); ok && ex.Index == 1 {
						val = ex
					}
				}
				key := core.FName(f) + ": attribute value lower-cased in place"
				if val == nil {
					s.Bad(key, c.Pos(call.Pos()), "attribute value of TagAttr is not used")
					continue
				}
				rs := fde.FindRangeOver(f, val)
				lf := f                  // function holding the lower-casing loop
				var lval ssa.Value = val // the slice it ranges over
				var via *ssa.Call        // helper call, when the loop was extracted
				if len(rs) != 1 {
					for _, ref := range *val.Referrers() {
						hc, ok := ref.(*ssa.Call)
						if !ok {
							continue
						}
						g := hc.Call.StaticCallee()
						if g == nil || !core.InMod(g) || g.Blocks == nil {
							continue
						}
						for i, a := range hc.Call.Args {
							if a == val {
								if hr := fde.FindRangeOver(g, g.Params[i]); len(hr) == 1 {
									rs, lf, lval, via = hr, g, g.Params[i], hc
								}
							}
						}
					}
				}
				if len(rs) != 1 {
					s.Bad(key, c.Pos(call.Pos()), "no loop over the attribute value lower-casing it before use: labels such as UTF-8 would be reported in upper case")
					continue
				}
				_ = lf
				r := rs[0]
				bad := ""
				ev := newEval(c)
				for b := 0; b < 256 && bad == ""; b++ {
					ev.Env = fde.Env{r.Load: constant.MakeInt64(int64(b))}
					exits, err := ev.Walk(r.Body, r.Header, func(blk *ssa.BasicBlock) bool { return blk == r.Header }, 0)
					if err != nil || len(exits) != 1 || exits[0].Stop != r.Header {
						bad = fmt.Sprintf("iteration for byte %#02x is not a plain continue (%v)", b, err)
						break
					}
					// stores on the path
					out := b
					for _, blk := range exits[0].Path {
						for _, in := range blk.Instrs {
							st, ok := in.(*ssa.Store)
							if !ok {
								continue
							}
							ia, ok := st.Addr.(*ssa.IndexAddr)
							if !ok || ia.X != lval || ia.Index != r.Index {
								bad = "store to something other than the current element inside the lower-casing loop"
								continue
							}
							v, ok := exits[0].ValAt(ev, st.Val)
							if !ok {
								bad = "stored value not evaluable"
								continue
							}
							iv, _ := constant.Int64Val(v)
							out = int(iv)
						}
					}
					want := b
					if 'A' <= b && b <= 'Z' {
						want = b + 0x20
					}
					if out != want && bad == "" {
						bad = fmt.Sprintf("byte %#02x becomes %#02x, ASCII lower-casing gives %#02x", b, out, want)
					}
				}
				if bad != "" {
					s.Bad(key, c.Pos(r.Load.Pos()), bad)
					continue
				}
				s.OK(key, c.Pos(r.Load.Pos()), "256 byte values tabulated: A-Z -> a-z, others unchanged")
				// every other use of val (conversion, Equal) comes after the loop
				n := 0
				for _, ref := range *val.Referrers() {
					in := ref
					if _, dbg := in.(*ssa.DebugRef); dbg {
						continue
					}
					if via != nil {
						if in == ssa.Instruction(via) {
							continue
						}
						if cl, ok := in.(*ssa.Call); ok && core.IsBuiltin(&cl.Call, "len") {
							continue
						}
						n++
						k2 := fmt.Sprintf("%s: use #%d of the attribute value after lower-casing", core.FName(f), n)
						s.Check(core.Before(via, in), k2, c.Pos(in.Pos()), "dominated by the lower-casing helper call", "the attribute value is used before it was lower-cased")
						continue
					}
					if in.Block() == r.Header || in.Block() == r.Body || (r.Body.Dominates(in.Block()) && !r.Done.Dominates(in.Block())) {
						continue // inside the loop
					}
					if cl, ok := in.(*ssa.Call); ok && core.IsBuiltin(&cl.Call, "len") {
						continue
					}
					n++
					k2 := fmt.Sprintf("%s: use #%d of the attribute value after lower-casing", core.FName(f), n)
					s.Check(r.Done == in.Block() || r.Done.Dominates(in.Block()), k2, c.Pos(in.Pos()), "dominated by the end of the lower-casing loop", "the attribute value is used before it was lower-cased")
				}
			}
		}
	}}

// firstStageWins: call is the first thing f does (entry block, no call before
// it) and on every path on which call returned a non-empty string no other
// call runs and f returns that string. Paths are followed with the string
// phis resolved by the edge taken; a test of the (resolved) result against ""
// is decided by the assumption, any other test goes both ways.
func firstStageWins(f *ssa.Function, call *ssa.Call) bool {
	if call.Block() != f.Blocks[0] {
		return false
	}
	isRealCall := func(in ssa.Instruction) bool {
		ci, ok := in.(ssa.CallInstruction)
		if !ok {
			return false
		}
		if _, b := ci.Common().Value.(*ssa.Builtin); b {
			return false
		}
		return true
	}
	idx := -1
	for i, in := range call.Block().Instrs {
		if in == ssa.Instruction(call) {
			idx = i
			break
		}
		if isRealCall(in) {
			return false
		}
	}
	if idx < 0 {
		return false
	}
	type env map[*ssa.Phi]ssa.Value
	resolve := func(e env, v ssa.Value) ssa.Value {
		for k := 0; k < 8; k++ {
			ph, ok := v.(*ssa.Phi)
			if !ok {
				return v
			}
			r, known := e[ph]
			if !known {
				return v
			}
			v = r
		}
		return v
	}
	seen := map[string]bool{}
	ok := true
	var walk func(prev, b *ssa.BasicBlock, from int, e env)
	walk = func(prev, b *ssa.BasicBlock, from int, e env) {
		if !ok {
			return
		}
		if prev != nil {
			ne := env{}
			for k, v := range e {
				ne[k] = v
			}
			for _, in := range b.Instrs {
				ph, isPhi := in.(*ssa.Phi)
				if !isPhi {
					break
				}
				for i, p := range b.Preds {
					if p == prev {
						ne[ph] = resolve(e, ph.Edges[i])
					}
				}
			}
			e = ne
		}
		key := fmt.Sprint(b.Index, "|")
		for _, in := range b.Instrs {
			if ph, isPhi := in.(*ssa.Phi); isPhi {
				if v, known := e[ph]; known {
					key += ph.Name() + "=" + v.Name() + ";"
				}
			}
		}
		if prev != nil {
			if seen[key] {
				return
			}
			seen[key] = true
		}
		for i := from; i < len(b.Instrs); i++ {
			in := b.Instrs[i]
			if isRealCall(in) {
				ok = false // another stage runs although the first one answered
				return
			}
			switch t := in.(type) {
			case *ssa.Return:
				if resolve(e, t.Results[0]) != ssa.Value(call) {
					ok = false
				}
				return
			case *ssa.If:
				cond, pos := core.StripNot(t.Cond, true)
				if bo, isBo := cond.(*ssa.BinOp); isBo && (bo.Op == token.EQL || bo.Op == token.NEQ) {
					if k, isK := core.ConstString(bo.Y); isK && k == "" && resolve(e, bo.X) == ssa.Value(call) {
						// call != "" on this path
						truth := bo.Op == token.NEQ
						if truth == pos {
							walk(b, b.Succs[0], 0, e)
						} else {
							walk(b, b.Succs[1], 0, e)
						}
						return
					}
				}
				walk(b, b.Succs[0], 0, e)
				walk(b, b.Succs[1], 0, e)
				return
			case *ssa.Jump:
				walk(b, b.Succs[0], 0, e)
				return
			case *ssa.Panic:
				return
			}
		}
	}
	walk(nil, call.Block(), idx+1, env{})
	return ok
}

// R12.7
var rulePragmaValue = &core.Rule{ID: "R12.7", Min: 1,
	Doc: "pragma value scanner (WHATWG `extracting a character encoding from a meta element`, steps 6-8): the test for an opening quote looks at the first byte of the remainder after the equals sign with the HTML whitespace skipped; a quote test made on the remainder before that skip takes a quoted label preceded by blanks for a bare one (quotes end up in the label)",
	Run: func(c *core.Ctx, s *core.Sink) {
		cm := getCharset(c)
		if cm.html == nil {
			core.Bail("no HTML sniffer registered")
		}
		// string scanners reachable from the HTML sniffer
		fns := belowSniffer(cm.html)
		isWSTrim := func(v ssa.Value) bool { return isWSTrimValue(c, v) }
		n := 0
		for _, f := range fns {
			// first bytes of strings compared with both quote characters
			type site struct {
				str    ssa.Value
				dq, sq bool
				at     ssa.Instruction
			}
			sites := map[ssa.Value]*site{}
			for _, b := range f.Blocks {
				for _, in := range b.Instrs {
					var strV, idxV ssa.Value
					var lk ssa.Instruction
					switch x := in.(type) {
					case *ssa.Lookup:
						strV, idxV, lk = x.X, x.Index, x
					case *ssa.Index:
						strV, idxV, lk = x.X, x.Index, x
					default:
						continue
					}
					if !core.IsString(strV.Type()) || !core.IsConstInt(idxV, 0) {
						continue
					}
					for _, ref := range *lk.(ssa.Value).Referrers() {
						bo, ok := ref.(*ssa.BinOp)
						if !ok || (bo.Op != token.EQL && bo.Op != token.NEQ) {
							continue
						}
						for _, o := range []ssa.Value{bo.X, bo.Y} {
							if k, isK := core.ConstInt(o); isK {
								st := sites[strV]
								if st == nil {
									st = &site{str: strV, at: lk}
									sites[strV] = st
								}
								if k == '"' {
									st.dq = true
								}
								if k == 0x27 {
									st.sq = true
								}
							}
						}
					}
				}
			}
			for _, st := range sites {
				if !st.dq || !st.sq {
					continue
				}
				// only the scanner that looks for an equals sign first (the XML pseudo-attribute reader has `encoding=` as one token)
				afterEq := func(v ssa.Value) bool {
					sl, ok := v.(*ssa.Slice)
					if !ok || !core.IsConstInt(sl.Low, 1) || sl.High != nil {
						return false
					}
					for _, ref := range *sl.X.Referrers() {
						if call, ok := ref.(*ssa.Call); ok && core.CalleeIs(&call.Call, "strings", "HasPrefix") {
							if k, isK := core.ConstString(call.Call.Args[1]); isK && k == "=" {
								return true
							}
						}
					}
					return false
				}
				hasEq := false
				for _, b := range f.Blocks {
					for _, in := range b.Instrs {
						if sl, ok := in.(*ssa.Slice); ok && afterEq(sl) {
							hasEq = true
						}
					}
				}
				if !hasEq {
					continue
				}
				n++
				key := fmt.Sprintf("%s: opening quote test #%d", core.FName(f), n)
				srcs := []ssa.Value{st.str}
				if ph, ok := st.str.(*ssa.Phi); ok {
					srcs = ph.Edges
				}
				okAll, bad := true, false
				nTrim, nRaw := 0, 0
				eats := ""
				for _, v := range srcs {
					switch {
					case isWSTrim(v):
						nTrim++
					case afterEq(v):
						nRaw++
					default:
						okAll = false
						if m := trimEatsLabel(v); m != "" {
							eats = m
						}
					}
				}
				if eats != "" {
					s.Bad(key, c.Pos(st.at.Pos()), eats)
					continue
				}
				// trimmed on some paths and not on others (a mode flag shared with another flavour of the scanner): undecided
				if nRaw > 0 && nTrim == 0 {
					bad = true
				} else if nRaw > 0 {
					okAll = false
				}
				switch {
				case bad:
					s.Bad(key, c.Pos(st.at.Pos()), "the opening quote is looked for in the remainder right after the equals sign, before the whitespace there is skipped: `charset= \"x\"` is read as a bare label and the quotes end up in the reported charset")
				case okAll:
					s.OK(key, c.Pos(st.at.Pos()), "first byte of the whitespace-trimmed remainder after `=`")
				default:
					s.Und(key, c.Pos(st.at.Pos()), "the string whose first byte is tested for a quote is not the result of a whitespace trim: the order of the steps is not decided")
				}
			}
		}
		if n == 0 {
			if os.Getenv("MTVERIF_DEBUG") != "" {
				for _, f := range fns {
					fmt.Fprintln(os.Stderr, "R12.7 reach:", f.Name())
				}
			}
			s.Und("pragma value scanner", c.Pos(cm.html.Pos()), "no string scanner with an equals-sign step and a quote test found below the HTML sniffer")
		}
	}}

// R12.4 + R12.5 + R12.6
var ruleHTMLOrder = &core.Rule{ID: "R12.4", Min: 3,
	Doc: "HTML sniffer: the BOM lookup on the unmodified input comes first and its non-empty result is returned; the meta prescan runs only after it; a utf-16* label from a meta maps to utf-8; the pragma decision after the attribute loop (inline, or in a per-tag helper whose accepted label the caller returns) equals the WHATWG table (charset attribute: accept; content attribute: accept iff http-equiv=content-type was seen; none: skip)",
	Run: func(c *core.Ctx, s *core.Sink) {
		cm := getCharset(c)
		cm.needBOM()
		f := cm.html
		if f == nil {
			core.Bail("no HTML sniffer registered")
		}
		var bomCall *ssa.Call
		for _, ci := range core.Calls(f) {
			if call, ok := ci.(*ssa.Call); ok && call.Call.StaticCallee() == cm.bomFn && call.Call.Args[0] == ssa.Value(f.Params[0]) {
				bomCall = call
			}
		}
		if st := stagesOf(f); bomCall == nil && st != nil {
			// combinator form: the stages are tried in order and the first non-empty result is returned unchanged
			bi, pi := -1, -1
			for i, g := range st {
				if g == cm.bomFn && bi < 0 {
					bi = i
				}
				if reachesCallee(g, func(cc *ssa.CallCommon) bool { return core.CalleeIs(cc, pkgHTML, "NewTokenizer") }, map[*ssa.Function]bool{}) && pi < 0 {
					pi = i
				}
			}
			s.Check(bi == 0 && pi > bi, "BOM before meta prescan", c.Pos(f.Pos()), "first stage of the fallback chain is the BOM lookup; the prescan comes later", "the meta prescan can run although a byte-order mark is present, or the BOM name is not what is returned")
		} else if bomCall == nil {
			s.Bad("BOM before meta prescan", c.Pos(f.Pos()), "the HTML sniffer does not consult the BOM table on its input: a meta declaration would override a byte-order mark")
		} else {
			first := true
			for _, ci := range core.Calls(f) {
				if ci != ssa.CallInstruction(bomCall) && !core.Before(bomCall, ci) {
					first = false
				}
				// every other call must sit on the BOM-empty edge
				if ci != ssa.CallInstruction(bomCall) {
					onEmpty := false
					for _, de := range core.DominatingConds(ci.Block()) {
						cond, val := core.StripNot(de.Cond, de.Val)
						if bo, ok := cond.(*ssa.BinOp); ok && bo.X == ssa.Value(bomCall) {
							if k, ok := core.ConstString(bo.Y); ok && k == "" && ((bo.Op == token.NEQ && !val) || (bo.Op == token.EQL && val)) {
								onEmpty = true
							}
						}
					}
					if !onEmpty {
						first = false
					}
				}
			}
			retOK := false
			for _, r := range core.Returns(f) {
				if r.Results[0] == ssa.Value(bomCall) {
					for _, de := range core.DominatingConds(r.Block()) {
						if isBomNonEmpty(cm, de, f.Params[0]) {
							retOK = true
						}
					}
				}
			}
			if !(first && retOK) && firstStageWins(f, bomCall) {
				// single-exit spelling: the result variable is filled by the first stage that finds something
				first, retOK = true, true
			}
			s.Check(first && retOK, "BOM before meta prescan", c.Pos(bomCall.Pos()), "BOM lookup dominates the prescan; non-empty name returned unchanged", "the meta prescan can run although a byte-order mark is present, or the BOM name is not what is returned")
		}
		// prescan function: the one calling TagAttr
		var pre *ssa.Function
		for _, g := range c.SrcFuncs() {
			for _, ci := range core.Calls(g) {
				if core.MethodCalleeIs(ci.Common(), pkgHTML, "Tokenizer", "TagAttr") {
					pre = g
				}
			}
		}
		if pre == nil {
			core.Bail("no function iterating tag attributes found")
		}
		// R12.5: a return fed by a phi {x, "utf-8"} controlled by HasPrefix(x, "utf-16")
		ok165 := false
		for _, r := range core.Returns(pre) {
			ph, ok := r.Results[0].(*ssa.Phi)
			if !ok {
				continue
			}
			for k, e := range ph.Edges {
				if v, ok := core.ConstString(e); ok && v == "utf-8" {
					pred := ph.Block().Preds[k]
					for _, de := range append(core.DominatingConds(pred), edgeCond(pred, ph.Block())...) {
						cond, val := core.StripNot(de.Cond, de.Val)
						if call, ok := cond.(*ssa.Call); ok && val && core.CalleeIs(&call.Call, "strings", "HasPrefix") {
							if p, ok := core.ConstString(call.Call.Args[1]); ok && p == "utf-16" {
								// the other edges carry the tested value itself
								same := true
								for k2, e2 := range ph.Edges {
									if k2 != k && e2 != call.Call.Args[0] {
										same = false
									}
								}
								if same {
									ok165 = true
								}
							}
						}
					}
				}
			}
		}
		// early-return form: `if HasPrefix(label, "utf-16") { return "utf-8" }; return label`
		if !ok165 {
			for _, r := range core.Returns(pre) {
				if v, isK := core.ConstString(r.Results[0]); !isK || v != "utf-8" {
					continue
				}
				for _, de := range core.DominatingConds(r.Block()) {
					cond, val := core.StripNot(de.Cond, de.Val)
					call, ok := cond.(*ssa.Call)
					if !ok || !val || !core.CalleeIs(&call.Call, "strings", "HasPrefix") {
						continue
					}
					if p, ok := core.ConstString(call.Call.Args[1]); !ok || p != "utf-16" {
						continue
					}
					// on the other side of the same test the tested label itself is returned
					for _, r2 := range core.Returns(pre) {
						if r2.Results[0] != call.Call.Args[0] {
							continue
						}
						for _, de2 := range core.DominatingConds(r2.Block()) {
							c2, v2 := core.StripNot(de2.Cond, de2.Val)
							if c2 == cond && !v2 {
								ok165 = true
							}
						}
					}
				}
			}
		}
		s.Check(ok165, core.FName(pre)+": utf-16* meta label maps to utf-8", c.Pos(pre.Pos()), "return is phi{label, \"utf-8\" under HasPrefix(label, \"utf-16\")}", "the prescan does not map utf-16 labels found in a meta to utf-8 (WHATWG: a meta cannot declare a 16-bit encoding)")
		// R12.6: pragma decision table
		pragmaTable(c, s, pre)
	}}

// pragmaTable tabulates the decision taken after the attribute loop over the
// loop-carried state (bool gotPragma, int needPragma) and compares with WHATWG.
func pragmaTable(c *core.Ctx, s *core.Sink, pre *ssa.Function) {
	// attribute loop header: the block with the phi fed by TagAttr's "more" result
	var hdr *ssa.BasicBlock
	for _, b := range pre.Blocks {
		for _, in := range b.Instrs {
			ph, ok := in.(*ssa.Phi)
			if !ok {
				break
			}
			for _, e := range ph.Edges {
				if ex, ok := e.(*ssa.Extract); ok && ex.Index == 2 {
					if call, ok := ex.Tuple.(*ssa.Call); ok && core.MethodCalleeIs(&call.Call, pkgHTML, "Tokenizer", "TagAttr") {
						hdr = b
					}
				}
			}
		}
	}
	key := core.FName(pre) + ": pragma decision table"
	if hdr == nil {
		s.Und(key, c.Pos(pre.Pos()), "attribute loop not recognised")
		return
	}
	var more, got, need, name *ssa.Phi
	for _, in := range hdr.Instrs {
		ph, ok := in.(*ssa.Phi)
		if !ok {
			break
		}
		switch t := ph.Type().Underlying().(*types.Basic); {
		case t.Kind() == types.Bool:
			isMore := false
			for _, e := range ph.Edges {
				if _, ok := e.(*ssa.Extract); ok {
					isMore = true
				}
			}
			if isMore {
				more = ph
			} else {
				got = ph
			}
		case t.Info()&types.IsInteger != 0:
			need = ph
		case t.Info()&types.IsString != 0:
			name = ph
		}
	}
	if more == nil || got == nil || need == nil || name == nil {
		s.Und(key, c.Pos(pre.Pos()), "loop-carried prescan state (more, gotPragma, needPragma, name) not recognised")
		return
	}
	// discover the three needPragma codes from the phi's constant edges: initial (dontKnow) and the two set inside
	initVal := int64(-1)
	for k, p := range hdr.Preds {
		if !hdr.Dominates(p) {
			if v, ok := core.ConstInt(need.Edges[k]); ok {
				initVal = v
			}
		}
	}
	codeWhenNameFrom := map[string]int64{} // "charset" / "content"
	for k, e := range need.Edges {
		v, ok := core.ConstInt(e)
		if !ok || v == initVal {
			continue
		}
		// which attribute key guards this edge?
		pred := hdr.Preds[k]
		for _, de := range append(core.DominatingConds(pred), edgeCond(pred, hdr)...) {
			cond, val := core.StripNot(de.Cond, de.Val)
			if bo, ok := cond.(*ssa.BinOp); ok && bo.Op == token.EQL && val {
				if ks, ok := core.ConstString(bo.Y); ok && (ks == "charset" || ks == "content") {
					codeWhenNameFrom[ks] = v
				}
			}
		}
	}
	// per-tag state: on entry to the attribute loop the state must be (no pragma seen, don't know, no name)
	for k, p := range hdr.Preds {
		if hdr.Dominates(p) {
			continue
		}
		gv, okg := core.ConstBool(got.Edges[k])
		nv, okn := core.ConstString(name.Edges[k])
		_, oki := core.ConstInt(need.Edges[k])
		s.Check(okg && !gv && okn && nv == "" && oki, core.FName(pre)+": prescan state is reset for every tag", c.Pos(hdr.Instrs[0].Pos()), "gotPragma=false, needPragma=dontKnow, name=\"\" on loop entry",
			"the per-meta prescan state (pragma seen / need pragma / name) is carried over from a previous tag: an earlier http-equiv or content attribute would validate a later, unrelated meta")
	}
	cCharset, ok1 := codeWhenNameFrom["charset"]
	cContent, ok2 := codeWhenNameFrom["content"]
	if initVal < 0 || !ok1 || !ok2 {
		s.Und(key, c.Pos(pre.Pos()), "needPragma codes for the charset / content attributes not recognised")
		return
	}
	// the two attributes set different states (with one code for both, the table below would be checked against itself)
	if cCharset == cContent {
		s.Bad(key, c.Pos(pre.Pos()), fmt.Sprintf("the content attribute and the charset attribute set the same prescan state (%d): a label found in a content attribute is then accepted without http-equiv=content-type (a <meta name=description content=\"... charset=x\"> overrides the real declaration)", cContent))
		return
	}
	// helper form: the per-tag decision is a function returning (label, accepted); its caller returns the label iff accepted
	helperMode := false
	if rs := pre.Signature.Results(); rs.Len() == 2 && !hasTokenizerNextFn(pre) {
		if b, ok := rs.At(1).Type().Underlying().(*types.Basic); ok && b.Kind() == types.Bool {
			helperMode = true
		}
	}
	if helperMode {
		nSites := 0
		for _, g := range c.SrcFuncs() {
			for _, ci := range core.Calls(g) {
				call, ok := ci.(*ssa.Call)
				if !ok || call.Call.StaticCallee() != pre {
					continue
				}
				nSites++
				var lab, okv *ssa.Extract
				for _, ref := range *call.Referrers() {
					if ex, ok := ref.(*ssa.Extract); ok {
						if ex.Index == 0 {
							lab = ex
						} else {
							okv = ex
						}
					}
				}
				good := false
				if lab != nil && okv != nil {
					for _, ref := range *okv.Referrers() {
						if iff, ok := ref.(*ssa.If); ok && iff.Cond == ssa.Value(okv) {
							if r := retOf(iff.Block().Succs[0]); r != nil && r.Results[0] == ssa.Value(lab) && retOf(iff.Block().Succs[1]) == nil {
								good = true
							}
						}
					}
					// the label has no other use: it is returned on the accepted edge and nowhere else
					for _, ref := range *lab.Referrers() {
						switch x := ref.(type) {
						case *ssa.Return:
							under := false
							for _, de := range core.DominatingConds(x.Block()) {
								if de.Cond == ssa.Value(okv) && de.Val {
									under = true
								}
							}
							if !under {
								good = false
							}
						case *ssa.DebugRef:
						default:
							good = false
						}
					}
				}
				s.Check(good, core.FName(g)+": accepted label of the prescan helper is returned, a skipped tag continues the scan", c.Pos(call.Pos()), "if ok { return label }", "the caller of the per-tag prescan does not return exactly the accepted label, or stops scanning on a skipped tag")
			}
		}
		if nSites == 0 {
			s.Und(key, c.Pos(pre.Pos()), "prescan helper has no caller")
			return
		}
	}
	ev := newEval(c)
	bad := ""
	n := 0
	for _, g := range []bool{false, true} {
		for _, nd := range []int64{initVal, cContent, cCharset} {
			ev.Env = fde.Env{more: constant.MakeBool(false), got: constant.MakeBool(g), need: constant.MakeInt64(nd), name: constant.MakeString("x")}
			// conditions on the label text itself (utf-16 mapping) fork; the decision must not depend on them
			exits, err := ev.Walk(hdr, hdr.Preds[0], func(b *ssa.BasicBlock) bool { return b != hdr && hasTokenizerNext(b) }, 2)
			if err != nil || len(exits) == 0 {
				bad = fmt.Sprintf("decision not evaluable for gotPragma=%v needPragma=%d: %v", g, nd, err)
				break
			}
			n++
			isAccept := func(x fde.Exit) bool {
				if x.Ret == nil {
					return false
				}
				if helperMode {
					v, isC := core.ConstBool(x.Ret.Results[1])
					if !isC {
						bad = "the prescan helper's verdict is not a constant at its returns"
					}
					return isC && v
				}
				return true
			}
			accepted := isAccept(exits[0])
			for _, x := range exits {
				if isAccept(x) != accepted {
					bad = fmt.Sprintf("decision for gotPragma=%v needPragma=%d depends on the label text", g, nd)
				}
			}
			want := nd == cCharset || (nd == cContent && g)
			if accepted != want {
				bad = fmt.Sprintf("with gotPragma=%v and needPragma=%d the meta is %s; WHATWG: a charset attribute is taken as is, a content attribute only together with http-equiv=content-type, anything else is skipped",
					g, nd, map[bool]string{true: "accepted", false: "skipped"}[accepted])
			}
		}
	}
	s.Check(bad == "", key, c.Pos(pre.Pos()), fmt.Sprintf("%d states tabulated", n), bad)
}

func hasTokenizerNextFn(f *ssa.Function) bool {
	for _, b := range f.Blocks {
		if hasTokenizerNext(b) {
			return true
		}
	}
	return false
}

func hasTokenizerNext(b *ssa.BasicBlock) bool {
	for _, in := range b.Instrs {
		if ci, ok := in.(ssa.CallInstruction); ok && core.MethodCalleeIs(ci.Common(), pkgHTML, "Tokenizer", "Next") {
			return true
		}
	}
	return false
}

// derivesFrom: v is computed (through extracts, assertions, local cells,
// field reads, conversions, slicing, phis and module / string helper calls)
// from src.
func derivesFrom(v, src ssa.Value, depth int, seen map[ssa.Value]bool) bool {
	if v == nil || depth > 14 || seen[v] {
		return false
	}
	seen[v] = true
	if v == src {
		return true
	}
	switch x := v.(type) {
	case *ssa.Extract:
		return derivesFrom(x.Tuple, src, depth+1, seen)
	case *ssa.TypeAssert:
		return derivesFrom(x.X, src, depth+1, seen)
	case *ssa.Convert:
		return derivesFrom(x.X, src, depth+1, seen)
	case *ssa.ChangeType:
		return derivesFrom(x.X, src, depth+1, seen)
	case *ssa.Slice:
		return derivesFrom(x.X, src, depth+1, seen)
	case *ssa.FieldAddr:
		return derivesFrom(x.X, src, depth+1, seen)
	case *ssa.Field:
		return derivesFrom(x.X, src, depth+1, seen)
	case *ssa.Phi:
		for _, e := range x.Edges {
			if derivesFrom(e, src, depth+1, seen) {
				return true
			}
		}
	case *ssa.UnOp:
		if x.Op == token.MUL {
			if fa, ok := x.X.(*ssa.FieldAddr); ok {
				return derivesFrom(fa.X, src, depth+1, seen)
			}
			if al, ok := x.X.(*ssa.Alloc); ok {
				// a local cell: what is stored into it in this function
				for _, ref := range *al.Referrers() {
					if st, ok := ref.(*ssa.Store); ok && st.Addr == ssa.Value(al) && st.Parent() == x.Parent() && derivesFrom(st.Val, src, depth+1, seen) {
						return true
					}
				}
			}
		}
	case *ssa.Alloc:
		for _, ref := range *x.Referrers() {
			if st, ok := ref.(*ssa.Store); ok && st.Addr == ssa.Value(x) && st.Parent() == x.Parent() && derivesFrom(st.Val, src, depth+1, seen) {
				return true
			}
		}
	case *ssa.Call:
		for _, a := range x.Call.Args {
			if derivesFrom(a, src, depth+1, seen) {
				return true
			}
		}
	}
	return false
}

// belowSniffer lists the module functions reachable from a sniffer (static calls, four levels).
func belowSniffer(root *ssa.Function) []*ssa.Function {
	seen := map[*ssa.Function]bool{}
	var fns []*ssa.Function
	var rec func(f *ssa.Function, d int)
	rec = func(f *ssa.Function, d int) {
		if f == nil || f.Blocks == nil || seen[f] || d > 4 || !core.InMod(f) {
			return
		}
		seen[f] = true
		fns = append(fns, f)
		for _, ci := range core.Calls(f) {
			rec(ci.Common().StaticCallee(), d+1)
		}
		for _, an := range f.AnonFuncs {
			rec(an, d+1)
		}
		// functions handed on as values (a combinator that tries sniffers one after the other)
		for _, g := range funcOperands(f) {
			rec(g, d+1)
		}
	}
	rec(root, 0)
	return fns
}

// emptyStringReturn: the exit is a return whose first result is the constant "".
func emptyStringReturn(x fde.Exit) bool {
	if x.Ret == nil || len(x.Ret.Results) == 0 {
		return false
	}
	k, ok := core.ConstString(x.Ret.Results[0])
	return ok && k == ""
}

var ruleXMLQuote = &core.Rule{ID: "R12.8", Min: 2,
	Doc: "XML declaration reader (XML 1.0 production [80] EncodingDecl: the name is quoted by either \" or '): in the function that looks for the `encoding` pseudo-attribute, the byte that opens the value is tabulated over both quote characters; neither may lead to the `nothing declared` answer",
	Run: func(c *core.Ctx, s *core.Sink) {
		cm := getCharset(c)
		if cm.xml == nil {
			core.Bail("no XML sniffer registered")
		}
		n := 0
		for _, f := range belowSniffer(cm.xml) {
			// the pseudo-attribute reader: searches its text for `encoding`
			reads := false
			for _, ci := range core.Calls(f) {
				cc := ci.Common()
				g := cc.StaticCallee()
				if g == nil || g.Pkg == nil || (g.Pkg.Pkg.Path() != "strings" && g.Pkg.Pkg.Path() != "bytes") || len(cc.Args) < 2 {
					continue
				}
				if k, ok := core.ConstString(cc.Args[1]); ok && strings.Contains(k, "encoding") {
					reads = true
				}
				if k, ok := tree.ConstBytes(cc.Args[1]); ok && strings.Contains(string(k), "encoding") {
					reads = true
				}
			}
			if !reads {
				continue
			}
			// first byte(s) of the value: x[0] compared with a quote character
			byStr := map[ssa.Value][]ssa.Value{}
			quoted := map[ssa.Value]bool{}
			for _, b := range f.Blocks {
				for _, in := range b.Instrs {
					var strV, idxV ssa.Value
					switch x := in.(type) {
					case *ssa.Lookup:
						strV, idxV = x.X, x.Index
					case *ssa.Index:
						strV, idxV = x.X, x.Index
					case *ssa.UnOp:
						if ia, ok := x.X.(*ssa.IndexAddr); ok && x.Op == token.MUL {
							strV, idxV = ia.X, ia.Index
						}
					}
					if strV == nil || !core.IsConstInt(idxV, 0) {
						continue
					}
					v := in.(ssa.Value)
					byStr[strV] = append(byStr[strV], v)
					for _, ref := range *v.Referrers() {
						if bo, ok := ref.(*ssa.BinOp); ok {
							for _, o := range []ssa.Value{bo.X, bo.Y} {
								if k, isK := core.ConstInt(o); isK && (k == '"' || k == 0x27) {
									quoted[strV] = true
								}
							}
						}
					}
				}
			}
			for strV, looks := range byStr {
				if !quoted[strV] {
					continue
				}
				first := looks[0].(ssa.Instruction)
				for _, l := range looks[1:] {
					if l.(ssa.Instruction).Block().Dominates(first.Block()) && l.(ssa.Instruction).Block() != first.Block() {
						first = l.(ssa.Instruction)
					}
				}
				for _, q := range []int64{'"', 0x27} {
					n++
					key := fmt.Sprintf("%s: value opened by %q", core.FName(f), rune(q))
					ev := newEval(c)
					ev.Env = fde.Env{}
					for _, l := range looks {
						ev.Env[l] = constant.MakeInt64(q)
					}
					var prev *ssa.BasicBlock
					if len(first.Block().Preds) > 0 {
						prev = first.Block().Preds[0]
					}
					stop := func(b *ssa.BasicBlock) bool {
						for _, in := range b.Instrs {
							if call, ok := in.(*ssa.Call); ok {
								if g := call.Call.StaticCallee(); g != nil && g.Pkg != nil && (g.Pkg.Pkg.Path() == "strings" || g.Pkg.Pkg.Path() == "bytes") && strings.HasPrefix(g.Name(), "Index") {
									return true
								}
							}
						}
						return false
					}
					exits, err := ev.Walk(first.Block(), prev, stop, 4)
					if err != nil || len(exits) == 0 {
						s.Und(key, c.Pos(first.Pos()), fmt.Sprintf("the quote test does not evaluate (%v)", err))
						continue
					}
					rejected := true
					for _, x := range exits {
						if !emptyStringReturn(x) {
							rejected = false
						}
					}
					s.Check(!rejected, key, c.Pos(first.Pos()), "the reader goes on to the closing quote",
						fmt.Sprintf("an encoding declaration whose value is quoted with %q is answered with `nothing declared`: XML allows both quote characters (encoding='...' and encoding=\"...\")", rune(q)))
				}
			}
		}
		if n == 0 {
			s.Und("XML pseudo-attribute reader", c.Pos(cm.xml.Pos()), "no function below the XML sniffer that searches for `encoding` and tests the first byte of the value for a quote")
		}
	}}

var ruleHTMLTokens = &core.Rule{ID: "R12.9", Min: 2,
	Doc: "HTML prescan: after every (*html.Tokenizer).Next the token kinds StartTagToken and SelfClosingTagToken (tabulated) both lead to the tag-name / attribute reading; <meta charset=x> and <meta charset=x/> declare the same thing",
	Run: func(c *core.Ctx, s *core.Sink) {
		cm := getCharset(c)
		if cm.html == nil {
			core.Bail("no HTML sniffer registered")
		}
		const htmlPkg = "golang.org/x/net/html"
		n := 0
		for _, f := range belowSniffer(cm.html) {
			for _, ci := range core.Calls(f) {
				next, ok := ci.(*ssa.Call)
				if !ok || !core.MethodCalleeIs(&next.Call, htmlPkg, "Tokenizer", "Next") {
					continue
				}
				reads := func(b *ssa.BasicBlock) bool {
					for _, in := range b.Instrs {
						if call, ok := in.(*ssa.Call); ok {
							for _, m := range []string{"TagName", "TagAttr", "Token"} {
								if core.MethodCalleeIs(&call.Call, htmlPkg, "Tokenizer", m) {
									return true
								}
							}
							// a per-tag helper of the module that is handed the tokenizer
							if g := call.Call.StaticCallee(); g != nil && core.InMod(g) {
								for _, a := range call.Call.Args {
									if a == next.Call.Args[0] {
										return true
									}
								}
							}
						}
					}
					return false
				}
				for _, kind := range []struct {
					v    int64
					name string
				}{{2, "StartTagToken"}, {4, "SelfClosingTagToken"}} {
					n++
					key := fmt.Sprintf("%s: %s after %s", core.FName(f), kind.name, callOrdinal(next))
					ev := newEval(c)
					ev.Env = fde.Env{next: constant.MakeInt64(kind.v)}
					var prev *ssa.BasicBlock
					if len(next.Block().Preds) > 0 {
						prev = next.Block().Preds[0]
					}
					exits, err := ev.Walk(next.Block(), prev, func(b *ssa.BasicBlock) bool { return b == next.Block() || reads(b) }, 4)
					if err != nil || len(exits) == 0 {
						s.Und(key, c.Pos(next.Pos()), fmt.Sprintf("the dispatch on the token kind does not evaluate (%v)", err))
						continue
					}
					if reads(next.Block()) {
						s.OK(key, c.Pos(next.Pos()), "tag read in the same block")
						continue
					}
					proceeds := false
					for _, x := range exits {
						if x.Stop != nil && x.Stop != next.Block() {
							proceeds = true
						}
					}
					what := "<meta charset=x/>"
					if kind.v == 2 {
						what = "<meta charset=x>"
					}
					s.Check(proceeds, key, c.Pos(next.Pos()), "reaches the tag-name / attribute reading",
						fmt.Sprintf("a token of kind %s is skipped without looking at its name and attributes: a declaration written as %s is ignored", kind.name, what))
				}
			}
		}
		if n == 0 {
			s.Und("HTML tokenizer loop", c.Pos(cm.html.Pos()), "no call of (*html.Tokenizer).Next below the HTML sniffer")
		}
	}}

// isWSTrimValue: v is its operand with the HTML whitespace (space, TAB, LF, FF, CR) skipped at the front: a library trim
// over a set holding the five, or a module helper that advances over the bytes a predicate accepts (tabulated).
func isWSTrimValue(c *core.Ctx, v ssa.Value) bool {
	call, ok := v.(*ssa.Call)
	if !ok {
		return false
	}
	switch {
	case core.CalleeIs(&call.Call, "strings", "TrimLeft"), core.CalleeIs(&call.Call, "strings", "Trim"):
		k, isK := core.ConstString(call.Call.Args[1])
		if !isK {
			return false
		}
		for _, w := range " \t\n\f\r" {
			if !strings.ContainsRune(k, w) {
				return false
			}
		}
		// and nothing else: a cutset with a further character eats the beginning of a label
		for _, w := range k {
			if !strings.ContainsRune(" \t\n\f\r", w) {
				return false
			}
		}
		return true
	case core.CalleeIs(&call.Call, "strings", "TrimSpace"):
		return true
	}
	// a module helper that skips leading HTML whitespace by hand: returns s[i:] where i was advanced over
	// the bytes a predicate accepts, and the predicate (tabulated over 0..255) accepts exactly the five
	if h := call.Call.StaticCallee(); h != nil && core.InMod(h) && h.Blocks != nil && len(h.Params) == 1 && core.IsString(h.Params[0].Type()) {
		rs := core.Returns(h)
		if len(rs) != 1 {
			return false
		}
		sl, ok := rs[0].Results[0].(*ssa.Slice)
		if !ok || sl.X != ssa.Value(h.Params[0]) || sl.High != nil {
			return false
		}
		idx, ok := sl.Low.(*ssa.Phi)
		if !ok {
			return false
		}
		// the phi counts from 0 in steps of one, and the loop continues exactly while pred(s[idx])
		for i, pr := range idx.Block().Preds {
			if idx.Block().Dominates(pr) {
				add, ok := idx.Edges[i].(*ssa.BinOp)
				if !ok || add.Op != token.ADD || add.X != ssa.Value(idx) || !core.IsConstInt(add.Y, 1) {
					return false
				}
			} else if !core.IsConstInt(idx.Edges[i], 0) {
				return false
			}
		}
		var pred *ssa.Function
		n := 0
		for _, ci := range core.Calls(h) {
			if g := ci.Common().StaticCallee(); g != nil && core.InMod(g) && len(g.Params) == 1 && len(ci.Common().Args) == 1 {
				if ix, ok := ci.Common().Args[0].(*ssa.Index); ok && ix.X == ssa.Value(h.Params[0]) && ix.Index == ssa.Value(idx) {
					pred = g
				}
				if lk, ok := ci.Common().Args[0].(*ssa.Lookup); ok && lk.X == ssa.Value(h.Params[0]) && lk.Index == ssa.Value(idx) {
					pred = g
				}
			}
			if _, isB := ci.Common().Value.(*ssa.Builtin); !isB {
				n++
			}
		}
		if pred == nil || n != 1 {
			return false
		}
		for v := 0; v < 256; v++ {
			ev := newEval(c)
			ev.Env = fde.Env{pred.Params[0]: constant.MakeInt64(int64(v))}
			exits, err := ev.Walk(pred.Blocks[0], nil, nil, 0)
			if err != nil || len(exits) != 1 || exits[0].Ret == nil {
				return false
			}
			got, ok := exits[0].ValAt(ev, exits[0].Ret.Results[0])
			if !ok || got.Kind() != constant.Bool {
				return false
			}
			want := v == ' ' || v == '\t' || v == '\n' || v == '\f' || v == '\r'
			if constant.BoolVal(got) != want {
				return false
			}
		}
		return true
	}
	return false
}
