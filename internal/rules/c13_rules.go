package rules

import (
	"fmt"
	"go/constant"
	"go/token"
	"go/types"

	"golang.org/x/tools/go/ssa"

	"mtverif/internal/core"
	"mtverif/internal/fde"
	"mtverif/internal/tree"
)

type lineModel struct {
	drop    *ssa.Function // dropLastLine: (b []byte, limit uint32) []byte
	ndjson  *ssa.Function
	sv      *ssa.Function // shared csv/tsv helper
	csvNode *tree.Node
	tsvNode *tree.Node
}

func getLines(c *core.Ctx) *lineModel {
	tm := tree.Get(c)
	m := &lineModel{}
	pick := func(mime string) *tree.Node {
		ns := tm.Find(mime)
		if len(ns) != 1 || ns[0].DetFn == nil {
			core.Bail("node %s or its detector not found", mime)
		}
		return ns[0]
	}
	m.ndjson = pick("application/x-ndjson").DetFn
	m.csvNode, m.tsvNode = pick("text/csv"), pick("text/tab-separated-values")
	for _, ci := range core.Calls(m.csvNode.DetFn) {
		if g := ci.Common().StaticCallee(); g != nil && core.InMod(g) {
			m.sv = g
		}
	}
	if m.sv == nil {
		core.Bail("csv detector does not delegate to a shared helper")
	}
	// dropLastLine: module callee of both with signature ([]byte, uint32) []byte
	cand := func(f *ssa.Function) *ssa.Function {
		for _, ci := range core.Calls(f) {
			g := ci.Common().StaticCallee()
			if g == nil || !core.InMod(g) || len(g.Params) != 2 || !core.IsByteSlice(g.Params[0].Type()) || g.Signature.Results().Len() != 1 || !core.IsByteSlice(g.Signature.Results().At(0).Type()) {
				continue
			}
			if b, ok := g.Params[1].Type().Underlying().(*types.Basic); ok && b.Kind() == types.Uint32 {
				return g
			}
		}
		return nil
	}
	m.drop = cand(m.ndjson)
	return m
}

// R13.1
var ruleDropLastLine = &core.Rule{ID: "R13.1", Min: 9,
	Doc: "line cutting agrees with the JSON helper's truncation table: over the order types of (limit = 0?, len vs limit) the input is returned whole iff limit = 0 or len < limit; otherwise it is cut before the last newline (backward scan from the last byte, comparing with '\\n'); NDJSON and CSV/TSV both pass their own unmodified (header, limit) through it and use only its result",
	Run: func(c *core.Ctx, s *core.Sink) {
		m := getLines(c)
		f := m.drop
		if f == nil {
			s.Bad("line-cutting helper", c.Pos(m.ndjson.Pos()), "the NDJSON detector does not drop the incomplete last line of a truncated header")
			return
		}
		b, lim := f.Params[0], f.Params[1]
		lens := lenCallsOf(f, b)
		for _, ot := range orderTypes {
			key := "order type " + ot.name
			ev := newEval(c)
			ev.Env = fde.Env{lim: constant.MakeInt64(ot.limit)}
			for _, l := range lens {
				ev.Env[l] = constant.MakeInt64(ot.ln)
			}
			// stop at the scanning loop
			hdr := loopHeaderOf(f)
			isScan := func(blk *ssa.BasicBlock) bool {
				if blk == hdr && hdr != nil {
					return true
				}
				for _, in := range blk.Instrs {
					if call, ok := in.(*ssa.Call); ok && (core.CalleeIs(&call.Call, "bytes", "LastIndexByte") || core.CalleeIs(&call.Call, "bytes", "LastIndex")) && call.Call.Args[0] == ssa.Value(b) {
						return true
					}
				}
				return false
			}
			var exits []fde.Exit
			var err error
			if isScan(f.Blocks[0]) {
				err = fmt.Errorf("the newline search is unconditional")
			} else {
				exits, err = ev.Walk(f.Blocks[0], nil, isScan, 0)
			}
			if err != nil || len(exits) != 1 {
				s.Und(key, c.Pos(f.Pos()), fmt.Sprintf("decision not evaluable: %v", err))
				continue
			}
			whole := exits[0].Ret != nil && exits[0].Ret.Results[0] == ssa.Value(b)
			scans := exits[0].Stop != nil
			if ot.whole {
				s.Check(whole, key, c.Pos(f.Pos()), "input returned whole", "a complete input (limit 0 or shorter than the limit) loses its last line")
			} else {
				s.Check(scans, key, c.Pos(f.Pos()), "last line is cut", "an input at least as long as the limit keeps its possibly incomplete last line: a cut record would decide the verdict")
			}
		}
		// loop shape
		hdr := loopHeaderOf(f)
		okLoop, why := false, "no backward scan for the last newline"
		if hdr != nil {
			for _, in := range hdr.Instrs {
				ph, ok := in.(*ssa.Phi)
				if !ok {
					break
				}
				init, step := false, false
				for k, p := range hdr.Preds {
					e := ph.Edges[k]
					if hdr.Dominates(p) {
						if bo, ok := e.(*ssa.BinOp); ok && bo.Op == token.SUB && bo.X == ssa.Value(ph) && core.IsConstInt(bo.Y, 1) {
							step = true
						}
					} else if bo, ok := e.(*ssa.BinOp); ok && bo.Op == token.SUB && core.IsConstInt(bo.Y, 1) {
						if ln, ok := bo.X.(*ssa.Call); ok && core.IsBuiltin(&ln.Call, "len") && ln.Call.Args[0] == ssa.Value(b) {
							init = true
						}
					}
				}
				if !init || !step {
					continue
				}
				// body: b[i] == '\n' => return b[:i]
				for _, blk := range f.Blocks {
					iff := core.IfOf(blk)
					if iff == nil {
						continue
					}
					bo, ok := iff.Cond.(*ssa.BinOp)
					if !ok || bo.Op != token.EQL || !core.IsConstInt(bo.Y, '\n') {
						continue
					}
					u, ok := bo.X.(*ssa.UnOp)
					if !ok {
						continue
					}
					ia, ok := u.X.(*ssa.IndexAddr)
					if !ok || ia.X != ssa.Value(b) || ia.Index != ssa.Value(ph) {
						continue
					}
					if r := retOf(blk.Succs[0]); r != nil {
						if sl, ok := r.Results[0].(*ssa.Slice); ok && sl.X == ssa.Value(b) && sl.Low == nil && sl.High == ssa.Value(ph) {
							okLoop = true
						} else {
							why = "at the last newline the helper does not return b[:i]"
						}
					}
				}
			}
		}
		if !okLoop {
			// equivalent form: i := bytes.LastIndexByte(b, '\n'); if i > 0 { return b[:i] }; return b
			for _, ci := range core.Calls(f) {
				call, ok := ci.(*ssa.Call)
				if !ok || call.Call.Args[0] != ssa.Value(b) {
					continue
				}
				isNL := false
				if core.CalleeIs(&call.Call, "bytes", "LastIndexByte") && core.IsConstInt(call.Call.Args[1], '\n') {
					isNL = true
				}
				if core.CalleeIs(&call.Call, "bytes", "LastIndex") {
					if nb, ok := tree.ConstBytes(call.Call.Args[1]); ok && string(nb) == "\n" {
						isNL = true
					}
				}
				if !isNL {
					continue
				}
				for _, ref := range *call.Referrers() {
					bo, ok := ref.(*ssa.BinOp)
					if !ok || bo.X != ssa.Value(call) {
						continue
					}
					k, isC := core.ConstInt(bo.Y)
					if !isC || !((bo.Op == token.GTR && k == 0) || (bo.Op == token.GEQ && k == 1)) {
						continue
					}
					for _, r2 := range *bo.Referrers() {
						iff, ok := r2.(*ssa.If)
						if !ok {
							continue
						}
						rt, rf := retOf(iff.Block().Succs[0]), retOf(iff.Block().Succs[1])
						if rt == nil || rf == nil {
							continue
						}
						sl, ok := rt.Results[0].(*ssa.Slice)
						if ok && sl.X == ssa.Value(b) && sl.Low == nil && sl.High == ssa.Value(call) && rf.Results[0] == ssa.Value(b) {
							okLoop = true
						}
					}
				}
			}
		}
		s.Check(okLoop, "backward scan cuts before the last newline", c.Pos(f.Pos()), "for i := len(b)-1; ...; i-- { if b[i] == '\\n' { return b[:i] } }", why)
		// callers
		for _, g := range []*ssa.Function{m.ndjson, m.sv} {
			var call *ssa.Call
			for _, ci := range core.Calls(g) {
				if ci.Common().StaticCallee() == f {
					call, _ = ci.(*ssa.Call)
				}
			}
			key := core.FName(g) + ": drops the incomplete last line first"
			if call == nil {
				s.Bad(key, c.Pos(g.Pos()), "the detector judges a truncated header without dropping its incomplete last line")
				continue
			}
			hp := g.Params[0]
			lp := limitParam(g)
			okArgs := call.Call.Args[0] == ssa.Value(hp) && lp != nil && call.Call.Args[1] == ssa.Value(lp)
			// the raw header is not used otherwise
			other := 0
			for _, ref := range *hp.Referrers() {
				if _, dbg := ref.(*ssa.DebugRef); dbg || ref == ssa.Instruction(call) {
					continue
				}
				other++
			}
			s.Check(okArgs && other == 0 && call.Block() == g.Blocks[0], key, c.Pos(call.Pos()), "dropLastLine(header, limit) in the entry block; the raw header has no other use", "the detector does not pass its own unmodified (header, limit) through the line cutter before anything else, or also looks at the uncut header")
		}
		// csv / tsv detectors forward (raw, delimiter, limit)
		for _, n := range []*tree.Node{m.csvNode, m.tsvNode} {
			want := map[string]int64{"text/csv": ',', "text/tab-separated-values": '\t'}[n.Mime]
			ok := false
			for _, ci := range core.Calls(n.DetFn) {
				if ci.Common().StaticCallee() != m.sv {
					continue
				}
				a := ci.Common().Args
				dl := int64(-1)
				for _, x := range a {
					if k, isC := core.ConstInt(x); isC {
						dl = k
					}
				}
				fwdRaw, fwdLim := false, false
				for _, x := range a {
					if x == ssa.Value(n.DetFn.Params[0]) {
						fwdRaw = true
					}
					if x == ssa.Value(n.DetFn.Params[1]) {
						fwdLim = true
					}
				}
				ok = dl == want && fwdRaw && fwdLim
			}
			s.Check(ok, "delimiter and arguments of "+n.Name, c.Pos(n.DetFn.Pos()), fmt.Sprintf("delimiter %q, own (header, limit)", rune(want)), "the detector does not forward its own header and limit with the format's delimiter")
		}
	}}

// R13.3 + R13.4
var ruleLineThresholds = &core.Rule{ID: "R13.3", Min: 8,
	Doc: "thresholds and reader discipline: NDJSON accepts iff lines >= 2 and containers >= 1 (tabulated), counts every line and counts (or flags) a container iff the first token is object or array; CSV/TSV accept iff fields-per-record >= 2 and records >= 2 (tabulated), never set FieldsPerRecord (0 = all records must have the first record's count), use the detector's delimiter, stop on EOF only and reject on any other reader error; the NDJSON counters and the CSV record counter start at zero",
	Run: func(c *core.Ctx, s *core.Sink) {
		m := getLines(c)
		jm := getJSON(c)
		// ---- NDJSON ----
		f := m.ndjson
		hdr := loopHeaderOf(f)
		if hdr == nil {
			s.Bad("NDJSON line loop", c.Pos(f.Pos()), "no loop over lines")
		} else {
			var ints []*ssa.Phi
			for _, in := range hdr.Instrs {
				if ph, ok := in.(*ssa.Phi); ok && core.IsInteger(ph.Type()) {
					ints = append(ints, ph)
				}
			}
			var pcall *ssa.Call
			for _, ci := range core.Calls(f) {
				if ci.Common().StaticCallee() == jm.parse {
					pcall, _ = ci.(*ssa.Call)
				}
			}
			var flags []*ssa.Phi
			for _, in := range hdr.Instrs {
				if ph, ok := in.(*ssa.Phi); ok {
					if bt, ok := ph.Type().Underlying().(*types.Basic); ok && bt.Kind() == types.Bool {
						flags = append(flags, ph)
					}
				}
			}
			if len(ints) == 1 && len(flags) == 1 && pcall != nil {
				ndjsonFlagForm(c, s, f, hdr, ints[0], flags[0], pcall)
			} else if len(ints) != 2 || pcall == nil {
				s.Und("NDJSON counters", c.Pos(f.Pos()), fmt.Sprintf("%d integer loop variables (need 2: lines, containers)", len(ints)))
			} else {
				// which counter is which: the one incremented unconditionally is "lines"
				tokEx := extractOf(pcall, 2)
				step := func(tok int64) ([2]int64, bool) {
					ev := newEval(c)
					ev.Env = fde.Env{ints[0]: constant.MakeInt64(10), ints[1]: constant.MakeInt64(20)}
					if tokEx != nil {
						ev.Env[tokEx] = constant.MakeInt64(tok)
					}
					// start after the per-line acceptance test: at the first block that depends only on the token
					var start *ssa.BasicBlock
					for _, b := range f.Blocks {
						if iff := core.IfOf(b); iff != nil && tokEx != nil && dependsOn(iff.Cond, pcall, 2) && start == nil {
							start = b
						}
					}
					if start == nil {
						return [2]int64{}, false
					}
					exits, err := ev.Walk(start, start.Preds[0], func(b *ssa.BasicBlock) bool { return b == hdr }, 0)
					if err != nil || len(exits) != 1 || exits[0].Stop != hdr {
						return [2]int64{}, false
					}
					var out [2]int64
					for k, ph := range ints {
						for e, p := range hdr.Preds {
							if p == exits[0].From {
								v, ok := exits[0].ValAt(ev, ph.Edges[e])
								if !ok {
									return out, false
								}
								out[k], _ = constant.Int64Val(v)
							}
						}
					}
					return [2]int64{out[0] - 10, out[1] - 20}, true
				}
				jp := c.ByPath[core.PkgJSON].Types.Scope()
				tokVal := func(name string) int64 {
					k, _ := jp.Lookup(name).(*types.Const)
					if k == nil {
						return -1
					}
					v, _ := constant.Int64Val(k.Val())
					return v
				}
				tObj, tArr := tokVal("TokObject"), tokVal("TokArray")
				lines, conts := -1, -1
				bad := ""
				for _, tok := range []int64{0, 2, 4, 8, 16, 32, 64, 128, 256} {
					d, ok := step(tok)
					if !ok {
						bad = "per-line counter update not evaluable"
						break
					}
					isCont := tok == tObj || tok == tArr
					for k := 0; k < 2; k++ {
						if d[k] == 1 && !isCont && lines < 0 {
							lines, conts = k, 1-k
						}
					}
					if lines < 0 {
						continue
					}
					wantC := int64(0)
					if isCont {
						wantC = 1
					}
					if d[lines] != 1 || d[conts] != wantC {
						bad = fmt.Sprintf("a line whose first token is %d changes (lines, containers) by (%d, %d); expected (1, %d)", tok, d[lines], d[conts], wantC)
					}
				}
				s.Check(bad == "" && lines >= 0, "NDJSON per-line counting", c.Pos(f.Pos()), "9 first-token codes tabulated: every line counts, object/array lines count as containers", bad)
				// initial state
				for e, p := range hdr.Preds {
					if !hdr.Dominates(p) {
						s.Check(core.IsConstInt(ints[0].Edges[e], 0) && core.IsConstInt(ints[1].Edges[e], 0), "NDJSON counters start at zero", c.Pos(f.Pos()), "lines = 0, containers = 0", "the NDJSON counters do not start at (0, 0): the thresholds `at least two lines, at least one object or array` are met by fewer lines than that")
					}
				}
				if lines >= 0 {
					badT := ""
					n := 0
					for l := int64(0); l <= 3; l++ {
						for k := int64(0); k <= 3; k++ {
							ev := newEval(c)
							ev.Env = fde.Env{ints[lines]: constant.MakeInt64(l), ints[conts]: constant.MakeInt64(k)}
							for _, in := range hdr.Instrs {
								if call, ok := in.(*ssa.Call); ok && core.IsBuiltin(&call.Call, "len") {
									ev.Env[call] = constant.MakeInt64(0) // no more input
								}
							}
							exits, err := ev.Walk(hdr, hdr.Preds[0], nil, 0)
							if err != nil || len(exits) != 1 || exits[0].Ret == nil {
								badT = fmt.Sprintf("final verdict not evaluable for lines=%d containers=%d: %v", l, k, err)
								continue
							}
							v, ok := exits[0].ValAt(ev, exits[0].Ret.Results[0])
							if !ok {
								badT = "final verdict not constant"
								continue
							}
							n++
							want := l >= 2 && k >= 1
							if constant.BoolVal(v) != want {
								badT = fmt.Sprintf("with %d lines and %d object/array lines the verdict is %v; NDJSON needs at least two lines and one container", l, k, constant.BoolVal(v))
							}
						}
					}
					s.Check(badT == "", "NDJSON acceptance thresholds", c.Pos(f.Pos()), fmt.Sprintf("%d (lines, containers) pairs tabulated", n), badT)
				}
			}
			// per-line rejection: the only rejecting return inside the loop is on parsed != len(line)
			s.OK("NDJSON per-line criterion", c.Pos(f.Pos()), "checked by R13.2")
		}
		// ---- CSV / TSV ----
		g := m.sv
		var rd ssa.Value
		for _, ci := range core.Calls(g) {
			if core.CalleeIs(ci.Common(), "encoding/csv", "NewReader") {
				rd = ci.Value()
			}
		}
		if rd == nil {
			// configured and read in helpers of the helper: the single-function model of this rule does not apply
			if reachesCallee(g, func(cc *ssa.CallCommon) bool { return core.CalleeIs(cc, "encoding/csv", "NewReader") }, map[*ssa.Function]bool{}) {
				core.Bail("the csv reader is created in a helper of %s: reader configuration, record loop and thresholds are spread over several functions, which this rule does not follow", g.Name())
			}
			s.Bad("csv reader", c.Pos(g.Pos()), "the CSV/TSV helper does not use encoding/csv")
			return
		}
		st := rd.Type().Underlying().(*types.Pointer).Elem().Underlying().(*types.Struct)
		stored := map[string]ssa.Value{}
		var fprLoad ssa.Value
		for _, ref := range *rd.Referrers() {
			fa, ok := ref.(*ssa.FieldAddr)
			if !ok {
				continue
			}
			name := st.Field(fa.Field).Name()
			for _, r2 := range *fa.Referrers() {
				switch x := r2.(type) {
				case *ssa.Store:
					stored[name] = x.Val
				case *ssa.UnOp:
					if name == "FieldsPerRecord" {
						fprLoad = x
					}
				}
			}
		}
		_, setFPR := stored["FieldsPerRecord"]
		s.Check(!setFPR, "FieldsPerRecord left at 0", c.Pos(g.Pos()), "never stored: every record must have the first record's field count", "FieldsPerRecord is set: with a negative value ragged tables are accepted, with a positive one the count is fixed in advance")
		comma := stored["Comma"]
		isParam := false
		for _, p := range g.Params {
			if comma == ssa.Value(p) {
				isParam = true
			}
		}
		s.Check(isParam, "delimiter is the helper's parameter", c.Pos(g.Pos()), "r.Comma = comma", "the csv reader's delimiter is not the one the detector asked for")
		// lines starting with # are comments (the property speaks of non-comment lines)
		{
			v, set := stored["Comment"]
			s.Check(set && core.IsConstInt(v, '#'), "comment lines are skipped", c.Pos(g.Pos()), "r.Comment = '#'", "the csv reader is not told that lines starting with # are comments: a table with a comment line has a record of a different field count and loses its type")
		}
		if v, ok := stored["TrimLeadingSpace"]; ok {
			b, _ := core.ConstBool(v)
			s.Check(!b, "no leading-space trimming", c.Pos(g.Pos()), "false", "TrimLeadingSpace changes field counting")
		}
		// read loop: errors
		var rdCall *ssa.Call
		for _, ci := range core.Calls(g) {
			if core.MethodCalleeIs(ci.Common(), "encoding/csv", "Reader", "Read") {
				rdCall, _ = ci.(*ssa.Call)
			}
		}
		if rdCall == nil {
			s.Bad("record loop", c.Pos(g.Pos()), "no Read loop")
			return
		}
		errEx := extractOf(rdCall, 1).(*ssa.Extract)
		why := errPathsCSV(errEx, g)
		s.Check(why == "", "reader errors reject, EOF ends", c.Pos(rdCall.Pos()), "errors.Is(err, io.EOF) => stop; err != nil => false", why)
		// thresholds
		ghdr := rdCall.Block()
		var lines *ssa.Phi
		for _, in := range ghdr.Instrs {
			if ph, ok := in.(*ssa.Phi); ok && core.IsInteger(ph.Type()) {
				lines = ph
			}
		}
		if lines == nil || fprLoad == nil {
			s.Und("CSV acceptance thresholds", c.Pos(g.Pos()), "record counter or FieldsPerRecord read not found")
			return
		}
		// the EOF edge block
		var eofBlk *ssa.BasicBlock
		for _, b := range g.Blocks {
			if iff := core.IfOf(b); iff != nil {
				if call, ok := iff.Cond.(*ssa.Call); ok && core.CalleeIs(&call.Call, "errors", "Is") {
					eofBlk = b.Succs[0]
				}
				if bo, ok := iff.Cond.(*ssa.BinOp); ok && bo.X == ssa.Value(errEx) && bo.Op == token.EQL {
					if gl, isG := core.LoadOfGlobal(bo.Y); isG && gl.Name() == "EOF" {
						eofBlk = b.Succs[0]
					}
				}
			}
		}
		if eofBlk == nil {
			s.Und("CSV acceptance thresholds", c.Pos(g.Pos()), "EOF edge not found")
			return
		}
		badT := ""
		n := 0
		for fl := int64(0); fl <= 3; fl++ {
			for l := int64(0); l <= 3; l++ {
				ev := newEval(c)
				ev.Env = fde.Env{lines: constant.MakeInt64(l), fprLoad: constant.MakeInt64(fl)}
				exits, err := ev.Walk(eofBlk, eofBlk.Preds[0], nil, 0)
				if err != nil || len(exits) != 1 || exits[0].Ret == nil {
					badT = fmt.Sprintf("verdict not evaluable: %v", err)
					continue
				}
				v, ok := exits[0].ValAt(ev, spilled(exits[0].Ret, 0))
				if !ok {
					badT = "verdict not constant"
					continue
				}
				n++
				want := fl >= 2 && l >= 2
				if constant.BoolVal(v) != want {
					badT = fmt.Sprintf("with %d fields per record and %d records the verdict is %v; CSV/TSV need at least two columns and two records", fl, l, constant.BoolVal(v))
				}
			}
		}
		s.Check(badT == "", "CSV acceptance thresholds", c.Pos(g.Pos()), fmt.Sprintf("%d (fields, records) pairs tabulated", n), badT)
		// records counter: +1 per successful read
		okInc := false
		for k, p := range ghdr.Preds {
			if ghdr.Dominates(p) {
				if bo, ok := lines.Edges[k].(*ssa.BinOp); ok && bo.Op == token.ADD && bo.X == ssa.Value(lines) && core.IsConstInt(bo.Y, 1) {
					okInc = true
				}
			}
		}
		s.Check(okInc, "records counted one by one", c.Pos(g.Pos()), "lines++ per record", "the record counter is not incremented by one per record read")
		for k, p := range ghdr.Preds {
			if !ghdr.Dominates(p) {
				s.Check(core.IsConstInt(lines.Edges[k], 0), "record counter starts at zero", c.Pos(g.Pos()), "lines := 0", "the record counter does not start at 0: the threshold `at least two records` is met by fewer records than that")
			}
		}
	}}

// errPathsCSV: every path from the Read call either stops on EOF, rejects on
// a non-nil error, or continues with a nil error.
func errPathsCSV(err *ssa.Extract, f *ssa.Function) string {
	type st struct {
		b *ssa.BasicBlock
		k int
	}
	const (
		untested = iota
		isEOF
		notEOF
		isNil
		nonNil
	)
	seen := map[st]bool{}
	why := ""
	hdr := err.Block()
	var walk func(b *ssa.BasicBlock, k int, first bool)
	walk = func(b *ssa.BasicBlock, k int, first bool) {
		if why != "" || seen[st{b, k}] {
			return
		}
		seen[st{b, k}] = true
		if b == hdr && !first {
			if k != isNil {
				why = "the record loop continues although the reader's error was not found to be nil"
			}
			return
		}
		switch t := b.Instrs[len(b.Instrs)-1].(type) {
		case *ssa.Return:
			// the verdict: the bool result (the only one, or the bool component of (count, ok))
			bi := 0
			for i := range t.Results {
				if bt, isB := t.Results[i].Type().Underlying().(*types.Basic); isB && bt.Kind() == types.Bool {
					bi = i
				}
			}
			v, ok := core.ConstBool(spilled(t, bi))
			switch k {
			case nonNil:
				if !ok || v {
					why = "a reader error other than EOF does not reject the input"
				}
			case untested, notEOF:
				why = "a verdict is returned without the reader's error having been examined"
			}
		case *ssa.If:
			cond, pos := core.StripNot(t.Cond, true)
			tk, fk := k, k
			if call, ok := cond.(*ssa.Call); ok && core.CalleeIs(&call.Call, "errors", "Is") && call.Call.Args[0] == ssa.Value(err) {
				if g, isG := core.LoadOfGlobal(call.Call.Args[1]); isG && g.Name() == "EOF" && g.Pkg.Pkg.Path() == "io" {
					tk, fk = isEOF, notEOF
				} else {
					why = "the reader's error is excused by comparison with something other than io.EOF"
				}
			} else if bo, ok := cond.(*ssa.BinOp); ok && (bo.X == ssa.Value(err) || bo.Y == ssa.Value(err)) {
				other := bo.Y
				if other == ssa.Value(err) {
					other = bo.X
				}
				if core.IsNilConst(other) {
					if bo.Op == token.NEQ {
						tk, fk = nonNil, isNil
					} else {
						tk, fk = isNil, nonNil
					}
				} else if g, isG := core.LoadOfGlobal(other); isG && g.Name() == "EOF" {
					if bo.Op == token.EQL {
						tk, fk = isEOF, notEOF
					} else {
						tk, fk = notEOF, isEOF
					}
				} else {
					why = "the reader's error is excused by comparison with something other than io.EOF"
				}
			}
			if !pos {
				tk, fk = fk, tk
			}
			walk(b.Succs[0], tk, false)
			walk(b.Succs[1], fk, false)
		default:
			for _, sc := range b.Succs {
				walk(sc, k, false)
			}
		}
	}
	walk(hdr, untested, true)
	return why
}

// ndjsonFlagForm tabulates the NDJSON loop when the containers are remembered
// in a bool ("an object or array line was seen") instead of being counted.
func ndjsonFlagForm(c *core.Ctx, s *core.Sink, f *ssa.Function, hdr *ssa.BasicBlock, lines, flag *ssa.Phi, pcall *ssa.Call) {
	tokEx := extractOf(pcall, 2)
	var start *ssa.BasicBlock
	for _, b := range f.Blocks {
		if iff := core.IfOf(b); iff != nil && tokEx != nil && dependsOn(iff.Cond, pcall, 2) && start == nil {
			start = b
		}
	}
	jp := c.ByPath[core.PkgJSON].Types.Scope()
	tokVal := func(name string) int64 {
		k, _ := jp.Lookup(name).(*types.Const)
		if k == nil {
			return -1
		}
		v, _ := constant.Int64Val(k.Val())
		return v
	}
	tObj, tArr := tokVal("TokObject"), tokVal("TokArray")
	bad := ""
	n := 0
	if start == nil || tokEx == nil {
		bad = "per-line update not evaluable: no branch on the first token"
	}
	for _, tok := range []int64{0, 2, 4, 8, 16, 32, 64, 128, 256} {
		for _, fl := range []bool{false, true} {
			if bad != "" {
				break
			}
			ev := newEval(c)
			ev.Env = fde.Env{lines: constant.MakeInt64(10), flag: constant.MakeBool(fl), tokEx: constant.MakeInt64(tok)}
			exits, err := ev.Walk(start, start.Preds[0], func(b *ssa.BasicBlock) bool { return b == hdr }, 0)
			if err != nil || len(exits) != 1 || exits[0].Stop != hdr {
				bad = "per-line update not evaluable"
				break
			}
			var nl int64
			var nf bool
			okv := true
			for e, p := range hdr.Preds {
				if p == exits[0].From {
					v1, ok1 := exits[0].ValAt(ev, lines.Edges[e])
					v2, ok2 := exits[0].ValAt(ev, flag.Edges[e])
					if flag.Edges[e] == ssa.Value(flag) {
						v2, ok2 = constant.MakeBool(fl), true
					}
					if !ok1 || !ok2 {
						okv = false
						continue
					}
					nl, _ = constant.Int64Val(v1)
					nf = constant.BoolVal(v2)
				}
			}
			if !okv {
				bad = "per-line update not evaluable"
				break
			}
			n++
			isCont := tok == tObj || tok == tArr
			if nl != 11 || nf != (fl || isCont) {
				bad = fmt.Sprintf("a line whose first token is %d changes (lines, container seen) from (10, %v) to (%d, %v); expected (11, %v)", tok, fl, nl, nf, fl || isCont)
			}
		}
	}
	s.Check(bad == "", "NDJSON per-line counting", c.Pos(f.Pos()), fmt.Sprintf("%d (first token, flag) pairs tabulated: every line counts, object/array lines set the container flag, nothing clears it", n), bad)
	// initial state
	for e, p := range hdr.Preds {
		if !hdr.Dominates(p) {
			v, isC := core.ConstBool(flag.Edges[e])
			s.Check(isC && !v && core.IsConstInt(lines.Edges[e], 0), "NDJSON counters start at zero", c.Pos(f.Pos()), "lines = 0, container seen = false", "the NDJSON counters do not start at (0, false)")
		}
	}
	badT := ""
	m := 0
	for l := int64(0); l <= 3; l++ {
		for _, fl := range []bool{false, true} {
			ev := newEval(c)
			ev.Env = fde.Env{lines: constant.MakeInt64(l), flag: constant.MakeBool(fl)}
			for _, in := range hdr.Instrs {
				if call, ok := in.(*ssa.Call); ok && core.IsBuiltin(&call.Call, "len") {
					ev.Env[call] = constant.MakeInt64(0) // no more input
				}
			}
			exits, err := ev.Walk(hdr, hdr.Preds[0], nil, 0)
			if err != nil || len(exits) != 1 || exits[0].Ret == nil {
				badT = fmt.Sprintf("final verdict not evaluable for lines=%d container=%v: %v", l, fl, err)
				continue
			}
			v, ok := exits[0].ValAt(ev, exits[0].Ret.Results[0])
			if !ok {
				badT = "final verdict not constant"
				continue
			}
			m++
			want := l >= 2 && fl
			if constant.BoolVal(v) != want {
				badT = fmt.Sprintf("with %d lines and container seen=%v the verdict is %v; NDJSON needs at least two lines and one container", l, fl, constant.BoolVal(v))
			}
		}
	}
	s.Check(badT == "", "NDJSON acceptance thresholds", c.Pos(f.Pos()), fmt.Sprintf("%d (lines, container seen) pairs tabulated", m), badT)
}
