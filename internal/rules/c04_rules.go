package rules

import (
	"fmt"
	"go/token"
	"go/types"
	"sort"
	"strings"

	"golang.org/x/tools/go/ssa"

	"mtverif/internal/core"
	"mtverif/internal/tree"
)

// ---- input immutability ----

// paramRoot: the byte-slice parameter (index) a value is derived from by
// re-slicing, type change, phi, or a load from a local cell that was stored such
// a value; -1 when it is not derived from a parameter.
func paramRoot(v ssa.Value, f *ssa.Function, depth int) int {
	if depth > 10 || v == nil {
		return -1
	}
	switch x := v.(type) {
	case *ssa.Parameter:
		for i, p := range f.Params {
			if p == x && (core.IsByteSlice(p.Type()) || isPtrToByteSlice(p.Type())) {
				return i
			}
		}
	case *ssa.Slice:
		return paramRoot(x.X, f, depth+1)
	case *ssa.ChangeType:
		return paramRoot(x.X, f, depth+1)
	case *ssa.Phi:
		for _, e := range x.Edges {
			if e == ssa.Value(x) {
				continue
			}
			if r := paramRoot(e, f, depth+2); r >= 0 {
				return r
			}
		}
	case *ssa.UnOp:
		if x.Op != token.MUL {
			return -1
		}
		switch a := x.X.(type) {
		case *ssa.Alloc:
			for _, ref := range *a.Referrers() {
				if st, ok := ref.(*ssa.Store); ok && st.Addr == ssa.Value(a) {
					if r := paramRoot(st.Val, f, depth+2); r >= 0 {
						return r
					}
				}
			}
		case *ssa.Parameter:
			return paramRoot(a, f, depth+1) // *readBuf parameter: the cell holds the caller's input
		case *ssa.FreeVar:
			return -1
		}
	}
	return -1
}

func isPtrToByteSlice(t types.Type) bool {
	p, ok := t.Underlying().(*types.Pointer)
	return ok && core.IsByteSlice(p.Elem())
}

var extWriters = map[string]bool{
	"unicode/utf8.EncodeRune": true, "unicode/utf8.AppendRune": true,
	"encoding/binary.PutUvarint": true, "encoding/binary.PutVarint": true, "encoding/binary.Write": true, "encoding/binary.Read": true,
	"io.ReadFull": true, "io.ReadAtLeast": true,
}

var readOnlyPkgs = map[string]bool{"bytes": true, "strings": true, "unicode/utf8": true, "unicode": true, "encoding/binary": true}

// inputWriters computes, for every module function, which of its byte-slice
// parameters it may write through (fixpoint over static calls).
func inputWriters(c *core.Ctx) (writes map[*ssa.Function]map[int]string, unknown []string) {
	writes = map[*ssa.Function]map[int]string{}
	mark := func(f *ssa.Function, i int, why string) bool {
		if writes[f] == nil {
			writes[f] = map[int]string{}
		}
		if _, ok := writes[f][i]; ok {
			return false
		}
		writes[f][i] = why
		return true
	}
	seenUnknown := map[string]bool{}
	for changed, round := true, 0; changed && round < 10; round++ {
		changed = false
		for _, f := range c.AllModFuncs() {
			for _, b := range f.Blocks {
				for _, in := range b.Instrs {
					switch x := in.(type) {
					case *ssa.Store:
						if ia, ok := x.Addr.(*ssa.IndexAddr); ok {
							if r := paramRoot(ia.X, f, 0); r >= 0 {
								if mark(f, r, "element store at "+c.Pos(x.Pos())) {
									changed = true
								}
							}
						}
					case ssa.CallInstruction:
						cc := x.Common()
						if bi, ok := cc.Value.(*ssa.Builtin); ok {
							switch bi.Name() {
							case "copy":
								if r := paramRoot(cc.Args[0], f, 0); r >= 0 {
									if mark(f, r, "copy destination at "+c.Pos(x.Pos())) {
										changed = true
									}
								}
							case "append":
								if r := paramRoot(cc.Args[0], f, 0); r >= 0 && core.IsByteSlice(cc.Args[0].Type()) {
									if mark(f, r, "append in place at "+c.Pos(x.Pos())) {
										changed = true
									}
								}
							}
							continue
						}
						g := cc.StaticCallee()
						for ai, a := range cc.Args {
							r := paramRoot(a, f, 0)
							if r < 0 {
								continue
							}
							switch {
							case g == nil:
								// dynamic call with the input: detectors (judged one by one), sniffers (module functions)
							case core.InMod(g):
								if why, ok := writes[g][ai]; ok {
									if mark(f, r, "passes it to "+g.Name()+" ("+why+")") {
										changed = true
									}
								}
							default:
								full := g.String()
								pk := ""
								if g.Pkg != nil {
									pk = g.Pkg.Pkg.Path()
								}
								name := pk + "." + g.Name()
								if extWriters[name] || (strings.HasPrefix(g.Name(), "Put") && pk == "encoding/binary") {
									if mark(f, r, "passes it to "+full+", which writes its argument") {
										changed = true
									}
								} else if !readOnlyPkgs[pk] && !(pk == "bytes" || name == "bytes.NewReader") {
									if !seenUnknown[full+core.FName(f)] {
										seenUnknown[full+core.FName(f)] = true
										unknown = append(unknown, fmt.Sprintf("%s passes its input to %s", core.FName(f), full))
									}
								}
							}
						}
					}
				}
			}
		}
	}
	sort.Strings(unknown)
	return
}

var ruleInputImmutable = &core.Rule{ID: "R04.2", Min: 60,
	Doc: "no hidden inputs or outputs: no registered detector, sniffer, walk or entry writes through its input slice (element store, copy destination, in-place append, or a callee that does; external callees by contract table); no nondeterministic source, goroutine, channel or map iteration in the module's detection code",
	Run: func(c *core.Ctx, s *core.Sink) {
		tm := tree.Get(c)
		writes, unknown := inputWriters(c)
		for _, u := range unknown {
			s.Bad("external callee on the input: "+u, "-", u+", which is not in the read-only contract table (bytes, strings, unicode/utf8, encoding/binary readers): it may modify the caller's buffer")
		}
		// every registered detector body, once per distinct function
		seen := map[*ssa.Function]bool{}
		for _, n := range tm.Nodes {
			f := n.DetFn
			if f == nil || seen[f] {
				continue
			}
			seen[f] = true
			key := "detector " + core.FName(f) + " leaves the header untouched"
			if why, ok := writes[f][0]; ok {
				s.Bad(key, c.Pos(f.Pos()), "the detector may write to the caller's buffer: "+why)
			} else {
				s.OK(key, c.Pos(f.Pos()), "no store / copy / append / writing callee on parameter 0")
			}
		}
		cm := getCharset(c)
		for _, k := range cm.snifKeys {
			f := cm.sniffers[k]
			key := "sniffer " + core.FName(f) + " leaves the header untouched"
			if why, ok := writes[f][0]; ok {
				s.Bad(key, c.Pos(f.Pos()), "the charset sniffer may write to the caller's buffer: "+why)
			} else {
				s.OK(key, c.Pos(f.Pos()), "read-only")
			}
		}
		wm := getWalk(c)
		for _, f := range append([]*ssa.Function{wm.walk}, wm.entries...) {
			bad := ""
			for i, why := range writes[f] {
				if core.IsByteSlice(f.Params[i].Type()) {
					bad = why
				}
			}
			s.Check(bad == "", core.FName(f)+" leaves the input untouched", c.Pos(f.Pos()), "read-only", "may write to the caller's buffer: "+bad)
		}
		// nondeterminism / concurrency constructs
		n := 0
		for _, f := range c.SrcFuncs() {
			for _, b := range f.Blocks {
				for _, in := range b.Instrs {
					switch x := in.(type) {
					case *ssa.Go:
						s.Bad(core.FName(f)+": go statement", c.Pos(x.Pos()), "goroutine started from library code")
					case *ssa.Select, *ssa.Send:
						s.Bad(core.FName(f)+": channel operation", c.Pos(in.Pos()), "channel operation in library code")
					case *ssa.Range:
						if _, isMap := x.X.Type().Underlying().(*types.Map); isMap && !mapClearLoop(x) {
							s.Bad(core.FName(f)+": map iteration", c.Pos(x.Pos()), "iteration over a map: the order is randomised, the result may differ between identical detections")
						}
					case ssa.CallInstruction:
						g := x.Common().StaticCallee()
						if g == nil || g.Pkg == nil || core.InMod(g) {
							continue
						}
						pk := g.Pkg.Pkg.Path()
						nd := false
						switch pk {
						case "math/rand", "math/rand/v2", "crypto/rand":
							nd = true
						case "time":
							nd = g.Signature.Recv() == nil && (g.Name() == "Now" || g.Name() == "Since" || g.Name() == "Until" || g.Name() == "After" || g.Name() == "Sleep" || g.Name() == "Tick" || g.Name() == "NewTimer")
						case "os":
							nd = g.Name() != "Open" && !(g.Signature.Recv() != nil && g.Name() == "Close")
						case "runtime", "os/exec", "net", "net/http", "syscall":
							nd = true
						}
						if nd {
							s.Bad(fmt.Sprintf("%s: call of %s.%s", core.FName(f), pk, g.Name()), c.Pos(x.Pos()), "call of an environment-dependent or nondeterministic function in detection code: the result would not be a function of the examined header")
						} else {
							n++
						}
					}
				}
			}
		}
		s.OK("no nondeterministic source, goroutine, channel or map iteration", "-", fmt.Sprintf("%d external call sites inspected", n))
	}}

// ---- pools ----

func poolNewType(c *core.Ctx, pool *ssa.Global) (types.Type, *ssa.Function) {
	if pool == nil || pool.Pkg == nil {
		return nil, nil
	}
	init := pool.Pkg.Func("init")
	for _, b := range init.Blocks {
		for _, in := range b.Instrs {
			st, ok := in.(*ssa.Store)
			if !ok {
				continue
			}
			fa, ok := st.Addr.(*ssa.FieldAddr)
			if !ok || fa.X != ssa.Value(pool) {
				continue
			}
			fn := closureFn(st.Val)
			if fn == nil {
				continue
			}
			for _, r := range core.Returns(fn) {
				if mi, ok := r.Results[0].(*ssa.MakeInterface); ok {
					return mi.X.Type(), fn
				}
			}
		}
	}
	return nil, nil
}

var rulePools = &core.Rule{ID: "R04.3", Min: 6,
	Doc: "pool typestate: every value taken from a package-level sync.Pool is asserted to the type its New function returns, is re-initialised (reset routine / Reset method, possibly in a getter helper) before any other use, every field of the pooled scanner state that the scanner writes is assigned by the reset routine (the recursion cap, never written after construction, is exempt), and Put receives the same typed value; whatever a function hands to Put (directly, by defer, or through a helper that puts its parameter) it neither uses afterwards nor returns (nor a reader built on it); a function literal that puts a captured value back and is called on the spot (not deferred) is the last use of that variable",
	Run: func(c *core.Ctx, s *core.Sink) {
		jm := getJSON(c)
		nGet := 0
		for _, f := range c.SrcFuncs() {
			for _, ci := range core.Calls(f) {
				call, ok := ci.(*ssa.Call)
				if !ok || !core.MethodCalleeIs(&call.Call, "sync", "Pool", "Get") {
					continue
				}
				nGet++
				pool, _ := call.Call.Args[0].(*ssa.Global)
				pname := "?"
				if pool != nil {
					pname = pool.Name()
				}
				key := fmt.Sprintf("%s: value from pool %s", core.FName(f), pname)
				var obj ssa.Value
				for _, r := range *call.Referrers() {
					if ta, ok := r.(*ssa.TypeAssert); ok {
						obj = ta
						newT, _ := poolNewType(c, pool)
						s.Check(newT != nil && types.Identical(newT, ta.AssertedType) && !ta.CommaOk, key+": asserted type agrees with New", c.Pos(ta.Pos()), fmt.Sprint(ta.AssertedType),
							fmt.Sprintf("pool %s yields %v but the value is asserted to %v: the assertion panics", pname, newT, ta.AssertedType))
					}
				}
				if obj == nil {
					s.Bad(key+": typed", c.Pos(call.Pos()), "value taken from the pool is not type-asserted")
					continue
				}
				// uses of the pooled object, directly or through the local cell it is spilled to
				var uses []ssa.Instruction
				collect := func(v ssa.Value) {
					for _, r := range *v.Referrers() {
						if _, dbg := r.(*ssa.DebugRef); !dbg {
							uses = append(uses, r)
						}
					}
				}
				collect(obj)
				var cellLoads []ssa.Instruction
				for _, u := range uses {
					if st, ok := u.(*ssa.Store); ok && st.Val == obj {
						if a, ok := st.Addr.(*ssa.Alloc); ok {
							for _, r := range *a.Referrers() {
								if ld, ok := r.(*ssa.UnOp); ok && ld.Parent() == f {
									for _, r2 := range *ld.Referrers() {
										if _, dbg := r2.(*ssa.DebugRef); !dbg {
											cellLoads = append(cellLoads, r2)
										}
									}
								}
							}
						}
					}
				}
				all := append(append([]ssa.Instruction{}, uses...), cellLoads...)
				var reset ssa.Instruction
				for _, u := range all {
					cl, ok := u.(*ssa.Call)
					if !ok {
						continue
					}
					g := cl.Call.StaticCallee()
					if g == nil || g.Signature.Recv() == nil {
						continue
					}
					isReset := false
					if g == jm.reset {
						isReset = true
					}
					if g.Pkg != nil && g.Pkg.Pkg.Path() == "bufio" && g.Name() == "Reset" {
						isReset = true
					}
					if isReset && (reset == nil || core.Before(cl, reset)) {
						reset = cl
					}
				}
				if reset == nil {
					// a pooled struct of library readers: every field is Reset (on its address, or on the pointer it
					// holds) before anything else touches it
					if okFields, firstReset := pooledStructReset(obj); okFields {
						s.OK(key+": reset before use", c.Pos(firstReset.Pos()), "every field of the pooled struct is Reset before any other use")
						continue
					}
					s.Bad(key+": reset before use", c.Pos(call.Pos()), "a value taken from the pool is used without being re-initialised: state left by an earlier detection (path stack, counters, flags, buffered bytes) leaks into this one")
					continue
				}
				okOrder := true
				for _, u := range all {
					if u == reset {
						continue
					}
					switch u.(type) {
					case *ssa.Store, *ssa.Return, *ssa.MakeInterface:
						continue
					}
					if u.Parent() != f {
						continue
					}
					if !core.Before(reset, u) {
						okOrder = false
					}
				}
				s.Check(okOrder, key+": reset before use", c.Pos(reset.Pos()), "reset dominates every other use", "the pooled value is used before it is reset")
				// Put is the last use: a non-deferred Put of this value must not be followed by any other use of it
				// (deferred calls and deferred closures run at function exit and are fine)
				for _, ci := range core.Calls(f) {
					put, isCall := ci.(*ssa.Call)
					if !isCall {
						continue
					}
					// a module helper that hands its parameter back to a pool counts as a Put of that argument
					if g := put.Call.StaticCallee(); g != nil && core.InMod(g) && g.Blocks != nil {
						for ai, a := range put.Call.Args {
							isO := a == obj
							for _, cl := range cellLoads {
								if v, ok := a.(ssa.Instruction); ok && v == cl {
									isO = true
								}
							}
							if u, ok := a.(*ssa.UnOp); ok {
								for _, cl := range cellLoads {
									_ = cl
								}
								if al, ok := u.X.(*ssa.Alloc); ok {
									for _, r := range *al.Referrers() {
										if st, ok := r.(*ssa.Store); ok && st.Val == obj {
											isO = true
										}
									}
								}
							}
							if !isO || !putsParam(g, ai) {
								continue
							}
							after := ""
							reach := core.Reach(put.Block())
							for _, u := range all {
								if u == ssa.Instruction(put) || u.Parent() != f {
									continue
								}
								if _, isStore := u.(*ssa.Store); isStore {
									continue
								}
								later := false
								if u.Block() == put.Block() {
									later = core.InstrIndex(u) > core.InstrIndex(put)
								} else if reach[u.Block()] {
									later = true
								}
								if later {
									after = c.Pos(u.Pos())
								}
							}
							s.Check(after == "", key+": released through "+g.Name()+" as the last use", c.Pos(put.Pos()), "no use of the pooled value after it was handed back", "the pooled value is still used (at "+after+") after a helper put it back into the pool: another goroutine can take and reset it in between")
						}
					}
					if !core.MethodCalleeIs(&put.Call, "sync", "Pool", "Put") {
						continue
					}
					mi, ok := put.Call.Args[1].(*ssa.MakeInterface)
					if !ok {
						continue
					}
					isObj := mi.X == obj
					if u, ok := mi.X.(*ssa.UnOp); ok {
						for _, cl := range cellLoads {
							if cl == ssa.Instruction(mi) && u != nil {
								isObj = true
							}
						}
					}
					if !isObj {
						continue
					}
					after := ""
					reach := core.Reach(put.Block())
					for _, u := range all {
						if u == ssa.Instruction(mi) || u == ssa.Instruction(put) || u.Parent() != f {
							continue
						}
						if _, isStore := u.(*ssa.Store); isStore {
							continue
						}
						later := false
						if u.Block() == put.Block() {
							later = core.InstrIndex(u) > core.InstrIndex(put)
						} else if reach[u.Block()] {
							later = true
						}
						if later {
							after = c.Pos(u.Pos())
						}
					}
					s.Check(after == "", key+": Put is the last use", c.Pos(put.Pos()), "no use of the pooled value after it was handed back", "the pooled value is still used (at "+after+") after it was put back into the pool: another goroutine can take and reset it in between (data race, results of another detection)")
				}
			}
		}
		// wherever the pooled value came from (a getter helper, a parameter): handing a value back, directly or through
		// a helper, is the last thing the function does with it
		for _, f := range c.SrcFuncs() {
			for _, ci := range core.Calls(f) {
				put, isCall := ci.(*ssa.Call)
				if !isCall {
					continue
				}
				var x ssa.Value
				how := ""
				if core.MethodCalleeIs(&put.Call, "sync", "Pool", "Put") {
					if mi, ok := put.Call.Args[1].(*ssa.MakeInterface); ok {
						x, how = mi.X, "Put"
					}
				} else if g := put.Call.StaticCallee(); g != nil && core.InMod(g) && g.Blocks != nil {
					for ai, a := range put.Call.Args {
						if putsParam(g, ai) {
							x, how = a, g.Name()
						}
					}
				}
				if x == nil {
					continue
				}
				if _, isConst := x.(*ssa.Const); isConst {
					continue
				}
				refs := x.Referrers()
				if refs == nil {
					continue
				}
				after := ""
				reach := core.Reach(put.Block())
				// the value wrapped into an interface (handed to a reader-taking constructor) is used where that interface is
				users := append([]ssa.Instruction{}, (*refs)...)
				for _, u := range *refs {
					if mi, ok := u.(*ssa.MakeInterface); ok && mi.Referrers() != nil {
						for _, u2 := range *mi.Referrers() {
							if u2 != ssa.Instruction(put) {
								users = append(users, u2)
							}
						}
					}
				}
				for _, u := range users {
					if u == ssa.Instruction(put) || u.Parent() != f {
						continue
					}
					switch u.(type) {
					case *ssa.DebugRef, *ssa.MakeInterface:
						continue
					}
					later := false
					if u.Block() == put.Block() {
						later = core.InstrIndex(u) > core.InstrIndex(put)
					} else if reach[u.Block()] {
						later = true
					}
					if later {
						after = c.Pos(u.Pos())
					}
				}
				key := fmt.Sprintf("%s: %s is the last use of the value handed back", core.FName(f), callOrdinal(put))
				s.Check(after == "", key, c.Pos(put.Pos()), "no later use ("+how+")", "the value is still used (at "+after+") after it was put back into the pool: another goroutine can take and reset it in between (data race, results of another detection)")
			}
		}
		// a function literal that puts a captured variable back: called on the spot (not deferred) it releases the
		// value in the middle of the enclosing function, and every later read of that variable uses a released object
		for _, f := range c.SrcFuncs() {
			for _, ci := range core.Calls(f) {
				call, isCall := ci.(*ssa.Call)
				if !isCall {
					continue
				}
				mc, ok := call.Call.Value.(*ssa.MakeClosure)
				if !ok {
					continue
				}
				lit, _ := mc.Fn.(*ssa.Function)
				if lit == nil || lit.Blocks == nil {
					continue
				}
				for fi, fv := range lit.FreeVars {
					puts := false
					for _, pc := range core.Calls(lit) {
						if !core.MethodCalleeIs(pc.Common(), "sync", "Pool", "Put") || len(pc.Common().Args) < 2 {
							continue
						}
						mi, ok := pc.Common().Args[1].(*ssa.MakeInterface)
						if !ok {
							continue
						}
						if mi.X == ssa.Value(fv) {
							puts = true
						}
						if ld, ok := mi.X.(*ssa.UnOp); ok && ld.Op == token.MUL && ld.X == ssa.Value(fv) {
							puts = true
						}
					}
					if !puts || fi >= len(mc.Bindings) {
						continue
					}
					cell := mc.Bindings[fi]
					after := ""
					reach := core.Reach(call.Block())
					if refs := cell.Referrers(); refs != nil {
						for _, u := range *refs {
							if u == ssa.Instruction(mc) || u.Parent() != f {
								continue
							}
							switch u.(type) {
							case *ssa.DebugRef, *ssa.Store:
								continue
							}
							later := false
							if u.Block() == call.Block() {
								later = core.InstrIndex(u) > core.InstrIndex(call)
							} else if reach[u.Block()] {
								later = true
							}
							if later {
								after = c.Pos(u.Pos())
							}
						}
					}
					key := fmt.Sprintf("%s: %s releases a captured pooled value as the last use", core.FName(f), callOrdinal(call))
					s.Check(after == "", key, c.Pos(call.Pos()), "no later use of the captured variable", "a function literal that puts the captured value back into the pool is called on the spot (not deferred) and the variable is still used afterwards (at "+after+"): another goroutine can take and reset the object in between (data race, results of another detection)")
				}
			}
		}
		// a function does not hand out what it puts back: a value given to Put (also by defer, which runs when the
		// function returns) must not be returned, nor be wrapped by a call whose result is returned
		for _, f := range c.SrcFuncs() {
			for _, b := range f.Blocks {
				for _, in := range b.Instrs {
					var cc *ssa.CallCommon
					switch x := in.(type) {
					case *ssa.Defer:
						cc = &x.Call
					case *ssa.Call:
						cc = &x.Call
					default:
						continue
					}
					if !core.MethodCalleeIs(cc, "sync", "Pool", "Put") || len(cc.Args) < 2 {
						continue
					}
					mi, ok := cc.Args[1].(*ssa.MakeInterface)
					if !ok {
						continue
					}
					x := mi.X
					if x.Referrers() == nil {
						continue
					}
					escapes := ""
					for _, r := range core.Returns(f) {
						for ri := range r.Results {
							v := spilled(r, ri)
							if v == x {
								escapes = c.Pos(r.Pos())
							}
							if call, ok := v.(*ssa.Call); ok {
								for _, a := range call.Call.Args {
									if a == x {
										escapes = c.Pos(r.Pos())
									}
									if mi2, ok := a.(*ssa.MakeInterface); ok && mi2.X == x {
										escapes = c.Pos(r.Pos())
									}
								}
							}
						}
					}
					key := fmt.Sprintf("%s: value put back at b%d is not handed out", core.FName(f), b.Index)
					s.Check(escapes == "", key, c.Pos(in.Pos()), "not returned", "the function puts a value back into the pool and returns it (or a reader built on it) at "+escapes+": its caller works on an object that another goroutine may already have taken and reset")
				}
			}
		}
		s.Check(nGet >= 2, "pool Get sites", "-", fmt.Sprint(nGet), "fewer than two pooled objects found")
		// what New hands out is made by that call: a pool that returns the address of one package-level object gives the
		// same object to every concurrent detection
		for _, p := range c.ModPkgs {
			sp := c.SSA[p.PkgPath]
			for _, mem := range sp.Members {
				g, ok := mem.(*ssa.Global)
				if !ok {
					continue
				}
				if n, isN := g.Type().(*types.Pointer).Elem().(*types.Named); !isN || n.Obj().Pkg() == nil || n.Obj().Pkg().Path() != "sync" || n.Obj().Name() != "Pool" {
					continue
				}
				_, fn := poolNewType(c, g)
				if fn == nil {
					continue
				}
				for _, r := range core.Returns(fn) {
					mi, ok := r.Results[0].(*ssa.MakeInterface)
					if !ok {
						continue
					}
					fresh := false
					switch x := mi.X.(type) {
					case *ssa.Alloc:
						fresh = x.Heap || true
					case *ssa.MakeSlice, *ssa.MakeMap:
						fresh = true
					case *ssa.Call:
						fresh = true // a constructor call (bufio.NewReader, a module constructor): made per call
					}
					if root := rootGlobal(mi.X); root != nil {
						fresh = false
					}
					s.Check(fresh, fmt.Sprintf("pool %s: New makes a new object", g.Name()), c.Pos(r.Pos()), "allocation or constructor call", fmt.Sprintf("New of pool %s returns an object that exists once (a package variable or something reached from one): concurrent detections take the same object from the pool and scan with shared state", g.Name()))
				}
			}
		}
		// Put arguments
		for _, f := range c.AllModFuncs() {
			for _, ci := range core.Calls(f) {
				if !core.MethodCalleeIs(ci.Common(), "sync", "Pool", "Put") {
					continue
				}
				pool, _ := ci.Common().Args[0].(*ssa.Global)
				newT, _ := poolNewType(c, pool)
				arg := ci.Common().Args[1]
				var at types.Type
				if mi, ok := arg.(*ssa.MakeInterface); ok {
					at = mi.X.Type()
				}
				s.Check(newT != nil && at != nil && types.Identical(newT, at), fmt.Sprintf("%s: Put into %s", core.FName(f), pool.Name()), c.Pos(ci.Pos()), fmt.Sprint(at), fmt.Sprintf("a %v is put into a pool whose New returns %v", at, newT))
			}
		}
		// R04.4 reset exhaustiveness
		written := map[int][]string{}
		inReset := map[int]bool{}
		for _, f := range c.SrcFuncs() {
			for _, b := range f.Blocks {
				for _, in := range b.Instrs {
					st, ok := in.(*ssa.Store)
					if !ok {
						continue
					}
					// a whole-struct overwrite of an existing state writes every field
					if jm.isState(st.Addr.Type()) {
						if _, fresh := st.Addr.(*ssa.Alloc); !fresh {
							for i := 0; i < jm.stStruct.NumFields(); i++ {
								if f == jm.reset {
									inReset[i] = true
								} else {
									written[i] = append(written[i], f.Name()+" (whole-struct store)")
								}
							}
						}
						continue
					}
					fa, ok := st.Addr.(*ssa.FieldAddr)
					if !ok || !jm.isState(fa.X.Type()) {
						continue
					}
					if _, fresh := fa.X.(*ssa.Alloc); fresh {
						continue
					}
					if f == jm.reset {
						inReset[fa.Field] = true
					} else {
						written[fa.Field] = append(written[fa.Field], f.Name())
					}
				}
			}
		}
		if jm.reset == nil {
			s.Bad("reset routine", c.Pos(jm.parse.Pos()), "the scanner entry does not reset the pooled state before scanning")
		}
		for i := 0; i < jm.stStruct.NumFields(); i++ {
			key := "pooled scanner field " + jm.fieldName(i)
			switch {
			case len(written[i]) > 0:
				s.Check(inReset[i], key+" is reset", c.Pos(jm.parse.Pos()), "assigned by the reset routine", fmt.Sprintf("field %s is written by %v during scanning but not assigned in the reset routine: its value survives into the next detection that takes this scanner from the pool", jm.fieldName(i), uniqStrings(written[i])))
			default:
				s.OK(key+" is constant after construction", c.Pos(jm.parse.Pos()), "never written by the scanner")
			}
		}
		// the reset of the path stack must empty it (length 0), not merely clear elements
		if jm.reset != nil {
			okEmpty := false
			for _, b := range jm.reset.Blocks {
				for _, in := range b.Instrs {
					if st, ok := in.(*ssa.Store); ok {
						if fa, ok := st.Addr.(*ssa.FieldAddr); ok && fa.Field == jm.stackF {
							if _, k := stackEffect(st, jm.stackF); k == "reset" {
								okEmpty = true
							}
						}
					}
				}
			}
			s.Check(okEmpty, "reset empties the path stack", c.Pos(jm.reset.Pos()), "currPath = currPath[:0] (or nil)", "the reset routine does not set the path stack to length 0: stale path segments from an earlier detection remain")
		}
	}}

func uniqStrings(xs []string) []string {
	m := map[string]bool{}
	var out []string
	for _, x := range xs {
		if !m[x] {
			m[x] = true
			out = append(out, x)
		}
	}
	sort.Strings(out)
	return out
}

// ---- R04.5: validation of the read-only contract table against library source ----

type roVerdict struct {
	status string // verified | leaf | escapes | writes | dynamic
	why    string
}

// extWrites analyses the body of a (library) function: may it write through
// byte-slice parameter idx?
func extWrites(g *ssa.Function, idx int, depth int, seen map[string]bool) roVerdict {
	key := fmt.Sprintf("%s#%d", g.String(), idx)
	if seen[key] {
		return roVerdict{"verified", "recursive"}
	}
	seen[key] = true
	if g.Blocks == nil {
		return roVerdict{"leaf", g.String() + " has no Go body (assembly / runtime intrinsic)"}
	}
	if depth > 8 {
		return roVerdict{"dynamic", "call depth limit"}
	}
	worst := roVerdict{"verified", ""}
	upd := func(v roVerdict) {
		rank := map[string]int{"verified": 0, "leaf": 1, "escapes": 2, "dynamic": 3, "writes": 4}
		if rank[v.status] > rank[worst.status] {
			worst = v
		}
	}
	derived := func(v ssa.Value) bool { return extParamRoot(v, g, idx, 0) }
	for _, b := range g.Blocks {
		for _, in := range b.Instrs {
			switch x := in.(type) {
			case *ssa.Store:
				if ia, ok := x.Addr.(*ssa.IndexAddr); ok && derived(ia.X) {
					upd(roVerdict{"writes", "element store in " + g.String()})
				}
				if derived(x.Val) {
					if _, isAlloc := x.Addr.(*ssa.Alloc); !isAlloc {
						upd(roVerdict{"escapes", "stored into an object by " + g.String()})
					}
				}
			case ssa.CallInstruction:
				cc := x.Common()
				if bi, ok := cc.Value.(*ssa.Builtin); ok {
					if (bi.Name() == "copy" || bi.Name() == "append") && len(cc.Args) > 0 && derived(cc.Args[0]) && core.IsByteSlice(cc.Args[0].Type()) {
						if bi.Name() == "copy" {
							upd(roVerdict{"writes", "copy destination in " + g.String()})
						} else {
							upd(roVerdict{"writes", "append in place in " + g.String()})
						}
					}
					continue
				}
				for ai, a := range cc.Args {
					if !derived(a) {
						continue
					}
					h := cc.StaticCallee()
					if h == nil {
						upd(roVerdict{"dynamic", "passed to a dynamic call in " + g.String()})
						continue
					}
					upd(extWrites(h, ai, depth+1, seen))
				}
			}
		}
	}
	return worst
}

func extParamRoot(v ssa.Value, f *ssa.Function, idx int, depth int) bool {
	if depth > 10 || v == nil {
		return false
	}
	switch x := v.(type) {
	case *ssa.Parameter:
		return idx < len(f.Params) && f.Params[idx] == x
	case *ssa.Slice:
		return extParamRoot(x.X, f, idx, depth+1)
	case *ssa.ChangeType:
		return extParamRoot(x.X, f, idx, depth+1)
	case *ssa.Convert:
		// []byte <-> string conversions copy; unsafe-free std code keeps the bytes otherwise
		return false
	case *ssa.Phi:
		for _, e := range x.Edges {
			if e != ssa.Value(x) && extParamRoot(e, f, idx, depth+2) {
				return true
			}
		}
	case *ssa.UnOp:
		if x.Op == token.MUL {
			if a, ok := x.X.(*ssa.Alloc); ok {
				for _, ref := range *a.Referrers() {
					if st, ok := ref.(*ssa.Store); ok && st.Addr == ssa.Value(a) && extParamRoot(st.Val, f, idx, depth+2) {
						return true
					}
				}
			}
		}
	}
	return false
}

var ruleContracts = &core.Rule{ID: "R04.5", Min: 8, Slow: true,
	Doc: "thorough tier: every external callee that receives a slice derived from the input is re-validated against the library source that is actually linked: no element store, copy destination or in-place append on that parameter, transitively, down to assembly leaves (listed) — the read-only entries of the contract table are checked, not trusted",
	Run: func(c *core.Ctx, s *core.Sink) {
		type use struct {
			g   *ssa.Function
			idx int
		}
		seenUse := map[string]bool{}
		var uses []use
		for _, f := range c.SrcFuncs() {
			for _, ci := range core.Calls(f) {
				cc := ci.Common()
				g := cc.StaticCallee()
				if g == nil || core.InMod(g) {
					continue
				}
				for ai, a := range cc.Args {
					if paramRoot(a, f, 0) < 0 || !(core.IsByteSlice(a.Type())) {
						continue
					}
					k := fmt.Sprintf("%s#%d", g.String(), ai)
					if !seenUse[k] {
						seenUse[k] = true
						uses = append(uses, use{g, ai})
					}
				}
			}
		}
		sort.Slice(uses, func(i, j int) bool { return uses[i].g.String() < uses[j].g.String() })
		for _, u := range uses {
			v := extWrites(u.g, u.idx, 0, map[string]bool{})
			key := fmt.Sprintf("contract: %s leaves argument %d unmodified", u.g.String(), u.idx)
			switch v.status {
			case "verified":
				s.OK(key, "-", "verified from library source (no store / copy / append on the parameter, transitively)")
			case "leaf":
				s.OK(key, "-", "verified down to a leaf without Go source: "+v.why+" (trusted)")
			case "escapes":
				// the slice is kept by an object (bytes.Reader): its methods only read it — per-parameter contract, trusted
				ok := u.g.String() == "bytes.NewReader"
				s.Check(ok, key, "-", "kept by a read-only reader object (bytes.NewReader; trusted contract)", "the input slice escapes into an object whose methods are not covered by the contract table: "+v.why)
			case "dynamic":
				s.Bad(key, "-", "the library passes the input slice to a dynamic call: "+v.why)
			default:
				s.Bad(key, "-", "the library function writes through this argument ("+v.why+"): the contract table entry `read-only` is wrong and the caller's buffer may be modified")
			}
		}
	}}

// putsParam: g hands its parameter idx to (*sync.Pool).Put.
// pooledStructReset: obj points to a struct every field of which is a library
// reader (bytes.Reader, strings.Reader, bufio.Reader, by value or by pointer);
// in obj's function each field is the receiver of a Reset call, and that call
// comes before every other use of the field. Returns the first Reset.
func pooledStructReset(obj ssa.Value) (bool, ssa.Instruction) {
	pt, ok := obj.Type().Underlying().(*types.Pointer)
	if !ok {
		return false, nil
	}
	st, ok := pt.Elem().Underlying().(*types.Struct)
	if !ok || st.NumFields() == 0 {
		return false, nil
	}
	isReaderT := func(t types.Type) bool {
		if p, ok := t.Underlying().(*types.Pointer); ok {
			t = p.Elem()
		}
		n, ok := t.(*types.Named)
		if !ok || n.Obj().Pkg() == nil {
			return false
		}
		switch n.Obj().Pkg().Path() + "." + n.Obj().Name() {
		case "bytes.Reader", "strings.Reader", "bufio.Reader":
			return true
		}
		return false
	}
	for i := 0; i < st.NumFields(); i++ {
		if !isReaderT(st.Field(i).Type()) {
			return false, nil
		}
	}
	resets := map[int]*ssa.Call{}
	isResetOn := func(call *ssa.Call, recv ssa.Value) bool {
		g := call.Call.StaticCallee()
		return g != nil && g.Name() == "Reset" && g.Pkg != nil && (g.Pkg.Pkg.Path() == "bytes" || g.Pkg.Pkg.Path() == "strings" || g.Pkg.Pkg.Path() == "bufio") && len(call.Call.Args) > 0 && call.Call.Args[0] == recv
	}
	var others []ssa.Instruction
	for _, ref := range *obj.Referrers() {
		fa, ok := ref.(*ssa.FieldAddr)
		if !ok {
			if _, dbg := ref.(*ssa.DebugRef); dbg {
				continue
			}
			switch ref.(type) {
			case *ssa.Return, *ssa.MakeInterface, *ssa.Store:
				continue // handed on: the caller's uses come after this function's resets
			}
			return false, nil
		}
		for _, r2 := range *fa.Referrers() {
			switch x := r2.(type) {
			case *ssa.Call:
				if isResetOn(x, fa) {
					if resets[fa.Field] == nil || core.Before(x, resets[fa.Field]) {
						resets[fa.Field] = x
					}
					continue
				}
				others = append(others, x)
			case *ssa.UnOp:
				// the pointer held by the field
				for _, r3 := range *x.Referrers() {
					if c3, ok := r3.(*ssa.Call); ok && isResetOn(c3, x) {
						if resets[fa.Field] == nil || core.Before(c3, resets[fa.Field]) {
							resets[fa.Field] = c3
						}
						continue
					}
					if _, dbg := r3.(*ssa.DebugRef); dbg {
						continue
					}
					if i3, ok := r3.(ssa.Instruction); ok {
						others = append(others, i3)
					}
				}
			case *ssa.MakeInterface:
				// &r.src handed to a Reset as its new source: an argument, not a use of stale state
			case *ssa.DebugRef:
			default:
				others = append(others, x)
			}
		}
	}
	var first ssa.Instruction
	for i := 0; i < st.NumFields(); i++ {
		if resets[i] == nil {
			return false, nil
		}
		if first == nil || core.Before(resets[i], first) {
			first = resets[i]
		}
	}
	for _, o := range others {
		covered := false
		for _, r := range resets {
			if core.Before(r, o) {
				covered = true
			}
		}
		if !covered {
			return false, nil
		}
	}
	return true, first
}

func putsParam(g *ssa.Function, idx int) bool {
	for _, ci := range core.Calls(g) {
		if !core.MethodCalleeIs(ci.Common(), "sync", "Pool", "Put") {
			continue
		}
		if mi, ok := ci.Common().Args[1].(*ssa.MakeInterface); ok && idx < len(g.Params) && mi.X == ssa.Value(g.Params[idx]) {
			return true
		}
	}
	return false
}
