package rules

import (
	"go/constant"
	"go/token"

	"golang.org/x/tools/go/ssa"

	"mtverif/internal/core"
	"mtverif/internal/tree"
)

// cenv is the binding environment in which a value of a detector closure is
// constant-folded: the closure's free variables are bound by the constructor,
// the constructor's parameters by the constructing call in the package
// initialiser. No code is executed: only constants, conversions, append /
// concatenation of constants and single-assignment cells are folded.
type cenv struct {
	free   []ssa.Value // bindings of the function's free variables (values of parent's function)
	args   []ssa.Value // arguments bound to the function's parameters (values of parent's function)
	parent *cenv
}

// detEnv builds the environment of a tree node's detector body.
func detEnv(n *tree.Node) *cenv {
	if n.DetCtor == nil {
		return &cenv{free: n.DetBind}
	}
	env := &cenv{} // the package initialiser
	chain := n.DetChain
	if len(chain) == 0 {
		chain = []*ssa.Call{n.DetCtor}
	}
	for _, call := range chain {
		env = &cenv{args: call.Call.Args, parent: env} // the constructor this call enters
	}
	return &cenv{free: n.DetBind, parent: env}
}

// fold returns []byte, string or int64.
func (e *cenv) fold(v ssa.Value, depth int) (interface{}, bool) {
	if depth > 12 || v == nil {
		return nil, false
	}
	if b, ok := tree.ConstBytes(v); ok {
		if k, isK := v.(*ssa.Const); !isK || k.Value == nil {
			return b, true
		}
	}
	switch x := v.(type) {
	case *ssa.Const:
		if x.Value == nil {
			return []byte(nil), true
		}
		switch x.Value.Kind() {
		case constant.String:
			return constant.StringVal(x.Value), true
		case constant.Int:
			if i, ok := constant.Int64Val(x.Value); ok {
				return i, true
			}
		}
	case *ssa.Convert:
		in, ok := e.fold(x.X, depth+1)
		if !ok {
			return nil, false
		}
		switch y := in.(type) {
		case string:
			if core.IsByteSlice(x.Type()) {
				return []byte(y), true
			}
			return y, true
		case []byte:
			if core.IsByteSlice(x.Type()) {
				return y, true
			}
			return string(y), true
		case int64:
			if core.IsInteger(x.Type()) {
				return y, true
			}
		}
	case *ssa.ChangeType:
		return e.fold(x.X, depth+1)
	case *ssa.Parameter:
		if e == nil || e.parent == nil {
			return nil, false
		}
		for i, p := range x.Parent().Params {
			if p == x && i < len(e.args) {
				return e.parent.fold(e.args[i], depth+1)
			}
		}
	case *ssa.FreeVar:
		// a captured variable is a cell: handled by the load case
		return nil, false
	case *ssa.UnOp:
		if x.Op != token.MUL {
			return nil, false
		}
		cell, ce := x.X, e
		if fv, ok := cell.(*ssa.FreeVar); ok {
			if e == nil || e.parent == nil {
				return nil, false
			}
			found := false
			for i, f := range fv.Parent().FreeVars {
				if f == fv && i < len(e.free) {
					cell, ce, found = e.free[i], e.parent, true
				}
			}
			if !found {
				return nil, false
			}
		}
		al, ok := cell.(*ssa.Alloc)
		if !ok {
			return nil, false
		}
		var stored ssa.Value
		n := 0
		for _, ref := range *al.Referrers() {
			switch r := ref.(type) {
			case *ssa.Store:
				if r.Addr != ssa.Value(al) {
					return nil, false // the cell's address is stored somewhere
				}
				stored = r.Val
				n++
			case *ssa.UnOp, *ssa.MakeClosure, *ssa.DebugRef:
			default:
				return nil, false
			}
		}
		if n != 1 {
			return nil, false
		}
		return ce.fold(stored, depth+1)
	case *ssa.BinOp:
		if x.Op != token.ADD {
			return nil, false
		}
		a, ok1 := e.fold(x.X, depth+1)
		b, ok2 := e.fold(x.Y, depth+1)
		if !ok1 || !ok2 {
			return nil, false
		}
		switch p := a.(type) {
		case string:
			if q, ok := b.(string); ok {
				return p + q, true
			}
		case int64:
			if q, ok := b.(int64); ok {
				return p + q, true
			}
		}
	case *ssa.Call:
		if core.IsBuiltin(&x.Call, "append") && len(x.Call.Args) == 2 {
			a, ok1 := e.fold(x.Call.Args[0], depth+1)
			b, ok2 := e.fold(x.Call.Args[1], depth+1)
			ab, isB := a.([]byte)
			if !ok1 || !ok2 || !isB {
				return nil, false
			}
			out := append([]byte{}, ab...)
			switch q := b.(type) {
			case []byte:
				return append(out, q...), true
			case string:
				return append(out, q...), true
			}
		}
	}
	return nil, false
}

func (e *cenv) foldBytes(v ssa.Value) ([]byte, bool) {
	r, ok := e.fold(v, 0)
	if !ok {
		return nil, false
	}
	b, isB := r.([]byte)
	return b, isB
}

func (e *cenv) foldInt(v ssa.Value) (int64, bool) {
	r, ok := e.fold(v, 0)
	if !ok {
		return 0, false
	}
	i, isI := r.(int64)
	return i, isI
}
