package rules

import (
	"fmt"
	"go/constant"
	"go/token"
	"go/types"
	"sort"
	"strings"

	"golang.org/x/tools/go/ssa"

	"mtverif/internal/core"
	"mtverif/internal/fde"
	"mtverif/internal/tree"
)

const (
	tarBlock   = 512
	tarChkLo   = 148
	tarChkHi   = 156
	tarNameLen = 100
)

type tarModel struct {
	det    *ssa.Function
	block  ssa.Value // raw[:512]
	chk    *ssa.Call
	octal  *ssa.Call
	window *ssa.Slice
}

func getTar(c *core.Ctx) *tarModel {
	tm := tree.Get(c)
	ns := tm.Find("application/x-tar")
	if len(ns) != 1 || ns[0].DetFn == nil {
		core.Bail("application/x-tar node or its detector not found")
	}
	m := &tarModel{det: ns[0].DetFn}
	for _, ci := range core.Calls(m.det) {
		call, ok := ci.(*ssa.Call)
		if !ok {
			continue
		}
		g := call.Call.StaticCallee()
		if g == nil || !core.InMod(g) || len(call.Call.Args) != 1 || !core.IsByteSlice(call.Call.Args[0].Type()) {
			continue
		}
		res := g.Signature.Results()
		switch {
		case res.Len() == 2 && core.IsInteger(res.At(0).Type()) && core.IsInteger(res.At(1).Type()):
			m.chk = call
		case res.Len() == 1 && core.IsInteger(res.At(0).Type()):
			m.octal = call
		}
	}
	if m.chk == nil || m.octal == nil {
		core.Bail("tar detector: checksum routine or octal parser call not found")
	}
	m.block = m.chk.Call.Args[0]
	m.window, _ = m.octal.Call.Args[0].(*ssa.Slice)
	return m
}

var ruleTar = &core.Rule{ID: "R18.1", Min: 8,
	Doc: "tar: rejects below 512 bytes and works on raw[:512]; the recorded checksum is parsed from block[148:156] and the checksum routine blanks exactly indices [148,156) (tabulated over 0..511); both sums add every byte of the block (unsigned value / int8 value, tabulated over all byte values); acceptance is recorded == unsigned || recorded == signed; the octal parser rejects every non-octal byte; with the parser answering -1 every path rejects; no recorded value between 0 and 8*32+504*255 is rejected by its value alone; every other rejection is classified by its controlling condition: length guard, parse result, or the one exclusion bytes.Contains(name field raw[:<=100], `/gpkg-1` + NUL) (needle folded); any other rejecting condition is undecided",
	Run: func(c *core.Ctx, s *core.Sink) {
		m := getTar(c)
		f := m.det
		raw := f.Params[0]
		// R18.1 block
		sl, ok := m.block.(*ssa.Slice)
		okBlock := ok && sl.X == ssa.Value(raw) && sl.Low == nil && core.IsConstInt(sl.High, tarBlock)
		s.Check(okBlock, "checksummed block is raw[:512]", c.Pos(m.chk.Pos()), "raw[:512]", "the checksum is not computed over exactly the first 512-byte header block of the unmodified input")
		guard := false
		for _, de := range core.DominatingConds(m.chk.Block()) {
			cond, val := core.StripNot(de.Cond, de.Val)
			if bo, ok := cond.(*ssa.BinOp); ok {
				if call, ok := bo.X.(*ssa.Call); ok && core.IsBuiltin(&call.Call, "len") && call.Call.Args[0] == ssa.Value(raw) {
					if k, ok := core.ConstInt(bo.Y); ok {
						if (bo.Op == token.LSS && !val && k >= tarBlock) || (bo.Op == token.GEQ && val && k >= tarBlock) || (bo.Op == token.GTR && val && k >= tarBlock-1) || (bo.Op == token.LEQ && !val && k >= tarBlock-1) {
							guard = true
						}
					}
				}
			}
		}
		// the guard must be exact: one full record suffices (a header cut by a limit of 512 is still a tar header)
		if guard {
			lens := lenCallsOf(f, raw)
			for _, n := range []int64{tarBlock - 1, tarBlock, tarBlock + 1} {
				ev := newEval(c)
				ev.Env = fde.Env{}
				for _, l := range lens {
					ev.Env[l] = constant.MakeInt64(n)
				}
				exits, err := ev.Walk(f.Blocks[0], nil, func(b *ssa.BasicBlock) bool { return b == m.chk.Block() || b == m.octal.Block() }, 4)
				if err != nil {
					continue
				}
				reaches := false
				for _, x := range exits {
					if x.Stop != nil {
						reaches = true
					}
				}
				want := n >= tarBlock
				if reaches != want {
					guard = false
					s.Bad(fmt.Sprintf("length guard at len=%d", n), c.Pos(f.Pos()), fmt.Sprintf("with a header of %d bytes the checksum comparison is %s; a tar header is exactly one 512-byte record, so 512 bytes must suffice and fewer must not", n, map[bool]string{true: "reached", false: "not reached"}[reaches]))
				}
			}
		}
		s.Check(guard, "needs a full 512-byte record", c.Pos(f.Pos()), "len(raw) >= 512 dominates the checksum", "the checksum is computed without a dominating len(raw) >= 512 guard")
		// R18.2 parse window
		okWin := m.window != nil && m.window.X == m.block && core.IsConstInt(m.window.Low, tarChkLo) && core.IsConstInt(m.window.High, tarChkHi)
		got := "?"
		if m.window != nil {
			lo, _ := core.ConstInt(m.window.Low)
			hi, _ := core.ConstInt(m.window.High)
			got = fmt.Sprintf("[%d:%d]", lo, hi)
		}
		s.Check(okWin, "recorded checksum parsed from block[148:156]", c.Pos(m.octal.Pos()), "block[148:156]", "the recorded checksum is parsed from "+got+" of the block; the tar header keeps it at [148:156)")
		// blanking window in the checksum routine
		g := m.chk.Call.StaticCallee()
		rs := fde.FindRangeOver(g, g.Params[0])
		if len(rs) != 1 {
			core.Bail("checksum routine: %d range loops over the block", len(rs))
		}
		r := rs[0]
		// accumulators: the integer loop-carried variables other than the range index
		var accs []*ssa.Phi
		for _, in := range r.Header.Instrs {
			ph, ok := in.(*ssa.Phi)
			if !ok {
				break
			}
			if ph != r.Phi && core.IsInteger(ph.Type()) {
				accs = append(accs, ph)
			}
		}
		rets := core.Returns(g)
		if len(rets) != 1 || len(accs) == 0 {
			core.Bail("checksum routine: unexpected shape (%d returns, %d accumulators)", len(rets), len(accs))
		}
		for k, p := range r.Header.Preds {
			if !r.Header.Dominates(p) {
				ok := true
				for _, a := range accs {
					if !core.IsConstInt(a.Edges[k], 0) {
						ok = false
					}
				}
				s.Check(ok, "sums start at 0", c.Pos(g.Pos()), "all accumulators 0", "a checksum accumulator does not start at zero")
			}
		}
		ev := newEval(c)
		// step: one iteration from the given accumulator values
		step := func(state []int64, i, v int) ([]int64, error) {
			ev.Env = fde.Env{r.Index: constant.MakeInt64(int64(i)), r.Load: constant.MakeInt64(int64(v))}
			for k, a := range accs {
				ev.Env[a] = constant.MakeInt64(state[k])
			}
			exits, err := ev.Walk(r.Body, r.Header, func(b *ssa.BasicBlock) bool { return b == r.Header }, 0)
			if err != nil || len(exits) != 1 || exits[0].Stop != r.Header {
				return nil, fmt.Errorf("iteration i=%d c=%#02x not evaluable: %v", i, v, err)
			}
			out := make([]int64, len(accs))
			for k, a := range accs {
				for e, p := range r.Header.Preds {
					if p == exits[0].From {
						nv, ok := exits[0].ValAt(ev, a.Edges[e])
						if !ok {
							return nil, fmt.Errorf("accumulator after the iteration not evaluable")
						}
						out[k], _ = constant.Int64Val(nv)
					}
				}
			}
			return out, nil
		}
		// result: the two returned sums for given final accumulator values
		result := func(state []int64) ([2]int64, error) {
			ev.Env = fde.Env{}
			for k, a := range accs {
				ev.Env[a] = constant.MakeInt64(state[k])
			}
			exits, err := ev.Walk(r.Done, r.Header, nil, 0)
			if err != nil || len(exits) != 1 || exits[0].Ret == nil || len(exits[0].Ret.Results) != 2 {
				return [2]int64{}, fmt.Errorf("results after the scan not evaluable: %v", err)
			}
			var out [2]int64
			for k := 0; k < 2; k++ {
				v, ok := exits[0].ValAt(ev, exits[0].Ret.Results[k])
				if !ok {
					return out, fmt.Errorf("result %d not evaluable", k)
				}
				out[k], _ = constant.Int64Val(v)
			}
			return out, nil
		}
		zero := make([]int64, len(accs))
		bad, badSum := "", ""
		lo, hi := -1, -1
		n := 0
		if r0, err := result(zero); err != nil {
			bad = err.Error()
		} else if r0 != [2]int64{0, 0} {
			badSum = fmt.Sprintf("the sums of an empty scan are (%d, %d), not (0, 0)", r0[0], r0[1])
		}
		for i := 0; i < tarBlock && bad == ""; i++ {
			vals := []int{0x00, 0x41, 0x7f, 0x80, 0xff}
			if i == 0 || i == tarChkLo-1 || i == tarChkLo || i == tarChkHi-1 || i == tarChkHi || i == tarBlock-1 {
				vals = vals[:0]
				for v := 0; v < 256; v++ {
					vals = append(vals, v)
				}
			}
			for _, v := range vals {
				n++
				st1, err := step(zero, i, v)
				if err != nil {
					bad = err.Error()
					break
				}
				res, err := result(st1)
				if err != nil {
					bad = err.Error()
					break
				}
				du, ds := res[0], res[1]
				blank := du == 32 && ds == 32 && v != 32
				if v == 32 {
					blank = i >= tarChkLo && i < tarChkHi
				}
				if blank {
					if lo < 0 {
						lo = i
					}
					hi = i + 1
				}
				inWin := i >= tarChkLo && i < tarChkHi
				wantU, wantS := int64(v), int64(int8(v))
				if inWin {
					wantU, wantS = 32, 32
				}
				if (du != wantU || ds != wantS) && badSum == "" {
					badSum = fmt.Sprintf("at index %d a byte %#02x contributes (%d, %d) to the (unsigned, signed) sums; the tar checksum adds (%d, %d) there", i, v, du, ds, wantU, wantS)
				}
			}
		}
		// additivity: the results are sums of the per-byte contributions
		if bad == "" && badSum == "" {
			for _, pr := range [][4]int{{0, 0x80, 1, 0xff}, {10, 0x7f, 200, 0x81}, {147, 0xff, 156, 0xff}, {300, 0x01, 511, 0xfe}} {
				a1, e1 := step(zero, pr[0], pr[1])
				if e1 != nil {
					bad = e1.Error()
					break
				}
				a2, e2 := step(a1, pr[2], pr[3])
				b2, e3 := step(zero, pr[2], pr[3])
				if e2 != nil || e3 != nil {
					bad = "second iteration not evaluable"
					break
				}
				r12, _ := result(a2)
				r1, _ := result(a1)
				r2, _ := result(b2)
				if r12[0] != r1[0]+r2[0] || r12[1] != r1[1]+r2[1] {
					badSum = fmt.Sprintf("the sums are not additive: bytes %#02x@%d then %#02x@%d give (%d, %d) but their single contributions add up to (%d, %d)", pr[1], pr[0], pr[3], pr[2], r12[0], r12[1], r1[0]+r2[0], r1[1]+r2[1])
				}
			}
		}
		if bad != "" {
			s.Und("checksum routine table", c.Pos(g.Pos()), bad)
		} else {
			s.Check(lo == tarChkLo && hi == tarChkHi, "blanked window is [148,156) and equals the parsed window", c.Pos(g.Pos()), fmt.Sprintf("blanked [%d,%d), %d (index, byte) pairs tabulated", lo, hi, n),
				fmt.Sprintf("the checksum routine treats indices [%d,%d) as spaces, the recorded checksum lives in [148,156): the recomputed sum would include (or exclude) the wrong bytes", lo, hi))
			s.Check(badSum == "", "every byte of the block enters both sums", c.Pos(g.Pos()), "per-byte contribution is (c, int8(c)) for all 512 indices, sums additive", badSum)
		}
		// R18.4 acceptance
		okAcc := false
		u0, u1 := extractOf(m.chk, 0), extractOf(m.chk, 1)
		for _, ret := range core.Returns(f) {
			ph, ok := ret.Results[0].(*ssa.Phi)
			if !ok {
				continue
			}
			eqs := map[ssa.Value]bool{}
			collectEq(ph, m.octal, eqs, map[ssa.Value]bool{})
			if u0 != nil && u1 != nil && eqs[u0] && eqs[u1] && len(eqs) == 2 {
				okAcc = true
			}
		}
		s.Check(okAcc, "acceptance is recorded == unsigned || recorded == signed", c.Pos(f.Pos()), "two equalities", "the verdict is not the disjunction of the two equalities between the recorded and the recomputed checksums")
		// every other return is false
		for _, ret := range core.Returns(f) {
			if v, ok := core.ConstBool(ret.Results[0]); ok {
				s.Check(!v, "tar "+returnOrdinal(ret), c.Pos(ret.Pos()), "rejection", "the tar detector accepts without comparing checksums")
			}
		}
		// why a header is rejected: too short, an unparseable checksum field, the comparison of the sums, and the one
		// documented exclusion (GLEP 78 binary packages, whose first member is named <dir>/gpkg-1). Any other
		// rejection, or a wider exclusion, turns conforming archives away.
		for _, ret := range core.Returns(f) {
			if v, ok := core.ConstBool(ret.Results[0]); !ok || v {
				continue
			}
			des := core.DominatingConds(ret.Block())
			if len(des) == 0 {
				continue
			}
			cond, val := core.StripNot(des[0].Cond, des[0].Val)
			key := "tar " + returnOrdinal(ret) + ": reason of the rejection"
			switch x := cond.(type) {
			case *ssa.BinOp:
				isLen := func(v ssa.Value) bool {
					call, ok := v.(*ssa.Call)
					return ok && core.IsBuiltin(&call.Call, "len")
				}
				if isLen(x.X) || isLen(x.Y) || x.X == ssa.Value(m.octal) || x.Y == ssa.Value(m.octal) {
					continue // length guard / parse result: decided above
				}
				s.Und(key, c.Pos(ret.Pos()), "a rejection on a condition that is neither the length guard, the parsed checksum nor the GLEP 78 exclusion")
			case *ssa.Call:
				if !core.CalleeIs(&x.Call, "bytes", "Contains") || !val {
					s.Und(key, c.Pos(ret.Pos()), "a rejection decided by the call "+x.Call.Value.Name()+": not the recognised form bytes.Contains(name field, marker)")
					continue
				}
				needle, okN := tree.ConstBytes(x.Call.Args[1])
				win, okW := x.Call.Args[0].(*ssa.Slice)
				inName := okW && (win.X == ssa.Value(raw) || win.X == m.block) && (win.Low == nil || core.IsConstInt(win.Low, 0)) && win.High != nil
				if inName {
					k, isK := core.ConstInt(win.High)
					inName = isK && k <= tarNameLen
				}
				switch {
				case !okN:
					s.Und(key, c.Pos(ret.Pos()), "the marker searched for is not a constant")
				case !inName:
					s.Bad(key, c.Pos(ret.Pos()), "the exclusion marker is searched outside the 100-byte name field of the first header: archives whose other fields or members contain it are turned away")
				case string(needle) != "/gpkg-1\x00":
					s.Bad(key, c.Pos(ret.Pos()), fmt.Sprintf("the exclusion searches the name field for %q instead of the complete last path element \"/gpkg-1\\x00\": conforming archives whose first member name merely contains that text are no longer reported as tar", string(needle)))
				default:
					s.OK(key, c.Pos(ret.Pos()), "GLEP 78 exclusion: name field contains \"/gpkg-1\\x00\"")
				}
			default:
				s.Und(key, c.Pos(ret.Pos()), "a rejection on an unrecognised condition")
			}
		}
		// octal parser table
		h := m.octal.Call.StaticCallee()
		var ranged ssa.Value
		for _, ci := range core.Calls(h) {
			if call, ok := ci.(*ssa.Call); ok && core.CalleeIs(&call.Call, "bytes", "Trim") && call.Call.Args[0] == ssa.Value(h.Params[0]) {
				ranged = call
			}
		}
		// padding: the field is digits with NULs / spaces before and after (historic and current writers differ), so
		// both ends are stripped of exactly these two bytes
		{
			left, right, cutBad := false, false, ""
			for _, ci := range core.Calls(h) {
				cc := ci.Common()
				g := cc.StaticCallee()
				if g == nil || g.Pkg == nil || g.Pkg.Pkg.Path() != "bytes" || !strings.HasPrefix(g.Name(), "Trim") || len(cc.Args) < 2 {
					continue
				}
				set, isK := core.ConstString(cc.Args[1])
				if !isK {
					continue
				}
				if !strings.Contains(set, " ") || !strings.Contains(set, "\x00") || strings.ContainsAny(set, "01234567") {
					cutBad = fmt.Sprintf("%s with cutset %q", g.Name(), set)
				}
				switch g.Name() {
				case "Trim":
					left, right = true, true
				case "TrimLeft":
					left = true
					if call, ok := ci.(*ssa.Call); ok && ranged == nil {
						ranged = call
					}
				case "TrimRight":
					right = true
					if call, ok := ci.(*ssa.Call); ok {
						ranged = call
					}
				}
			}
			switch {
			case cutBad != "":
				s.Bad("checksum field padding", c.Pos(h.Pos()), "the checksum field is trimmed by "+cutBad+": padding is NUL and space; an octal digit in the cutset eats digits of the number, a missing NUL or space leaves padding that the digit loop rejects")
			case left != right:
				s.Bad("checksum field padding", c.Pos(h.Pos()), fmt.Sprintf("NUL / space padding of the checksum field is removed %s only: fields laid out as `digits NUL space` (or `space digits`) parse as -1 and conforming archives are rejected", map[bool]string{true: "in front", false: "behind"}[left]))
			case left && right:
				s.OK("checksum field padding", c.Pos(h.Pos()), "NUL and space stripped on both sides")
			}
		}
		if ranged == nil {
			ranged = h.Params[0]
		}
		_, tab, _, err := tabulateRange(c, h, ranged, nil)
		if err != nil {
			s.Und("octal parser table", c.Pos(h.Pos()), err.Error())
		} else {
			badOct := ""
			for b := 0; b < 256; b++ {
				o := tab[b]
				isOct := b >= '0' && b <= '7'
				switch {
				case isOct && !o.cont:
					badOct = fmt.Sprintf("octal digit %q does not continue the scan", byte(b))
				case !isOct && b != 0 && (o.cont || o.ret == nil || !core.IsConstInt(o.ret.Results[0], -1)):
					badOct = fmt.Sprintf("byte %#02x in the checksum field is not rejected with -1", b)
				}
			}
			s.Check(badOct == "", "octal parser rejects non-octal bytes", c.Pos(h.Pos()), "256 byte values tabulated", badOct)
		}
		// -1 from the parser is a rejection
		rej := false
		for _, ret := range core.Returns(f) {
			if v, ok := core.ConstBool(ret.Results[0]); ok && !v {
				for _, de := range core.DominatingConds(ret.Block()) {
					cond, val := core.StripNot(de.Cond, de.Val)
					if bo, ok := cond.(*ssa.BinOp); ok && bo.X == ssa.Value(m.octal) && core.IsConstInt(bo.Y, -1) && ((bo.Op == token.EQL && val) || (bo.Op == token.NEQ && !val)) {
						rej = true
					}
				}
			}
		}
		if !rej {
			// any other spelling (a range test, a disjunction): with the parser answering -1 every path from the call
			// on must reject, whatever the other conditions say
			ev := newEval(c)
			ev.Env = fde.Env{m.octal: constant.MakeInt64(-1)}
			if exits, err := ev.Walk(m.octal.Block(), nil, nil, 8); err == nil && len(exits) > 0 {
				all := true
				for _, x := range exits {
					if x.Ret == nil {
						all = false
						continue
					}
					if v, ok := x.ValAt(ev, x.Ret.Results[0]); !ok || v.Kind() != constant.Bool || constant.BoolVal(v) {
						all = false
					}
				}
				rej = all
			}
		}
		s.Check(rej, "unparseable checksum field rejects", c.Pos(f.Pos()), "recsum == -1 => false", "a checksum field that is not an octal number does not reject the input")
		// and nothing else about the recorded number rejects by itself: every value a header can add up to (0 for the
		// signed sum of high bytes up to 8*' ' + 504*0xFF) leaves an accepting path open, the comparison with the
		// computed sums deciding. Tabulated over the values around the constants the number is compared with.
		const maxSum = 8*32 + 504*255
		vals := map[int64]bool{0: true, 1: true, 255: true, 256: true, maxSum: true}
		for _, ref := range *m.octal.Referrers() {
			if bo, ok := ref.(*ssa.BinOp); ok {
				for _, o := range []ssa.Value{bo.X, bo.Y} {
					if k, ok := core.ConstInt(o); ok {
						for _, d := range []int64{-1, 0, 1} {
							if k+d >= 0 && k+d <= maxSum {
								vals[k+d] = true
							}
						}
					}
				}
			}
		}
		var sorted []int64
		for v := range vals {
			sorted = append(sorted, v)
		}
		sort.Slice(sorted, func(i, j int) bool { return sorted[i] < sorted[j] })
		badVal, undec := int64(-1), ""
		for _, v := range sorted {
			ev := newEval(c)
			ev.Env = fde.Env{m.octal: constant.MakeInt64(v)}
			exits, err := ev.Walk(m.octal.Block(), nil, nil, 8)
			if err != nil || len(exits) == 0 {
				undec = fmt.Sprintf("recorded checksum %d: not evaluable (%v)", v, err)
				break
			}
			open := false
			for _, x := range exits {
				if x.Ret == nil {
					open = true
					continue
				}
				if rv, ok := x.ValAt(ev, x.Ret.Results[0]); !ok || rv.Kind() != constant.Bool || constant.BoolVal(rv) {
					open = true
				}
			}
			if !open {
				badVal = v
			}
		}
		switch {
		case undec != "":
			s.Und("no recorded checksum is rejected by its value alone", c.Pos(f.Pos()), undec)
		default:
			s.Check(badVal < 0, "no recorded checksum is rejected by its value alone", c.Pos(f.Pos()), fmt.Sprintf("%d values between 0 and %d leave acceptance to the comparison with the computed sums", len(sorted), maxSum),
				fmt.Sprintf("a header whose recorded checksum is %d is rejected whatever its bytes add up to: archives with many high bytes in the header (non-ASCII names, base-256 numbers) reach sums up to %d", badVal, maxSum))
		}
		_ = types.Typ
	}}

func extractOf(call *ssa.Call, idx int) ssa.Value {
	for _, r := range *call.Referrers() {
		if ex, ok := r.(*ssa.Extract); ok && ex.Index == idx {
			return ex
		}
	}
	return nil
}

// collectEq collects, through ||-phis, the values compared for equality with `with`.
func collectEq(v ssa.Value, with ssa.Value, out map[ssa.Value]bool, seen map[ssa.Value]bool) {
	if seen[v] {
		return
	}
	seen[v] = true
	switch x := v.(type) {
	case *ssa.Phi:
		for k, e := range x.Edges {
			if b, ok := core.ConstBool(e); ok && b {
				// short-circuit edge: the controlling condition of the predecessor
				pred := x.Block().Preds[k]
				if iff := core.IfOf(pred); iff != nil {
					collectEq(iff.Cond, with, out, seen)
				}
				continue
			}
			collectEq(e, with, out, seen)
		}
	case *ssa.BinOp:
		if x.Op == token.EQL {
			if x.X == with {
				out[x.Y] = true
			} else if x.Y == with {
				out[x.X] = true
			} else {
				out[x] = true
			}
		} else {
			out[x] = true
		}
	default:
		out[v] = true
	}
}
