package rules

import (
	"fmt"
	"go/constant"
	"go/token"
	"go/types"
	"sort"
	"strings"

	"golang.org/x/tools/go/ssa"

	"mtverif/internal/core"
	"mtverif/internal/fde"
	"mtverif/internal/tree"
)

// walkModel: the walk, the chain-cloning function, the single-node clone.
type walkModel struct {
	tm          *tree.Model
	shape       *walkShape
	walk        *ssa.Function
	chain       *ssa.Function // cloneHierarchy
	clone       *ssa.Function
	clones      []*ssa.Function // every single-node copy function: called by the chain clone (or by another of them) and allocating a node
	parentFn    *ssa.Function   // accessor returning .parent
	extendM     *ssa.Function   // method storing to .children outside init
	extendWrong *ssa.Store      // an exported method stores into the children of a node that is not its receiver
	lookup      *ssa.Function   // recursive method returning *T with a string parameter
	entries     []*ssa.Function
}

func getWalk(c *core.Ctx) *walkModel {
	if m, ok := c.Memo["walk"].(*walkModel); ok {
		return m
	}
	m := &walkModel{tm: tree.Get(c)}
	m.shape = getWalkShape(c)
	m.walk = m.shape.walk
	cm := getConc(c)
	// chain: the callee of the walk's returns that is not the walk itself
	for _, r := range core.Returns(m.walk) {
		if call, ok := spilled(r, 0).(*ssa.Call); ok {
			if g := call.Call.StaticCallee(); g != nil && g != m.walk {
				if m.chain != nil && m.chain != g {
					core.Bail("walk returns through two different functions: %s, %s", m.chain.Name(), g.Name())
				}
				m.chain = g
			}
		}
	}
	if m.chain == nil {
		core.Bail("walk %s does not return through a chain-cloning function", m.walk.Name())
	}
	// clone: the functions called by chain (or by one another) that allocate a node
	allocsNode := func(g *ssa.Function) bool {
		for _, b := range g.Blocks {
			for _, in := range b.Instrs {
				if a, ok := in.(*ssa.Alloc); ok && a.Heap && cm.isNodePtr(a.Type()) {
					return true
				}
			}
		}
		return false
	}
	seenClone := map[*ssa.Function]bool{m.chain: true}
	work := []*ssa.Function{m.chain}
	for len(work) > 0 {
		from := work[0]
		work = work[1:]
		for _, ci := range core.Calls(from) {
			g := ci.Common().StaticCallee()
			if g == nil || g.Blocks == nil || !core.InMod(g) || seenClone[g] {
				continue
			}
			nodeToNode := len(g.Params) >= 1 && cm.isNodePtr(g.Params[0].Type()) && g.Signature.Results().Len() == 1 && cm.isNodePtr(g.Signature.Results().At(0).Type())
			// a copy function allocates the node, or hands out the node another function allocates for the same receiver
			delegates := false
			if nodeToNode {
				for _, r := range core.Returns(g) {
					if rc, ok := r.Results[0].(*ssa.Call); ok {
						if h := rc.Call.StaticCallee(); h != nil && h != g && core.InMod(h) && h.Blocks != nil && allocsNode(h) && len(rc.Call.Args) >= 1 && rc.Call.Args[0] == ssa.Value(g.Params[0]) {
							delegates = true
						}
					}
				}
			}
			if (allocsNode(g) || delegates) && nodeToNode {
				seenClone[g] = true
				m.clones = append(m.clones, g)
				work = append(work, g)
				if from == m.chain {
					m.clone = g
				}
			} else if allocsNode(g) && from == m.chain {
				m.clone = g
				seenClone[g] = true
				m.clones = append(m.clones, g)
			}
		}
	}
	// parent accessor
	for _, f := range cm.fs {
		if f.Signature.Recv() == nil || len(f.Params) != 1 || f.Signature.Results().Len() != 1 || len(f.Blocks) != 1 {
			continue
		}
		rs := core.Returns(f)
		if len(rs) == 1 {
			if base, fld, ok := core.LoadOfField(rs[0].Results[0]); ok && fld == m.tm.FParent && base == ssa.Value(f.Params[0]) {
				m.parentFn = f
			}
		}
	}
	// extend method: stores .children of its receiver, not init-only
	for _, f := range cm.fs {
		if f.Signature.Recv() == nil || cm.initOnly(f) {
			continue
		}
		for _, b := range f.Blocks {
			for _, in := range b.Instrs {
				if st, ok := in.(*ssa.Store); ok {
					if fa, ok := st.Addr.(*ssa.FieldAddr); ok && fa.Field == m.tm.FChildren && cm.isNodePtr(fa.X.Type()) && fa.X == ssa.Value(f.Params[0]) {
						m.extendM = f
					}
					// the same with a node other than the receiver: remembered so that the rule can name it
					if fa, ok := st.Addr.(*ssa.FieldAddr); ok && fa.Field == m.tm.FChildren && cm.isNodePtr(fa.X.Type()) && fa.X != ssa.Value(f.Params[0]) && exportedAPI(f) {
						if _, fresh := fa.X.(*ssa.Alloc); !fresh {
							m.extendWrong = st
						}
					}
				}
			}
		}
	}
	// lookup: recursive method (recv, string) *T that is not the walk
	for _, f := range cm.fs {
		if f == m.walk || f.Signature.Recv() == nil || len(f.Params) != 2 || !core.IsString(f.Params[1].Type()) {
			continue
		}
		if f.Signature.Results().Len() != 1 || !cm.isNodePtr(f.Signature.Results().At(0).Type()) {
			continue
		}
		for _, ci := range core.Calls(f) {
			if ci.Common().StaticCallee() == f {
				m.lookup = f
			}
		}
	}
	for _, f := range cm.fs {
		if exportedAPI(f) && f.Signature.Recv() == nil {
			for _, ci := range core.Calls(f) {
				if ci.Common().StaticCallee() == m.walk {
					m.entries = append(m.entries, f)
				}
			}
		}
	}
	c.Memo["walk"] = m
	return m
}

// walkSite: where function f hands (buffer, limit) to the walk — either a
// direct call of the walk, or a call of a module wrapper h(…) that passes two
// of its own parameters unchanged to the walk (started at the root).
type walkSite struct {
	call     *ssa.Call
	buf, lim ssa.Value
	wrapper  *ssa.Function
}

func (m *walkModel) sitesIn(f *ssa.Function) []walkSite {
	var out []walkSite
	for _, ci := range core.Calls(f) {
		call, ok := ci.(*ssa.Call)
		if !ok {
			continue
		}
		g := call.Call.StaticCallee()
		if g == m.walk && len(call.Call.Args) == 3 {
			out = append(out, walkSite{call, call.Call.Args[1], call.Call.Args[2], nil})
			continue
		}
		if g == nil || !core.InMod(g) || g.Blocks == nil || exportedAPI(g) || g == f {
			continue
		}
		for _, ci2 := range core.Calls(g) {
			c2, ok := ci2.(*ssa.Call)
			if !ok || c2.Call.StaticCallee() != m.walk || len(c2.Call.Args) != 3 {
				continue
			}
			bi, li := -1, -1
			for i, p := range g.Params {
				if c2.Call.Args[1] == ssa.Value(p) {
					bi = i
				}
				if c2.Call.Args[2] == ssa.Value(p) {
					li = i
				}
			}
			if bi >= 0 && li >= 0 {
				out = append(out, walkSite{call, call.Call.Args[bi], call.Call.Args[li], g})
			}
		}
	}
	return out
}

// isParentOf: v is x.parent (load) or ParentAccessor(x).
func (m *walkModel) isParentOf(v, x ssa.Value) bool {
	if base, fld, ok := core.LoadOfField(v); ok && fld == m.tm.FParent && base == x {
		return true
	}
	if call, ok := v.(*ssa.Call); ok && m.parentFn != nil && call.Call.StaticCallee() == m.parentFn && call.Call.Args[0] == x {
		return true
	}
	return false
}

// R03.2
var ruleWalkDiscipline = &core.Rule{ID: "R03.2", Min: 6,
	Doc: "walk discipline: exactly one function invokes detectors; it ranges forward over the current node's children from index 0, gives each detector the walk's own unmodified (header, limit), on acceptance descends into that child at once (the recursion on it is returned; or, in the loop forms, the child becomes the current node and its children are scanned from the first), on rejection moves to the next child, and when no child accepts returns the chain clone of the current node",
	Run: func(c *core.Ctx, s *core.Sink) {
		m := getWalk(c)
		w := m.shape
		f := w.scan
		if len(f.Params) != 3 || !core.IsByteSlice(f.Params[1].Type()) || len(w.walk.Params) != 3 || !core.IsByteSlice(w.walk.Params[1].Type()) {
			core.Bail("walk %s does not have the shape (node, header, limit)", f.Name())
		}
		hdr, lim := f.Params[1], f.Params[2]
		// the node whose children are scanned: scan's receiver, or the outer loop's current node
		var node ssa.Value = f.Params[0]
		if w.form == "loop" {
			node = w.cur
		}
		var chLoad ssa.Value
		for _, b := range f.Blocks {
			for _, in := range b.Instrs {
				if base, fld, ok := core.LoadOfField(valueOf(in)); ok && fld == m.tm.FChildren && base == node {
					chLoad = valueOf(in)
				}
			}
		}
		if chLoad == nil {
			core.Bail("walk %s never reads the current node's children", f.Name())
		}
		rs := fde.FindRangeOver(f, chLoad)
		if len(rs) != 1 {
			s.Bad("forward range over all children", c.Pos(f.Pos()), fmt.Sprintf("%d forward loops over the current node's children from index 0 to len (need exactly 1): children may be skipped or visited out of priority order", len(rs)))
			return
		}
		r := rs[0]
		s.OK("forward range over all children", c.Pos(r.Load.Pos()), "index from 0 to len(children) step 1 ("+w.form+" form)")
		// through blocks that only jump
		skipJumps := func(b *ssa.BasicBlock) *ssa.BasicBlock {
			for k := 0; k < 8; k++ {
				// a block that only jumps, or the latch of an index loop (the increment of the loop's own counter, then a jump)
				okBlk := len(b.Succs) == 1
				for _, in := range b.Instrs {
					switch x := in.(type) {
					case *ssa.Jump, *ssa.DebugRef:
					case *ssa.BinOp:
						if !(x.Op == token.ADD && x.X == ssa.Value(r.Phi) && core.IsConstInt(x.Y, 1) && r.Phi != nil) {
							okBlk = false
						}
					default:
						okBlk = false
					}
				}
				if !okBlk || b == r.Header {
					break
				}
				b = b.Succs[0]
			}
			return b
		}
		// detector calls
		var dets []*ssa.Call
		for _, ci := range core.Calls(f) {
			call, ok := ci.(*ssa.Call)
			if !ok {
				continue
			}
			if _, fld, ok := core.LoadOfField(call.Call.Value); ok && fld == m.tm.FDet && call.Call.StaticCallee() == nil && !call.Call.IsInvoke() {
				dets = append(dets, call)
			}
		}
		s.Check(len(dets) == 1, "one detector call site", c.Pos(f.Pos()), "1", fmt.Sprintf("%d detector call sites in the walk", len(dets)))
		for _, call := range dets {
			child, _, _ := core.LoadOfField(call.Call.Value)
			s.Check(child == ssa.Value(r.Load) && call.Block() == r.Body, "detector of the current child", c.Pos(call.Pos()), "children[i].detector in the loop body", "the detector invoked is not that of the child the loop is looking at")
			s.Check(len(call.Call.Args) == 2 && call.Call.Args[0] == ssa.Value(hdr) && call.Call.Args[1] == ssa.Value(lim), "detector arguments", c.Pos(call.Pos()), "the walk's own (header, limit)", "a detector is not given the walk's own unmodified header and limit: children would judge different bytes than their parent")
			var iff *ssa.If
			for _, ref := range *call.Referrers() {
				if x, ok := ref.(*ssa.If); ok {
					iff = x
				}
			}
			if iff == nil || iff.Block() != call.Block() {
				s.Bad("detector result decides the descent", c.Pos(call.Pos()), "the detector's verdict is not the branch condition of the loop body")
				continue
			}
			tb, fb := iff.Block().Succs[0], iff.Block().Succs[1]
			okDesc := false
			switch w.form {
			case "recursive":
				if ret := retOf(tb); ret != nil {
					if rc, ok := ret.Results[0].(*ssa.Call); ok && rc.Call.StaticCallee() == f && rc.Block() == tb &&
						rc.Call.Args[0] == child && rc.Call.Args[1] == ssa.Value(hdr) && rc.Call.Args[2] == ssa.Value(lim) {
						okDesc = true
					}
				}
			case "loop":
				// the accepting edge leads straight back to the outer header, carrying the child as the new current node
				from := tb
				for k := 0; k < 8 && from != w.outer; k++ {
					if len(from.Instrs) != 1 || len(from.Succs) != 1 {
						break
					}
					if from.Succs[0] == w.outer {
						break
					}
					from = from.Succs[0]
				}
				if len(from.Succs) == 1 && from.Succs[0] == w.outer && len(from.Instrs) == 1 {
					for k, p := range w.outer.Preds {
						if p == from && w.cur.(*ssa.Phi).Edges[k] == child {
							okDesc = true
						}
					}
				}
			case "loop+helper":
				if ret := retOf(tb); ret != nil && ret.Results[0] == child {
					okDesc = true
				}
			}
			s.Check(okDesc, "acceptance descends into that child at once", c.Pos(call.Pos()), map[string]string{"recursive": "return walk(child, header, limit)", "loop": "current = child; restart the scan", "loop+helper": "return child"}[w.form],
				"when a child accepts, the walk does not immediately descend into that same child with the same arguments (last-match, skipping, or altered arguments)")
			s.Check(skipJumps(fb) == r.Header, "rejection moves to the next child", c.Pos(call.Pos()), "back edge to the loop header", "when a child rejects, the walk does not simply continue with the next child")
		}
		// after the children loop of scan
		done := core.ReachAvoiding(r.Done, map[*ssa.BasicBlock]bool{r.Header: true})
		tailOK := func(fn *ssa.Function, in map[*ssa.BasicBlock]bool) {
			n := 0
			for _, ret := range core.Returns(fn) {
				if !in[ret.Block()] {
					continue
				}
				n++
				rc, ok := spilled(ret, 0).(*ssa.Call)
				s.Check(ok && rc.Call.StaticCallee() == m.chain && rc.Call.Args[0] == w.cur, "no child matched: "+returnOrdinal(ret), c.Pos(ret.Pos()), "chain clone of the current node", "when no child accepts, the result is not the clone of the current node's own chain")
			}
			s.Check(n >= 1, "loop exit returns", c.Pos(fn.Pos()), fmt.Sprint(n), "no return after the children loop")
		}
		switch w.form {
		case "recursive":
			tailOK(f, done)
			for _, ret := range core.Returns(f) {
				if done[ret.Block()] {
					continue
				}
				if rc, ok := ret.Results[0].(*ssa.Call); ok && rc.Call.StaticCallee() == f {
					continue
				}
				s.Bad("stray return in the walk: "+returnOrdinal(ret), c.Pos(ret.Pos()), "a return that is neither the recursion on an accepting child nor the clone after the loop")
			}
		case "loop":
			// leaving the children loop without an accepting child never re-enters the outer loop
			s.Check(!done[w.outer], "no accepting child ends the descent", c.Pos(r.Done.Instrs[0].Pos()), "the exit of the children loop does not lead back to the outer loop", "after a level without an accepting child the walk goes round again: the descent may restart or never end")
			tailOK(f, done)
			for _, ret := range core.Returns(f) {
				if !done[ret.Block()] {
					s.Bad("stray return in the walk: "+returnOrdinal(ret), c.Pos(ret.Pos()), "a return that is not the clone after the descent")
				}
			}
			// the outer loop does nothing but restart the scan: the only back edges are the accepting ones
			for k, p := range w.outer.Preds {
				if w.outer.Dominates(p) {
					s.Check(w.cur.(*ssa.Phi).Edges[k] == ssa.Value(r.Load), "outer loop continues only with an accepting child", c.Pos(w.outer.Instrs[0].Pos()), "current = accepting child", "the descent continues with a node that is not the child that accepted")
				}
			}
		case "loop+helper":
			// scan: nil after the loop, nothing else
			for _, ret := range core.Returns(f) {
				if done[ret.Block()] {
					s.Check(core.IsNilConst(ret.Results[0]), f.Name()+": no child matched: "+returnOrdinal(ret), c.Pos(ret.Pos()), "nil", "the child scan reports a node although no child accepted")
				} else if ret.Results[0] != ssa.Value(r.Load) {
					s.Bad(f.Name()+": stray return: "+returnOrdinal(ret), c.Pos(ret.Pos()), "the child scan returns something other than the accepting child")
				}
			}
			// walk: scan(cur, header, limit) with the walk's own arguments; nil ends the descent with the tail, non-nil becomes the current node
			g, call := w.walk, w.scanCall
			for _, sc := range w.scanCalls {
				s.Check(sc.Call.Args[1] == ssa.Value(g.Params[1]) && sc.Call.Args[2] == ssa.Value(g.Params[2]), "child scan receives the walk's own (header, limit): "+callOrdinal(sc), c.Pos(sc.Pos()), "unmodified arguments", "the child scan is not given the walk's own unmodified header and limit")
				// it scans the children of the current node: the receiver first, afterwards the node just accepted
				a0 := sc.Call.Args[0]
				s.Check(a0 == w.cur || a0 == ssa.Value(g.Params[0]) || a0 == w.next, "child scan looks at the current node: "+callOrdinal(sc), c.Pos(sc.Pos()), "scan(current node)", "the child scan is started on a node other than the current one")
			}
			var iff *ssa.If
			var nilEdge, nonNil *ssa.BasicBlock
			for _, ref := range *w.next.Referrers() {
				if bo, ok := ref.(*ssa.BinOp); ok && core.IsNilConst(bo.Y) && (bo.Op == token.EQL || bo.Op == token.NEQ) {
					for _, r2 := range *bo.Referrers() {
						if x, ok := r2.(*ssa.If); ok {
							iff = x
							nilEdge, nonNil = x.Block().Succs[0], x.Block().Succs[1]
							if bo.Op == token.NEQ {
								nilEdge, nonNil = nonNil, nilEdge
							}
						}
					}
				}
			}
			if iff == nil {
				s.Bad("result of the child scan decides the descent", c.Pos(call.Pos()), "the result of the child scan is not tested against nil")
				return
			}
			// every path from the non-nil edge returns to the outer header (cur = result, checked by the shape), the nil edge never does
			back := core.ReachAvoiding(nonNil, map[*ssa.BasicBlock]bool{w.outer: true})
			okBack := true
			for b := range back {
				if retOf(b) != nil {
					okBack = false
				}
			}
			s.Check(okBack, "acceptance continues the descent", c.Pos(iff.Pos()), "non-nil result: current = child, scan again", "after a child accepted the walk can return without descending into it")
			tail := core.ReachAvoiding(nilEdge, map[*ssa.BasicBlock]bool{})
			s.Check(!tail[w.outer], "no accepting child ends the descent", c.Pos(iff.Pos()), "nil result leaves the loop", "after a level without an accepting child the walk goes round again")
			tailOK(g, tail)
			for _, ret := range core.Returns(g) {
				if !tail[ret.Block()] {
					s.Bad("stray return in the walk: "+returnOrdinal(ret), c.Pos(ret.Pos()), "a return that is not the clone after the descent")
				}
			}
		}
	}}

// R03.4
var ruleElemPointers = &core.Rule{ID: "R03.4", Min: 1,
	Doc: "result nodes are not addressed inside a slice that still grows: in the functions that build detection results (the chain clone and the copy functions) no address of a slice element is stored or returned while an append to the same slice can still follow (append may move the elements to a new array: links taken before point into the old one, whose later elements are never filled in)",
	Run: func(c *core.Ctx, s *core.Sink) {
		m := getWalk(c)
		fns := append([]*ssa.Function{m.chain}, m.clones...)
		n := 0
		for _, f := range fns {
			if f == nil || f.Blocks == nil {
				continue
			}
			// the slice variable a value belongs to: connected through phis and appends
			family := func(root ssa.Value) map[ssa.Value]bool {
				fam := map[ssa.Value]bool{}
				var grow func(v ssa.Value)
				grow = func(v ssa.Value) {
					if v == nil || fam[v] {
						return
					}
					if _, ok := v.Type().Underlying().(*types.Slice); !ok {
						return
					}
					fam[v] = true
					switch x := v.(type) {
					case *ssa.Phi:
						for _, e := range x.Edges {
							grow(e)
						}
					case *ssa.Call:
						if core.IsBuiltin(&x.Call, "append") {
							grow(x.Call.Args[0])
						}
					}
					if refs := v.Referrers(); refs != nil {
						for _, ref := range *refs {
							switch y := ref.(type) {
							case *ssa.Phi:
								grow(y)
							case *ssa.Call:
								if core.IsBuiltin(&y.Call, "append") && y.Call.Args[0] == v {
									grow(y)
								}
							}
						}
					}
				}
				grow(root)
				return fam
			}
			for _, b := range f.Blocks {
				for _, in := range b.Instrs {
					ia, ok := in.(*ssa.IndexAddr)
					if !ok {
						continue
					}
					if _, isSl := ia.X.Type().Underlying().(*types.Slice); !isSl {
						continue
					}
					// does the element address escape (stored as a value, returned)?
					escapes := false
					for _, ref := range *ia.Referrers() {
						switch y := ref.(type) {
						case *ssa.Store:
							if y.Val == ssa.Value(ia) {
								escapes = true
							}
						case *ssa.Return:
							escapes = true
						}
					}
					if !escapes {
						continue
					}
					n++
					key := fmt.Sprintf("%s: element address #%d", core.FName(f), n)
					fam := family(ia.X)
					later := ""
					reach := core.Reach(b)
					for v := range fam {
						call, ok := v.(*ssa.Call)
						if !ok || !core.IsBuiltin(&call.Call, "append") {
							continue
						}
						after := false
						if call.Block() == b {
							after = core.InstrIndex(call) > core.InstrIndex(ia)
						}
						if !after && call.Block() != b && reach[call.Block()] {
							after = true
						}
						if !after && call.Block() == b && reach[b] && core.InstrIndex(call) < core.InstrIndex(ia) {
							after = b.Dominates(b) && loopBlock(b) // the same block again, one round later
						}
						if after {
							later = c.Pos(call.Pos())
						}
					}
					s.Check(later == "", key, c.Pos(ia.Pos()), "no append to that slice can follow", "the address of a slice element is kept (as a parent link or as the result) while the slice is still appended to at "+later+": when append moves the elements, the link points into the old array and the chain behind it is lost")
				}
			}
		}
		if n == 0 {
			s.OK("no result node is addressed inside a slice", c.Pos(m.chain.Pos()), "every result node is allocated on its own")
		}
	}}

// loopBlock: b can reach itself.
func loopBlock(b *ssa.BasicBlock) bool {
	for _, sc := range b.Succs {
		if sc == b || core.Reach(sc)[b] {
			return true
		}
	}
	return false
}

// R03.3
var ruleCloneChain = &core.Rule{ID: "R03.3", Min: 5,
	Doc: "chain clone: returns the clone of the receiver (with the parameter map); loops p = parent(receiver); p != nil; p = parent(p); each ancestor is cloned without parameters and linked as parent of the previous clone; a copy is a call of the clone function or a node allocated in place; it copies type, aliases, extension and nothing else; the side of the nil test taken while an ancestor exists is the one that stays in the loop",
	Run: func(c *core.Ctx, s *core.Sink) {
		m := getWalk(c)
		f := m.chain
		bodies := m.copyBodies()
		if len(bodies) == 0 {
			core.Bail("no allocation of a result node found in the chain clone or a clone function it calls")
		}
		// a copy function hands out a node it allocated itself, or the copy another copy function makes of the same
		// node; the latter may drop the parameter map only when that map is empty
		if len(m.clones) > 1 {
			for _, cl := range m.clones {
				for _, r := range core.Returns(cl) {
					key := cl.Name() + ": hands out a fresh copy: " + returnOrdinal(r)
					v := r.Results[0]
					if al, isAl := v.(*ssa.Alloc); isAl && al.Heap && al.Parent() == cl {
						s.OK(key, c.Pos(r.Pos()), "node allocated here")
						continue
					}
					call, isCall := v.(*ssa.Call)
					if !isCall || !m.isClone(call.Call.StaticCallee()) || call.Call.Args[0] != ssa.Value(cl.Params[0]) {
						s.Bad(key, c.Pos(r.Pos()), "a copy function returns something other than a node it allocated or another copy of the same node")
						continue
					}
					okPs := true
					if len(cl.Params) > 1 {
						ps := cl.Params[1]
						passes := len(call.Call.Args) > 1 && call.Call.Args[1] == ssa.Value(ps)
						empty := false
						for _, de := range core.DominatingConds(call.Block()) {
							cond, val := core.StripNot(de.Cond, de.Val)
							bo, isBo := cond.(*ssa.BinOp)
							if !isBo {
								continue
							}
							if ln, isLen := bo.X.(*ssa.Call); isLen && core.IsBuiltin(&ln.Call, "len") && ln.Call.Args[0] == ssa.Value(ps) && core.IsConstInt(bo.Y, 0) {
								if (bo.Op == token.EQL && val) || (bo.Op == token.NEQ && !val) || (bo.Op == token.GTR && !val) || (bo.Op == token.LEQ && val) {
									empty = true
								}
							}
							if bo.X == ssa.Value(ps) && core.IsNilConst(bo.Y) && ((bo.Op == token.EQL && val) || (bo.Op == token.NEQ && !val)) {
								empty = true
							}
							if k, isK := core.ConstString(bo.Y); isK && k == "" && bo.X == ssa.Value(ps) && ((bo.Op == token.EQL && val) || (bo.Op == token.NEQ && !val)) {
								empty = true
							}
						}
						// or the copy's type string is rewritten here with the parameters (judged by R02.3)
						overridden := false
						for _, ref := range *call.Referrers() {
							if fa, ok := ref.(*ssa.FieldAddr); ok && fa.Field == m.tm.FMime {
								for _, r2 := range *fa.Referrers() {
									if st, ok := r2.(*ssa.Store); ok {
										if fc, ok := st.Val.(*ssa.Call); ok && core.CalleeIs(&fc.Call, "mime", "FormatMediaType") && fc.Call.Args[1] == ssa.Value(ps) {
											overridden = true
										}
									}
								}
							}
						}
						okPs = passes || empty || overridden
					}
					s.Check(okPs, key, c.Pos(r.Pos()), "copy of the same node by "+call.Call.StaticCallee().Name()+"; parameters passed on or empty", "the copy is delegated to a function that does not receive the parameter map although the map may hold parameters: the result loses its charset")
				}
			}
		}
		recv := f.Params[0]
		var first *nodeCopy
		for _, ci := range core.Calls(f) {
			if call, ok := ci.(*ssa.Call); ok {
				if nc := m.copyOf(call); nc != nil && nc.src == ssa.Value(recv) {
					first = nc
				}
			}
		}
		for _, nc := range bodies {
			if nc.fn == f && nc.src == ssa.Value(recv) {
				first = nc
			}
		}
		if first == nil {
			s.Bad("first clone", c.Pos(f.Pos()), "the chain clone does not start with a clone of its receiver")
			return
		}
		s.Check(len(f.Params) == 2 && first.ps == ssa.Value(f.Params[1]), "leaf clone carries the parameter map", c.Pos(first.val.Pos()), "clone(receiver, ps)", "the leaf clone is not built with the caller's parameter map")
		for _, r := range core.Returns(f) {
			s.Check(r.Results[0] == first.val, "returns the leaf clone: "+returnOrdinal(r), c.Pos(r.Pos()), "first clone", "the chain clone returns something other than the clone of its receiver")
		}
		// recursive spelling: copy(m, ps).parent = chain(parent(m), nil) as long as there is a parent
		var self *ssa.Call
		for _, ci := range core.Calls(f) {
			if call, ok := ci.(*ssa.Call); ok && call.Call.StaticCallee() == f {
				self = call
			}
		}
		if self != nil {
			s.Check(m.isParentOf(self.Call.Args[0], recv), "step to the next ancestor", c.Pos(self.Pos()), "chain(parent(receiver), nil)", "the recursion does not continue with the parent of the current node")
			s.Check(len(self.Call.Args) == 2 && core.IsNilConst(self.Call.Args[1]), "ancestor clone has no parameters", c.Pos(self.Pos()), "nil parameter map", "an ancestor is cloned with a parameter map: the Parent() chain would carry parameters")
			// it runs exactly when the current node has a parent
			okCond := false
			for _, de := range core.DominatingConds(self.Block()) {
				cond, val := core.StripNot(de.Cond, de.Val)
				if bo, ok := cond.(*ssa.BinOp); ok && core.IsNilConst(bo.Y) && m.isParentOf(bo.X, recv) && ((bo.Op == token.NEQ && val) || (bo.Op == token.EQL && !val)) {
					okCond = true
				}
			}
			// and nothing else decides: the only branch around the call is that test
			nConds := len(core.DominatingConds(self.Block()))
			s.Check(okCond && nConds == 1, "loop ends only at the root", c.Pos(self.Pos()), "condition parent != nil", "the ancestors are cloned under a condition other than `the node has a parent`: the chain could be cut short (a node whose type string equals the root's) or overrun")
			linked := false
			for _, ref := range *self.Referrers() {
				if st, ok := ref.(*ssa.Store); ok && st.Val == ssa.Value(self) {
					if fa, ok := st.Addr.(*ssa.FieldAddr); ok && fa.Field == m.tm.FParent && fa.X == first.val {
						linked = true
					}
				}
			}
			s.Check(linked, "previous clone is linked to it", c.Pos(self.Pos()), "copy.parent = chain(parent, nil)", "the clone of the ancestors is not stored as parent of the node's clone")
			s.OK("ancestor is cloned", c.Pos(self.Pos()), "by the recursion (leaf clone checked above)")
			checkCopyFields(c, s, m, bodies, nil)
			return
		}
		// the loop
		var pPhi, lastPhi *ssa.Phi
		for _, b := range f.Blocks {
			for _, in := range b.Instrs {
				ph, ok := in.(*ssa.Phi)
				if !ok {
					break
				}
				for _, e := range ph.Edges {
					if m.isParentOf(e, recv) {
						pPhi = ph
					}
					if e == first.val {
						lastPhi = ph
					}
				}
			}
		}
		if pPhi != nil && lastPhi == nil {
			// the loop may carry, instead of the previous clone, the address of its still empty parent field
			for _, in := range pPhi.Block().Instrs {
				link, ok := in.(*ssa.Phi)
				if !ok {
					break
				}
				h := link.Block()
				okLink, nBack := true, 0
				var cl0 *nodeCopy
				for k, pred := range h.Preds {
					fa, isFA := link.Edges[k].(*ssa.FieldAddr)
					if !isFA || fa.Field != m.tm.FParent {
						okLink = false
						break
					}
					if !h.Dominates(pred) {
						if fa.X != first.val {
							okLink = false
						}
						continue
					}
					nBack++
					// back edge: &(*link).parent, read after *link = <copy of p> in the same block
					ld, isLd := fa.X.(*ssa.UnOp)
					if !isLd || ld.Op != token.MUL || ld.X != ssa.Value(link) || ld.Block() != pred {
						okLink = false
						break
					}
					var stored ssa.Value
					for _, x := range pred.Instrs {
						if x == ssa.Instruction(ld) {
							break
						}
						if st, isSt := x.(*ssa.Store); isSt && st.Addr == ssa.Value(link) {
							stored = st.Val
						}
					}
					cl := m.copyOf(stored)
					if cl == nil {
						okLink = false
						break
					}
					cl0 = cl
					s.Check(m.isParentOf(pPhi.Edges[k], pPhi), "step to the next ancestor", c.Pos(pred.Instrs[0].Pos()), "p = parent(p)", "the loop does not advance to the parent of the current ancestor")
					s.Check(cl.src == ssa.Value(pPhi), "ancestor is cloned", c.Pos(pred.Instrs[0].Pos()), "clone(p, nil)", "the value linked into the result chain is not a fresh clone of the current ancestor (a shared tree node would leak to the caller)")
					s.Check(cl.ps == nil, "ancestor clone has no parameters", c.Pos(cl.val.Pos()), "nil parameter map", "an ancestor is cloned with a parameter map: the Parent() chain would carry parameters")
					s.OK("previous clone is linked to it", c.Pos(cl.val.Pos()), "*link = clone, link = &clone.parent")
				}
				if !okLink || nBack == 0 || cl0 == nil {
					continue
				}
				// exit only on p == nil
				okExit := false
				if iff := core.IfOf(h); iff != nil {
					if bo, ok := iff.Cond.(*ssa.BinOp); ok && bo.X == ssa.Value(pPhi) && core.IsNilConst(bo.Y) && (bo.Op == token.NEQ || bo.Op == token.EQL) {
						// the side taken while p != nil is the one that stays in the loop
						in := loopBlocks(h)
						stay, leave := h.Succs[0], h.Succs[1]
						if bo.Op == token.EQL {
							stay, leave = leave, stay
						}
						okExit = in[stay] && !in[leave]
					}
				}
				s.Check(okExit, "loop ends only at the root", c.Pos(h.Instrs[0].Pos()), "condition p != nil", "the ancestor loop does not run until the parent is nil: the chain could be cut short or overrun")
				checkCopyFields(c, s, m, bodies, nil)
				return
			}
		}
		if pPhi == nil || lastPhi == nil || pPhi.Block() != lastPhi.Block() {
			s.Bad("ancestor loop", c.Pos(f.Pos()), "no loop carrying (current ancestor, previous clone) starting at (parent(receiver), leaf clone)")
			return
		}
		h := pPhi.Block()
		// exit only on p == nil
		iff := core.IfOf(h)
		okExit := false
		var body *ssa.BasicBlock
		if iff != nil {
			if bo, ok := iff.Cond.(*ssa.BinOp); ok && bo.X == ssa.Value(pPhi) && core.IsNilConst(bo.Y) {
				if bo.Op == token.NEQ {
					okExit, body = true, h.Succs[0]
				} else if bo.Op == token.EQL {
					okExit, body = true, h.Succs[1]
				}
				// the side taken while p != nil is the one that stays in the loop, the other one leaves it
				if in := loopBlocks(h); body != nil {
					other := h.Succs[0]
					if other == body {
						other = h.Succs[1]
					}
					if !in[body] || in[other] {
						okExit = false
					}
				}
			}
		}
		s.Check(okExit, "loop ends only at the root", c.Pos(h.Instrs[0].Pos()), "condition p != nil", "the ancestor loop does not run until the parent is nil: the chain could be cut short or overrun")
		if body == nil {
			return
		}
		// back edge values
		for k, pred := range h.Preds {
			if !h.Dominates(pred) {
				continue
			}
			s.Check(m.isParentOf(pPhi.Edges[k], pPhi), "step to the next ancestor", c.Pos(pred.Instrs[0].Pos()), "p = parent(p)", "the loop does not advance to the parent of the current ancestor")
			cl := m.copyOf(lastPhi.Edges[k])
			if cl == nil {
				// tail = tail.parent right after tail.parent = <copy of p>: the next link is read back from the field just stored
				if base, fld, isLd := core.LoadOfField(lastPhi.Edges[k]); isLd && fld == m.tm.FParent && base == ssa.Value(lastPhi) {
					for _, ref := range *lastPhi.Referrers() {
						if fa, isFA := ref.(*ssa.FieldAddr); isFA && fa.Field == m.tm.FParent {
							for _, r2 := range *fa.Referrers() {
								if st, isSt := r2.(*ssa.Store); isSt && st.Block() == pred {
									cl = m.copyOf(st.Val)
								}
							}
						}
					}
				}
			}
			okClone := cl != nil && cl.src == ssa.Value(pPhi)
			s.Check(okClone, "ancestor is cloned", c.Pos(pred.Instrs[0].Pos()), "clone(p, nil)", "the value linked into the result chain is not a fresh clone of the current ancestor (a shared tree node would leak to the caller)")
			if okClone {
				s.Check(cl.ps == nil, "ancestor clone has no parameters", c.Pos(cl.val.Pos()), "nil parameter map", "an ancestor is cloned with a parameter map: the Parent() chain would carry parameters")
				// store lastChild.parent = clone
				linked := false
				for _, ref := range *lastPhi.Referrers() {
					if fa, ok := ref.(*ssa.FieldAddr); ok && fa.Field == m.tm.FParent {
						for _, r2 := range *fa.Referrers() {
							if st, ok := r2.(*ssa.Store); ok && st.Val == cl.val {
								linked = true
							}
						}
					}
				}
				s.Check(linked, "previous clone is linked to it", c.Pos(cl.val.Pos()), "prev.parent = clone", "the clone of an ancestor is not stored as parent of the previous clone")
			}
		}
		checkCopyFields(c, s, m, bodies, lastPhi)
	}}

// checkCopyFields: the stores into fresh result nodes (in the clone function and in the chain function).
func checkCopyFields(c *core.Ctx, s *core.Sink, m *walkModel, bodies []*nodeCopy, lastPhi *ssa.Phi) {
	// the fields of every fresh result node
	st := m.tm.Type.Underlying().(*types.Struct)
	// completeness: a fresh result node carries the type string, the aliases and the extension of the node it copies
	for i, nc := range bodies {
		if nc.alloc == nil {
			continue
		}
		set := map[int]bool{}
		for _, ref := range *nc.alloc.Referrers() {
			if fa, ok := ref.(*ssa.FieldAddr); ok {
				for _, r2 := range *fa.Referrers() {
					if x, ok := r2.(*ssa.Store); ok && x.Addr == ssa.Value(fa) {
						set[fa.Field] = true
					}
				}
			}
		}
		var missing []string
		for _, fld := range []int{m.tm.FMime, m.tm.FAliases, m.tm.FExt} {
			if !set[fld] {
				missing = append(missing, "."+st.Field(fld).Name())
			}
		}
		key := fmt.Sprintf("%s: result node #%d carries type, aliases and extension", nc.fn.Name(), i+1)
		s.Check(len(missing) == 0, key, c.Pos(nc.alloc.Pos()), "all three stored", "a result node is built without "+strings.Join(missing, ", ")+" of the node it stands for: Is(alias) / Extension() of the result differ from the registered format")
	}
	for _, fn := range append(append([]*ssa.Function{}, m.clones...), m.chain) {
		if fn == nil {
			continue
		}
		for _, b := range fn.Blocks {
			for _, in := range b.Instrs {
				x, ok := in.(*ssa.Store)
				if !ok {
					continue
				}
				fa, ok := x.Addr.(*ssa.FieldAddr)
				if !ok {
					continue
				}
				if pt, ok := fa.X.Type().Underlying().(*types.Pointer); !ok || !types.Identical(pt.Elem(), m.tm.Type) {
					continue
				}
				var nc *nodeCopy
				for _, cand := range bodies {
					if fa.X == cand.val && (cand.alloc != nil || cand.fn == fn) {
						nc = cand
					}
				}
				if nc == nil {
					// the link store prev.parent = copy is the only store through a non-fresh pointer, and prev is itself a copy (the carried phi)
					if fn == m.chain && fa.Field == m.tm.FParent && lastPhi != nil && fa.X == ssa.Value(lastPhi) {
						continue
					}
					// recursive spelling: the fresh leaf copy (a clone call) is linked to the chain of its ancestors
					if fn == m.chain && fa.Field == m.tm.FParent && m.copyOf(fa.X) != nil {
						if rc, isCall := x.Val.(*ssa.Call); isCall && rc.Call.StaticCallee() == m.chain {
							continue
						}
					}
					s.Bad(fmt.Sprintf("%s: store to .%s of a non-fresh object", fn.Name(), st.Field(fa.Field).Name()), c.Pos(x.Pos()), "clone writes to something other than the object it allocates")
					continue
				}
				key := fmt.Sprintf("%s: field .%s of the clone", fn.Name(), st.Field(fa.Field).Name())
				switch fa.Field {
				case m.tm.FMime:
					s.OK(key, c.Pos(x.Pos()), "checked by R02.3")
				case m.tm.FAliases, m.tm.FExt:
					base, fld, ok := core.LoadOfField(x.Val)
					s.Check(ok && fld == fa.Field && nc.src != nil && base == nc.src, key, c.Pos(x.Pos()), "copied from the cloned node", "a clone's field is not copied from the cloned node")
				case m.tm.FParent:
					// in-place form of the link: the parent of a fresh node may only be another fresh copy
					s.Check(m.copyOf(x.Val) != nil, key, c.Pos(x.Pos()), "linked to a fresh copy", "a result node is linked to a node of the shared tree")
				default:
					s.Bad(key, c.Pos(x.Pos()), "clone sets a field (children / parent / detector) that a result value must not share with the tree")
				}
			}
		}
	}
}

// R02.2 + R02.3
var ruleParams = &core.Rule{ID: "R02.2", Min: 5,
	Doc: "parameter discipline: the parameter map given to the chain clone is fresh and written only with the constant key charset, only with the non-empty result of the sniffer selected by the current node's own type (map lookup, selection function, or direct calls under tests of the type) on the walk's unmodified header; the clone turns it into the result's type string only through mime.FormatMediaType(registered type, map); a copy that is handed parameters has mime.FormatMediaType(type, ps) among the sources of its type string",
	Run: func(c *core.Ctx, s *core.Sink) {
		m := getWalk(c)
		cm := getCharset(c)
		f := m.walk
		// where the parameters are computed: in the walk, or in a helper of the walk that receives the current node
		// and the walk's unmodified header and returns the parameters
		srcFn, curV, hdrV := f, m.shape.cur, ssa.Value(f.Params[1])
		var psOverride ssa.Value
		for _, ci := range core.Calls(f) {
			call, ok := ci.(*ssa.Call)
			if !ok || call.Call.StaticCallee() != m.chain {
				continue
			}
			hc, ok := call.Call.Args[1].(*ssa.Call)
			if !ok {
				continue
			}
			h := hc.Call.StaticCallee()
			if h == nil || !core.InMod(h) || h.Blocks == nil || h == m.chain {
				continue
			}
			ci2, hi := -1, -1
			for i, a := range hc.Call.Args {
				if a == m.shape.cur {
					ci2 = i
				}
				if a == ssa.Value(f.Params[1]) {
					hi = i
				}
			}
			var ret ssa.Value
			same := true
			for _, r := range core.Returns(h) {
				if ret != nil && r.Results[0] != ret {
					same = false
				}
				ret = r.Results[0]
			}
			if ci2 >= 0 && hi >= 0 && same && ret != nil && len(hc.Call.Args) == 2 {
				srcFn, curV, hdrV, psOverride = h, h.Params[ci2], h.Params[hi], ret
			}
		}
		if cm.walk != srcFn {
			s.Bad("sniffer map is consulted by the walk", c.Pos(cm.walk.Pos()), "the sniffer map is consulted outside the walk function")
		}
		if cm.mapGlobal != nil {
			// a package-level table must never be written after initialisation
			for _, g := range c.AllModFuncs() {
				for _, b := range g.Blocks {
					for _, in := range b.Instrs {
						if mu, ok := in.(*ssa.MapUpdate); ok && cm.isSnifferMap(mu.Map) && !(g.Name() == "init" && g.Synthetic != "") {
							s.Bad("sniffer table written after initialisation", c.Pos(mu.Pos()), "the package-level sniffer table is modified outside the package initialiser")
						}
					}
				}
			}
		}
		// the parameter map passed to chain
		for _, ci := range core.Calls(f) {
			call, ok := ci.(*ssa.Call)
			if !ok || call.Call.StaticCallee() != m.chain {
				continue
			}
			ps := call.Call.Args[1]
			if psOverride != nil {
				ps = psOverride
			}
			if core.IsString(ps.Type()) {
				// the charset travels as a plain string ("" = none); the map with the single key charset is built
				// where the type string is formatted (checked below with the clone)
				srcs := []ssa.Value{ps}
				if ph, isPhi := ps.(*ssa.Phi); isPhi {
					srcs = ph.Edges
				}
				okAll, n := true, 0
				for _, v := range srcs {
					if k, isC := core.ConstString(v); isC && k == "" {
						continue
					}
					vcall, isCall := v.(*ssa.Call)
					okOne := false
					if isCall && vcall.Call.StaticCallee() == nil {
						if lk := cm.lookupOf(vcall.Call.Value); lk != nil {
							base, fld, isLoad := core.LoadOfField(lk.key)
							guarded := false
							for _, de := range core.DominatingConds(vcall.Block()) {
								if lk.found(de) {
									guarded = true
								}
							}
							okOne = isLoad && fld == m.tm.FMime && base == curV && len(vcall.Call.Args) == 1 && vcall.Call.Args[0] == hdrV && guarded
						}
					}
					if isCall && cm.direct != nil && cm.direct[vcall] != "" {
						okOne = cm.directKeyBase(c, vcall) == curV && len(vcall.Call.Args) == 1 && vcall.Call.Args[0] == hdrV
					}
					if okOne {
						n++
					} else {
						okAll = false
					}
				}
				s.OK("parameter map origin", c.Pos(call.Pos()), "charset carried as a string")
				s.Check(okAll && n > 0, "charset value provenance", c.Pos(call.Pos()), "\"\" or sniffer[current node's type](header)", "the charset value is not the result of the sniffer selected by the receiver's own type on the walk's unmodified header")
				s.OK("parameter key", c.Pos(call.Pos()), "the key is fixed where the map is built (checked with the clone)")
				s.OK("charset only when non-empty", c.Pos(call.Pos()), "the clone formats only a non-empty charset (checked with the clone)")
				continue
			}
			if ph, isPhi := ps.(*ssa.Phi); isPhi {
				// nil on the paths without a charset, one fresh map on the path with it
				var one ssa.Value
				okPhi := true
				for _, e := range ph.Edges {
					if core.IsNilConst(e) {
						continue
					}
					if _, isMk := e.(*ssa.MakeMap); !isMk || (one != nil && one != e) {
						okPhi = false
					}
					one = e
				}
				if okPhi && one != nil {
					ps = one
				}
			}
			mk, ok := ps.(*ssa.MakeMap)
			if !ok {
				s.Check(core.IsNilConst(ps), "parameter map origin", c.Pos(call.Pos()), "nil", "the parameter map handed to the chain clone is neither fresh nor nil")
				continue
			}
			s.OK("parameter map origin", c.Pos(mk.Pos()), "fresh map")
			for _, ref := range *mk.Referrers() {
				switch x := ref.(type) {
				case *ssa.MapUpdate:
					k, isC := core.ConstString(x.Key)
					s.Check(isC && k == "charset", "parameter key", c.Pos(x.Pos()), "constant \"charset\"", fmt.Sprintf("parameter %s added to the result: only charset may be attached", x.Key))
					// value: result of calling the looked-up sniffer on the header
					vcall, isCall := x.Value.(*ssa.Call)
					okVal := false
					if isCall && vcall.Call.StaticCallee() == nil {
						if lk := cm.lookupOf(vcall.Call.Value); lk != nil {
							base, fld, isLoad := core.LoadOfField(lk.key)
							if isLoad && fld == m.tm.FMime && base == curV && len(vcall.Call.Args) == 1 && vcall.Call.Args[0] == hdrV {
								okVal = true
								// guarded by the found test
								guarded, nonEmpty := false, false
								for _, de := range core.DominatingConds(x.Block()) {
									cond, val := core.StripNot(de.Cond, de.Val)
									if lk.found(de) {
										guarded = true
									}
									if bo, ok := cond.(*ssa.BinOp); ok && bo.X == ssa.Value(vcall) {
										if k, ok := core.ConstString(bo.Y); ok && k == "" && ((bo.Op == token.NEQ && val) || (bo.Op == token.EQL && !val)) {
											nonEmpty = true
										}
									}
								}
								s.Check(guarded, "charset only for the three text types", c.Pos(x.Pos()), "under the found edge of the sniffer lookup by the receiver's type", "charset is attached outside the ok edge of the sniffer lookup")
								s.Check(nonEmpty, "charset only when non-empty", c.Pos(x.Pos()), "under sniffer result != \"\"", "an empty charset parameter may be attached")
							}
						}
					}
					if !okVal && cm.direct != nil {
						// inline form: the value is a direct sniffer call (or a phi of such calls and ""), each selected
						// by the current node's own type and applied to the walk's unmodified header
						var srcs []ssa.Value
						if ph, isPhi := x.Value.(*ssa.Phi); isPhi {
							srcs = ph.Edges
						} else {
							srcs = []ssa.Value{x.Value}
						}
						okVal = true
						nCalls := 0
						for _, v := range srcs {
							if k, isC := core.ConstString(v); isC && k == "" {
								continue
							}
							dc, isCall := v.(*ssa.Call)
							if !isCall || cm.direct[dc] == "" || cm.directKeyBase(c, dc) != curV || len(dc.Call.Args) != 1 || dc.Call.Args[0] != hdrV {
								okVal = false
								continue
							}
							nCalls++
						}
						if nCalls == 0 {
							okVal = false
						}
						nonEmpty := false
						for _, de := range core.DominatingConds(x.Block()) {
							cond, val := core.StripNot(de.Cond, de.Val)
							if bo, ok := cond.(*ssa.BinOp); ok && bo.X == x.Value {
								if k, ok := core.ConstString(bo.Y); ok && k == "" && ((bo.Op == token.NEQ && val) || (bo.Op == token.EQL && !val)) {
									nonEmpty = true
								}
							}
						}
						if okVal {
							s.OK("charset only for the three text types", c.Pos(x.Pos()), "each sniffer call sits under the test of the current node's type")
							s.Check(nonEmpty, "charset only when non-empty", c.Pos(x.Pos()), "under sniffer result != \"\"", "an empty charset parameter may be attached")
						}
					}
					s.Check(okVal, "charset value provenance", c.Pos(x.Pos()), "sniffer[receiver type](header)", "the charset value is not the result of the sniffer selected by the receiver's own type on the walk's unmodified header")
				case *ssa.Call, *ssa.DebugRef:
				case *ssa.Return:
					// the parameter helper hands its fresh map to the walk
					if psOverride == nil || ref.Parent() != srcFn {
						s.Bad("parameter map use", c.Pos(ref.Pos()), "the parameter map escapes or is modified in an unrecognised way")
					}
				case *ssa.Phi:
					// nil-or-this-map selection handed to the chain clone
					if ssa.Value(x) != call.Call.Args[1] {
						s.Bad("parameter map use", c.Pos(ref.Pos()), "the parameter map escapes or is modified in an unrecognised way")
					}
				default:
					s.Bad("parameter map use", c.Pos(ref.Pos()), "the parameter map escapes or is modified in an unrecognised way")
				}
			}
		}
		// type string of every fresh result node
		bodies := m.copyBodies()
		if len(bodies) == 0 {
			core.Bail("no allocation of a result node found in the chain clone or a clone function it calls")
		}
		formatted := map[ssa.Value]bool{}
		wantsFormat := map[ssa.Value]*ssa.Store{}
		defer func() {
			for v, st := range wantsFormat {
				s.Check(formatted[v], st.Parent().Name()+": parameters given to the copy are attached", c.Pos(st.Pos()), "one source of the type string is mime.FormatMediaType(type, ps)", "the copy receives a parameter map but its type string never comes from mime.FormatMediaType: the sniffed charset is dropped from every result")
			}
		}()
		for _, nc := range bodies {
			g := nc.fn
			psOf := nc.ps
			if m.isClone(g) && len(g.Params) > 1 {
				psOf = g.Params[1]
			}
			for _, ref := range *nc.val.Referrers() {
				fa, ok := ref.(*ssa.FieldAddr)
				if !ok || fa.Field != m.tm.FMime {
					continue
				}
				for _, r2 := range *fa.Referrers() {
					x, ok := r2.(*ssa.Store)
					if !ok {
						continue
					}
					var vals []ssa.Value
					if ph, ok := x.Val.(*ssa.Phi); ok {
						vals = ph.Edges
					} else {
						vals = []ssa.Value{x.Val}
					}
					// a copy that is given parameters attaches them: one source (of one of the stores) is the formatted string
					for _, v := range vals {
						if call, ok := v.(*ssa.Call); ok && core.CalleeIs(&call.Call, "mime", "FormatMediaType") {
							formatted[nc.val] = true
						}
					}
					if psOf != nil && !core.IsNilConst(psOf) {
						wantsFormat[nc.val] = x
					}
					for i, v := range vals {
						key := fmt.Sprintf("%s: type string of the clone, source #%d", g.Name(), i+1)
						if base, fld, ok := core.LoadOfField(v); ok && fld == m.tm.FMime && nc.src != nil && base == nc.src {
							s.OK(key, c.Pos(x.Pos()), "registered type of the cloned node")
							continue
						}
						if call, ok := v.(*ssa.Call); ok && core.CalleeIs(&call.Call, "mime", "FormatMediaType") {
							base, fld, isLoad := core.LoadOfField(call.Call.Args[0])
							okPs := psOf != nil && call.Call.Args[1] == psOf
							if g == m.chain {
								okPs = len(g.Params) > 1 && call.Call.Args[1] == ssa.Value(g.Params[1])
							}
							// string carrier: the map is built on the spot with the single constant key charset and the
							// carried string, and only when that string is not empty
							strCarrier := false
							var carrier ssa.Value
							if m.isClone(g) && len(g.Params) > 1 && core.IsString(g.Params[1].Type()) {
								carrier = g.Params[1]
							} else if g == m.chain && len(g.Params) > 1 && core.IsString(g.Params[1].Type()) {
								carrier = g.Params[1]
							}
							if mk2, isMk := call.Call.Args[1].(*ssa.MakeMap); isMk && carrier != nil {
								nUpd, okUpd := 0, true
								for _, ref := range *mk2.Referrers() {
									switch u := ref.(type) {
									case *ssa.MapUpdate:
										nUpd++
										k, isC := core.ConstString(u.Key)
										if !isC || k != "charset" || u.Value != carrier {
											okUpd = false
										}
									case *ssa.Call, *ssa.DebugRef:
									default:
										okUpd = false
									}
								}
								if nUpd == 1 && okUpd {
									okPs, strCarrier = true, true
								}
							}
							s.Check(isLoad && fld == m.tm.FMime && nc.src != nil && base == nc.src && okPs, key, c.Pos(call.Pos()), "mime.FormatMediaType(registered type, ps)", "FormatMediaType is not applied to (registered type of the node, the parameter map)")
							// only when there are parameters: without them the registered string must be copied verbatim
							// (FormatMediaType lower-cases and re-validates; names of extensions are arbitrary strings)
							guarded := false
							for _, de := range core.DominatingConds(call.Block()) {
								cond, val := core.StripNot(de.Cond, de.Val)
								if bo, ok := cond.(*ssa.BinOp); ok {
									if ln, ok := bo.X.(*ssa.Call); ok && core.IsBuiltin(&ln.Call, "len") && ln.Call.Args[0] == call.Call.Args[1] && core.IsConstInt(bo.Y, 0) {
										if (bo.Op == token.GTR && val) || (bo.Op == token.NEQ && val) || (bo.Op == token.EQL && !val) || (bo.Op == token.LEQ && !val) {
											guarded = true
										}
									}
									if k, isC := core.ConstString(bo.Y); strCarrier && isC && k == "" && bo.X == carrier && ((bo.Op == token.NEQ && val) || (bo.Op == token.EQL && !val)) {
										guarded = true
									}
								}
							}
							s.Check(guarded, key+": only when parameters exist", c.Pos(call.Pos()), "under len(ps) > 0", "the type string is re-formatted even when there is no parameter to attach: a format registered by Extend under a non-canonical spelling (upper case, embedded parameter) would be reported, and looked up, under a different name")
							continue
						}
						s.Bad(key, c.Pos(x.Pos()), fmt.Sprintf("the type string of a result is built from %s: a sniffed charset label (attacker text) must reach it only through mime.FormatMediaType, which quotes or encodes unsafe values", v))
					}
				}
			}
		}
	}}

// R02.5 + R05.3
var ruleErrorReturns = &core.Rule{ID: "R02.5", Min: 6,
	Doc: "error discipline in the entry points: every error result of a callee is tested; on the non-nil edge the function returns (detached octet-stream sentinel, that error) — the ReadFull error alone may be excused, and only by identity comparison with io.EOF / io.ErrUnexpectedEOF (errors.Is, which also accepts wrapped sentinels coming from the reader, excuses nothing); the error may be merged into an error variable with other errors or nil; success returns carry a nil error",
	Run: func(c *core.Ctx, s *core.Sink) {
		m := getWalk(c)
		cm := getConc(c)
		errT := types.Universe.Lookup("error").Type()
		var entries []*ssa.Function
		for _, f := range cm.fs {
			if !exportedAPI(f) || f.Signature.Recv() != nil {
				continue
			}
			res := f.Signature.Results()
			if res.Len() == 2 && cm.isNodePtr(res.At(0).Type()) && types.Identical(res.At(1).Type(), errT) {
				entries = append(entries, f)
			}
		}
		if len(entries) == 0 {
			core.Bail("no entry point returning (*MIME, error)")
		}
		for _, f := range entries {
			// returns
			for _, r := range core.Returns(f) {
				key := fmt.Sprintf("%s: %s", core.FName(f), returnOrdinal(r))
				v0, v1 := viaResultHelper(spilled(r, 0)), viaResultHelper(spilled(r, 1))
				switch {
				case core.IsNilConst(v1):
					s.Check(isFresh(cm.org(v0, 0)), key, c.Pos(r.Pos()), "success: fresh result, nil error", "a nil error is returned with a value that is not a detection result")
				case isPassThrough(v0, v1):
					s.OK(key, c.Pos(r.Pos()), "both results of another entry point passed through")
				default:
					g, isLoad := core.LoadOfGlobal(v0)
					okSent := false
					if isLoad {
						if n := nodeOfGlobal(m.tm, g); n != nil && n == m.tm.Sentinel && n.Mime == octet {
							okSent = true
						}
					}
					ex, isEx := v1.(*ssa.Extract)
					okErr := isEx && types.Identical(ex.Type(), errT)
					if ph, isPhi := v1.(*ssa.Phi); isPhi && !okErr {
						// an error variable: every value it can hold is a callee's error (or nil, which this return
						// cannot see: it sits behind err != nil, checked per error below)
						okErr = errVarOfCallees(ph, errT, map[*ssa.Phi]bool{})
					}
					s.Check(okSent && okErr, key, c.Pos(r.Pos()), "(octet-stream sentinel, the callee's error)",
						"an error return does not carry the detached application/octet-stream sentinel together with the error that the callee reported")
				}
			}
			// every error-typed extract is tested against nil, and only ReadFull's may be excused
			for _, b := range f.Blocks {
				for _, in := range b.Instrs {
					ex, ok := in.(*ssa.Extract)
					if !ok || !types.Identical(ex.Type(), errT) {
						continue
					}
					call, ok := ex.Tuple.(*ssa.Call)
					if !ok {
						continue
					}
					src := "?"
					if g := call.Call.StaticCallee(); g != nil {
						src = g.String()
					}
					key := fmt.Sprintf("%s: error of %s", core.FName(f), callOrdinal(call))
					if g := call.Call.StaticCallee(); g != nil && isEntry(entries, g) {
						s.OK(key, c.Pos(ex.Pos()), "passed through to the caller")
						continue
					}
					if isResultHelperCall(call) {
						continue // a helper that only pairs the sentinel with the caller's own error: no error of its own
					}
					tested := false
					// the error may first be merged into an error variable (err of the other branch, nil after an excuse)
					for _, ph := range errPhiWeb(ex) {
						for _, ref := range *ph.Referrers() {
							if bo, ok := ref.(*ssa.BinOp); ok && (core.IsNilConst(bo.Y) || core.IsNilConst(bo.X)) {
								tested = true
							}
						}
					}
					for _, ref := range *ex.Referrers() {
						bo, ok := ref.(*ssa.BinOp)
						if !ok {
							continue
						}
						if core.IsNilConst(bo.Y) || core.IsNilConst(bo.X) {
							tested = true
							// on the non-nil edge every path to a success return must pass an excusing comparison
							continue
						}
						other := bo.Y
						if other == ssa.Value(ex) {
							other = bo.X
						}
						sentinel := ""
						if g, ok := core.LoadOfGlobal(other); ok && g.Pkg != nil {
							sentinel = g.Pkg.Pkg.Path() + "." + g.Name()
						}
						k2 := fmt.Sprintf("%s: error of %s compared with %s", core.FName(f), callOrdinal(call), sentinel)
						okExcuse := core.CalleeIs(&call.Call, "io", "ReadFull") && (sentinel == "io.EOF" || sentinel == "io.ErrUnexpectedEOF")
						s.Check(okExcuse, k2, c.Pos(bo.Pos()), "end-of-input sentinel of ReadFull", fmt.Sprintf("the error of %s is excused by comparison with %q: only io.EOF and io.ErrUnexpectedEOF from ReadFull mean `input shorter than the limit`", src, sentinel))
					}
					s.Check(tested, key, c.Pos(ex.Pos()), "compared with nil", fmt.Sprintf("the error returned by %s is never tested", src))
					if why := errPathsDisciplined(ex, f); why != "" {
						s.Bad(key+": every path to success tests it", c.Pos(ex.Pos()), why)
					} else {
						s.OK(key+": every path to success tests it", c.Pos(ex.Pos()), "no path from the call to a success return skips the nil test or an end-of-input excuse")
					}
				}
			}
		}
		// helpers of the entries that return an error themselves (extracted read routines): same discipline
		seenH := map[*ssa.Function]bool{}
		var helpers []*ssa.Function
		var collect func(f *ssa.Function, depth int)
		collect = func(f *ssa.Function, depth int) {
			if depth > 3 {
				return
			}
			for _, ci := range core.Calls(f) {
				g := ci.Common().StaticCallee()
				if g == nil || !core.InMod(g) || g.Blocks == nil || seenH[g] || isEntry(entries, g) {
					continue
				}
				res := g.Signature.Results()
				if res.Len() >= 1 && types.Identical(res.At(res.Len()-1).Type(), errT) {
					seenH[g] = true
					helpers = append(helpers, g)
					collect(g, depth+1)
				}
			}
		}
		for _, f := range entries {
			collect(f, 0)
		}
		for _, h := range helpers {
			for _, b := range h.Blocks {
				for _, in := range b.Instrs {
					ex, ok := in.(*ssa.Extract)
					if !ok || !types.Identical(ex.Type(), errT) {
						continue
					}
					call, ok := ex.Tuple.(*ssa.Call)
					if !ok {
						continue
					}
					key := fmt.Sprintf("%s: error of %s", core.FName(h), callOrdinal(call))
					// a tuple returned as a whole (return io.ReadAll(r)) hands the error back
					passed := false
					for _, r := range core.Returns(h) {
						if n := len(r.Results); n >= 1 && r.Results[n-1] == ssa.Value(ex) {
							passed = true
						}
					}
					for _, ref := range *ex.Referrers() {
						if bo, ok := ref.(*ssa.BinOp); ok && !core.IsNilConst(bo.X) && !core.IsNilConst(bo.Y) {
							other := bo.Y
							if other == ssa.Value(ex) {
								other = bo.X
							}
							sentinel := ""
							if g, ok := core.LoadOfGlobal(other); ok && g.Pkg != nil {
								sentinel = g.Pkg.Pkg.Path() + "." + g.Name()
							}
							okExcuse := core.CalleeIs(&call.Call, "io", "ReadFull") && (sentinel == "io.EOF" || sentinel == "io.ErrUnexpectedEOF")
							s.Check(okExcuse, key+" compared with "+sentinel, c.Pos(bo.Pos()), "end-of-input sentinel of ReadFull", fmt.Sprintf("the error is excused by comparison with %q: only io.EOF and io.ErrUnexpectedEOF from ReadFull mean `input shorter than the limit`", sentinel))
						}
					}
					if why := errPathsDisciplined(ex, h); why != "" {
						s.Bad(key+": every path to success tests it", c.Pos(ex.Pos()), why)
					} else {
						s.OK(key+": every path to success tests it", c.Pos(ex.Pos()), map[bool]string{true: "handed back to the caller", false: "tested on every path to a nil-error return"}[passed])
					}
				}
			}
		}
	}}

func isEntry(es []*ssa.Function, g *ssa.Function) bool {
	for _, e := range es {
		if e == g {
			return true
		}
	}
	return false
}

func isPassThrough(v0, v1 ssa.Value) bool {
	e0, ok0 := v0.(*ssa.Extract)
	e1, ok1 := v1.(*ssa.Extract)
	if !ok0 || !ok1 || e0.Tuple != e1.Tuple || e0.Index != 0 || e1.Index != 1 {
		return false
	}
	call, ok := e0.Tuple.(*ssa.Call)
	return ok && call.Call.StaticCallee() != nil && exportedAPI(call.Call.StaticCallee())
}

// errPhiWeb: the phis the error value ex flows into (transitively).
func errPhiWeb(ex ssa.Value) []*ssa.Phi {
	var out []*ssa.Phi
	seen := map[*ssa.Phi]bool{}
	var rec func(v ssa.Value)
	rec = func(v ssa.Value) {
		refs := v.Referrers()
		if refs == nil {
			return
		}
		for _, ref := range *refs {
			if ph, ok := ref.(*ssa.Phi); ok && !seen[ph] {
				seen[ph] = true
				out = append(out, ph)
				rec(ph)
			}
		}
	}
	rec(ex)
	return out
}

// errVarOfCallees: every edge of the phi is nil, the error result of a call, or such a phi again.
func errVarOfCallees(ph *ssa.Phi, errT types.Type, seen map[*ssa.Phi]bool) bool {
	if seen[ph] {
		return true
	}
	seen[ph] = true
	for _, e := range ph.Edges {
		switch x := e.(type) {
		case *ssa.Const:
			if x.Value != nil {
				return false
			}
		case *ssa.Extract:
			if !types.Identical(x.Type(), errT) {
				return false
			}
			if _, isCall := x.Tuple.(*ssa.Call); !isCall {
				return false
			}
		case *ssa.Phi:
			if !errVarOfCallees(x, errT, seen) {
				return false
			}
		default:
			return false
		}
	}
	return true
}

// errPathsDisciplined explores every path from the definition of the error
// value err to a return, tracking what is known about err: untested, nil,
// non-nil, or excused (equal to a package-level sentinel). A return that does
// not hand err back (a success return) is legal only when err is known nil or
// excused. It returns "" when every path is disciplined.
func errPathsDisciplined(err *ssa.Extract, f *ssa.Function) string {
	const (
		untested = iota
		isNil
		nonNil
		excused
	)
	type st struct {
		b   *ssa.BasicBlock
		k   int
		env string
	}
	// env: what the boolean phis passed so far stand for on this path (a constant, or a comparison of the error
	// made on the way: shortInput := err == io.EOF || err == io.ErrUnexpectedEOF)
	type benv map[*ssa.Phi]ssa.Value
	envKey := func(e benv) string {
		var ks []string
		for ph, v := range e {
			ks = append(ks, ph.Name()+"="+v.Name()+v.String())
		}
		sort.Strings(ks)
		return strings.Join(ks, ";")
	}
	seen := map[st]bool{}
	why := ""
	// what v stands for on the current path: phis are looked through
	resolve := func(env benv, v ssa.Value) ssa.Value {
		for i := 0; i < 6; i++ {
			ph, ok := v.(*ssa.Phi)
			if !ok {
				return v
			}
			r, known := env[ph]
			if !known {
				return v
			}
			v = r
		}
		return v
	}
	var walk func(prev, b *ssa.BasicBlock, k int, env benv)
	walk = func(prev, b *ssa.BasicBlock, k int, env benv) {
		if why != "" {
			return
		}
		// boolean phis of b take the value of the edge the path came in on
		if prev != nil {
			for _, in := range b.Instrs {
				ph, ok := in.(*ssa.Phi)
				if !ok {
					break
				}
				// boolean flags, and error variables that merge this error with others or with nil
				isFlag := false
				if bt, ok := ph.Type().Underlying().(*types.Basic); ok && bt.Kind() == types.Bool {
					isFlag = true
				}
				if !isFlag && !types.Identical(ph.Type(), err.Type()) {
					continue
				}
				for i, p := range b.Preds {
					if p == prev {
						ne := benv{}
						for k2, v2 := range env {
							ne[k2] = v2
						}
						v := ph.Edges[i]
						if q, isPhi := v.(*ssa.Phi); isPhi {
							if r, known := env[q]; known {
								v = r
							}
						}
						ne[ph] = v
						env = ne
					}
				}
			}
		}
		key := st{b, k, envKey(env)}
		if seen[key] {
			return
		}
		seen[key] = true
		if len(b.Instrs) == 0 {
			return
		}
		switch t := b.Instrs[len(b.Instrs)-1].(type) {
		case *ssa.Return:
			if n := len(t.Results); n >= 1 && resolve(env, viaResultHelper(spilled(t, n-1))) == ssa.Value(err) {
				return // the error is handed to the caller
			}
			if k == untested || k == nonNil {
				why = fmt.Sprintf("a path reaches the success return at line %d while the error is %s: a failed read would be reported as a detection of the bytes delivered before the failure",
					f.Prog.Fset.Position(t.Pos()).Line, map[int]string{untested: "untested", nonNil: "known to be non-nil and not excused"}[k])
			}
		case *ssa.If:
			cond, pos := core.StripNot(t.Cond, true)
			if ph, isPhi := cond.(*ssa.Phi); isPhi {
				if v, known := env[ph]; known {
					c2, p2 := core.StripNot(v, true)
					cond = c2
					if !p2 {
						pos = !pos
					}
				}
			}
			if cb, isC := core.ConstBool(cond); isC {
				// the path determines the branch
				if cb == pos {
					walk(b, b.Succs[0], k, env)
				} else {
					walk(b, b.Succs[1], k, env)
				}
				return
			}
			tk, fk := k, k
			// an error variable that is nil on this path (cleared, or merged from a branch without an error)
			if bo, ok := cond.(*ssa.BinOp); ok && (bo.Op == token.EQL || bo.Op == token.NEQ) && types.Identical(bo.X.Type(), err.Type()) {
				rx, ry := resolve(env, bo.X), resolve(env, bo.Y)
				if rx != ssa.Value(err) && ry != ssa.Value(err) && core.IsNilConst(rx) && core.IsNilConst(ry) && (rx != bo.X || ry != bo.Y) {
					if (bo.Op == token.EQL) == pos {
						walk(b, b.Succs[0], k, env)
					} else {
						walk(b, b.Succs[1], k, env)
					}
					return
				}
			}
			if bo, ok := cond.(*ssa.BinOp); ok && (resolve(env, bo.X) == ssa.Value(err) || resolve(env, bo.Y) == ssa.Value(err)) && (bo.Op == token.EQL || bo.Op == token.NEQ) {
				other := bo.Y
				if resolve(env, other) == ssa.Value(err) {
					other = bo.X
				}
				eqK, neK := k, k
				if core.IsNilConst(other) {
					eqK, neK = isNil, nonNil
					if k == excused {
						neK = excused // equal to a sentinel: certainly not nil, and still excused
					}
				} else if _, isG := core.LoadOfGlobal(other); isG {
					eqK = excused
					if k == untested {
						neK = untested
					}
				}
				if (bo.Op == token.EQL) == pos {
					tk, fk = eqK, neK
				} else {
					tk, fk = neK, eqK
				}
			} else if call, ok := cond.(*ssa.Call); ok && core.CalleeIs(&call.Call, "errors", "Is") && resolve(env, call.Call.Args[0]) == ssa.Value(err) {
				// errors.Is also accepts an error that merely wraps the sentinel: that one comes from the reader, not
				// from ReadFull, and is a failure. It excuses nothing here.
				_ = call
			}
			walk(b, b.Succs[0], tk, env)
			walk(b, b.Succs[1], fk, env)
		default:
			for _, sc := range b.Succs {
				walk(b, sc, k, env)
			}
		}
	}
	walk(nil, err.Block(), untested, benv{})
	return why
}

// R05.1 + R05.2
var ruleReader = &core.Rule{ID: "R05.2", Min: 8,
	Doc: "reader confinement and sibling agreement: the reader parameter is used only as argument 0 of io.ReadAll on the limit==0 edge and of io.ReadFull (or ReadAll over io.LimitReader(r, limit)) on the other; the ReadFull buffer is make([]byte, limit) with the snapshot limit; the walk receives buf[:n] with n the count returned by that ReadFull, and the same limit; the file entry forwards the opened file to the reader entry and closes it",
	Run: func(c *core.Ctx, s *core.Sink) {
		m := getWalk(c)
		cm := getConc(c)
		var readerEntry, fileEntry, bytesEntry *ssa.Function
		for _, f := range cm.fs {
			if !exportedAPI(f) || f.Signature.Recv() != nil || len(f.Params) != 1 {
				continue
			}
			callsWalk := len(m.sitesIn(f)) > 0
			switch {
			case callsWalk && core.IsByteSlice(f.Params[0].Type()):
				bytesEntry = f
			case callsWalk && types.IsInterface(f.Params[0].Type()):
				readerEntry = f
			case !callsWalk && core.IsString(f.Params[0].Type()) && f.Signature.Results().Len() == 2:
				for _, ci := range core.Calls(f) {
					if core.CalleeIs(ci.Common(), "os", "Open") {
						fileEntry = f
					}
				}
			}
		}
		if readerEntry == nil || bytesEntry == nil || fileEntry == nil {
			core.Bail("entry points not identified (bytes=%v reader=%v file=%v)", bytesEntry != nil, readerEntry != nil, fileEntry != nil)
		}
		f := readerEntry
		var lim *ssa.Call
		for _, ci := range core.Calls(f) {
			if call, ok := ci.(*ssa.Call); ok && cm.isLimitSnapshot(call) {
				lim = call
			}
		}
		if lim == nil {
			core.Bail("%s does not load the limit atomically", f.Name())
		}
		rc := &readerCheck{c: c, s: s}
		rc.uses(f, f.Params[0], lim, 0)
		// the walk's arguments (directly or through a wrapper that forwards them)
		for _, ws := range m.sitesIn(f) {
			s.Check(stripConv(ws.lim) == ssa.Value(lim), core.FName(f)+": walk limit is the snapshot", c.Pos(ws.call.Pos()), "same value that sized the read", "the walk is given a limit other than the one that sized the read")
			rc.buffer(f, ws.buf, f.Params[0], lim, core.FName(f)+": walk buffer", ws.call.Pos(), 0)
		}
		// file entry
		g := fileEntry
		var open *ssa.Call
		for _, ci := range core.Calls(g) {
			if core.CalleeIs(ci.Common(), "os", "Open") {
				open, _ = ci.(*ssa.Call)
			}
		}
		okFwd, okClose := false, false
		for _, ci := range core.Calls(g) {
			if ci.Common().StaticCallee() == readerEntry {
				if ex, ok := core.Unwrap(ci.Common().Args[0]).(*ssa.Extract); ok && ex.Tuple == ssa.Value(open) && ex.Index == 0 {
					okFwd = true
				}
			}
			if d, ok := ci.(*ssa.Defer); ok && core.MethodCalleeIs(&d.Call, "os", "File", "Close") {
				okClose = true
			}
		}
		s.Check(open != nil && open.Call.Args[0] == ssa.Value(g.Params[0]), core.FName(g)+": opens its argument", c.Pos(g.Pos()), "os.Open(path)", "the file entry does not open the path it was given")
		s.Check(okFwd, core.FName(g)+": forwards the opened file to the reader entry", c.Pos(g.Pos()), "DetectReader(f)", "the file entry does not delegate to the reader entry with the opened file")
		s.Check(okClose, core.FName(g)+": closes the file", c.Pos(g.Pos()), "deferred Close", "the opened file is not closed")
	}}

// readerCheck verifies reader confinement through helper functions: r is the
// reader value and lim the snapshot limit as seen in the function at hand.
type readerCheck struct {
	c *core.Ctx
	s *core.Sink
	n int
}

// stripConv looks through the conversions that do not change an integer's
// value: named type <-> underlying type, and widening to int for make / slicing.
func stripConv(v ssa.Value) ssa.Value {
	for {
		switch x := v.(type) {
		case *ssa.ChangeType:
			v = x.X
		case *ssa.Convert:
			if !core.IsInteger(x.Type()) || !core.IsInteger(x.X.Type()) {
				return v
			}
			v = x.X
		default:
			return v
		}
	}
}

func limZeroEdge(b *ssa.BasicBlock, lim ssa.Value, wantZero bool) bool {
	for _, de := range core.DominatingConds(b) {
		cond, val := core.StripNot(de.Cond, de.Val)
		// a predicate method of a named limit type: func (l T) unlimited() bool { return l == 0 }
		if pc, isCall := cond.(*ssa.Call); isCall {
			if h := pc.Call.StaticCallee(); h != nil && core.InMod(h) && len(h.Blocks) == 1 && len(h.Params) == 1 && len(pc.Call.Args) == 1 && stripConv(pc.Call.Args[0]) == lim {
				if rs := core.Returns(h); len(rs) == 1 {
					if hb, ok := rs[0].Results[0].(*ssa.BinOp); ok && hb.X == ssa.Value(h.Params[0]) && core.IsConstInt(hb.Y, 0) {
						isZero := (hb.Op == token.EQL && val) || (hb.Op == token.NEQ && !val) || (hb.Op == token.GTR && !val) || (hb.Op == token.LEQ && val)
						isNonZero := (hb.Op == token.EQL && !val) || (hb.Op == token.NEQ && val) || (hb.Op == token.GTR && val) || (hb.Op == token.LEQ && !val)
						if wantZero && isZero || !wantZero && isNonZero {
							return true
						}
					}
				}
			}
			continue
		}
		bo, ok := cond.(*ssa.BinOp)
		if !ok {
			continue
		}
		// an unsigned limit against 0 or 1, in either operand order: == 0, <= 0, < 1 say "zero"; != 0, > 0, >= 1 "not zero"
		op, x, kv := bo.Op, bo.X, bo.Y
		if _, isC := bo.X.(*ssa.Const); isC {
			x, kv = bo.Y, bo.X
			op = map[token.Token]token.Token{token.LSS: token.GTR, token.GTR: token.LSS, token.LEQ: token.GEQ, token.GEQ: token.LEQ, token.EQL: token.EQL, token.NEQ: token.NEQ}[op]
		}
		k, isK := core.ConstInt(kv)
		if stripConv(x) != lim || !isK {
			continue
		}
		saysZero := (k == 0 && (op == token.EQL || op == token.LEQ)) || (k == 1 && op == token.LSS)
		saysNonZero := (k == 0 && (op == token.NEQ || op == token.GTR)) || (k == 1 && op == token.GEQ)
		if !saysZero && !saysNonZero {
			continue
		}
		isZero := saysZero == val
		if wantZero && isZero || !wantZero && !isZero {
			return true
		}
	}
	return false
}

func (rc *readerCheck) uses(f *ssa.Function, r, lim ssa.Value, depth int) {
	c, s := rc.c, rc.s
	for _, ref := range *r.Referrers() {
		if _, dbg := ref.(*ssa.DebugRef); dbg {
			continue
		}
		rc.n++
		key := fmt.Sprintf("%s: use #%d of the reader", core.FName(f), rc.n)
		call, ok := ref.(*ssa.Call)
		if !ok {
			s.Bad(key, c.Pos(ref.Pos()), "the reader escapes (stored, wrapped or passed on): reads beyond the limit cannot be excluded")
			continue
		}
		switch {
		case core.CalleeIs(&call.Call, "io", "ReadAll") && call.Call.Args[0] == r:
			s.Check(limZeroEdge(call.Block(), lim, true), key, c.Pos(call.Pos()), "io.ReadAll confined to limit == 0", "io.ReadAll on the reader is not confined to the limit == 0 branch: it consumes the whole input")
		case core.CalleeIs(&call.Call, "io", "ReadFull") && call.Call.Args[0] == r:
			mk, ok := call.Call.Args[1].(*ssa.MakeSlice)
			okBuf := ok && stripConv(mk.Len) == lim && stripConv(mk.Cap) == lim
			if ok && !okBuf {
				if cv, ok := mk.Len.(*ssa.Convert); ok && cv.X == lim && mk.Cap == mk.Len {
					okBuf = true
				}
			}
			s.Check(okBuf && limZeroEdge(call.Block(), lim, false), key, c.Pos(call.Pos()), "io.ReadFull into make([]byte, limit), limit != 0", "the ReadFull buffer is not exactly make([]byte, limit) with the snapshot limit: more than `limit` bytes may be consumed from the reader")
		case core.CalleeIs(&call.Call, "io", "LimitReader") && call.Call.Args[0] == r:
			okLim := false
			if cv, ok := call.Call.Args[1].(*ssa.Convert); ok && stripConv(cv.X) == lim {
				okLim = true
			}
			s.Check(okLim, key, c.Pos(call.Pos()), "io.LimitReader(r, limit)", "LimitReader is not bounded by the snapshot limit")
		default:
			g := call.Call.StaticCallee()
			if g != nil && core.InMod(g) && g.Blocks != nil && depth < 3 {
				ri, li := -1, -1
				for i, a := range call.Call.Args {
					if a == r {
						ri = i
					}
					if stripConv(a) == lim {
						li = i
					}
				}
				if ri >= 0 && li >= 0 {
					s.OK(key, c.Pos(call.Pos()), "handed with the snapshot limit to helper "+g.Name()+" (checked below)")
					rc.uses(g, g.Params[ri], g.Params[li], depth+1)
					continue
				}
			}
			name := "dynamic call"
			if g != nil {
				name = g.String()
			}
			s.Bad(key, c.Pos(call.Pos()), fmt.Sprintf("the reader is handed to %s, which is not one of the bounded readers (io.ReadFull into a limit-sized buffer / io.ReadAll iff limit == 0, possibly through a helper that receives the snapshot limit): the bytes consumed are not bounded by the limit", name))
		}
	}
}

// buffer: v is what was read from r: ReadAll's result, buf[:n] of ReadFull, a
// phi of those, or the first result of a helper all of whose returns are such.
func (rc *readerCheck) buffer(f *ssa.Function, v, r, lim ssa.Value, key string, pos token.Pos, depth int) {
	c, s := rc.c, rc.s
	switch x := v.(type) {
	case *ssa.Phi:
		for i, e := range x.Edges {
			rc.buffer(f, e, r, lim, fmt.Sprintf("%s source #%d", key, i+1), pos, depth)
		}
	case *ssa.Const:
		s.Check(x.Value == nil, key, c.Pos(pos), "nil (error path)", "constant buffer")
	case *ssa.Slice:
		nn, ok := x.High.(*ssa.Extract)
		okCut := false
		if ok && x.Low == nil && nn.Index == 0 {
			if rf, ok := nn.Tuple.(*ssa.Call); ok && core.CalleeIs(&rf.Call, "io", "ReadFull") && rf.Call.Args[0] == r && x.X == rf.Call.Args[1] {
				okCut = true
			}
		}
		s.Check(okCut, key, c.Pos(x.Pos()), "buf[:n], n returned by ReadFull", "the buffer handed to the walk is not cut to the bytes actually read: zero padding up to the limit would be judged as file content")
	case *ssa.Extract:
		tc, ok := x.Tuple.(*ssa.Call)
		if ok && x.Index == 0 && core.CalleeIs(&tc.Call, "io", "ReadAll") && tc.Call.Args[0] == r {
			s.OK(key, c.Pos(x.Pos()), "bytes returned by io.ReadAll")
			return
		}
		if ok && x.Index == 0 && depth < 3 {
			if g := tc.Call.StaticCallee(); g != nil && core.InMod(g) && g.Blocks != nil {
				ri, li := -1, -1
				for i, a := range tc.Call.Args {
					if a == r {
						ri = i
					}
					if stripConv(a) == lim {
						li = i
					}
				}
				if ri >= 0 && li >= 0 {
					for _, ret := range core.Returns(g) {
						rc.buffer(g, ret.Results[0], g.Params[ri], g.Params[li], fmt.Sprintf("%s via %s %s", key, g.Name(), returnOrdinal(ret)), ret.Pos(), depth+1)
					}
					return
				}
			}
		}
		s.Bad(key, c.Pos(x.Pos()), "the walk sees something other than what was read")
	default:
		s.Bad(key, c.Pos(pos), "the walk sees the whole limit-sized buffer or an unrelated value, not buf[:n]")
	}
}

// R04.1 limit slicing in the bytes entry
var ruleLimitSlice = &core.Rule{ID: "R04.1", Min: 5,
	Doc: "the bytes entry hands the walk exactly the first `limit` bytes: tabulated over the order types of (limit = 0?, len vs limit) the walk receives the parameter itself iff limit = 0 or len <= limit, else in[:limit] with the snapshot limit, which is also the limit argument (the cut may sit in a helper or method of a named limit type; a bound built by min / max alone is judged by its value); every exported func(uint32) of the root package stores its parameter atomically into the limit variable on every path",
	Run: func(c *core.Ctx, s *core.Sink) {
		m := getWalk(c)
		cm := getConc(c)
		var f *ssa.Function
		for _, g := range cm.fs {
			if exportedAPI(g) && g.Signature.Recv() == nil && len(g.Params) == 1 && core.IsByteSlice(g.Params[0].Type()) && len(m.sitesIn(g)) > 0 {
				f = g
			}
		}
		// one variable is the limit: what SetLimit stores is what the entry points load
		{
			var names []string
			for _, lv := range cm.limit {
				names = append(names, lv.Name())
			}
			s.Check(len(cm.limit) == 1, "one limit variable", c.Pos(m.walk.Pos()), strings.Join(names, ", "), fmt.Sprintf("%d package variables are accessed through sync/atomic as if they were the read limit (%s): a limit stored into one and loaded from another never takes effect", len(cm.limit), strings.Join(names, ", ")))
		}
		// the limit that is snapshot is the one the caller set: every exported func(uint32) of the root package stores its
		// parameter into the limit variable (sync/atomic function or method), on the way to every return
		for _, g := range cm.fs {
			if !exportedAPI(g) || g.Signature.Recv() != nil || len(g.Params) != 1 || g.Signature.Results().Len() != 0 || g.Blocks == nil {
				continue
			}
			if bt, ok := g.Params[0].Type().Underlying().(*types.Basic); !ok || bt.Kind() != types.Uint32 {
				continue
			}
			stored := false
			for _, ci := range core.Calls(g) {
				cc := ci.Common()
				h := cc.StaticCallee()
				if h == nil || h.Pkg == nil || h.Pkg.Pkg.Path() != "sync/atomic" || !strings.HasPrefix(h.Name(), "Store") || len(cc.Args) < 2 {
					continue
				}
				if cc.Args[len(cc.Args)-1] != ssa.Value(g.Params[0]) {
					continue
				}
				isLimit := false
				for _, lv := range cm.limit {
					if cc.Args[0] == ssa.Value(lv) {
						isLimit = true
					}
					if ld, ok := cc.Args[0].(*ssa.UnOp); ok && ld.X == ssa.Value(lv) {
						isLimit = true
					}
				}
				all := true
				for _, r := range core.Returns(g) {
					if !ci.Block().Dominates(r.Block()) {
						all = false
					}
				}
				if isLimit && all {
					stored = true
				}
			}
			if !stored {
				// handed to a helper or method of the module (a named limit type): not followed here
				handed := false
				for _, ci := range core.Calls(g) {
					if h := ci.Common().StaticCallee(); h != nil && core.InMod(h) {
						for _, a := range ci.Common().Args {
							if a == ssa.Value(g.Params[0]) {
								handed = true
							}
							if cv, ok := a.(*ssa.Convert); ok && cv.X == ssa.Value(g.Params[0]) {
								handed = true
							}
							if cv, ok := a.(*ssa.ChangeType); ok && cv.X == ssa.Value(g.Params[0]) {
								handed = true
							}
						}
					}
				}
				if handed {
					s.Und(g.Name()+": the limit given by the caller is stored", c.Pos(g.Pos()), "the parameter is handed to a function of the module: whether it ends up in the limit variable is not followed")
					continue
				}
			}
			s.Check(stored, g.Name()+": the limit given by the caller is stored", c.Pos(g.Pos()), "atomic store of the parameter into the limit variable", g.Name()+" does not store its parameter into the limit variable on every path: the limit the caller sets is not the one detection works with")
		}
		if f == nil {
			core.Bail("bytes entry point not found")
		}
		in := f.Params[0]
		var lim, wcall *ssa.Call
		var wbuf, wlim ssa.Value
		var lens []ssa.Value
		for _, ci := range core.Calls(f) {
			call, ok := ci.(*ssa.Call)
			if !ok {
				continue
			}
			if cm.isLimitSnapshot(call) {
				lim = call
			}
			if core.IsBuiltin(&call.Call, "len") && call.Call.Args[0] == ssa.Value(in) {
				lens = append(lens, call)
			}
		}
		if ws := m.sitesIn(f); len(ws) == 1 {
			wcall, wbuf, wlim = ws[0].call, ws[0].buf, ws[0].lim
		}
		if lim == nil || wcall == nil {
			core.Bail("%s: limit load or walk call not found", f.Name())
		}
		s.Check(stripConv(wlim) == ssa.Value(lim), "walk limit is the snapshot", c.Pos(wcall.Pos()), "atomic load", "the limit argument of the walk is not the snapshot used for slicing")
		// the cut may be delegated to a helper h(in, snapshot): the same table is then taken over h's returns
		var cutFn *ssa.Function
		var hIn, hLim ssa.Value
		if hc, ok := wbuf.(*ssa.Call); ok {
			if h := hc.Call.StaticCallee(); h != nil && core.InMod(h) && h.Blocks != nil && h.Signature.Results().Len() == 1 && core.IsByteSlice(h.Signature.Results().At(0).Type()) {
				for i, a := range hc.Call.Args {
					if a == ssa.Value(in) {
						hIn = h.Params[i]
					}
					if stripConv(a) == ssa.Value(lim) {
						hLim = h.Params[i]
					}
				}
				if hIn != nil && hLim != nil {
					cutFn = h
				}
			}
		}
		cases := []struct {
			name      string
			l, n      int64
			wantWhole bool
		}{{"limit=0,len=0", 0, 0, true}, {"limit=0,len=9", 0, 9, true}, {"len<limit", 5, 4, true}, {"len==limit", 5, 5, true}, {"len>limit", 5, 6, false}, {"len>>limit", 1, 4096, false}}
		for _, cs := range cases {
			key := "order type " + cs.name
			var arg ssa.Value
			var lastEv *fde.Eval
			inV, limV := ssa.Value(in), ssa.Value(lim)
			if cutFn != nil {
				inV, limV = hIn, hLim
				ev := newEval(c)
				lastEv = ev
				ev.Env = fde.Env{hLim: constant.MakeInt64(cs.l)}
				for _, l := range lenCallsOf(cutFn, hIn) {
					ev.Env[l] = constant.MakeInt64(cs.n)
				}
				exits, err := ev.Walk(cutFn.Blocks[0], nil, nil, 0)
				if err != nil || len(exits) != 1 || exits[0].Ret == nil {
					s.Und(key, c.Pos(cutFn.Pos()), fmt.Sprintf("slicing decision of %s not evaluable: %v", cutFn.Name(), err))
					continue
				}
				arg = exits[0].Ret.Results[0]
				if ph, ok := arg.(*ssa.Phi); ok && ph.Block() == exits[0].Ret.Block() {
					for k, p := range ph.Block().Preds {
						if p == exits[0].From {
							arg = ph.Edges[k]
						}
					}
				}
			} else {
				ev := newEval(c)
				lastEv = ev
				ev.Env = fde.Env{lim: constant.MakeInt64(cs.l)}
				for _, l := range lens {
					ev.Env[l] = constant.MakeInt64(cs.n)
				}
				exits, err := ev.Walk(f.Blocks[0], nil, func(b *ssa.BasicBlock) bool { return b == wcall.Block() }, 0)
				if err != nil || len(exits) != 1 {
					s.Und(key, c.Pos(f.Pos()), fmt.Sprintf("slicing decision not evaluable: %v", err))
					continue
				}
				arg = wbuf
				if ph, ok := arg.(*ssa.Phi); ok && ph.Block() == wcall.Block() {
					for k, p := range ph.Block().Preds {
						if p == exits[0].From {
							arg = ph.Edges[k]
						}
					}
				}
			}
			whole := arg == inV
			cut := false
			if sl, ok := arg.(*ssa.Slice); ok && sl.X == inV && sl.Low == nil && sl.Max == nil && sl.High != nil {
				h := sl.High
				if cv, ok := h.(*ssa.Convert); ok {
					h = cv.X
				}
				cut = h == limV
				// or a bound computed from both (min(len(in), limit)): judged by its value in this order type
				if !cut && lastEv != nil && orderOnly(sl.High, inV, limV) {
					if hv, ok := lastEv.Val(sl.High); ok && hv.Kind() == constant.Int {
						k, _ := constant.Int64Val(hv)
						if k == cs.n {
							whole = true // in[:len(in)]
						} else if k == cs.l && cs.l < cs.n && mentionsValue(sl.High, limV) {
							cut = true
						}
					}
				}
			}
			switch {
			case cs.wantWhole:
				s.Check(whole, key, c.Pos(wcall.Pos()), "walk sees the whole input", "the input is shortened although it fits the limit (or the limit is 0)")
			default:
				s.Check(cut, key, c.Pos(wcall.Pos()), "walk sees in[:limit]", "with an input longer than the limit the walk does not receive exactly in[:limit]: bytes beyond the limit would influence the result")
			}
		}
	}}

// nodeCopy is one fresh copy of a tree node made for a result chain: either a
// call of the single-node clone function, or a node allocated in place whose
// type string / aliases / extension are copied from src.
type nodeCopy struct {
	val   ssa.Value  // the fresh node
	src   ssa.Value  // the node it copies
	ps    ssa.Value  // the parameter map applied to the type string (nil: none)
	alloc *ssa.Alloc // in-place form
	fn    *ssa.Function
}

// orderOnly: v is built from len(in) and lim by conversions and the builtins
// min / max alone: its value in an order type of (len, lim) is one of the two,
// chosen by comparisons, so the tabulation over order types is exact for it.
func orderOnly(v, in, lim ssa.Value) bool {
	switch x := v.(type) {
	case *ssa.Convert:
		return orderOnly(x.X, in, lim)
	case *ssa.ChangeType:
		return orderOnly(x.X, in, lim)
	case *ssa.Call:
		if core.IsBuiltin(&x.Call, "len") {
			return x.Call.Args[0] == in
		}
		if b, ok := x.Call.Value.(*ssa.Builtin); ok && (b.Name() == "min" || b.Name() == "max") {
			for _, a := range x.Call.Args {
				if !orderOnly(a, in, lim) {
					return false
				}
			}
			return true
		}
	}
	return v == lim
}

// mentionsValue: v is computed (through conversions, arithmetic, min/max) from w.
func mentionsValue(v, w ssa.Value) bool {
	seen := map[ssa.Value]bool{}
	var rec func(x ssa.Value) bool
	rec = func(x ssa.Value) bool {
		if x == w {
			return true
		}
		if x == nil || seen[x] {
			return false
		}
		seen[x] = true
		in, ok := x.(ssa.Instruction)
		if !ok {
			return false
		}
		switch x.(type) {
		case *ssa.Convert, *ssa.BinOp, *ssa.Call, *ssa.Phi, *ssa.ChangeType:
		default:
			return false
		}
		for _, op := range in.Operands(nil) {
			if *op != nil && rec(*op) {
				return true
			}
		}
		return false
	}
	return rec(v)
}

// isClone: g is one of the single-node copy functions.
func (m *walkModel) isClone(g *ssa.Function) bool {
	if g == nil {
		return false
	}
	for _, cl := range m.clones {
		if cl == g {
			return true
		}
	}
	return false
}

// copyOf recognises v as a fresh copy made inside the chain function.
func (m *walkModel) copyOf(v ssa.Value) *nodeCopy {
	if call, ok := v.(*ssa.Call); ok && m.isClone(call.Call.StaticCallee()) {
		nc := &nodeCopy{val: v, src: call.Call.Args[0], fn: call.Call.StaticCallee()}
		if len(call.Call.Args) > 1 && !core.IsNilConst(call.Call.Args[1]) {
			if k, isC := core.ConstString(call.Call.Args[1]); !isC || k != "" {
				nc.ps = call.Call.Args[1]
			}
		}
		return nc
	}
	al, ok := v.(*ssa.Alloc)
	if !ok || !al.Heap {
		return nil
	}
	pt, ok := al.Type().Underlying().(*types.Pointer)
	if !ok || !types.Identical(pt.Elem(), m.tm.Type) {
		return nil
	}
	nc := &nodeCopy{val: v, alloc: al, fn: al.Parent()}
	for _, ref := range *al.Referrers() {
		fa, ok := ref.(*ssa.FieldAddr)
		if !ok || fa.Field != m.tm.FMime {
			continue
		}
		for _, r2 := range *fa.Referrers() {
			st, ok := r2.(*ssa.Store)
			if !ok {
				continue
			}
			vals := []ssa.Value{st.Val}
			if ph, ok := st.Val.(*ssa.Phi); ok {
				vals = ph.Edges
			}
			for _, x := range vals {
				var base ssa.Value
				if b, fld, ok := core.LoadOfField(x); ok && fld == m.tm.FMime {
					base = b
				} else if call, ok := x.(*ssa.Call); ok && core.CalleeIs(&call.Call, "mime", "FormatMediaType") {
					if b, fld, ok := core.LoadOfField(call.Call.Args[0]); ok && fld == m.tm.FMime {
						base = b
						nc.ps = call.Call.Args[1]
					}
				}
				if base == nil || (nc.src != nil && nc.src != base) {
					return nil
				}
				nc.src = base
			}
		}
	}
	if nc.src == nil {
		return nil
	}
	return nc
}

// copyBodies lists where fresh result nodes are filled in: the allocations of
// the clone function (source = its receiver, parameters = its map parameter),
// and the in-place allocations of the chain function.
func (m *walkModel) copyBodies() []*nodeCopy {
	var out []*nodeCopy
	add := func(fn *ssa.Function, fixedSrc, fixedPs ssa.Value) {
		for _, b := range fn.Blocks {
			for _, in := range b.Instrs {
				al, ok := in.(*ssa.Alloc)
				if !ok || !al.Heap {
					continue
				}
				if pt, ok := al.Type().Underlying().(*types.Pointer); !ok || !types.Identical(pt.Elem(), m.tm.Type) {
					continue
				}
				if fixedSrc != nil {
					out = append(out, &nodeCopy{val: al, alloc: al, fn: fn, src: fixedSrc, ps: fixedPs})
				} else if nc := m.copyOf(al); nc != nil {
					out = append(out, nc)
				} else {
					out = append(out, &nodeCopy{val: al, alloc: al, fn: fn}) // src unknown: reported by the field checks
				}
			}
		}
	}
	for _, cl := range m.clones {
		var ps ssa.Value
		if len(cl.Params) > 1 {
			ps = cl.Params[1]
		}
		add(cl, cl.Params[0], ps)
		// a copy obtained from another copy function for the same node is as fresh as an allocation
		for _, ci := range core.Calls(cl) {
			if call, ok := ci.(*ssa.Call); ok && m.isClone(call.Call.StaticCallee()) && call.Call.StaticCallee() != cl && len(call.Call.Args) >= 1 && call.Call.Args[0] == ssa.Value(cl.Params[0]) {
				out = append(out, &nodeCopy{val: call, fn: cl, src: cl.Params[0], ps: ps})
			}
		}
	}
	add(m.chain, nil, nil)
	return out
}

// viaResultHelper looks through a tiny result-building helper of the module: v is component #i of a call to a
// function with a single return; when that component is a load of a package variable or one of the helper's
// parameters, the load (an instruction of the helper) resp. the caller's argument stands for v. Anything else is v.
func viaResultHelper(v ssa.Value) ssa.Value {
	ex, ok := v.(*ssa.Extract)
	if !ok {
		return v
	}
	call, ok := ex.Tuple.(*ssa.Call)
	if !ok {
		return v
	}
	h := call.Call.StaticCallee()
	if h == nil || !core.InMod(h) || h.Blocks == nil || len(h.Blocks) != 1 {
		return v
	}
	rs := core.Returns(h)
	if len(rs) != 1 || ex.Index >= len(rs[0].Results) {
		return v
	}
	res := rs[0].Results[ex.Index]
	if _, isLoad := core.LoadOfGlobal(res); isLoad {
		return res
	}
	for i, p := range h.Params {
		if res == ssa.Value(p) && i < len(call.Call.Args) {
			return call.Call.Args[i]
		}
	}
	return v
}

// isResultHelperCall: a call whose error component only hands one of its arguments back (not a source of errors).
func isResultHelperCall(call *ssa.Call) bool {
	for _, r := range *call.Referrers() {
		if ex, ok := r.(*ssa.Extract); ok {
			if viaResultHelper(ex) != ssa.Value(ex) {
				return true
			}
		}
	}
	return false
}
