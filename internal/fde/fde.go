// Package fde is engine E5: a finite-domain evaluator. It walks a function's
// SSA control-flow graph with some values bound to constants, folding
// comparisons and resolving phis by the edge taken. Conditions that cannot be
// folded fork the walk. Nothing of the repository is executed: the evaluator
// interprets the closed SSA expression trees it finds in the source.
package fde

import (
	"fmt"
	"go/ast"
	"go/constant"
	"go/token"
	"go/types"

	"golang.org/x/tools/go/ssa"

	"mtverif/internal/core"
)

// Env binds SSA values to constants.
type Env map[ssa.Value]constant.Value

func (e Env) clone() Env {
	n := make(Env, len(e)+4)
	for k, v := range e {
		n[k] = v
	}
	return n
}

// Tables maps package-level constant arrays to their element values.
type Tables map[*ssa.Global][]constant.Value

// Eval evaluates values under an environment.
type Eval struct {
	Env    Env
	Tables Tables
	Prev   *ssa.BasicBlock
	// Pure, when set, lets the evaluator fold calls to module predicates
	// (loop-free, side-effect-free functions of constant arguments).
	Pure  func(f *ssa.Function) bool
	depth int
	rec   int // recursion depth of Val (cyclic phi chains do not fold)
}

// Wrap truncates an integer constant to the width of t.
func Wrap(c constant.Value, t types.Type) constant.Value {
	b, ok := t.Underlying().(*types.Basic)
	if !ok || c.Kind() != constant.Int {
		return c
	}
	v, exact := constant.Int64Val(c)
	if !exact {
		u, _ := constant.Uint64Val(c)
		v = int64(u)
	}
	switch b.Kind() {
	case types.Uint8:
		return constant.MakeInt64(int64(uint8(v)))
	case types.Int8:
		return constant.MakeInt64(int64(int8(v)))
	case types.Uint16:
		return constant.MakeInt64(int64(uint16(v)))
	case types.Int16:
		return constant.MakeInt64(int64(int16(v)))
	case types.Uint32:
		return constant.MakeInt64(int64(uint32(v)))
	case types.Int32:
		return constant.MakeInt64(int64(int32(v)))
	case types.Uint64, types.Uint, types.Uintptr:
		return constant.MakeUint64(uint64(v))
	}
	return c
}

// Val folds v to a constant if possible.
func (e *Eval) Val(v ssa.Value) (constant.Value, bool) {
	if c, ok := e.Env[v]; ok {
		return c, true
	}
	if e.rec > 200 {
		return nil, false
	}
	e.rec++
	defer func() { e.rec-- }()
	switch x := v.(type) {
	case *ssa.Const:
		if x.Value != nil {
			return x.Value, true
		}
	case *ssa.BinOp:
		a, ok1 := e.Val(x.X)
		b, ok2 := e.Val(x.Y)
		if !ok1 || !ok2 {
			return nil, false
		}
		switch x.Op {
		case token.EQL, token.NEQ, token.LSS, token.LEQ, token.GTR, token.GEQ:
			if a.Kind() == constant.Bool {
				eq := constant.BoolVal(a) == constant.BoolVal(b)
				if x.Op == token.EQL {
					return constant.MakeBool(eq), true
				}
				if x.Op == token.NEQ {
					return constant.MakeBool(!eq), true
				}
				return nil, false
			}
			return constant.MakeBool(constant.Compare(a, x.Op, b)), true
		case token.ADD, token.SUB, token.MUL, token.AND, token.OR, token.XOR, token.AND_NOT:
			if a.Kind() != constant.Int || b.Kind() != constant.Int {
				if a.Kind() == constant.String && x.Op == token.ADD {
					return constant.BinaryOp(a, x.Op, b), true
				}
				return nil, false
			}
			return Wrap(constant.BinaryOp(a, x.Op, b), x.Type()), true
		case token.QUO, token.REM:
			if a.Kind() != constant.Int || b.Kind() != constant.Int || constant.Sign(b) == 0 {
				return nil, false
			}
			op := token.QUO_ASSIGN // integer division
			if x.Op == token.REM {
				op = token.REM
			}
			return Wrap(constant.BinaryOp(a, op, b), x.Type()), true
		case token.SHL, token.SHR:
			if a.Kind() != constant.Int || b.Kind() != constant.Int {
				return nil, false
			}
			s, ok := constant.Uint64Val(b)
			if !ok || s > 63 {
				return nil, false
			}
			return Wrap(constant.Shift(a, x.Op, uint(s)), x.Type()), true
		}
	case *ssa.UnOp:
		switch x.Op {
		case token.NOT:
			if a, ok := e.Val(x.X); ok && a.Kind() == constant.Bool {
				return constant.MakeBool(!constant.BoolVal(a)), true
			}
		case token.SUB:
			if a, ok := e.Val(x.X); ok && a.Kind() == constant.Int {
				return Wrap(constant.UnaryOp(token.SUB, a, 0), x.Type()), true
			}
		case token.MUL:
			// load of table[idx]
			if ia, ok := x.X.(*ssa.IndexAddr); ok {
				if g, ok := ia.X.(*ssa.Global); ok {
					if tb, ok := e.Tables[g]; ok {
						if i, ok := e.Val(ia.Index); ok {
							n, _ := constant.Int64Val(i)
							if n >= 0 && int(n) < len(tb) && tb[n] != nil {
								return tb[n], true
							}
						}
					}
				}
			}
		}
	case *ssa.Convert:
		if a, ok := e.Val(x.X); ok && a.Kind() == constant.Int && core.IsInteger(x.Type()) {
			return Wrap(a, x.Type()), true
		}
		// string(b) of an integer value (byte, rune): the one-character string
		if a, ok := e.Val(x.X); ok && a.Kind() == constant.Int && core.IsString(x.Type()) && core.IsInteger(x.X.Type()) {
			if k, exact := constant.Int64Val(a); exact && k >= 0 && k <= 0x10FFFF {
				return constant.MakeString(string(rune(k))), true
			}
		}
	case *ssa.ChangeType:
		return e.Val(x.X)
	case *ssa.Phi:
		if e.Prev != nil && x.Block() != nil {
			for i, p := range x.Block().Preds {
				if p == e.Prev {
					return e.Val(x.Edges[i])
				}
			}
		}
	case *ssa.Call:
		if b, ok := x.Call.Value.(*ssa.Builtin); ok && (b.Name() == "min" || b.Name() == "max") && len(x.Call.Args) > 0 {
			var best constant.Value
			for _, arg := range x.Call.Args {
				a, ok := e.Val(arg)
				if !ok || a.Kind() != constant.Int {
					return nil, false
				}
				if best == nil || (b.Name() == "min" && constant.Compare(a, token.LSS, best)) || (b.Name() == "max" && constant.Compare(a, token.GTR, best)) {
					best = a
				}
			}
			return best, true
		}
		// index of a constant byte in a constant string: pure library arithmetic on constants
		if g := x.Call.StaticCallee(); g != nil && g.Pkg != nil && g.Name() == "IndexByte" && len(x.Call.Args) == 2 && (g.Pkg.Pkg.Path() == "strings" || g.Pkg.Pkg.Path() == "bytes") {
			hay, ok1 := e.Val(x.Call.Args[0])
			if !ok1 {
				if bs, ok := e.constBytes(x.Call.Args[0]); ok {
					hay, ok1 = constant.MakeString(string(bs)), true
				}
			}
			nd, ok2 := e.Val(x.Call.Args[1])
			if ok1 && ok2 && hay.Kind() == constant.String && nd.Kind() == constant.Int {
				n, _ := constant.Int64Val(nd)
				hs := constant.StringVal(hay)
				idx := int64(-1)
				for i := 0; i < len(hs); i++ {
					if int64(hs[i]) == n&0xff {
						idx = int64(i)
						break
					}
				}
				return constant.MakeInt64(idx), true
			}
		}
		if r, ok := e.callResults(x); ok && len(r) == 1 {
			return r[0], r[0] != nil
		}
	case *ssa.Extract:
		if call, ok := x.Tuple.(*ssa.Call); ok {
			if r, ok := e.callResults(call); ok && x.Index < len(r) && r[x.Index] != nil {
				return r[x.Index], true
			}
		}
	}
	return nil, false
}

// constBytes: v is a conversion of a constant string to bytes.
func (e *Eval) constBytes(v ssa.Value) ([]byte, bool) {
	if cv, ok := v.(*ssa.Convert); ok {
		if k, ok := cv.X.(*ssa.Const); ok && k.Value != nil && k.Value.Kind() == constant.String {
			return []byte(constant.StringVal(k.Value)), true
		}
	}
	return nil, false
}

// callResults folds a call to a module function whose control flow and results
// are determined by constant arguments alone. Side effects of the callee are
// ignored (the evaluator only answers "which value / which exit"); anything
// the result would need from memory makes the fold fail.
func (e *Eval) callResults(x *ssa.Call) ([]constant.Value, bool) {
	if e.Pure == nil || e.depth >= 4 {
		return nil, false
	}
	f := x.Call.StaticCallee()
	if f == nil || f.Blocks == nil || !e.Pure(f) {
		return nil, false
	}
	env := Env{}
	for i, p := range f.Params {
		if a, ok := e.Val(x.Call.Args[i]); ok {
			env[p] = a
		}
	}
	sub := &Eval{Env: env, Tables: e.Tables, Pure: e.Pure, depth: e.depth + 1}
	exits, err := sub.Walk(f.Blocks[0], nil, nil, 0)
	if err != nil || len(exits) != 1 || exits[0].Ret == nil {
		return nil, false
	}
	sub.Env = exits[0].Env
	sub.Prev = exits[0].From
	out := make([]constant.Value, len(exits[0].Ret.Results))
	for i, r := range exits[0].Ret.Results {
		if v, ok := sub.Val(r); ok {
			out[i] = v
		}
	}
	return out, true
}

// Exit is one way a walk ended.
type Exit struct {
	Ret    *ssa.Return     // reached a return
	Stop   *ssa.BasicBlock // reached a stop block
	From   *ssa.BasicBlock // the block the exit was entered from
	Env    Env             // environment at the exit (phis resolved)
	Forked int             // number of unevaluable conditions forked on the way
	Path   []*ssa.BasicBlock
}

// Walk follows the CFG from b (entered from prev). Conditions that fold select
// one successor; others fork, up to maxFork unevaluable conditions per path. A
// nil stop means: run to returns. The walk fails when a path exceeds the step
// bound (a loop that does not fold).
func (e *Eval) Walk(b, prev *ssa.BasicBlock, stop func(*ssa.BasicBlock) bool, maxFork int) ([]Exit, error) {
	var out []Exit
	type state struct {
		b, prev *ssa.BasicBlock
		env     Env
		forked  int
		steps   int
		path    []*ssa.BasicBlock
		forked0 bool // entered through a fork: the stop predicate applies to its first block too
	}
	work := []state{{b, prev, e.Env.clone(), 0, 0, nil, false}}
	for len(work) > 0 {
		st := work[len(work)-1]
		work = work[:len(work)-1]
		cur := &Eval{Env: st.env, Tables: e.Tables, Pure: e.Pure, depth: e.depth}
		b, prev := st.b, st.prev
		first := !st.forked0
		for {
			st.steps++
			if st.steps > 600 {
				return nil, fmt.Errorf("path does not fold within 600 steps (block %d of %s)", b.Index, b.Parent().Name())
			}
			if !first && stop != nil && stop(b) {
				out = append(out, Exit{Stop: b, From: prev, Env: cur.Env, Forked: st.forked, Path: st.path})
				break
			}
			first = false
			st.path = append(st.path, b)
			cur.Prev = prev
			// resolve phis simultaneously on entry
			var phis []*ssa.Phi
			var vals []constant.Value
			for _, in := range b.Instrs {
				ph, ok := in.(*ssa.Phi)
				if !ok {
					break
				}
				// the incoming edge is evaluated in the environment of the previous block (the phi's own stale value from
				// an earlier iteration must not answer for it); pinned phis keep their value
				var v constant.Value
				ok = false
				if pv, pinned := e.Env[ph]; pinned {
					v, ok = pv, true
				} else if prev != nil {
					for i, p := range b.Preds {
						if p == prev {
							v, ok = cur.Val(ph.Edges[i])
							break
						}
					}
				}
				phis = append(phis, ph)
				if ok {
					vals = append(vals, v)
				} else {
					vals = append(vals, nil)
				}
			}
			for i, ph := range phis {
				if vals[i] != nil {
					cur.Env[ph] = vals[i]
				} else {
					delete(cur.Env, ph)
				}
			}
			// values computed in a block re-entered by a loop must be recomputed
			for _, in := range b.Instrs {
				if v, ok := in.(ssa.Value); ok {
					if _, isPhi := in.(*ssa.Phi); !isPhi {
						if _, pinned := e.Env[v]; !pinned {
							delete(cur.Env, v)
						}
					}
				}
			}
			done := false
			switch t := b.Instrs[len(b.Instrs)-1].(type) {
			case *ssa.Return:
				out = append(out, Exit{Ret: t, From: prev, Env: cur.Env, Forked: st.forked, Path: st.path})
				done = true
			case *ssa.Jump:
				prev, b = b, b.Succs[0]
			case *ssa.If:
				c, ok := cur.Val(t.Cond)
				if ok && c.Kind() == constant.Bool {
					if constant.BoolVal(c) {
						prev, b = b, b.Succs[0]
					} else {
						prev, b = b, b.Succs[1]
					}
				} else {
					if st.forked >= maxFork {
						return nil, fmt.Errorf("condition %s in block %d of %s is not evaluable (fork budget %d used)", t.Cond, b.Index, b.Parent().Name(), maxFork)
					}
					// fork: false branch queued, true branch continued
					work = append(work, state{b.Succs[1], b, cur.Env.clone(), st.forked + 1, st.steps, append([]*ssa.BasicBlock{}, st.path...), true})
					st.forked++
					prev, b = b, b.Succs[0]
				}
			case *ssa.Panic:
				out = append(out, Exit{From: prev, Env: cur.Env, Forked: st.forked, Path: st.path})
				done = true
			default:
				return nil, fmt.Errorf("unexpected terminator in block %d", b.Index)
			}
			if done {
				break
			}
		}
		if len(out) > 4096 {
			return nil, fmt.Errorf("too many exits")
		}
	}
	return out, nil
}

// ValAt evaluates v in the environment of an exit.
func (x Exit) ValAt(e *Eval, v ssa.Value) (constant.Value, bool) {
	ev := &Eval{Env: x.Env, Tables: e.Tables, Pure: e.Pure, Prev: x.From}
	return ev.Val(v)
}

// ConstTables extracts every package-level array/slice variable of the module
// whose initialiser is a composite literal of constants.
func ConstTables(c *core.Ctx) Tables {
	if t, ok := c.Memo["fde.tables"].(Tables); ok {
		return t
	}
	tb := Tables{}
	for _, p := range c.ModPkgs {
		sp := c.SSA[p.PkgPath]
		for _, f := range p.Syntax {
			for _, d := range f.Decls {
				gd, ok := d.(*ast.GenDecl)
				if !ok || gd.Tok != token.VAR {
					continue
				}
				for _, s := range gd.Specs {
					vs := s.(*ast.ValueSpec)
					if len(vs.Names) != len(vs.Values) {
						continue
					}
					for i, nm := range vs.Names {
						cl, ok := ast.Unparen(vs.Values[i]).(*ast.CompositeLit)
						if !ok {
							continue
						}
						arr, ok := p.TypesInfo.TypeOf(cl).Underlying().(*types.Array)
						if !ok {
							continue
						}
						vals := make([]constant.Value, arr.Len())
						zero := constant.MakeInt64(0)
						for k := range vals {
							vals[k] = zero
						}
						idx := int64(0)
						good := true
						for _, el := range cl.Elts {
							ve := el
							if kv, ok := el.(*ast.KeyValueExpr); ok {
								kvv := p.TypesInfo.Types[kv.Key].Value
								if kvv == nil {
									good = false
									break
								}
								idx, _ = constant.Int64Val(kvv)
								ve = kv.Value
							}
							v := p.TypesInfo.Types[ve].Value
							if v == nil || idx < 0 || idx >= arr.Len() {
								good = false
								break
							}
							vals[idx] = v
							idx++
						}
						if !good {
							continue
						}
						if g, ok := sp.Members[nm.Name].(*ssa.Global); ok {
							// the table must never be written after initialisation
							tb[g] = vals
						}
					}
				}
			}
		}
	}
	// drop tables that are stored to outside init
	for _, f := range c.AllModFuncs() {
		for _, b := range f.Blocks {
			for _, in := range b.Instrs {
				st, ok := in.(*ssa.Store)
				if !ok {
					continue
				}
				if ia, ok := st.Addr.(*ssa.IndexAddr); ok {
					if g, ok := ia.X.(*ssa.Global); ok && f.Name() != "init" {
						delete(tb, g)
					}
				}
				if g, ok := st.Addr.(*ssa.Global); ok && f.Name() != "init" {
					delete(tb, g)
				}
			}
		}
	}
	c.Memo["fde.tables"] = tb
	return tb
}

// RangeElem describes a forward loop over every element of x in f — either
// `for i, b := range x` or `for i := 0; i < len(x); i++` — : the element
// address, the element load (nil when only fields of the element are read), the
// index value, and the loop's blocks.
type RangeElem struct {
	ElemAddr *ssa.IndexAddr
	Load     *ssa.UnOp
	Index    ssa.Value
	Header   *ssa.BasicBlock
	Body     *ssa.BasicBlock
	Done     *ssa.BasicBlock
	Phi      *ssa.Phi
}

// FindRangeOver finds forward full-range loops over x that load the element.
func FindRangeOver(f *ssa.Function, x ssa.Value) []RangeElem {
	var out []RangeElem
	for _, r := range FindRangeOver2(f, x) {
		if r.Load != nil {
			out = append(out, r)
		}
	}
	return out
}

// SameColl: a and b denote the same collection: the same SSA value, or two
// loads of the same field of the same base object (a field re-read in every
// iteration of an index loop).
func SameColl(a, b ssa.Value) bool {
	if a == b {
		return true
	}
	ua, ok1 := a.(*ssa.UnOp)
	ub, ok2 := b.(*ssa.UnOp)
	if !ok1 || !ok2 || ua.Op != token.MUL || ub.Op != token.MUL {
		return false
	}
	if ga, ok := ua.X.(*ssa.Global); ok {
		return ua.X == ub.X && ga != nil // two loads of one package-level table
	}
	fa, ok1 := ua.X.(*ssa.FieldAddr)
	fb, ok2 := ub.X.(*ssa.FieldAddr)
	return ok1 && ok2 && fa.X == fb.X && fa.Field == fb.Field
}

// FindRangeOver2 also returns loops that only take the element's address.
func FindRangeOver2(f *ssa.Function, x ssa.Value) []RangeElem {
	var out []RangeElem
	seenHdr := map[*ssa.BasicBlock]bool{}
	for _, b := range f.Blocks {
		for _, in := range b.Instrs {
			ia, ok := in.(*ssa.IndexAddr)
			if !ok || !SameColl(ia.X, x) {
				continue
			}
			var ph *ssa.Phi
			var h *ssa.BasicBlock
			var cmpIdx ssa.Value
			initWant := int64(0)
			if bo, ok := ia.Index.(*ssa.BinOp); ok && bo.Op == token.ADD && core.IsConstInt(bo.Y, 1) {
				// range idiom: index = phi+1, phi starts at -1, header tests phi+1 < len
				p, ok := bo.X.(*ssa.Phi)
				if !ok {
					continue
				}
				ph, h, cmpIdx, initWant = p, p.Block(), bo, -1
				// back edges carry phi+1
				okBack := true
				for k, pr := range h.Preds {
					if h.Dominates(pr) && p.Edges[k] != ssa.Value(bo) {
						okBack = false
					}
				}
				if !okBack {
					continue
				}
			} else if p, ok := ia.Index.(*ssa.Phi); ok {
				// counted idiom: index = phi, phi starts at 0, header tests phi < len, back edge phi+1
				ph, h, cmpIdx, initWant = p, p.Block(), p, 0
				okBack := true
				for k, pr := range h.Preds {
					if !h.Dominates(pr) {
						continue
					}
					add, ok := p.Edges[k].(*ssa.BinOp)
					if !ok || add.Op != token.ADD || add.X != ssa.Value(p) || !core.IsConstInt(add.Y, 1) {
						okBack = false
					}
				}
				if !okBack {
					continue
				}
			} else {
				continue
			}
			iff := core.IfOf(h)
			if iff == nil {
				continue
			}
			cmp, ok := iff.Cond.(*ssa.BinOp)
			if !ok || cmp.Op != token.LSS || cmp.X != cmpIdx {
				continue
			}
			ln, ok := cmp.Y.(*ssa.Call)
			if !ok || !core.IsBuiltin(&ln.Call, "len") || !SameColl(ln.Call.Args[0], x) {
				continue
			}
			okInit, nInit := true, 0
			for k, p := range h.Preds {
				if !h.Dominates(p) {
					nInit++
					if !core.IsConstInt(ph.Edges[k], initWant) {
						okInit = false
					}
				}
			}
			if !okInit || nInit == 0 {
				continue
			}
			body, done := h.Succs[0], h.Succs[1]
			if !body.Dominates(b) && body != b {
				continue
			}
			r := RangeElem{ElemAddr: ia, Index: ia.Index, Header: h, Body: body, Done: done, Phi: ph}
			for _, ref := range *ia.Referrers() {
				if u, ok := ref.(*ssa.UnOp); ok && u.Op == token.MUL {
					r.Load = u
				}
			}
			if seenHdr[h] && r.Load == nil {
				continue
			}
			seenHdr[h] = true
			out = append(out, r)
		}
	}
	// one entry per loop header: prefer the one with a load
	byHdr := map[*ssa.BasicBlock]int{}
	var res []RangeElem
	for _, r := range out {
		if i, ok := byHdr[r.Header]; ok {
			if res[i].Load == nil && r.Load != nil {
				res[i] = r
			}
			continue
		}
		byHdr[r.Header] = len(res)
		res = append(res, r)
	}
	return res
}
