// Package tree is engine E1: it reconstructs the detector tree from the
// type-checked package-level initialisers of package mimetype.
package tree

import (
	"go/ast"
	"go/constant"
	"go/token"
	"go/types"
	"sort"

	"golang.org/x/tools/go/ssa"

	"mtverif/internal/core"
)

// Node is one registered format.
type Node struct {
	Var      *types.Var
	Name     string // variable name (informational)
	Mime     string
	MimeOK   bool // constant-folded
	Ext      string
	Aliases  []string
	AliasPos []token.Pos
	AliasOK  bool          // every alias was a constant
	DetExpr  ast.Expr      // detector argument
	DetObj   types.Object  // *types.Func or *types.Var of package magic; nil for a func literal
	DetFn    *ssa.Function // body that runs: the function itself, or the closure a constructor returned
	DetCtor  *ssa.Call     // for detector variables: the constructing call in magic's init (prefix/offset/...)
	DetBind  []ssa.Value   // for detector variables: closure bindings
	Literal  bool          // written as a keyed literal, not through the constructor (stand-alone node: no children)
	DetChain []*ssa.Call   // detector variables built by constructors calling constructors: the calls from init inwards
	Children []*Node
	ChildPos []token.Pos
	Parents  []*Node // every node listing this one as a child (well-formed: exactly one, root/sentinel none)
	Pos      token.Pos
	Call     *ast.CallExpr
	// ChildExprs: the child arguments, when they do not sit in Call.Args[3:] (node built through a helper)
	ChildExprs []ast.Expr
	viaHelper  bool
}

// Model is the extracted tree.
type Model struct {
	files    []*ast.File
	Type     *types.Named // the MIME struct
	Ctor     *types.Func  // newMIME
	AliasM   *types.Func  // (*MIME).alias
	Nodes    []*Node      // in declaration order of position
	ByVar    map[*types.Var]*Node
	Root     *Node
	Sentinel *Node          // errMIME: octet-stream, no children, no parent
	Fields   map[string]int // field name -> index (mime, aliases, extension, detector, children, parent)
	// Field roles found semantically
	FMime, FAliases, FExt, FDet, FChildren, FParent int
	Problems                                        []string // initialisers of *MIME variables that are not of the recognised shape
}

// Get returns the memoised model for c.
func Get(c *core.Ctx) *Model {
	if m, ok := c.Memo["tree"].(*Model); ok {
		return m
	}
	m := extract(c)
	c.Memo["tree"] = m
	return m
}

func extract(c *core.Ctx) *Model {
	pkg := c.ByPath[core.PkgRoot]
	info := pkg.TypesInfo
	m := &Model{ByVar: map[*types.Var]*Node{}, Fields: map[string]int{}}

	// The node type: pointer result of the exported function Detect.
	det, _ := pkg.Types.Scope().Lookup("Detect").(*types.Func)
	if det == nil {
		core.Bail("E1: exported function Detect not found")
	}
	res := det.Type().(*types.Signature).Results()
	if res.Len() != 1 {
		core.Bail("E1: Detect does not return a single value")
	}
	pt, ok := res.At(0).Type().(*types.Pointer)
	if !ok {
		core.Bail("E1: Detect does not return a pointer")
	}
	m.Type, ok = pt.Elem().(*types.Named)
	if !ok {
		core.Bail("E1: node type is not a named type")
	}
	st, ok := m.Type.Underlying().(*types.Struct)
	if !ok {
		core.Bail("E1: node type is not a struct")
	}
	m.FMime, m.FAliases, m.FExt, m.FDet, m.FChildren, m.FParent = -1, -1, -1, -1, -1, -1
	for i := 0; i < st.NumFields(); i++ {
		m.Fields[st.Field(i).Name()] = i
	}
	isNodePtr := func(t types.Type) bool {
		p, ok := t.(*types.Pointer)
		return ok && types.Identical(p.Elem(), m.Type)
	}
	// Field roles by type: []*T children, *T parent, func detector, []string aliases; the two strings by the String() method.
	for i := 0; i < st.NumFields(); i++ {
		switch t := st.Field(i).Type().Underlying().(type) {
		case *types.Slice:
			if isNodePtr(t.Elem()) {
				m.FChildren = i
			} else if b, ok := t.Elem().Underlying().(*types.Basic); ok && b.Kind() == types.String {
				m.FAliases = i
			}
		case *types.Pointer:
			if isNodePtr(st.Field(i).Type()) {
				m.FParent = i
			}
		case *types.Signature:
			m.FDet = i
		}
	}
	// mime = field returned by String(); extension = field returned by Extension()
	fieldReturnedBy := func(name string) int {
		f := c.Method(core.PkgRoot, m.Type.Obj().Name(), name)
		if f == nil || f.Blocks == nil {
			return -1
		}
		for _, b := range f.Blocks {
			if r, ok := b.Instrs[len(b.Instrs)-1].(*ssa.Return); ok && len(r.Results) == 1 {
				if u, ok := r.Results[0].(*ssa.UnOp); ok && u.Op == token.MUL {
					if fa, ok := u.X.(*ssa.FieldAddr); ok {
						return fa.Field
					}
				}
			}
		}
		return -1
	}
	m.FMime = fieldReturnedBy("String")
	m.FExt = fieldReturnedBy("Extension")
	if m.FMime < 0 || m.FAliases < 0 || m.FExt < 0 || m.FDet < 0 || m.FChildren < 0 || m.FParent < 0 {
		core.Bail("E1: cannot identify the roles of the node type's fields (mime=%d aliases=%d ext=%d det=%d children=%d parent=%d)",
			m.FMime, m.FAliases, m.FExt, m.FDet, m.FChildren, m.FParent)
	}

	// Constructor: package-level function returning *T with a variadic ...*T
	// parameter whose body stores into .parent of the variadic elements.
	// Alias method: method on *T with variadic ...string storing into .aliases and returning the receiver.
	sp := c.SSA[core.PkgRoot]
	for _, mem := range sp.Members {
		f, ok := mem.(*ssa.Function)
		if !ok || f.Blocks == nil {
			continue
		}
		sig := f.Signature
		if sig.Recv() == nil && sig.Variadic() && sig.Results().Len() == 1 && isNodePtr(sig.Results().At(0).Type()) {
			last := sig.Params().At(sig.Params().Len() - 1).Type().(*types.Slice)
			if isNodePtr(last.Elem()) && storesField(f, m.FParent) {
				if m.Ctor != nil {
					core.Bail("E1: two candidate tree constructors (%s, %s)", m.Ctor.Name(), f.Name())
				}
				m.Ctor, _ = f.Object().(*types.Func)
			}
		}
	}
	ms := c.Prog.MethodSets.MethodSet(types.NewPointer(m.Type))
	for i := 0; i < ms.Len(); i++ {
		f := c.Prog.MethodValue(ms.At(i))
		if f == nil || f.Blocks == nil {
			continue
		}
		sig := f.Signature
		if sig.Variadic() && sig.Params().Len() == 1 && sig.Results().Len() == 1 && isNodePtr(sig.Results().At(0).Type()) && storesField(f, m.FAliases) {
			if m.AliasM != nil {
				core.Bail("E1: two candidate alias methods")
			}
			m.AliasM, _ = f.Object().(*types.Func)
		}
	}
	if m.Ctor == nil {
		core.Bail("E1: tree constructor not found")
	}

	// Package-level *T variables.
	m.files = pkg.Syntax
	for _, file := range pkg.Syntax {
		for _, d := range file.Decls {
			gd, ok := d.(*ast.GenDecl)
			if !ok || gd.Tok != token.VAR {
				continue
			}
			for _, spc := range gd.Specs {
				vs := spc.(*ast.ValueSpec)
				for i, name := range vs.Names {
					obj, _ := info.Defs[name].(*types.Var)
					if obj == nil || !isNodePtr(obj.Type()) {
						continue
					}
					if len(vs.Values) != len(vs.Names) {
						m.Problems = append(m.Problems, c.Pos(name.Pos())+": node variable "+name.Name+" is not initialised by its own expression")
						continue
					}
					n := m.parseInit(c, info, obj, vs.Values[i])
					if n == nil {
						m.Problems = append(m.Problems, c.Pos(name.Pos())+": initialiser of node variable "+name.Name+" is not constructor(...)[.alias(...)]")
						continue
					}
					m.Nodes = append(m.Nodes, n)
					m.ByVar[obj] = n
				}
			}
		}
	}
	sort.Slice(m.Nodes, func(i, j int) bool { return m.Nodes[i].Pos < m.Nodes[j].Pos })
	// link children
	for _, n := range m.Nodes {
		if n.Call == nil {
			continue // literal node: no children
		}
		childArgs := n.Call.Args[3:]
		if n.viaHelper {
			childArgs = n.ChildExprs
		}
		// children handed over as list()... : a parameterless package function whose body is `return []*T{a, b, ...}`
		if !n.viaHelper && n.Call.Ellipsis.IsValid() && len(childArgs) == 1 {
			if lst := listFuncElems(pkg.Syntax, info, childArgs[0]); lst != nil {
				childArgs = lst
			}
		}
		for i, arg := range childArgs {
			id, ok := ast.Unparen(arg).(*ast.Ident)
			var ch *Node
			if ok {
				if v, ok := info.Uses[id].(*types.Var); ok {
					ch = m.ByVar[v]
				}
			}
			if ch == nil {
				m.Problems = append(m.Problems, c.Pos(arg.Pos())+": child argument of "+n.Name+" is not a node variable")
				continue
			}
			_ = i
			n.Children = append(n.Children, ch)
			n.ChildPos = append(n.ChildPos, arg.Pos())
			ch.Parents = append(ch.Parents, n)
		}
	}
	// Root: the node returned through by the entry point: the unique parentless node with children.
	for _, n := range m.Nodes {
		if len(n.Parents) == 0 {
			if len(n.Children) > 0 {
				if m.Root != nil {
					m.Problems = append(m.Problems, c.Pos(n.Pos)+": second parentless node with children: "+n.Name+" (first: "+m.Root.Name+")")
					continue
				}
				m.Root = n
			}
		}
	}
	for _, n := range m.Nodes {
		if len(n.Parents) == 0 && len(n.Children) == 0 && n != m.Root {
			// candidate sentinel: the variable returned by the entry points on error
			if m.Sentinel == nil {
				m.Sentinel = n
			} else {
				m.Problems = append(m.Problems, c.Pos(n.Pos)+": node "+n.Name+" is not attached to the tree")
			}
		}
	}
	if m.Root == nil {
		core.Bail("E1: no root node found")
	}
	m.resolveDetectors(c)
	return m
}

func storesField(f *ssa.Function, field int) bool {
	for _, b := range f.Blocks {
		for _, in := range b.Instrs {
			if st, ok := in.(*ssa.Store); ok {
				if fa, ok := st.Addr.(*ssa.FieldAddr); ok && fa.Field == field {
					return true
				}
			}
		}
	}
	return false
}

func (m *Model) parseInit(c *core.Ctx, info *types.Info, obj *types.Var, e ast.Expr) *Node {
	// a stand-alone node written as a literal: &T{mime: ..., extension: ..., detector: ..., aliases: ...}
	if un, ok := ast.Unparen(e).(*ast.UnaryExpr); ok && un.Op == token.AND {
		if cl, ok := ast.Unparen(un.X).(*ast.CompositeLit); ok {
			return m.parseLiteral(info, obj, cl)
		}
	}
	call, ok := ast.Unparen(e).(*ast.CallExpr)
	if !ok {
		return nil
	}
	if n := m.parseViaHelper(info, obj, call); n != nil {
		return n
	}
	n := &Node{Var: obj, Name: obj.Name(), Pos: obj.Pos(), AliasOK: true}
	if sel, ok := call.Fun.(*ast.SelectorExpr); ok {
		if s := info.Selections[sel]; s != nil && m.AliasM != nil && s.Obj() == m.AliasM {
			inner, ok := ast.Unparen(sel.X).(*ast.CallExpr)
			if !ok {
				return nil
			}
			if call.Ellipsis.IsValid() {
				n.AliasOK = false
			}
			for _, a := range call.Args {
				if tv := info.Types[a]; tv.Value != nil && tv.Value.Kind() == constant.String {
					n.Aliases = append(n.Aliases, constant.StringVal(tv.Value))
					n.AliasPos = append(n.AliasPos, a.Pos())
				} else {
					n.AliasOK = false
				}
			}
			call = inner
		} else {
			return nil
		}
	}
	id, ok := call.Fun.(*ast.Ident)
	if !ok || info.Uses[id] != m.Ctor || len(call.Args) < 3 || (call.Ellipsis.IsValid() && !(len(call.Args) == 4 && listFuncElems(m.files, info, call.Args[3]) != nil)) {
		return nil
	}
	n.Call = call
	if tv := info.Types[call.Args[0]]; tv.Value != nil && tv.Value.Kind() == constant.String {
		n.Mime, n.MimeOK = constant.StringVal(tv.Value), true
	}
	if tv := info.Types[call.Args[1]]; tv.Value != nil && tv.Value.Kind() == constant.String {
		n.Ext = constant.StringVal(tv.Value)
	}
	n.DetExpr = call.Args[2]
	switch d := ast.Unparen(call.Args[2]).(type) {
	case *ast.SelectorExpr:
		n.DetObj = info.Uses[d.Sel]
	case *ast.Ident:
		n.DetObj = info.Uses[d]
	}
	return n
}

// parseLiteral reads a keyed composite literal of the node type. Only the
// descriptive fields may be set: a literal with children or a parent is not a
// stand-alone node and is not accepted.
func (m *Model) parseLiteral(info *types.Info, obj *types.Var, cl *ast.CompositeLit) *Node {
	st, ok := m.Type.Underlying().(*types.Struct)
	if !ok || !types.Identical(info.TypeOf(cl), m.Type) {
		return nil
	}
	n := &Node{Var: obj, Name: obj.Name(), Pos: obj.Pos(), AliasOK: true}
	for _, el := range cl.Elts {
		kv, ok := el.(*ast.KeyValueExpr)
		if !ok {
			return nil
		}
		key, ok := kv.Key.(*ast.Ident)
		if !ok {
			return nil
		}
		fi := -1
		for i := 0; i < st.NumFields(); i++ {
			if st.Field(i).Name() == key.Name {
				fi = i
			}
		}
		switch fi {
		case m.FMime:
			if tv := info.Types[kv.Value]; tv.Value != nil && tv.Value.Kind() == constant.String {
				n.Mime, n.MimeOK = constant.StringVal(tv.Value), true
			}
		case m.FExt:
			if tv := info.Types[kv.Value]; tv.Value != nil && tv.Value.Kind() == constant.String {
				n.Ext = constant.StringVal(tv.Value)
			}
		case m.FDet:
			n.DetExpr = kv.Value
			switch d := ast.Unparen(kv.Value).(type) {
			case *ast.SelectorExpr:
				n.DetObj = info.Uses[d.Sel]
			case *ast.Ident:
				n.DetObj = info.Uses[d]
			}
		case m.FAliases:
			lit, ok := ast.Unparen(kv.Value).(*ast.CompositeLit)
			if !ok {
				n.AliasOK = false
				continue
			}
			for _, a := range lit.Elts {
				if tv := info.Types[a]; tv.Value != nil && tv.Value.Kind() == constant.String {
					n.Aliases = append(n.Aliases, constant.StringVal(tv.Value))
					n.AliasPos = append(n.AliasPos, a.Pos())
				} else {
					n.AliasOK = false
				}
			}
		default:
			return nil // children / parent / unknown field
		}
	}
	if n.DetExpr == nil {
		return nil // a node without a detector would make the walk call nil
	}
	n.Literal = true
	return n
}

// resolveDetectors maps detector arguments to SSA function bodies.
func (m *Model) resolveDetectors(c *core.Ctx) {
	// func literals in the root package's init: find by position
	lits := map[token.Pos]*ssa.Function{}
	for _, f := range c.AllModFuncs() {
		if f.Parent() != nil && f.Syntax() != nil {
			lits[f.Syntax().Pos()] = f
		}
	}
	for _, n := range m.Nodes {
		switch o := n.DetObj.(type) {
		case *types.Func:
			n.DetFn = c.Prog.FuncValue(o)
		case *types.Var:
			if o.Pkg() == nil {
				continue
			}
			sp := c.SSA[o.Pkg().Path()]
			if sp == nil {
				continue
			}
			g, _ := sp.Members[o.Name()].(*ssa.Global)
			if g == nil {
				continue
			}
			n.DetFn, n.DetCtor, n.DetBind = ClosureOfGlobal(sp, g)
			if _, chain, _ := ClosureChain(sp, g); len(chain) > 1 {
				n.DetChain = chain
			}
		case nil:
			if fl, ok := ast.Unparen(n.DetExpr).(*ast.FuncLit); ok {
				n.DetFn = lits[fl.Pos()]
			}
		}
	}
}

// ClosureOfGlobal finds the unique store to g in the package initialiser; when
// the stored value is the result of a call to a constructor whose every return
// is one MakeClosure, it returns that closure, the constructing call and the
// bindings. No other store to g may exist anywhere in the package.
func ClosureOfGlobal(sp *ssa.Package, g *ssa.Global) (*ssa.Function, *ssa.Call, []ssa.Value) {
	var stores []*ssa.Store
	for _, mem := range sp.Members {
		f, ok := mem.(*ssa.Function)
		if !ok {
			continue
		}
		var visit func(f *ssa.Function)
		visit = func(f *ssa.Function) {
			for _, b := range f.Blocks {
				for _, in := range b.Instrs {
					if st, ok := in.(*ssa.Store); ok && st.Addr == ssa.Value(g) {
						stores = append(stores, st)
					}
				}
			}
			for _, a := range f.AnonFuncs {
				visit(a)
			}
		}
		visit(f)
	}
	if len(stores) != 1 || stores[0].Parent().Name() != "init" {
		return nil, nil, nil
	}
	v := stores[0].Val
	if ct, ok := v.(*ssa.ChangeType); ok {
		v = ct.X
	}
	switch x := v.(type) {
	case *ssa.Function:
		return x, nil, nil
	case *ssa.MakeClosure:
		return x.Fn.(*ssa.Function), nil, x.Bindings
	case *ssa.Call:
		fn, chain, bind := closureThrough(x, 0)
		if fn == nil {
			return nil, nil, nil
		}
		return fn, chain[0], bind
	}
	return nil, nil, nil
}

// Chain returns n and its ancestors up to the root (well-formed trees only).
func (n *Node) Chain() []*Node {
	var out []*Node
	seen := map[*Node]bool{}
	for x := n; x != nil && !seen[x]; {
		seen[x] = true
		out = append(out, x)
		if len(x.Parents) == 0 {
			break
		}
		x = x.Parents[0]
	}
	return out
}

// Find returns the nodes whose registered constant equals mime.
func (m *Model) Find(mime string) []*Node {
	var out []*Node
	for _, n := range m.Nodes {
		if n.MimeOK && n.Mime == mime {
			out = append(out, n)
		}
	}
	return out
}

// Under reports whether n is a (transitive) descendant of a.
func (n *Node) Under(a *Node) bool {
	for _, x := range n.Chain()[1:] {
		if x == a {
			return true
		}
	}
	return false
}

// GlobalInit returns the value the package initialiser stores into g when that
// is the only store to g in g's package; nil otherwise.
func GlobalInit(g *ssa.Global) ssa.Value {
	if g.Pkg == nil {
		return nil
	}
	var stores []*ssa.Store
	var visit func(f *ssa.Function)
	visit = func(f *ssa.Function) {
		for _, b := range f.Blocks {
			for _, in := range b.Instrs {
				if st, ok := in.(*ssa.Store); ok && st.Addr == ssa.Value(g) {
					stores = append(stores, st)
				}
			}
		}
		for _, a := range f.AnonFuncs {
			visit(a)
		}
	}
	for _, mem := range g.Pkg.Members {
		if f, ok := mem.(*ssa.Function); ok {
			visit(f)
		}
		if t, ok := mem.(*ssa.Type); ok {
			for _, ms := range []*types.MethodSet{g.Pkg.Prog.MethodSets.MethodSet(t.Type()), g.Pkg.Prog.MethodSets.MethodSet(types.NewPointer(t.Type()))} {
				for i := 0; i < ms.Len(); i++ {
					if f := g.Pkg.Prog.MethodValue(ms.At(i)); f != nil {
						visit(f)
					}
				}
			}
		}
	}
	if len(stores) != 1 || stores[0].Parent().Name() != "init" {
		return nil
	}
	return stores[0].Val
}

// ClosureChain is ClosureOfGlobal for constructors that call constructors: it
// returns the closure body, the chain of constructing calls from the package
// initialiser inwards, and the bindings of the closure in the innermost one.
func ClosureChain(sp *ssa.Package, g *ssa.Global) (*ssa.Function, []*ssa.Call, []ssa.Value) {
	init := GlobalInit(g)
	if init == nil {
		return nil, nil, nil
	}
	if ct, ok := init.(*ssa.ChangeType); ok {
		init = ct.X
	}
	call, ok := init.(*ssa.Call)
	if !ok {
		return nil, nil, nil
	}
	return closureThrough(call, 0)
}

// closureThrough: call's callee returns one closure on every path, directly or
// as the result of another such constructor.
func closureThrough(call *ssa.Call, depth int) (*ssa.Function, []*ssa.Call, []ssa.Value) {
	callee := call.Call.StaticCallee()
	if callee == nil || callee.Blocks == nil || depth > 3 {
		return nil, nil, nil
	}
	var clo *ssa.MakeClosure
	var inner *ssa.Call
	for _, b := range callee.Blocks {
		r, ok := b.Instrs[len(b.Instrs)-1].(*ssa.Return)
		if !ok {
			continue
		}
		// a constructor that specialises on the number of its variadic arguments: only the returns this call can
		// reach count (conditions on len(parameter) decided by the length of the literal list at the call)
		if !returnFeasible(r, call) {
			continue
		}
		rv := r.Results[0]
		if ct, ok := rv.(*ssa.ChangeType); ok {
			rv = ct.X
		}
		switch y := rv.(type) {
		case *ssa.MakeClosure:
			if inner != nil || (clo != nil && clo != y) {
				return nil, nil, nil
			}
			clo = y
		case *ssa.Call:
			if clo != nil || (inner != nil && inner != y) {
				return nil, nil, nil
			}
			inner = y
		default:
			return nil, nil, nil
		}
	}
	if clo != nil {
		return clo.Fn.(*ssa.Function), []*ssa.Call{call}, clo.Bindings
	}
	if inner != nil {
		fn, chain, bind := closureThrough(inner, depth+1)
		if fn == nil {
			return nil, nil, nil
		}
		return fn, append([]*ssa.Call{call}, chain...), bind
	}
	return nil, nil, nil
}

// ConstBytes constant-folds an SSA value that denotes a []byte built from a
// constant: []byte("..."), a composite literal of constant bytes, or a slice of
// such an array. ok is false when the value is not a compile-time constant.
func ConstBytes(v ssa.Value) ([]byte, bool) {
	switch x := v.(type) {
	case *ssa.UnOp:
		// a named package-level constant slice: var sig = []byte{...}, assigned once, by the package initialiser
		if g, ok := x.X.(*ssa.Global); ok && x.Op == token.MUL {
			if init := GlobalInit(g); init != nil {
				if _, again := init.(*ssa.UnOp); !again {
					return ConstBytes(init)
				}
			}
		}
	case *ssa.Convert:
		if k, ok := x.X.(*ssa.Const); ok && k.Value != nil && k.Value.Kind() == constant.String {
			return []byte(constant.StringVal(k.Value)), true
		}
	case *ssa.Const:
		if x.Value == nil {
			return nil, true // nil slice
		}
		if x.Value.Kind() == constant.String {
			return []byte(constant.StringVal(x.Value)), true
		}
	case *ssa.Slice:
		if x.Low != nil || x.High != nil {
			return nil, false
		}
		al, ok := x.X.(*ssa.Alloc)
		if !ok {
			return nil, false
		}
		arr, ok := al.Type().Underlying().(*types.Pointer).Elem().Underlying().(*types.Array)
		if !ok {
			return nil, false
		}
		out := make([]byte, arr.Len())
		for _, r := range *al.Referrers() {
			switch y := r.(type) {
			case *ssa.IndexAddr:
				ik, ok := y.Index.(*ssa.Const)
				if !ok {
					return nil, false
				}
				idx, _ := constant.Int64Val(ik.Value)
				for _, r2 := range *y.Referrers() {
					st, ok := r2.(*ssa.Store)
					if !ok {
						return nil, false
					}
					k, ok := st.Val.(*ssa.Const)
					if !ok || k.Value == nil {
						return nil, false
					}
					bv, _ := constant.Int64Val(constant.ToInt(k.Value))
					out[idx] = byte(bv)
				}
			case *ssa.Slice, *ssa.DebugRef:
			default:
				return nil, false
			}
		}
		return out, true
	}
	return nil, false
}

// ConstByteSlices folds a [][]byte built as a variadic argument list / literal
// of constant byte slices.
func ConstByteSlices(v ssa.Value) ([][]byte, bool) {
	sl, ok := v.(*ssa.Slice)
	if !ok {
		if k, ok := v.(*ssa.Const); ok && k.Value == nil {
			return nil, true
		}
		return nil, false
	}
	al, ok := sl.X.(*ssa.Alloc)
	if !ok || sl.Low != nil || sl.High != nil {
		return nil, false
	}
	arr, ok := al.Type().Underlying().(*types.Pointer).Elem().Underlying().(*types.Array)
	if !ok {
		return nil, false
	}
	out := make([][]byte, arr.Len())
	set := make([]bool, arr.Len())
	for _, r := range *al.Referrers() {
		switch y := r.(type) {
		case *ssa.IndexAddr:
			ik, ok := y.Index.(*ssa.Const)
			if !ok {
				return nil, false
			}
			idx, _ := constant.Int64Val(ik.Value)
			for _, r2 := range *y.Referrers() {
				st, ok := r2.(*ssa.Store)
				if !ok {
					return nil, false
				}
				b, ok := ConstBytes(st.Val)
				if !ok {
					return nil, false
				}
				out[idx], set[idx] = b, true
			}
		case *ssa.Slice, *ssa.DebugRef:
		default:
			return nil, false
		}
	}
	for _, s := range set {
		if !s {
			return nil, false
		}
	}
	return out, true
}

// listFuncElems: e is a call f() of a package-level function without
// parameters whose body is the single statement `return []*T{...}`; the
// elements of that literal.
func listFuncElems(files []*ast.File, info *types.Info, e ast.Expr) []ast.Expr {
	call, ok := ast.Unparen(e).(*ast.CallExpr)
	if !ok || len(call.Args) != 0 {
		return nil
	}
	id, ok := ast.Unparen(call.Fun).(*ast.Ident)
	if !ok {
		return nil
	}
	fn, ok := info.Uses[id].(*types.Func)
	if !ok {
		return nil
	}
	for _, file := range files {
		for _, d := range file.Decls {
			fd, ok := d.(*ast.FuncDecl)
			if !ok || fd.Recv != nil || info.Defs[fd.Name] != types.Object(fn) || fd.Body == nil || len(fd.Body.List) != 1 {
				continue
			}
			ret, ok := fd.Body.List[0].(*ast.ReturnStmt)
			if !ok || len(ret.Results) != 1 {
				return nil
			}
			lit, ok := ast.Unparen(ret.Results[0]).(*ast.CompositeLit)
			if !ok {
				return nil
			}
			if _, isSlice := info.TypeOf(lit).Underlying().(*types.Slice); !isSlice {
				return nil
			}
			for _, el := range lit.Elts {
				if _, kv := el.(*ast.KeyValueExpr); kv {
					return nil
				}
			}
			return lit.Elts
		}
	}
	return nil
}

// parseViaHelper reads a node registered through a helper of the tree file:
//
//	func helper(p1, p2 string, det D, children ...*T) *T {
//		[const ( ... )]
//		return ctor(<string expr over constants and p's>, <...>, det, children...)[.alias(<string exprs>)]
//	}
//
// The helper's return expression is read with its parameters bound to the
// arguments of the call; strings are folded from constants only.
func (m *Model) parseViaHelper(info *types.Info, obj *types.Var, call *ast.CallExpr) *Node {
	id, ok := ast.Unparen(call.Fun).(*ast.Ident)
	if !ok || call.Ellipsis.IsValid() {
		return nil
	}
	fn, ok := info.Uses[id].(*types.Func)
	if !ok || fn == m.Ctor {
		return nil
	}
	var fd *ast.FuncDecl
	for _, file := range m.files {
		for _, d := range file.Decls {
			if x, ok := d.(*ast.FuncDecl); ok && x.Recv == nil && info.Defs[x.Name] == types.Object(fn) {
				fd = x
			}
		}
	}
	if fd == nil || fd.Body == nil {
		return nil
	}
	var ret *ast.ReturnStmt
	for _, st := range fd.Body.List {
		switch x := st.(type) {
		case *ast.DeclStmt:
			gd, ok := x.Decl.(*ast.GenDecl)
			if !ok || gd.Tok != token.CONST {
				return nil
			}
		case *ast.ReturnStmt:
			if ret != nil {
				return nil
			}
			ret = x
		default:
			return nil
		}
	}
	if ret == nil || len(ret.Results) != 1 {
		return nil
	}
	// bind parameters
	env := map[types.Object]ast.Expr{}
	var variadic types.Object
	var rest []ast.Expr
	sig := fn.Type().(*types.Signature)
	pi := 0
	for _, fld := range fd.Type.Params.List {
		for _, name := range fld.Names {
			po := info.Defs[name]
			if sig.Variadic() && pi == sig.Params().Len()-1 {
				variadic = po
				if pi <= len(call.Args) {
					rest = call.Args[pi:]
				}
			} else {
				if pi >= len(call.Args) {
					return nil
				}
				env[po] = call.Args[pi]
			}
			pi++
		}
	}
	var str func(e ast.Expr, inHelper bool) (string, bool)
	str = func(e ast.Expr, inHelper bool) (string, bool) {
		e = ast.Unparen(e)
		if tv := info.Types[e]; tv.Value != nil && tv.Value.Kind() == constant.String {
			return constant.StringVal(tv.Value), true
		}
		switch x := e.(type) {
		case *ast.Ident:
			if a, ok := env[info.Uses[x]]; ok && inHelper {
				return str(a, false)
			}
		case *ast.BinaryExpr:
			if x.Op == token.ADD {
				l, ok1 := str(x.X, inHelper)
				r, ok2 := str(x.Y, inHelper)
				return l + r, ok1 && ok2
			}
		}
		return "", false
	}
	n := &Node{Var: obj, Name: obj.Name(), Pos: obj.Pos(), AliasOK: true, viaHelper: true}
	inner, ok := ast.Unparen(ret.Results[0]).(*ast.CallExpr)
	if !ok {
		return nil
	}
	if sel, ok := inner.Fun.(*ast.SelectorExpr); ok {
		s := info.Selections[sel]
		if s == nil || m.AliasM == nil || s.Obj() != m.AliasM || inner.Ellipsis.IsValid() {
			return nil
		}
		for _, a := range inner.Args {
			if v, ok := str(a, true); ok {
				n.Aliases = append(n.Aliases, v)
				n.AliasPos = append(n.AliasPos, call.Pos())
			} else {
				n.AliasOK = false
			}
		}
		inner, ok = ast.Unparen(sel.X).(*ast.CallExpr)
		if !ok {
			return nil
		}
	}
	cid, ok := inner.Fun.(*ast.Ident)
	if !ok || info.Uses[cid] != m.Ctor || len(inner.Args) < 3 {
		return nil
	}
	n.Call = call
	if v, ok := str(inner.Args[0], true); ok {
		n.Mime, n.MimeOK = v, true
	}
	if v, ok := str(inner.Args[1], true); ok {
		n.Ext = v
	}
	det := ast.Unparen(inner.Args[2])
	if di, ok := det.(*ast.Ident); ok {
		if a, bound := env[info.Uses[di]]; bound {
			det = ast.Unparen(a)
		}
	}
	n.DetExpr = det
	switch d := det.(type) {
	case *ast.SelectorExpr:
		n.DetObj = info.Uses[d.Sel]
	case *ast.Ident:
		n.DetObj = info.Uses[d]
	}
	// children: fixed ones written in the helper, then the helper's own variadic parameter handed on
	kids := inner.Args[3:]
	if inner.Ellipsis.IsValid() {
		if len(kids) != 1 {
			return nil
		}
		ki, ok := ast.Unparen(kids[0]).(*ast.Ident)
		if !ok || variadic == nil || info.Uses[ki] != variadic {
			return nil
		}
		n.ChildExprs = rest
	} else {
		for _, k := range kids {
			if ki, ok := ast.Unparen(k).(*ast.Ident); ok {
				if a, bound := env[info.Uses[ki]]; bound {
					n.ChildExprs = append(n.ChildExprs, a)
					continue
				}
			}
			n.ChildExprs = append(n.ChildExprs, k)
		}
	}
	return n
}

// returnFeasible: no condition dominating the return is known to be false for
// this call. Only comparisons of len(parameter) with a constant are decided,
// for a parameter bound to a literal list (or nil) at the call.
func returnFeasible(r *ssa.Return, call *ssa.Call) bool {
	callee := r.Parent()
	staticLen := func(v ssa.Value) (int64, bool) {
		ln, ok := v.(*ssa.Call)
		if !ok || !core.IsBuiltin(&ln.Call, "len") {
			return 0, false
		}
		subject := ln.Call.Args[0]
		// a parameter that lives in a cell because a closure captures it: the cell's only store is the parameter
		if ld, ok := subject.(*ssa.UnOp); ok && ld.Op == token.MUL {
			if al, ok := ld.X.(*ssa.Alloc); ok {
				var st *ssa.Store
				n := 0
				for _, ref := range *al.Referrers() {
					if x, ok := ref.(*ssa.Store); ok && x.Addr == ssa.Value(al) {
						st = x
						n++
					}
				}
				if n == 1 {
					subject = st.Val
				}
			}
		}
		for i, p := range callee.Params {
			if subject != ssa.Value(p) || i >= len(call.Call.Args) {
				continue
			}
			switch a := call.Call.Args[i].(type) {
			case *ssa.Const:
				if a.Value == nil {
					return 0, true
				}
			case *ssa.Slice:
				if al, ok := a.X.(*ssa.Alloc); ok && a.Low == nil && a.High == nil {
					if at, ok := al.Type().Underlying().(*types.Pointer).Elem().Underlying().(*types.Array); ok {
						return at.Len(), true
					}
				}
			}
		}
		return 0, false
	}
	for _, de := range core.DominatingConds(r.Block()) {
		cond, val := core.StripNot(de.Cond, de.Val)
		bo, ok := cond.(*ssa.BinOp)
		if !ok {
			continue
		}
		n, okN := staticLen(bo.X)
		k, okK := core.ConstInt(bo.Y)
		if !okN || !okK {
			continue
		}
		var truth bool
		switch bo.Op {
		case token.EQL:
			truth = n == k
		case token.NEQ:
			truth = n != k
		case token.LSS:
			truth = n < k
		case token.LEQ:
			truth = n <= k
		case token.GTR:
			truth = n > k
		case token.GEQ:
			truth = n >= k
		default:
			continue
		}
		if truth != val {
			return false
		}
	}
	return true
}
