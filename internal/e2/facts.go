package e2

import (
	"go/constant"
	"go/token"
	"go/types"
	"sort"
	"strings"

	"golang.org/x/tools/go/ssa"
)

func (s *Fn) addGlobal(f Lin) { s.global = append(s.global, f) }

func (s *Fn) rep(v ssa.Value) ssa.Value {
	if u, ok := v.(*ssa.UnOp); ok {
		if r, ok := s.loadOf[u]; ok {
			return r
		}
	}
	return v
}

// canon returns the linear form of an integer SSA value.
func (s *Fn) canon(v ssa.Value) Lin {
	v = s.rep(v)
	switch x := v.(type) {
	case *ssa.Const:
		if x.Value != nil && x.Value.Kind() == constant.Int {
			if i, ok := constant.Int64Val(x.Value); ok {
				return konst(i)
			}
		}
	case *ssa.BinOp:
		if isInt(x.Type()) {
			bits, uns := intWidth(x.Type())
			if bits == 64 && !uns { // int/int64 arithmetic: lengths never get near overflow
				switch x.Op {
				case token.ADD:
					return s.canon(x.X).add(s.canon(x.Y), 1)
				case token.SUB:
					return s.canon(x.X).add(s.canon(x.Y), -1)
				case token.MUL:
					a, b := s.canon(x.X), s.canon(x.Y)
					if a.isConst() {
						return b.scale(a.c)
					}
					if b.isConst() {
						return a.scale(b.c)
					}
				}
			}
		}
	case *ssa.Call:
		if b, ok := x.Call.Value.(*ssa.Builtin); ok && b.Name() == "len" {
			return s.lenOf(x.Call.Args[0])
		}
	case *ssa.Convert:
		if isInt(x.X.Type()) && isInt(x.Type()) {
			sb, su := intWidth(x.X.Type())
			db, du := intWidth(x.Type())
			// value-preserving conversions
			if (db > sb && (!du || su)) || (db == sb && su == du) {
				return s.canon(x.X)
			}
			if db > sb && du && !su {
				// signed -> wider unsigned: preserves only non-negative; treat opaque
			}
			s.base(v)
			t := term(v)
			if du {
				inner := s.canon(x.X)
				if s.syntacticNonNeg(inner) {
					s.addGlobal(le(t, inner)) // uintN(x) <= x for x >= 0
				}
			}
			return t
		}
	case *ssa.UnOp:
		if x.Op == token.MUL {
			if fv, ok := x.X.(*ssa.FreeVar); ok {
				if _, ok := immutableCell(fv); ok {
					k := fvKey{fv}
					if !s.seen[k] {
						s.seen[k] = true
						if lo, hi, ok := s.e.iv(v, 0); ok {
							s.addGlobal(le(konst(lo), term(k)))
							s.addGlobal(le(term(k), konst(hi)))
						}
					}
					return term(k)
				}
			}
		}
	}
	s.base(v)
	return term(v)
}

func (s *Fn) syntacticNonNeg(l Lin) bool {
	if l.c < 0 {
		return false
	}
	for t, k := range l.m {
		if k < 0 {
			return false
		}
		switch t.(type) {
		case lenKey, cellEntryLen, fvLen:
		default:
			return false
		}
	}
	return true
}

// base registers facts for an opaque integer term the first time it is seen.
func (s *Fn) base(v ssa.Value) {
	if s.seen[v] {
		return
	}
	s.seen[v] = true
	t := term(v)
	if lo, hi, ok := s.e.iv(v, 0); ok {
		if lo > -(1 << 62) {
			s.addGlobal(le(konst(lo), t))
		}
		if hi < 1<<62 {
			s.addGlobal(le(t, konst(hi)))
		}
	}
}

// lenTermFacts registers facts for an opaque length term of value x.
func (s *Fn) lenBase(x ssa.Value) Lin {
	k := lenKey{x}
	t := term(k)
	if s.seen[k] {
		return t
	}
	s.seen[k] = true
	s.addGlobal(le(konst(0), t))
	switch c := x.(type) {
	case *ssa.UnOp:
		if c.Op == token.MUL {
			if a, ok := c.X.(*ssa.Alloc); ok {
				for _, p := range s.cellInv[a] {
					s.addGlobal(le(t, s.lenOf(p)))
				}
			}
		}
	}
	return t
}

// callFacts returns the postconditions for the result (index res, or -1 for a
// single result) of call c, whose result term is given by ret. They hold only
// where the call has returned: factsAt adds them at the call (or its Extract),
// so they are available exactly at the points the instruction dominates.
func (s *Fn) callFacts(c *ssa.Call, ret func(i int) Lin, res int) (out []Lin) {
	add := func(f Lin) { out = append(out, f) }
	a := c.Call.Args
	n := calleeName(c)
	r := ret(res)
	switch n {
	case "bytes.Index", "strings.Index":
		// -1 when absent; only a match (r >= 0) lies inside the haystack together with the needle. (Stated without the
		// guard the second fact is false for r = -1 and a haystack shorter than the needle by two or more.)
		add(le(konst(-1), r))
		add(le(r, s.lenOf(a[0])))
		s.pendG = append(s.pendG, guardedFact{le(konst(0), r), le(r.add(s.lenOf(a[1]), 1), s.lenOf(a[0]))})
	case "bytes.IndexByte", "strings.IndexRune", "strings.IndexAny", "strings.IndexByte", "bytes.IndexRune", "bytes.IndexAny", "slices.Index", "slices.IndexFunc":
		add(le(konst(-1), r))
		add(lt(r, s.lenOf(a[0])))
	case "bytes.LastIndex", "strings.LastIndex":
		add(le(konst(-1), r))
		add(le(r, s.lenOf(a[0])))
		s.pendG = append(s.pendG, guardedFact{le(konst(0), r), le(r.add(s.lenOf(a[1]), 1), s.lenOf(a[0]))})
	case "bytes.LastIndexByte", "strings.LastIndexByte", "bytes.LastIndexAny", "strings.LastIndexAny", "bytes.IndexFunc", "bytes.LastIndexFunc", "strings.IndexFunc", "strings.LastIndexFunc":
		add(le(konst(-1), r))
		add(lt(r, s.lenOf(a[0])))
	case "unicode/utf8.DecodeRune", "unicode/utf8.DecodeRuneInString", "unicode/utf8.DecodeLastRune", "unicode/utf8.DecodeLastRuneInString":
		// (rune, size): 0 <= size <= 4, size <= len(p), and size >= 1 for a non-empty p
		if res == 1 {
			add(le(konst(0), r))
			add(le(r, konst(4)))
			add(le(r, s.lenOf(a[0])))
			// non-empty by the branch conditions that dominate the call alone (no inferred invariant is used)
			var fs, dq []Lin
			for d := c.Block(); d != nil; d = d.Idom() {
				if len(d.Preds) == 1 {
					f, q := s.edgeFacts(d.Preds[0], d)
					fs = append(fs, f...)
					dq = append(dq, q...)
				}
			}
			if s.entails(fs, dq, le(konst(1), s.lenOf(a[0]))) {
				add(le(konst(1), r))
			}
		}
	case "io.ReadFull":
		if res == 0 {
			add(le(konst(0), r))
			add(le(r, s.lenOf(a[1])))
		}
	case "strings.TrimLeft", "bytes.TrimSpace", "bytes.Trim", "strings.TrimSpace", "bytes.TrimLeft", "strings.ToLower":
		if n != "strings.ToLower" {
			add(le(r, s.lenOf(a[0])))
		}
	case "bytes.Cut", "strings.Cut":
		if res == 0 || res == 1 {
			add(le(r, s.lenOf(a[0])))
		}
	case "bytes.Split", "strings.Split", "bytes.SplitAfter", "strings.SplitAfter":
		// r is the number of pieces: at least one unless the separator is empty and the input too (then 0)
		if sep := s.lenOf(a[1]); sep.isConst() && sep.c >= 1 {
			add(le(konst(1), r))
		}
	case "bytes.SplitN", "strings.SplitN", "bytes.SplitAfterN", "strings.SplitAfterN":
		if n := s.canon(a[2]); n.isConst() && n.c != 0 {
			if sep := s.lenOf(a[1]); sep.isConst() && sep.c >= 1 {
				add(le(konst(1), r))
			}
			if n.c > 0 {
				add(le(r, konst(n.c)))
			}
		}
	case "bytes.CutPrefix", "strings.CutPrefix", "bytes.CutSuffix", "strings.CutSuffix", "bytes.TrimPrefix", "strings.TrimPrefix", "bytes.TrimSuffix", "strings.TrimSuffix", "bytes.TrimRight", "strings.TrimRight", "strings.Trim", "bytes.TrimLeftFunc", "bytes.TrimRightFunc", "strings.TrimLeftFunc", "strings.TrimRightFunc":
		if res <= 0 {
			add(le(r, s.lenOf(a[0])))
		}
	}
	f := c.Call.StaticCallee()
	if f == nil || !s.e.inMod(f) {
		return
	}
	if sum := s.e.sums[f]; sum != nil {
		env := s.callEnvAt(c, ret)
		for _, cand := range sum.post {
			if cand.ok && (cand.res == res || (res == -1 && cand.res == 0)) {
				add(cand.mk(env))
			}
		}
	}
	return
}

func (s *Fn) callEnvAt(c *ssa.Call, ret func(i int) Lin) callEnv {
	return callEnv{
		ret:     ret,
		arg:     func(i int) Lin { return s.canon(c.Call.Args[i]) },
		argLen:  func(i int) Lin { return s.lenOf(c.Call.Args[i]) },
		cellLen: func(i int) Lin { s.cellPreFacts(c, i); return term(cellPre{c}) },
	}
}

func (s *Fn) cellPreFacts(c *ssa.Call, i int) {
	k := cellPre{c}
	if s.seen[k] {
		return
	}
	s.seen[k] = true
	s.addGlobal(le(konst(0), term(k)))
	if a, ok := c.Call.Args[i].(*ssa.Alloc); ok {
		for _, p := range s.cellInv[a] {
			s.addGlobal(le(term(k), s.lenOf(p)))
		}
	}
}

// lenOf returns the linear form of len(x).
func (s *Fn) lenOf(x ssa.Value) Lin {
	x = s.rep(x)
	switch v := x.(type) {
	case *ssa.Slice:
		var hi, lo Lin
		if v.High != nil {
			hi = s.canon(v.High)
		} else {
			hi = s.lenOfX(v.X)
		}
		if v.Low != nil {
			lo = s.canon(v.Low)
		} else {
			lo = konst(0)
		}
		return hi.add(lo, -1)
	case *ssa.Const:
		if v.Value == nil {
			return konst(0)
		}
		if v.Value.Kind() == constant.String {
			return konst(int64(len(constant.StringVal(v.Value))))
		}
	case *ssa.ChangeType:
		return s.lenOf(v.X)
	case *ssa.Convert:
		// string <-> []byte keep the length
		if (isByteSlice(v.X.Type()) && isStr(v.Type())) || (isStr(v.X.Type()) && isByteSlice(v.Type())) {
			return s.lenOf(v.X)
		}
	case *ssa.MakeSlice:
		return s.canon(v.Len)
	case *ssa.UnOp:
		if v.Op == token.MUL {
			if fv, ok := v.X.(*ssa.FreeVar); ok {
				if _, ok := immutableCell(fv); ok {
					k := fvLen{fv}
					if !s.seen[k] {
						s.seen[k] = true
						s.addGlobal(le(konst(0), term(k)))
					}
					return term(k)
				}
			}
			if p, ok := v.X.(*ssa.Parameter); ok && s.isEntryLoad(v) {
				k := cellEntryLen{p}
				if !s.seen[k] {
					s.seen[k] = true
					s.addGlobal(le(konst(0), term(k)))
				}
				return term(k)
			}
		}
	}
	return s.lenBase(x)
}

// isEntryLoad: load of *param with no clobber on any path from entry.
func (s *Fn) isEntryLoad(u *ssa.UnOp) bool {
	k, ok := addrKey(u.X)
	if !ok {
		return false
	}
	b := u.Block()
	for _, blk := range s.f.Blocks {
		if blk == b || s.reach[blk][b] {
			ins := blk.Instrs
			if blk == b && !s.reach[b][b] {
				for i, in := range ins {
					if in == u {
						ins = ins[:i]
					}
				}
			}
			for _, in := range ins {
				if s.clobbers(in, k) {
					return false
				}
			}
		}
	}
	return true
}

func (s *Fn) lenOfX(x ssa.Value) Lin {
	if p, ok := x.Type().Underlying().(*types.Pointer); ok {
		if a, ok := p.Elem().Underlying().(*types.Array); ok {
			return konst(a.Len())
		}
	}
	// an array value (a copy made for a range loop, a loaded table): its length is part of its type
	if a, ok := x.Type().Underlying().(*types.Array); ok {
		return konst(a.Len())
	}
	return s.lenOf(x)
}

// condFacts returns the facts implied by cond == val.
func (s *Fn) condFacts(cond ssa.Value, val bool) (fs []Lin, dq []Lin) {
	switch c := cond.(type) {
	case *ssa.Phi:
		// a named `a && b` (all other edges constant false, the condition holds) or `a || b` (all other edges
		// constant true, the condition fails): the one computed edge decided, and the branch that leads to it was taken
		var comp ssa.Value
		var from *ssa.BasicBlock
		for i, e := range c.Edges {
			if k, ok := e.(*ssa.Const); ok && k.Value != nil && k.Value.Kind() == constant.Bool && constant.BoolVal(k.Value) != val {
				continue
			}
			if comp != nil {
				return
			}
			comp, from = e, c.Block().Preds[i]
		}
		if comp == nil || comp == cond {
			return
		}
		fs, dq = s.condFacts(comp, val)
		for d := from; d != nil && d != c.Block().Idom(); d = d.Idom() {
			if len(d.Preds) == 1 {
				f2, q2 := s.edgeFacts(d.Preds[0], d)
				fs = append(fs, f2...)
				dq = append(dq, q2...)
			}
		}
		return
	case *ssa.BinOp:
		// uint(a) <= uint(b) (or !(uint(a) > uint(b))) with b a length: one unsigned comparison for 0 <= a <= b
		if cx, ok := c.X.(*ssa.Convert); ok {
			if cy, ok := c.Y.(*ssa.Convert); ok && isInt(cx.X.Type()) && isInt(cy.X.Type()) {
				_, ux := intWidth(cx.Type())
				_, uy := intWidth(cy.Type())
				_, sx := intWidth(cx.X.Type())
				_, sy := intWidth(cy.X.Type())
				bx, _ := intWidth(cx.Type())
				ax, _ := intWidth(cx.X.Type())
				if ux && uy && !sx && !sy && bx == ax {
					a, b := s.canon(cx.X), s.canon(cy.X)
					holdsLE := (c.Op == token.LEQ && val) || (c.Op == token.GTR && !val)
					holdsLT := (c.Op == token.LSS && val) || (c.Op == token.GEQ && !val)
					if (holdsLE || holdsLT) && s.syntacticNonNeg(b) {
						fs = append(fs, le(konst(0), a))
						if holdsLE {
							fs = append(fs, le(a, b))
						} else {
							fs = append(fs, lt(a, b))
						}
						return
					}
				}
			}
		}
		if !isInt(c.X.Type()) {
			if isStr(c.X.Type()) {
				if k, ok := c.Y.(*ssa.Const); ok && k.Value != nil && constant.StringVal(k.Value) == "" {
					l := s.lenOf(c.X)
					if (c.Op == token.NEQ) == val {
						fs = append(fs, le(konst(1), l))
					} else if c.Op == token.NEQ || c.Op == token.EQL {
						fs = append(fs, le(l, konst(0)))
					}
				}
			}
			return
		}
		x, y := s.canon(c.X), s.canon(c.Y)
		op := c.Op
		if !val {
			switch op {
			case token.LSS:
				op = token.GEQ
			case token.LEQ:
				op = token.GTR
			case token.GTR:
				op = token.LEQ
			case token.GEQ:
				op = token.LSS
			case token.EQL:
				op = token.NEQ
			case token.NEQ:
				op = token.EQL
			}
		}
		switch op {
		case token.LSS:
			fs = append(fs, lt(x, y))
		case token.LEQ:
			fs = append(fs, le(x, y))
		case token.GTR:
			fs = append(fs, lt(y, x))
		case token.GEQ:
			fs = append(fs, le(y, x))
		case token.EQL:
			fs = append(fs, le(x, y), le(y, x))
		case token.NEQ:
			dq = append(dq, x.add(y, -1))
		}
	case *ssa.Call:
		n := calleeName(c)
		if val && (n == "bytes.HasPrefix" || n == "strings.HasPrefix") {
			fs = append(fs, le(s.lenOf(c.Call.Args[1]), s.lenOf(c.Call.Args[0])))
		}
		if f := c.Call.StaticCallee(); f != nil && s.e.inMod(f) && val {
			if sum := s.e.sums[f]; sum != nil && len(sum.truePost) > 0 {
				env := s.callEnvAt(c, func(int) Lin { return konst(0) })
				for _, cand := range sum.truePost {
					if cand.ok && cand.res == 0 && f.Signature.Results().Len() == 1 {
						fs = append(fs, cand.mk(env))
					}
				}
			}
			cs := s.e.returnCases(f)
			var may []retCase
			for _, rc := range cs {
				if rc.boolConst == nil || *rc.boolConst {
					may = append(may, rc)
				}
			}
			if cs != nil && len(may) == 1 {
				fs = append(fs, s.instantiate(c, may[0].facts)...)
				fs = append(fs, s.instantiate(c, may[0].trueFacts)...)
			}
		}
	case *ssa.Extract:
		// bool component of a module function's tuple result
		call, ok := c.Tuple.(*ssa.Call)
		if !ok || !val {
			return
		}
		// contracts of the standard cutters: found => the pieces and the separator make up the input
		comp := func(i int) (Lin, bool) {
			for _, ref := range *call.Referrers() {
				if ex, ok := ref.(*ssa.Extract); ok && ex.Index == i {
					return s.lenOf(ex), true
				}
			}
			return Lin{}, false
		}
		switch calleeName(call) {
		case "bytes.Cut", "strings.Cut":
			if c.Index == 2 {
				whole := s.lenOf(call.Call.Args[0])
				sum := s.lenOf(call.Call.Args[1])
				n := 0
				for i := 0; i < 2; i++ {
					if l, ok := comp(i); ok {
						sum = sum.add(l, 1)
						n++
					}
				}
				if n == 2 {
					fs = append(fs, le(sum, whole), le(whole, sum))
				} else {
					fs = append(fs, le(sum, whole)) // the pieces present are at most the rest
				}
			}
		case "bytes.CutPrefix", "strings.CutPrefix", "bytes.CutSuffix", "strings.CutSuffix":
			if c.Index == 1 {
				if l, ok := comp(0); ok {
					whole := s.lenOf(call.Call.Args[0])
					sum := s.lenOf(call.Call.Args[1]).add(l, 1)
					fs = append(fs, le(sum, whole), le(whole, sum))
				}
			}
		}
		if f := call.Call.StaticCallee(); f != nil && s.e.inMod(f) {
			if sum := s.e.sums[f]; sum != nil && len(sum.truePost) > 0 {
				env := s.callEnvAt(call, func(i int) Lin {
					for _, ref := range *call.Referrers() {
						if ex, ok := ref.(*ssa.Extract); ok && ex.Index == i {
							if isInt(ex.Type()) {
								return s.canon(ex)
							}
							return s.lenOf(ex)
						}
					}
					return term(inlKey{call, i})
				})
				for _, cand := range sum.truePost {
					if cand.ok && cand.res == c.Index {
						fs = append(fs, cand.mk(env))
					}
				}
			}
		}
	case *ssa.UnOp:
		if c.Op == token.NOT {
			return s.condFacts(c.X, !val)
		}
	}
	return
}

func (s *Fn) buildEdgeFacts() {
	s.edgeF = map[*ssa.BasicBlock][]Lin{}
	s.edgeDQ = map[*ssa.BasicBlock][]Lin{}
}

func (s *Fn) edgeFacts(p, b *ssa.BasicBlock) (fs, dq []Lin) {
	if len(p.Instrs) == 0 {
		return
	}
	if iff, ok := p.Instrs[len(p.Instrs)-1].(*ssa.If); ok && p.Succs[0] != p.Succs[1] {
		return s.condFacts(iff.Cond, p.Succs[0] == b)
	}
	return
}

// boundsOf returns the facts established by the successful execution of in.
func (s *Fn) boundsOf(in ssa.Instruction) []Lin {
	switch v := in.(type) {
	case *ssa.Call:
		if f, ok := s.callF[in]; ok {
			return f
		}
		var out []Lin
		if b, ok := v.Call.Value.(*ssa.Builtin); ok && b.Name() == "append" && len(v.Call.Args) == 2 && isSliceOrStr(v.Type()) {
			// len(append(s, t...)) == len(s) + len(t)
			r := s.lenOf(v)
			sum := s.lenOf(v.Call.Args[0]).add(s.lenOfX(v.Call.Args[1]), 1)
			out = append(out, le(r, sum), le(sum, r))
			s.callF[in] = out
			return out
		}
		if b, ok := v.Call.Value.(*ssa.Builtin); ok && (b.Name() == "min" || b.Name() == "max") && isInt(v.Type()) {
			if bits, uns := intWidth(v.Type()); bits == 64 && !uns {
				r := s.canon(v)
				for _, a := range v.Call.Args {
					if b.Name() == "min" {
						out = append(out, le(r, s.canon(a)))
					} else {
						out = append(out, le(s.canon(a), r))
					}
				}
			}
			s.callF[in] = out
			return out
		}
		s.pendG = nil
		switch {
		case isInt(v.Type()):
			t := s.canon(v)
			out = s.callFacts(v, func(int) Lin { return t }, -1)
		case isSliceOrStr(v.Type()):
			t := s.lenOf(v)
			out = s.callFacts(v, func(int) Lin { return t }, -1)
		}
		s.callF[in] = out
		s.guardF[in], s.pendG = s.pendG, nil
		return out
	case *ssa.Extract:
		c, ok := v.Tuple.(*ssa.Call)
		if !ok {
			return nil
		}
		if f, ok := s.callF[in]; ok {
			return f
		}
		var out []Lin
		s.pendG = nil
		switch {
		case isInt(v.Type()):
			t := s.canon(v)
			out = s.callFacts(c, func(int) Lin { return t }, v.Index)
		case isSliceOrStr(v.Type()):
			t := s.lenOf(v)
			out = s.callFacts(c, func(int) Lin { return t }, v.Index)
		}
		s.callF[in] = out
		s.guardF[in], s.pendG = s.pendG, nil
		return out
	case *ssa.IndexAddr:
		i, L := s.canon(v.Index), s.lenOfX(v.X)
		return []Lin{le(konst(0), i), lt(i, L)}
	case *ssa.Index:
		i, L := s.canon(v.Index), s.lenOfX(v.X)
		return []Lin{le(konst(0), i), lt(i, L)}
	case *ssa.Slice:
		// Go checks against cap for slices; only the ordering and lower bound
		// are implied for them. For strings and arrays the check is against len.
		var out []Lin
		lo := konst(0)
		if v.Low != nil {
			lo = s.canon(v.Low)
			out = append(out, le(konst(0), lo))
		}
		_, isSl := v.X.Type().Underlying().(*types.Slice)
		if v.High != nil {
			hi := s.canon(v.High)
			out = append(out, le(lo, hi))
			if !isSl {
				out = append(out, le(hi, s.lenOfX(v.X)))
			}
		} else {
			out = append(out, le(lo, s.lenOfX(v.X))) // low <= len always checked
		}
		return out
	}
	return nil
}

// factsAt collects facts valid just before instruction index idx of block b.
func (s *Fn) factsAt(b *ssa.BasicBlock, idx int) (fs, dq []Lin) {
	var gs []guardedFact
	for d := b; d != nil; d = d.Idom() {
		if len(d.Preds) == 1 {
			f, q := s.edgeFacts(d.Preds[0], d)
			fs = append(fs, f...)
			dq = append(dq, q...)
		}
		fs = append(fs, s.inv[d]...)
		lim := len(d.Instrs)
		if d == b {
			lim = idx
		}
		for _, in := range d.Instrs[:lim] {
			if in.Pos() != token.NoPos || true {
				fs = append(fs, s.boundsOf(in)...)
				gs = append(gs, s.guardF[in]...)
			}
		}
	}
	// guarded postconditions whose guard the path to this point establishes
	for _, g := range gs {
		if s.direct(fs, dq, g.guard) {
			fs = append(fs, g.fact)
		}
	}
	return
}

type prover struct {
	s     *Fn
	depth int
}

// entails: fs (+globals) ⊢ goal <= 0.
func (s *Fn) entails(fs, dq []Lin, goal Lin) bool {
	return s.entailsD(fs, dq, goal, 0)
}

func (s *Fn) direct(fs, dq []Lin, goal Lin) bool {
	neg := goal.scale(-1).plus(1) // goal >= 1
	all := append(append(append([]Lin{}, fs...), s.global...), s.pre...)
	// globals may be added lazily while canonicalising; they are already in s.global
	if unsat(append(cone(all, goal), neg)) {
		return true
	}
	if len(dq) == 0 {
		return false
	}
	changed := false
	for _, e := range dq {
		c := cone(all, e)
		if unsat(append(append([]Lin{}, c...), e.plus(1))) { // e <= -1 impossible → e >= 0 → e >= 1
			all = append(all, le(konst(1), e))
			changed = true
		} else if unsat(append(append([]Lin{}, c...), e.scale(-1).plus(1))) {
			all = append(all, le(e, konst(-1)))
			changed = true
		}
	}
	if changed {
		return unsat(append(cone(all, goal), neg))
	}
	return false
}

func (s *Fn) entailsD(fs, dq []Lin, goal Lin, depth int) bool {
	if s.direct(fs, dq, goal) {
		return true
	}
	if depth >= 3 {
		return false
	}
	// candidate split terms: those in the goal and in facts sharing terms with it
	all := append(append(append([]Lin{}, fs...), s.global...), s.pre...)
	c := cone(all, goal)
	// Only terms of the goal and of the path facts are split on: those values are defined on every path to
	// this point. A term known only from a global fact may belong to an instruction that has not run yet.
	local := map[interface{}]bool{}
	for t := range goal.m {
		local[t] = true
	}
	for _, f := range fs {
		for t := range f.m {
			local[t] = true
		}
	}
	terms := map[interface{}]bool{}
	for t := range goal.m {
		terms[t] = true
	}
	for _, f := range c {
		for t := range f.m {
			if local[t] {
				terms[t] = true
			}
		}
	}
	tried := 0
	for t := range terms {
		var v ssa.Value
		switch x := t.(type) {
		case lenKey:
			v = x.v
		case ssa.Value:
			v = x
		default:
			continue
		}
		switch x := v.(type) {
		case *ssa.Phi:
			if s.isLoopHeader(x.Block()) {
				continue
			}
			tried++
			okAll := true
			for i, ed := range x.Edges {
				pred := x.Block().Preds[i]
				pf, pq := s.factsAt(pred, len(pred.Instrs))
				ef, eq := s.edgeFacts(pred, x.Block())
				nf := append(append(append([]Lin{}, fs...), pf...), ef...)
				nq := append(append(append([]Lin{}, dq...), pq...), eq...)
				// equalities for every phi of that block
				for _, in := range x.Block().Instrs {
					ph, ok := in.(*ssa.Phi)
					if !ok {
						break
					}
					_ = ed
					e2 := ph.Edges[i]
					if isInt(ph.Type()) {
						a, b := term(ssa.Value(ph)), s.canon(e2)
						nf = append(nf, le(a, b), le(b, a))
					} else if isSliceOrStr(ph.Type()) {
						a, b := term(lenKey{ph}), s.lenOf(e2)
						nf = append(nf, le(a, b), le(b, a))
					}
				}
				if !s.entailsD(nf, nq, goal, depth+1) {
					okAll = false
					break
				}
			}
			if okAll {
				return true
			}
		case *ssa.Call:
			if b, ok := x.Call.Value.(*ssa.Builtin); ok && (b.Name() == "min" || b.Name() == "max") && isInt(x.Type()) && len(x.Call.Args) <= 3 {
				// the result is one of the arguments
				tried++
				okAll := true
				r := term(ssa.Value(x))
				for _, a := range x.Call.Args {
					av := s.canon(a)
					nf := append(append([]Lin{}, fs...), le(r, av), le(av, r))
					if !s.entailsD(nf, dq, goal, depth+1) {
						okAll = false
						break
					}
				}
				if okAll {
					return true
				}
				continue
			}
			f := x.Call.StaticCallee()
			if f == nil || !s.e.inMod(f) || x == s.noSplit {
				continue
			}
			cs := s.e.returnCases(f)
			if cs == nil || f.Signature.Results().Len() != 1 {
				continue
			}
			tried++
			okAll := true
			for _, rc := range cs {
				nf := append(append([]Lin{}, fs...), s.instantiate(x, rc.facts)...)
				if rc.ret != nil {
					var a Lin
					if isInt(x.Type()) {
						a = term(ssa.Value(x))
					} else {
						a = term(lenKey{x})
					}
					b := s.instantiate(x, []Lin{*rc.ret})[0]
					nf = append(nf, le(a, b), le(b, a))
				}
				if !s.entailsD(nf, dq, goal, depth+1) {
					okAll = false
					break
				}
			}
			if okAll {
				return true
			}
		case *ssa.BinOp:
			// wrapping arithmetic of a narrow or unsigned type: either it did not wrap (the result is the exact
			// sum / difference) or it wrapped by exactly 2^bits
			if !isInt(x.Type()) || (x.Op != token.ADD && x.Op != token.SUB) {
				continue
			}
			bits, uns := intWidth(x.Type())
			if bits == 64 && !uns {
				continue
			}
			if bits > 32 {
				continue
			}
			tried++
			r := term(ssa.Value(x))
			a, b := s.canon(x.X), s.canon(x.Y)
			exact := a.add(b, 1)
			if x.Op == token.SUB {
				exact = a.add(b, -1)
			}
			lo, hi := int64(0), int64(1)<<uint(bits)-1
			if !uns {
				lo, hi = -(int64(1) << uint(bits-1)), int64(1)<<uint(bits-1)-1
			}
			mod := int64(1) << uint(bits)
			okAll := true
			for _, wrap := range []int64{0, 1, -1} {
				// exact - wrap*mod is the result and lies in the type's range
				val := exact.plus(-wrap * mod)
				nf := append(append([]Lin{}, fs...), le(r, val), le(val, r), le(konst(lo), val), le(val, konst(hi)))
				if !s.entailsD(nf, dq, goal, depth+1) {
					okAll = false
					break
				}
			}
			if okAll {
				return true
			}
		case *ssa.Extract:
			// a component of a module function's tuple result: split over the callee's return cases, binding every
			// extracted component
			call, ok := x.Tuple.(*ssa.Call)
			if !ok || call == s.noSplit {
				continue
			}
			f := call.Call.StaticCallee()
			if f == nil || !s.e.inMod(f) {
				continue
			}
			cs := s.e.returnCases(f)
			if cs == nil || f.Signature.Results().Len() < 2 {
				continue
			}
			tried++
			okAll := true
			for _, rc := range cs {
				nf := append(append([]Lin{}, fs...), s.instantiate(call, rc.facts)...)
				for _, ref := range *call.Referrers() {
					ex, ok := ref.(*ssa.Extract)
					if !ok || ex.Index >= len(rc.rets) || rc.rets[ex.Index] == nil {
						continue
					}
					var a Lin
					if isInt(ex.Type()) {
						a = term(ssa.Value(ex))
					} else {
						a = term(lenKey{ex})
					}
					b := s.instantiate(call, []Lin{*rc.rets[ex.Index]})[0]
					nf = append(nf, le(a, b), le(b, a))
				}
				if !s.entailsD(nf, dq, goal, depth+1) {
					okAll = false
					break
				}
			}
			if okAll {
				return true
			}
		}
		if tried > 6 {
			break
		}
	}
	return false
}

// ---- return cases of small loop-free callees ----

type retCase struct {
	facts     []Lin
	rets      []*Lin // per result: int value or len of slice/string result (nil: other type)
	ret       *Lin   // int value or len of slice result (single result only)
	boolConst *bool  // for bool results
	trueFacts []Lin  // for bool results: facts implied by the returned condition being true
}

func (e *Engine) returnCases(f *ssa.Function) []retCase {
	if c, ok := e.cases[f]; ok {
		return c
	}
	e.cases[f] = nil
	if len(f.Blocks) > 16 || f.Signature.Results().Len() < 1 {
		return nil
	}
	for _, b := range f.Blocks {
		for _, p := range b.Preds {
			if b.Dominates(p) {
				return nil // loop
			}
		}
	}
	fn := e.fn(f)
	var out []retCase
	for _, b := range f.Blocks {
		r, ok := b.Instrs[len(b.Instrs)-1].(*ssa.Return)
		if !ok {
			continue
		}
		fs, _ := fn.factsAt(b, len(b.Instrs))
		rc := retCase{}
		for _, rv := range r.Results {
			switch {
			case isInt(rv.Type()):
				l := fn.canon(rv)
				rc.rets = append(rc.rets, &l)
			case isSliceOrStr(rv.Type()):
				l := fn.lenOf(rv)
				rc.rets = append(rc.rets, &l)
			default:
				rc.rets = append(rc.rets, nil)
			}
		}
		v := r.Results[0]
		switch {
		case isInt(v.Type()):
			l := fn.canon(v)
			rc.ret = &l
		case isSliceOrStr(v.Type()):
			l := fn.lenOf(v)
			rc.ret = &l
		default:
			if k, ok := v.(*ssa.Const); ok && k.Value != nil && k.Value.Kind() == constant.Bool {
				bv := constant.BoolVal(k.Value)
				rc.boolConst = &bv
			} else {
				tf, _ := fn.condFacts(v, true)
				rc.trueFacts = tf
			}
		}
		rc.facts = append(append([]Lin{}, fs...), fn.global...)
		out = append(out, rc)
	}
	e.cases[f] = out
	return out
}

// instantiate maps callee-side facts to the call site c.
func (s *Fn) instantiate(c *ssa.Call, fs []Lin) []Lin {
	f := c.Call.StaticCallee()
	pidx := map[*ssa.Parameter]int{}
	for i, p := range f.Params {
		pidx[p] = i
	}
	sub := func(t interface{}) (Lin, bool) {
		switch x := t.(type) {
		case *ssa.Parameter:
			if i, ok := pidx[x]; ok {
				return s.canon(c.Call.Args[i]), true
			}
		case lenKey:
			if p, ok := x.v.(*ssa.Parameter); ok {
				if i, ok := pidx[p]; ok {
					return s.lenOf(c.Call.Args[i]), true
				}
			}
		case cellEntryLen:
			if i, ok := pidx[x.p]; ok {
				s.cellPreFacts(c, i)
				return term(cellPre{c}), true
			}
		case fvKey, fvLen:
			return Lin{}, false
		}
		return term(inlKey{c, t}), true
	}
	out := make([]Lin, len(fs))
	for i, fct := range fs {
		out[i] = fct.subst(sub)
	}
	return out
}

// ---- Houdini invariants at phis ----

type phiCand struct {
	b    *ssa.BasicBlock
	phi  *ssa.Phi
	phi2 *ssa.Phi // optional second phi (pair invariant)
	mk   func(v ssa.Value) Lin
	mk2  func(v, w ssa.Value) Lin
	txt  string
	ok   bool
}

func (c *phiCand) at(edge int) Lin {
	if c.phi2 != nil {
		if edge < 0 {
			return c.mk2(c.phi, c.phi2)
		}
		return c.mk2(c.phi.Edges[edge], c.phi2.Edges[edge])
	}
	if edge < 0 {
		return c.mk(c.phi)
	}
	return c.mk(c.phi.Edges[edge])
}

func (s *Fn) sliceParams() []ssa.Value {
	var out []ssa.Value
	for _, p := range s.f.Params {
		if isSliceOrStr(p.Type()) {
			out = append(out, p)
		}
	}
	return out
}

func (s *Fn) houdini() {
	var cands []*phiCand
	sp := s.sliceParams()
	// also: slices/strings indexed or sliced anywhere in the function (non-phi, loop-invariant values)
	extra := map[ssa.Value]bool{}
	for _, b := range s.f.Blocks {
		for _, in := range b.Instrs {
			var x ssa.Value
			switch v := in.(type) {
			case *ssa.IndexAddr:
				x = v.X
			case *ssa.Index:
				x = v.X
			case *ssa.Slice:
				x = v.X
			}
			if x != nil && isSliceOrStr(x.Type()) {
				if _, isPhi := x.(*ssa.Phi); !isPhi {
					extra[x] = true
				}
			}
		}
	}
	for _, p := range sp {
		delete(extra, p)
	}
	var extras []ssa.Value
	for x := range extra {
		extras = append(extras, x)
	}
	sort.Slice(extras, func(i, j int) bool { return extras[i].Name() < extras[j].Name() })
	for _, b := range s.f.Blocks {
		for _, in := range b.Instrs {
			phi, ok := in.(*ssa.Phi)
			if !ok {
				break
			}
			switch {
			case isInt(phi.Type()):
				for _, k := range []int64{1, 0, -1} {
					k := k
					cands = append(cands, &phiCand{b: b, phi: phi, ok: true, txt: ">=k",
						mk: func(v ssa.Value) Lin { return le(konst(k), s.canon(v)) }})
				}
				// monotone w.r.t. the value on entry edges: phi >= init, phi <= init
				for i, pr := range b.Preds {
					if b.Dominates(pr) {
						continue
					}
					init := phi.Edges[i]
					if _, isC := init.(*ssa.Const); isC {
						continue
					}
					cands = append(cands, &phiCand{b: b, phi: phi, ok: true, txt: ">=init",
						mk: func(v ssa.Value) Lin { return le(s.canon(init), s.canon(v)) }})
					cands = append(cands, &phiCand{b: b, phi: phi, ok: true, txt: "<=init",
						mk: func(v ssa.Value) Lin { return le(s.canon(v), s.canon(init)) }})
				}
				for _, p := range sp {
					p := p
					for _, off := range []int64{0, -1} {
						off := off
						cands = append(cands, &phiCand{b: b, phi: phi, ok: true, txt: "<=len+off",
							mk: func(v ssa.Value) Lin { return le(s.canon(v), s.lenOf(p).plus(off)) }})
					}
				}
				// ... and against the other slices / strings the function indexes, when they are computed before the loop
				for _, x := range extras {
					x := x
					xi, isInstr := x.(ssa.Instruction)
					if !isInstr || xi.Block() == b || !xi.Block().Dominates(b) {
						continue
					}
					for _, off := range []int64{0, -1} {
						off := off
						cands = append(cands, &phiCand{b: b, phi: phi, ok: true, txt: "<=len(local)+off",
							mk: func(v ssa.Value) Lin { return le(s.canon(v), s.lenOf(x).plus(off)) }})
					}
				}
				// lock-step counters: two integer phis of the same header keep the difference they start with
				// (n and the iteration count of a `for range k` loop that advances n once per round)
				for _, in2 := range b.Instrs {
					ph2, ok := in2.(*ssa.Phi)
					if !ok {
						break
					}
					if ph2 == phi || !isInt(ph2.Type()) {
						continue
					}
					var i1, i2 ssa.Value
					nEntry := 0
					for i, pr := range b.Preds {
						if !b.Dominates(pr) {
							nEntry++
							i1, i2 = phi.Edges[i], ph2.Edges[i]
						}
					}
					if nEntry != 1 {
						continue
					}
					a, c2 := i1, i2
					cands = append(cands, &phiCand{b: b, phi: phi, phi2: ph2, ok: true, txt: "diff<=init",
						mk2: func(v, w ssa.Value) Lin { return le(s.canon(v).add(s.canon(w), -1), s.canon(a).add(s.canon(c2), -1)) }})
					cands = append(cands, &phiCand{b: b, phi: phi, phi2: ph2, ok: true, txt: "diff>=init",
						mk2: func(v, w ssa.Value) Lin { return le(s.canon(a).add(s.canon(c2), -1), s.canon(v).add(s.canon(w), -1)) }})
				}
				// bounds taken from the comparisons the function makes: phi (+c) < w or <= w, for a value w computed
				// before the loop
				for _, b2 := range s.f.Blocks {
					for _, in2 := range b2.Instrs {
						cmp, ok := in2.(*ssa.BinOp)
						if !ok {
							continue
						}
						var lhs, rhs ssa.Value
						switch cmp.Op {
						case token.LSS, token.LEQ:
							lhs, rhs = cmp.X, cmp.Y
						case token.GTR, token.GEQ:
							lhs, rhs = cmp.Y, cmp.X
						default:
							continue
						}
						base := lhs
						if add, isAdd := lhs.(*ssa.BinOp); isAdd && add.Op == token.ADD {
							if _, isK := add.Y.(*ssa.Const); isK {
								base = add.X
							}
						}
						if base != ssa.Value(phi) {
							continue
						}
						if _, isK := rhs.(*ssa.Const); !isK {
							w, isInstr := rhs.(ssa.Instruction)
							if !isInstr || !(w.Block() != b && w.Block().Dominates(b)) {
								continue
							}
						}
						if !isInt(rhs.Type()) {
							continue
						}
						bound := rhs
						for _, off := range []int64{-1, 0} {
							off := off
							cands = append(cands, &phiCand{b: b, phi: phi, ok: true, txt: "<=bound+off",
								mk: func(v ssa.Value) Lin { return le(s.canon(v), s.canon(bound).plus(off)) }})
						}
					}
				}
				// pair with slice phis in same block: i + len(sl) <= len(p)
				for _, in2 := range b.Instrs {
					ph2, ok := in2.(*ssa.Phi)
					if !ok {
						break
					}
					if !isSliceOrStr(ph2.Type()) {
						continue
					}
					for _, p := range sp {
						p := p
						cands = append(cands, &phiCand{b: b, phi: phi, phi2: ph2, ok: true, txt: "i+len(sl)<=len(p)",
							mk2: func(v, w ssa.Value) Lin { return le(s.canon(v).add(s.lenOf(w), 1), s.lenOf(p)) }})
					}
				}
			case isSliceOrStr(phi.Type()):
				for _, p := range sp {
					p := p
					cands = append(cands, &phiCand{b: b, phi: phi, ok: true, txt: "len<=len",
						mk: func(v ssa.Value) Lin { return le(s.lenOf(v), s.lenOf(p)) }})
				}
				// a slice that only grows in the loop (append): at least one element, at least its initial length
				cands = append(cands, &phiCand{b: b, phi: phi, ok: true, txt: "len>=1",
					mk: func(v ssa.Value) Lin { return le(konst(1), s.lenOf(v)) }})
				for i, pr := range b.Preds {
					if b.Dominates(pr) {
						continue
					}
					init := phi.Edges[i]
					cands = append(cands, &phiCand{b: b, phi: phi, ok: true, txt: "len>=len(init)",
						mk: func(v ssa.Value) Lin { return le(s.lenOf(init), s.lenOf(v)) }})
				}
			}
		}
	}
	for { // greatest fixpoint: candidates are only dropped
		s.inv = map[*ssa.BasicBlock][]Lin{}
		for _, c := range cands {
			if c.ok {
				s.inv[c.b] = append(s.inv[c.b], c.at(-1))
			}
		}
		changed := false
		for _, c := range cands {
			if !c.ok {
				continue
			}
			for i := range c.phi.Edges {
				pred := c.b.Preds[i]
				fs, dq := s.factsAt(pred, len(pred.Instrs))
				ef, eq := s.edgeFacts(pred, c.b)
				fs = append(fs, ef...)
				dq = append(dq, eq...)
				if !s.direct(fs, dq, c.at(i)) {
					c.ok = false
					changed = true
					break
				}
			}
		}
		if !changed {
			break
		}
	}
	s.inv = map[*ssa.BasicBlock][]Lin{}
	for _, c := range cands {
		if c.ok {
			s.inv[c.b] = append(s.inv[c.b], c.at(-1))
		}
	}
}

var _ = strings.HasPrefix
